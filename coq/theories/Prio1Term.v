(* TERMINATION of the v1 priority discipline model (Prio1.v) as liveness statements over infinite executions -- the port of Prio2Term.v,
   plus Stop().  No classical axiom is used.

   Part A (C07, GracefulStop): executions whose environment may call GracefulStop at any time (graceful_op: everything but Stop /
     AddInput / RemoveInput), fair in the sense of Prio1Live (F_sched over all oracles, F_take, F_rel, F_tick or F_tick_w).
       prio1_graceful_eventually_done (_w, _new_fair), prio1_graceful_eventually_finished, prio1_graceful_done_iff, prio1_done_stable (_any),
       prio1_every_item_delivered_graceful (_chan_): the liveness of delivery of Prio1Live extended to these executions.
     Method: the flag `graceful` only matters at pc EndBase 0.  `erase` forgets it; a step of such an execution is either the firing of the
     graceful exit (EndBase 0 -> Drain None) or a static step of the erased states (step_erase).  The execution is SPLICED with a fair
     static continuation at the first firing (section 5): the result is a fair static execution to which all of Prio1Live applies, and it
     coincides with the erased original up to the firing (decidable at every index: no excluded middle).  On the spliced execution:
     every registered input closed => everything delivered, output and handlers flushed, pending releases consumed (section 3).
     Back on the real execution: the regime GReg of Prio1C is replayed along the execution (6c), the drain loop terminates (6a).
   Part B (C16, Stop): executions with an ARBITRARY environment (execution_any), repaired code (fixed = true), every oracle.
       prio1_stop_eventually_done (_w, _strong, _partial), prio1_stop_done_iff (_strong), prio1_stop_needs_oracle_fairness.
     The literal statement (no hypothesis on the oracle) is false.  Necessary and sufficient: once stopped, the selects take a new
     command (ACmd at the top of the loop) or read an input (AIn) instead of the stop alternative only finitely often (F_stop_in).

   Sections: 0 executions with GracefulCall, erase   1 safety facts along them   2 the regimes Reg1/Reg3   3 a static fair execution
   whose inputs are closed quiesces   4 a fair static continuation from any quiet state   5 splicing   6 the last stretches on the real
   execution   7 Part A, closed theorems   8 non-vacuity (A)   9 Part B   10 Part B, sharper   11 non-vacuity (B)   12 the oracle
   hypothesis cannot be dropped   13 liveness of delivery with GracefulStop   14 New() with the Fair divider   15 Part B, the task's name
   16 Part A in terms of what the environment sees (puts / taken)   17 "every share >= 1" cannot be dropped (a fair livelock) *)
From Coq Require Import List NArith Lia Bool Arith.
From Cqos Require Import Base Divider DividerP Sched Prio1 Prio1P Prio1C Prio1L Prio1E Prio1Live.
Import ListNotations.
Open Scope N_scope.

(* ================= 0. executions that allow GracefulCall ================= *)
Definition graceful_op (o : env_op) : Prop :=
  match o with StopCall | AddCall _ _ _ | RmvCall _ => False | _ => True end.

Definition is_step' (fixed : bool) (dv : nat -> Divider) (s : st) (l : label) (s' : st) : Prop :=
  match l with
  | LSched o => sched_step fixed dv o s = Some s'
  | LEnv op => graceful_op op /\ env_step s op = Some s'
  | LStutter => s' = s
  end.
Record execution' (fixed : bool) (dv : nat -> Divider) (s0 : st) (tr : nat -> st) (lb : nat -> label) : Prop := {
  ex_init' : tr 0%nat = s0;
  ex_step' : forall i, is_step' fixed dv (tr i) (lb i) (tr (S i)) }.

Lemma static_graceful_op op : static_op op -> graceful_op op.
Proof. destruct op; cbn; auto. Qed.
Lemma is_step_weaken fixed dv s l s' : is_step fixed dv s l s' -> is_step' fixed dv s l s'.
Proof. destruct l as [o|op|]; cbn [is_step is_step']; auto. intros [Hop Hs]. split; [apply static_graceful_op; exact Hop|exact Hs]. Qed.
Lemma execution_weaken fixed dv s0 tr lb : execution fixed dv s0 tr lb -> execution' fixed dv s0 tr lb.
Proof. intros [H0 Hs]. constructor; [exact H0|]. intros i. apply is_step_weaken. apply Hs. Qed.

(* the state with the GracefulStop flag erased *)
Definition erase (s : st) : st :=
  mkSt (H s) (prios s) (strategic s) (actual s) (tactic s) (chan_of s) (drained s) (inq s) (closed s) (buffered s)
       (outq s) (outcap s) (held s) (fbq s) (fblimit s) (stopped s) false (cmds s) (pcs s) (ncalls s)
       (delivered s) (calls s) (reads s) (dropped s) (written s).
Definition elab (l : label) : label := match l with LEnv GracefulCall => LStutter | _ => l end.

Lemma erase_id s : graceful s = false -> erase s = s.
Proof. destruct s. cbn. intros ->. reflexivity. Qed.
Lemma erase_erase s : erase (erase s) = erase s.
Proof. reflexivity. Qed.

(* the transition that only a graceful state takes *)
Definition fires (s : st) : bool :=
  match pcs s with EndBase proc => (proc =? 0) && graceful s && forallb (drained s) (prios s) | _ => false end.

Lemma step_calc_erase dv s : step_calc dv (erase s) = erase (step_calc dv s).
Proof. unfold step_calc, calc_base. cbn [erase H prios strategic actual tactic ncalls uncrowded]. unfold uncrowded. cbn [erase H prios strategic actual tactic ncalls].
  destruct_goal; reflexivity. Qed.
Lemma step_recalc_erase dv s proc : step_recalc dv (erase s) proc = erase (step_recalc dv s proc).
Proof. unfold step_recalc, useful, useful_like. cbn [erase H prios strategic actual tactic ncalls log_call]. destruct_goal; reflexivity. Qed.

Lemma do_cmd_erase dv s c rest : do_cmd dv (erase s) c rest = erase (do_cmd dv s c rest).
Proof. unfold do_cmd, strategic_of. destruct c; cbn [erase H prios strategic actual tactic ncalls log_call chan_of drained]; reflexivity. Qed.

Lemma sched_step_erase fixed dv o s : fires s = false ->
  sched_step fixed dv o (erase s) = option_map erase (sched_step fixed dv o s).
Proof.
  intros Hf. unfold fires in Hf. unfold sched_step, chan_state.
  change (pcs (erase s)) with (pcs s). change (stopped (erase s)) with (stopped s). change (fbq (erase s)) with (fbq s).
  change (cmds (erase s)) with (cmds s). change (tactic (erase s)) with (tactic s). change (chan_of (erase s)) with (chan_of s).
  change (inq (erase s)) with (inq s). change (closed (erase s)) with (closed s). change (buffered (erase s)) with (buffered s).
  change (outq (erase s)) with (outq s). change (outcap (erase s)) with (outcap s). change (drained (erase s)) with (drained s).
  change (prios (erase s)) with (prios s). change (actual (erase s)) with (actual s). change (fblimit (erase s)) with (fblimit s).
  change (graceful (erase s)) with false. cbn [andb].
  destruct (pcs s) eqn:Epc.
  - destruct_goal; cbn [option_map]; try reflexivity. rewrite do_cmd_erase. reflexivity.
  - cbn [option_map]. rewrite step_calc_erase. reflexivity.
  - destruct_goal; cbn [option_map]; reflexivity.
  - destruct_goal; cbn [option_map]; reflexivity.
  - destruct_goal; cbn [option_map]; reflexivity.
  - destruct_goal; cbn [option_map]; reflexivity.
  - cbn [option_map]. rewrite step_recalc_erase. reflexivity.
  - destruct (proc =? 0) eqn:Ep; [|reflexivity]. cbn [andb] in Hf. rewrite Hf. reflexivity.
  - reflexivity.
  - destruct_goal; cbn [option_map]; reflexivity.
  - destruct_goal; cbn [option_map]; reflexivity.
  - reflexivity.
Qed.

Lemma env_step_erase s op : static_op op -> env_step (erase s) op = option_map erase (env_step s op).
Proof.
  intros Hop. destruct op as [c x|c| |p| | | |c p bf|p]; cbn [static_op] in Hop; try contradiction; unfold env_step, chan_state;
  change (pcs (erase s)) with (pcs s); change (closed (erase s)) with (closed s); change (outq (erase s)) with (outq s);
  change (held (erase s)) with (held s); change (tactic (erase s)) with (tactic s); change (chan_of (erase s)) with (chan_of s);
  change (inq (erase s)) with (inq s); change (buffered (erase s)) with (buffered s);
  destruct_goal; cbn [option_map]; reflexivity.
Qed.
Lemma env_step_graceful_erase s s' : env_step s GracefulCall = Some s' -> erase s' = erase s /\ graceful s' = true.
Proof. cbn [env_step]. intros E. inversion E; subst s'. split; reflexivity. Qed.
Lemma env_step_graceful_id s : graceful s = true -> env_step s GracefulCall = Some s.
Proof. destruct s. cbn. intros ->. reflexivity. Qed.

Lemma is_sched_elab l : is_sched l -> elab l = l.
Proof. intros [o ->]. reflexivity. Qed.

(* a step of an execution with GracefulCall is the firing of the graceful exit or a static step of the erased states *)
Lemma step_erase fixed dv s l s' : is_step' fixed dv s l s' ->
  (fires s = true /\ is_sched l /\ s' = with_pc s (Drain None)) \/ is_step fixed dv (erase s) (elab l) (erase s').
Proof.
  intros Hs. destruct l as [o|op|]; cbn [is_step'] in Hs.
  - destruct (fires s) eqn:Ef.
    + left. split; [reflexivity|]. split; [exists o; reflexivity|].
      unfold fires in Ef. unfold sched_step in Hs. destruct (pcs s) eqn:Epc; try discriminate.
      apply andb_prop in Ef. destruct Ef as [Ef E3]. apply andb_prop in Ef. destruct Ef as [E1 E2].
      rewrite E1, E2, E3 in Hs. cbn [andb] in Hs. inversion Hs; reflexivity.
    + right. cbn [elab is_step]. rewrite (sched_step_erase fixed dv o s Ef), Hs. reflexivity.
  - right. destruct Hs as [Hop Hs].
    destruct op as [c x|c| |p| | | |c p bf|p]; cbn [graceful_op] in Hop; try contradiction; cbn [elab is_step];
      try (split; [exact I|]; rewrite env_step_erase by exact I; rewrite Hs; reflexivity).
    destruct (env_step_graceful_erase s s' Hs) as [E _]. exact E.
  - right. subst s'. reflexivity.
Qed.

(* what a firing step is *)
Lemma fires_step fixed dv o s : fires s = true -> sched_step fixed dv o s = Some (with_pc s (Drain None)) /\
  sched_step fixed dv o (erase s) = Some (with_pc (erase s) Idle).
Proof.
  intros Ef. unfold fires in Ef. unfold sched_step. change (pcs (erase s)) with (pcs s). destruct (pcs s) eqn:Epc; try discriminate.
  apply andb_prop in Ef. destruct Ef as [Ef E3]. apply andb_prop in Ef. destruct Ef as [E1 E2].
  change (graceful (erase s)) with false. rewrite E1, E2, E3. split; reflexivity.
Qed.

(* ================= 1. safety facts along an execution with GracefulCall ================= *)
Lemma sched_step_graceful fixed dv o s s' : sched_step fixed dv o s = Some s' -> graceful s' = graceful s /\ stopped s' = stopped s.
Proof.
  intros Hs. unfold sched_step, step_calc, calc_base, step_recalc, do_cmd in Hs.
  destruct_matches Hs; try discriminate; inversion Hs; subst; split; reflexivity.
Qed.
Lemma env_step_graceful_mono s op s' : env_step s op = Some s' -> graceful s = true -> graceful s' = true.
Proof. intros Hs Hg. unfold env_step in Hs. destruct_matches Hs; try discriminate; inversion Hs; subst; proj; auto. Qed.

Lemma gstep_static fixed dv s l s' : Quiet (erase s) -> is_step' fixed dv s l s' -> static (erase s) (erase s').
Proof.
  intros HQ Hs. destruct (step_erase _ _ _ _ _ Hs) as [(_ & _ & ->)|Hst]; [repeat split; reflexivity|].
  destruct (elab l) as [o|op|]; cbn [is_step] in Hst.
  - eapply sched_step_static; eauto.
  - destruct Hst as [Hop Hst]. eapply env_step_static; eauto.
  - rewrite Hst. apply static_refl.
Qed.

Lemma Shares_unerase s : Prio1L.Shares (erase s) -> Prio1L.Shares s.
Proof. intros [h1 h2 h3 h4]. constructor; assumption. Qed.

Section GExec.
Variable fixed : bool.
Variable dv : nat -> Divider.
Hypothesis dv_wf : forall k ps n d, NoDup (keys d) -> NoDup (keys (dv k ps n d)).
Variable s0 : st.
Variable tr : nat -> st.
Variable lb : nat -> label.
Hypothesis HI : InitL1 s0.
Hypothesis HH : H s0 < two64.
Hypothesis Hex : execution' fixed dv s0 tr lb.

Lemma gx_step i : is_step' fixed dv (tr i) (lb i) (tr (S i)).
Proof. apply (ex_step' _ _ _ _ _ Hex). Qed.
Lemma gx_reach i : reachable fixed dv s0 (tr i).
Proof.
  induction i as [|i IH].
  - rewrite (ex_init' _ _ _ _ _ Hex). apply r_init.
  - pose proof (gx_step i) as Hs. destruct (lb i) as [o|op|]; cbn [is_step'] in Hs.
    + eapply r_sched; eauto.
    + destruct Hs as [_ Hs]. eapply r_env; eauto.
    + rewrite Hs. exact IH.
Qed.
Lemma gx_inv i : Inv (tr i).
Proof. eapply (reachable_inv fixed dv dv_wf); [apply (il_init s0 HI)|apply gx_reach]. Qed.
Lemma gx_inv2 i : Inv2 (tr i).
Proof. eapply (reachable_inv2 fixed dv); [apply (il_init s0 HI)|apply gx_reach]. Qed.
Lemma gx_rest i : rest_ok (tr i).
Proof. eapply (reachable_rest fixed dv); [apply (il_init s0 HI)|apply gx_reach]. Qed.

Lemma gx_static i : static s0 (erase (tr i)) /\ Quiet (erase (tr i)).
Proof.
  induction i as [|i [IH1 IH2]].
  - rewrite (ex_init' _ _ _ _ _ Hex). rewrite (erase_id s0 (in_graceful s0 (il_init s0 HI))).
    split; [apply static_refl|apply Init1_Quiet; apply (il_init s0 HI)].
  - pose proof (gstep_static _ _ _ _ _ IH2 (gx_step i)) as Hst.
    split; [eapply static_trans; eauto|eapply static_Quiet; eauto].
Qed.
Lemma gx_stopped i : stopped (tr i) = false.
Proof. destruct (gx_static i) as [_ (E & _)]. exact E. Qed.
Lemma gx_cmds i : cmds (tr i) = [].
Proof. destruct (gx_static i) as [_ (_ & _ & E)]. exact E. Qed.
Lemma gx_prios i : prios (tr i) = prios s0.
Proof. destruct (gx_static i) as [(_ & E & _) _]. exact E. Qed.
Lemma gx_H i : H (tr i) = H s0.
Proof. destruct (gx_static i) as [(E & _) _]. exact E. Qed.
Lemma gx_chan i : chan_of (tr i) = chan_of s0.
Proof. destruct (gx_static i) as [(_ & _ & _ & _ & _ & _ & E & _) _]. exact E. Qed.
Lemma gx_sharesL i : Prio1L.Shares (tr i).
Proof. apply Shares_unerase. eapply static_Shares; [apply (proj1 (gx_static i))|apply InitL1_Shares; exact HI]. Qed.
Lemma gx_sharesC i : Prio1C.Shares (tr i).
Proof.
  destruct (gx_sharesL i) as [h1 h2 h3 h4]. constructor; auto. rewrite gx_H. exact HH.
Qed.

Lemma gx_graceful_step i : graceful (tr i) = true -> graceful (tr (S i)) = true.
Proof.
  intros Hg. pose proof (gx_step i) as Hs. destruct (lb i) as [o|op|]; cbn [is_step'] in Hs.
  - destruct (sched_step_graceful _ _ _ _ _ Hs) as [E _]. congruence.
  - destruct Hs as [_ Hs]. eapply env_step_graceful_mono; eauto.
  - rewrite Hs. exact Hg.
Qed.
Lemma gx_graceful_from i j : (i <= j)%nat -> graceful (tr i) = true -> graceful (tr j) = true.
Proof. intros Hle Hg. apply (along (fun m => graceful (tr m) = true) i j Hle); [|exact Hg]. intros m _ Hm. apply gx_graceful_step; exact Hm. Qed.
End GExec.

(* ================= 2. the regimes ================= *)
(* every registered input is closed and empty; nothing in the scheduler's hand; output and handlers empty *)
Definition AllIn (s : st) : Prop := forall p ch, chan_of s p = Some ch -> closed s ch = true /\ inq s ch = [].
Definition Reg1 (s : st) : Prop := AllIn s /\ not_send (pcs s).
Definition Reg3 (s : st) : Prop := Reg1 s /\ outq s = [] /\ held s = [].

Ltac nosend := unfold not_send; intros; discriminate.

Lemma reg1_sstep dv s s' : Reg1 s -> sstep dv s = Some s' ->
  Reg1 s' /\ delivered s' = delivered s /\ written s' = written s /\ outq s' = outq s /\ held s' = held s.
Proof.
  intros [Ha Hns] Hs. unfold sstep in Hs. destruct (pcs s) eqn:Epc.
  - destruct (fbq s); inversion Hs; subst s'; (split; [split; [exact Ha|nosend]|repeat split; reflexivity]).
  - inversion Hs; subst s'. destruct (step_calc_shape dv s) as [(Ep & Ech & Ed & Ei & Ecl & _ & _ & Edl & _ & _ & Ew) Hpc].
    destruct (step_calc_chan dv s) as (Eo & Eh & _).
    split; [|auto]. split; [unfold AllIn; rewrite Ech, Ecl, Ei; exact Ha|].
    destruct Hpc as [E|[E|[e E]]]; rewrite E; nosend.
  - destruct (fbq s); [discriminate|]. inversion Hs; subst s'. split; [split; [exact Ha|nosend]|repeat split; reflexivity].
  - destruct rest as [|p r]; inversion Hs; subst s'; (split; [split; [exact Ha|]|repeat split; reflexivity]); proj.
    + destruct ph; nosend.
    + destruct (drained s p); nosend.
  - destruct (get (tactic s) p =? 0); [inversion Hs; subst s'; split; [split; [exact Ha|nosend]|repeat split; reflexivity]|].
    destruct (chan_of s p) as [ch|] eqn:Ech; [|inversion Hs; subst s'; split; [split; [exact Ha|nosend]|repeat split; reflexivity]].
    destruct (Ha p ch Ech) as [Hc Hi]. rewrite Hi, Hc in Hs. inversion Hs; subst s'.
    split; [split; [exact Ha|nosend]|repeat split; reflexivity].
  - exfalso. eapply Hns; reflexivity.
  - inversion Hs; subst s'. destruct (step_recalc_shape dv s proc) as [(Ep & Ech & Ed & Ei & Ecl & _ & _ & Edl & _ & _ & Ew) Hpc].
    destruct (step_recalc_chan dv s proc) as (Eo & Eh & _).
    split; [|auto]. split; [unfold AllIn; rewrite Ech, Ecl, Ei; exact Ha|].
    destruct Hpc as [E|[E|[e E]]]; rewrite E; nosend.
  - destruct (proc =? 0); inversion Hs; subst s'; (split; [split; [exact Ha|nosend]|repeat split; reflexivity]).
  - discriminate.
  - destruct k as [|k]; [|destruct (fbq s)]; inversion Hs; subst s'; (split; [split; [exact Ha|nosend]|repeat split; reflexivity]).
  - destruct (sum (actual s) =? 0); [|destruct (fbq s); [discriminate|]]; inversion Hs; subst s';
      (split; [split; [exact Ha|nosend]|repeat split; reflexivity]).
  - discriminate.
Qed.

Definition reg1_post (s : st) (l : label) (s' : st) : Prop :=
  Reg1 s' /\ delivered s' = delivered s /\ (forall ch, closed s ch = true -> closed s' ch = true /\ written s' ch = written s ch) /\
  (length (outq s') <= length (outq s))%nat /\ (l = LEnv Take -> (length (outq s') < length (outq s))%nat) /\
  (outq s = [] -> (length (held s') <= length (held s))%nat /\
                  forall p, l = LEnv (Release p) -> (length (held s') < length (held s))%nat).

Lemma remove1_length p l h : remove1 p l = Some h -> length l = S (length h).
Proof.
  revert h. induction l as [|[q x] r IH]; cbn [remove1]; intros h Hr; [discriminate|].
  destruct (N.eqb p q); [inversion Hr; subst; reflexivity|].
  destruct (remove1 p r) as [h'|]; cbn [option_map] in Hr; [|discriminate]. inversion Hr; subst h. cbn [length]. rewrite (IH h' eq_refl). reflexivity.
Qed.

Lemma reg1_step_static fixed dv s l s' : Quiet s -> Reg1 s -> is_step fixed dv s l s' -> reg1_post s l s'.
Proof.
  intros HQ HR Hs. unfold reg1_post. destruct l as [o|op|]; cbn [is_step] in Hs.
  - rewrite (sched_step_sstep fixed dv o s HQ) in Hs. destruct (reg1_sstep dv s s' HR Hs) as (HR' & Ed & Ew & Eo & Eh).
    assert (Ec : closed s' = closed s).
    { unfold sstep, step_calc, calc_base, step_recalc in Hs. destruct_matches Hs; try discriminate; inversion Hs; subst s'; reflexivity. }
    rewrite Ed, Ew, Eo, Eh, Ec.
    split; [exact HR'|]. split; [reflexivity|]. split; [auto|]. split; [lia|]. split; [discriminate|].
    intros _. split; [lia|]. intros p Hp; discriminate.
  - destruct Hs as [Hop Hs]. destruct HR as [Ha Hns].
    destruct op as [c x|c| |p| | | |c p bf|p]; cbn [static_op] in Hop; try contradiction.
    + cbn [env_step] in Hs. destruct (closed s c) eqn:Ec; [discriminate|]. inversion Hs; subst s'; unfold Reg1, AllIn; proj.
      split; [split; [|exact Hns]|].
      * intros q ch Hq. destruct (Ha q ch Hq) as [Hc Hi]. split; [exact Hc|]. unfold updn.
        destruct (Nat.eqb_spec ch c) as [->|_]; [congruence|exact Hi].
      * split; [reflexivity|]. split.
        { intros ch Hc. split; [exact Hc|]. unfold updn. destruct (Nat.eqb_spec ch c) as [->|_]; [congruence|reflexivity]. }
        split; [lia|]. split; [discriminate|]. intros _. split; [lia|]. intros q Hq; discriminate.
    + cbn [env_step] in Hs. inversion Hs; subst s'; unfold Reg1, AllIn; proj. split; [split; [|exact Hns]|].
      * intros q ch Hq. destruct (Ha q ch Hq) as [Hc Hi]. split; [|exact Hi]. unfold updn. destruct (Nat.eqb ch c); auto.
      * split; [reflexivity|]. split.
        { intros ch Hc. split; [|reflexivity]. unfold updn. destruct (Nat.eqb ch c); auto. }
        split; [lia|]. split; [discriminate|]. intros _. split; [lia|]. intros q Hq; discriminate.
    + cbn [env_step] in Hs. destruct (outq s) as [|px q] eqn:Eo; [discriminate|]. inversion Hs; subst s'; unfold Reg1, AllIn; proj.
      split; [split; [exact Ha|exact Hns]|]. split; [reflexivity|]. split; [auto|]. cbn [length].
      split; [lia|]. split; [intros _; lia|]. intros E; discriminate.
    + cbn [env_step] in Hs. destruct (remove1 p (held s)) as [h|] eqn:Er; [|discriminate]. inversion Hs; subst s'; unfold Reg1, AllIn; proj.
      split; [split; [exact Ha|exact Hns]|]. split; [reflexivity|]. split; [auto|].
      split; [lia|]. split; [discriminate|]. intros _. rewrite (remove1_length _ _ _ Er). split; [lia|]. intros q Hq. lia.
    + rewrite tick_step in Hs. inversion Hs as [Hs']. clear Hs.
      assert (Hfr : forall c, not_send c -> reg1_post s (LEnv Tick) (with_pc s c)).
      { intros c Hc. unfold reg1_post, Reg1, AllIn; proj. split; [split; [exact Ha|exact Hc]|]. split; [reflexivity|]. split; [auto|].
        split; [lia|]. split; [discriminate|]. intros _. split; [lia|]. intros q Hq; discriminate. }
      assert (Hid : reg1_post s (LEnv Tick) s).
      { unfold reg1_post. split; [split; assumption|]. split; [reflexivity|]. split; [auto|].
        split; [lia|]. split; [discriminate|]. intros _. split; [lia|]. intros q Hq; discriminate. }
      destruct (tick_moves s); [|exact Hid]. destruct (pcs s) eqn:Epc; try exact Hid.
      * apply Hfr. destruct intr; nosend.
      * apply Hfr. nosend.
  - subst s'. split; [exact HR|]. split; [reflexivity|]. split; [auto|]. split; [lia|]. split; [discriminate|].
    intros _. split; [lia|]. intros p Hp; discriminate.
Qed.

Lemma reg1_step' fixed dv s l s' : Quiet (erase s) -> Reg1 s -> is_step' fixed dv s l s' -> reg1_post s l s'.
Proof.
  intros HQ HR Hs. destruct (step_erase _ _ _ _ _ Hs) as [(_ & [o ->] & ->)|Hst].
  - destruct HR as [Ha Hns]. unfold reg1_post, Reg1, AllIn; proj. split; [split; [exact Ha|nosend]|]. split; [reflexivity|]. split; [auto|].
    split; [lia|]. split; [discriminate|]. intros _. split; [lia|]. intros q Hq; discriminate.
  - pose proof (reg1_step_static fixed dv (erase s) (elab l) (erase s') HQ HR Hst) as (H1 & H2 & H3 & H4 & H5 & H6).
    split; [exact H1|]. split; [exact H2|]. split; [exact H3|]. split; [exact H4|]. split.
    + intros ->. apply H5. reflexivity.
    + intros Ho. destruct (H6 Ho) as [H7 H8]. split; [exact H7|]. intros p ->. apply (H8 p). reflexivity.
Qed.

Lemma length_le0_nil {A} (l l' : list A) : (length l' <= length l)%nat -> l = [] -> l' = [].
Proof. intros Hle ->. destruct l'; [reflexivity|cbn [length] in Hle; lia]. Qed.

Lemma reg3_step' fixed dv s l s' : Quiet (erase s) -> Reg3 s -> is_step' fixed dv s l s' -> Reg3 s'.
Proof.
  intros HQ (HR & Ho & Hh) Hs. destruct (reg1_step' _ _ _ _ _ HQ HR Hs) as (HR' & _ & _ & Hlo & _ & Hlh).
  destruct (Hlh Ho) as [Hlh' _]. split; [exact HR'|]. split; eapply length_le0_nil; eauto.
Qed.

(* closed inputs stay closed, and nothing more is written to them *)
Lemma sched_step_closed fixed dv o s s' : sched_step fixed dv o s = Some s' -> closed s' = closed s /\ written s' = written s.
Proof.
  intros Hs. unfold sched_step, step_calc, calc_base, step_recalc, do_cmd in Hs.
  destruct_matches Hs; try discriminate; inversion Hs; subst; split; reflexivity.
Qed.
Lemma step_closed' fixed dv s l s' q : is_step' fixed dv s l s' -> closed s q = true ->
  closed s' q = true /\ written s' q = written s q.
Proof.
  intros Hs Hc. destruct l as [o|op|]; cbn [is_step'] in Hs.
  - destruct (sched_step_closed _ _ _ _ _ Hs) as [E1 E2]. rewrite E1, E2. auto.
  - destruct Hs as [_ Hs]. destruct op as [c x|c| |p| | | |c p bf|p]; cbn [env_step] in Hs.
    + destruct (closed s c) eqn:Ec; [discriminate|]. inversion Hs; subst s'; proj. split; [exact Hc|].
      unfold updn. destruct (Nat.eqb_spec q c) as [->|]; [congruence|reflexivity].
    + inversion Hs; subst s'; proj. split; [|reflexivity]. unfold updn. destruct (Nat.eqb q c); auto.
    + destruct (outq s); [discriminate|]. inversion Hs; subst s'; proj. auto.
    + destruct (remove1 p (held s)); [|discriminate]. inversion Hs; subst s'; proj. auto.
    + destruct_matches Hs; inversion Hs; subst s'; proj; auto.
    + inversion Hs; subst s'; proj. auto.
    + inversion Hs; subst s'; proj. auto.
    + inversion Hs; subst s'; proj. auto.
    + inversion Hs; subst s'; proj. auto.
  - subst s'. auto.
Qed.

Lemma ev_always_list (Q : N -> nat -> Prop) (ps : list N) :
  (forall p, In p ps -> exists i, forall j, (i <= j)%nat -> Q p j) ->
  exists i, forall p, In p ps -> forall j, (i <= j)%nat -> Q p j.
Proof.
  induction ps as [|a r IH]; intros Hq.
  - exists 0%nat. intros p [].
  - destruct IH as [i1 H1]; [intros p Hp; apply Hq; right; exact Hp|].
    destruct (Hq a (or_introl eq_refl)) as [i2 H2].
    exists (Nat.max i1 i2). intros p [<-|Hp] j Hj; [apply H2; lia|apply H1; [exact Hp|lia]].
Qed.

(* ================= 3. a STATIC fair execution whose registered inputs are all closed quiesces ================= *)
Section SFlush.
Variable fixed : bool.
Variable dv : nat -> Divider.
Hypothesis dv_wf : forall k ps n d, NoDup (keys d) -> NoDup (keys (dv k ps n d)).
Hypothesis sumrule : forall k ps n d, NoDup (keys d) -> sum (dv k ps n d) = sum d + n \/ sum (dv k ps n d) = sum d.
Variable s0 : st.
Variable tr : nat -> st.
Variable lb : nat -> label.
Hypothesis HI : InitL1 s0.
Hypothesis HH : H s0 < two64.
Hypothesis Hex : execution fixed dv s0 tr lb.
Hypothesis Fsched : F_sched fixed dv tr lb.
Hypothesis Ftake : F_take tr lb.
Hypothesis Frel : F_rel tr lb.
Hypothesis Ftick : F_tick_w tr lb.

Let Tstep := tr_step fixed dv s0 tr lb Hex.
Let TQ := tr_Q fixed dv s0 tr lb HI Hex.
Let Tinv := tr_inv fixed dv dv_wf s0 tr lb HI Hex.
Let Tinv2 := tr_inv2 fixed dv s0 tr lb HI Hex.
Let Tchan := tr_chan fixed dv s0 tr lb HI Hex.
Let Tprios := tr_prios fixed dv s0 tr lb HI Hex.
Let Trest := tr_rest fixed dv s0 tr lb HI Hex.
Notation mv := (moves tr lb).

Lemma s_reg1_step m : Reg1 (tr m) -> reg1_post (tr m) (lb m) (tr (S m)).
Proof. intros HR. apply (reg1_step_static fixed dv); [apply TQ|exact HR|apply Tstep]. Qed.

Lemma s_closed_from k j q : (k <= j)%nat -> closed (tr k) q = true ->
  closed (tr j) q = true /\ written (tr j) q = written (tr k) q.
Proof.
  intros Hle Hc. apply (along (fun i => closed (tr i) q = true /\ written (tr i) q = written (tr k) q) k j Hle); [|auto].
  intros m _ [H1 H2]. destruct (step_closed' fixed dv _ _ _ q (is_step_weaken _ _ _ _ _ (Tstep m)) H1) as [H3 H4]. split; [exact H3|congruence].
Qed.

Lemma s_reg1_from k j : (k <= j)%nat -> Reg1 (tr k) -> Reg1 (tr j) /\ (length (outq (tr j)) <= length (outq (tr k)))%nat.
Proof.
  intros Hle HR. apply (along (fun i => Reg1 (tr i) /\ (length (outq (tr i)) <= length (outq (tr k)))%nat) k j Hle); [|split; [exact HR|lia]].
  intros m _ [H1 H2]. destruct (s_reg1_step m H1) as (G1 & _ & _ & G4 & _). split; [exact G1|lia].
Qed.

Lemma s_reg3_from k j : (k <= j)%nat -> Reg3 (tr k) -> Reg3 (tr j).
Proof.
  intros Hle HR. apply (along (fun i => Reg3 (tr i)) k j Hle); [|exact HR].
  intros m _ Hm. apply (reg3_step' fixed dv (tr m) (lb m)); [|exact Hm|apply is_step_weaken; apply Tstep].
  rewrite erase_id; [apply TQ|apply (TQ m)].
Qed.

(* --- everything written to a closed registered input is eventually delivered *)
Definition Dlv (ch : nat) (j : nat) : Prop :=
  closed (tr j) ch = true /\ (length (written (tr j) ch) <= cntd s0 ch (tr j))%nat.

Lemma dlv_from ch k j : (k <= j)%nat -> Dlv ch k -> Dlv ch j.
Proof.
  intros Hle [Hc Hl]. destruct (s_closed_from k j ch Hle Hc) as [Hc' Hw]. split; [exact Hc'|]. rewrite Hw.
  pose proof (cntd_mono fixed dv s0 tr lb HI HH Hex ch k j Hle). lia.
Qed.

Lemma closed_delivered p ch i : chan_of s0 p = Some ch -> closed (tr i) ch = true -> exists j, (i <= j)%nat /\ Dlv ch j.
Proof.
  intros Hch Hc. destruct (written (tr i) ch) as [|x w] eqn:Ew.
  - exists i. split; [lia|]. split; [exact Hc|]. rewrite Ew. cbn [length]. lia.
  - destruct (count_reaches fixed dv dv_wf sumrule s0 tr lb HI HH Hex Fsched Ftake Frel Ftick p ch Hch
                (S (length w) - cntd s0 ch (tr i))%nat (length w) i) as (j & Hj & Hn).
    + rewrite Ew. cbn [length]. lia.
    + reflexivity.
    + exists j. split; [exact Hj|]. destruct (s_closed_from i j ch Hj Hc) as [Hc' Hw]. split; [exact Hc'|].
      rewrite Hw, Ew. cbn [length]. lia.
Qed.

Lemma dlv_reg1 j : (forall p ch, chan_of s0 p = Some ch -> Dlv ch j) -> Reg1 (tr j).
Proof.
  intros Hd.
  assert (Hall : forall p ch, chan_of s0 p = Some ch ->
            closed (tr j) ch = true /\ inq (tr j) ch = [] /\ limbo (chan_of s0) ch (tr j) = []).
  { intros p ch Hch. destruct (Hd p ch Hch) as [Hc Hl]. pose proof (tr_split fixed dv s0 tr lb HI Hex j ch) as Hsp.
    apply (f_equal (@length N)) in Hsp. rewrite !app_length in Hsp. unfold cntd in Hl.
    split; [exact Hc|]. split; [destruct (inq (tr j) ch); [reflexivity|cbn [length] in Hsp; lia]|].
    destruct (limbo (chan_of s0) ch (tr j)); [reflexivity|cbn [length] in Hsp; lia]. }
  split.
  - intros p ch Hch. rewrite Tchan in Hch. destruct (Hall p ch Hch) as (H1 & H2 & _). auto.
  - intros ph p x r pr Epc. pose proof (Trest j) as Hr. unfold rest_ok in Hr. rewrite Epc in Hr. destruct Hr as [pre E].
    assert (Hp : In p (prios (tr j))) by (rewrite E; apply in_or_app; right; left; reflexivity).
    apply (i_chan _ (Tinv j)) in Hp. destruct (chan_of (tr j) p) as [ch|] eqn:Ech; [|congruence].
    rewrite Tchan in Ech. destruct (Hall p ch Ech) as (_ & _ & Hl).
    unfold limbo, on_chan in Hl. rewrite Epc, Ech, Nat.eqb_refl in Hl. discriminate.
Qed.

Variable i0 : nat.
Hypothesis Hcl : forall p ch, chan_of s0 p = Some ch -> closed (tr i0) ch = true.

Lemma eventually_reg1 : exists i, (i0 <= i)%nat /\ Reg1 (tr i).
Proof.
  destruct (ev_always_list (fun p j => forall ch, chan_of s0 p = Some ch -> Dlv ch j) (prios s0)) as [i1 Hd].
  - intros p Hp. destruct (chan_of s0 p) as [ch|] eqn:Ech.
    + destruct (closed_delivered p ch i0 Ech (Hcl p ch Ech)) as (j & _ & Hj).
      exists j. intros j' Hj' ch' E. inversion E; subst ch'. apply (dlv_from ch j j' Hj' Hj).
    + exists 0%nat. intros j _ ch E. discriminate.
  - exists (Nat.max i0 i1). split; [lia|]. apply dlv_reg1. intros p ch Hch. apply (Hd p); [|lia|exact Hch].
    apply (in_chan s0 (il_init s0 HI)). rewrite Hch. discriminate.
Qed.

(* --- the output is emptied (F_take), the handlers release what they hold (F_rel) *)
Lemma flush_outq : forall n k, length (outq (tr k)) = n -> Reg1 (tr k) -> exists j, (k <= j)%nat /\ Reg1 (tr j) /\ outq (tr j) = [].
Proof.
  induction n as [n IH] using lt_wf_ind. intros k Hn HR.
  destruct (outq (tr k)) as [|px q] eqn:Eo; [exists k; split; [lia|]; split; [exact HR|exact Eo]|].
  destruct (Ftake k) as (j & Hj & Hl); [rewrite Eo; discriminate|].
  destruct (s_reg1_from k j Hj HR) as (HRj & Hlen). rewrite Eo in Hlen.
  destruct (s_reg1_step j HRj) as (HR' & _ & _ & _ & Hlt & _). specialize (Hlt Hl).
  destruct (IH (length (outq (tr (S j))))) with (k := S j) as (j' & Hj' & HR'' & Ho); [lia|reflexivity|exact HR'|].
  exists j'. split; [lia|]. split; assumption.
Qed.

Definition Reg2 (s : st) : Prop := Reg1 s /\ outq s = [].
Lemma s_reg2_from k j : (k <= j)%nat -> Reg2 (tr k) -> Reg2 (tr j) /\ (length (held (tr j)) <= length (held (tr k)))%nat.
Proof.
  intros Hle HR.
  apply (along (fun i => Reg2 (tr i) /\ (length (held (tr i)) <= length (held (tr k)))%nat) k j Hle); [|split; [exact HR|lia]].
  intros m _ [[H1 H2] H3]. destruct (s_reg1_step m H1) as (G1 & _ & _ & G4 & _ & G6).
  destruct (G6 H2) as [G7 _]. split; [split; [exact G1|eapply length_le0_nil; eauto]|lia].
Qed.

Lemma flush_held : forall n k, length (held (tr k)) = n -> Reg2 (tr k) -> exists j, (k <= j)%nat /\ Reg3 (tr j).
Proof.
  induction n as [n IH] using lt_wf_ind. intros k Hn HR.
  destruct (held (tr k)) as [|[p x] h] eqn:Eh.
  { exists k. split; [lia|]. destruct HR as [H1 H2]. split; [exact H1|]. split; [exact H2|exact Eh]. }
  destruct (Frel k p x) as (j & Hj & Hl); [rewrite Eh; left; reflexivity|].
  destruct (s_reg2_from k j Hj HR) as ([HRj Hoj] & Hlen). rewrite Eh in Hlen.
  destruct (s_reg1_step j HRj) as (HR' & _ & _ & Hlo & _ & Hlh).
  destruct (Hlh Hoj) as [_ Hlt]. specialize (Hlt p Hl).
  destruct (IH (length (held (tr (S j))))) with (k := S j) as (j' & Hj' & HR''); [lia|reflexivity| |].
  - split; [exact HR'|eapply length_le0_nil; eauto].
  - exists j'. split; [lia|exact HR''].
Qed.

Lemma eventually_reg3 : exists i, (i0 <= i)%nat /\ Reg3 (tr i).
Proof.
  destruct eventually_reg1 as (i & Hi & HR). destruct (flush_outq _ i eq_refl HR) as (j & Hj & HRj & Ho).
  destruct (flush_held _ j eq_refl (conj HRj Ho)) as (j' & Hj' & HR3). exists j'. split; [lia|exact HR3].
Qed.

(* --- the pending releases are consumed: every turn of the loop takes one (pc Top / WaitFb / LimFb) *)
Lemma reg3_quiet m : Reg3 (tr m) -> ~ mv m ->
  Reg3 (tr (S m)) /\ pcs (tr (S m)) = pcs (tr m) /\ fbq (tr (S m)) = fbq (tr m).
Proof.
  intros HR Hnm. split; [apply (s_reg3_from m (S m)); [lia|exact HR]|].
  split; [apply (q_pc _ _ (tr_quiet fixed dv s0 tr lb Hex m Hnm))|].
  destruct HR as (_ & Ho & Hh).
  destruct (quiet_chan fixed dv _ _ _ (Tstep m) Hnm) as [(_ & px & q & Eo & _)|[(p & h & _ & Er & _)|(_ & _ & Ef & _)]].
  - rewrite Ho in Eo. discriminate.
  - rewrite Hh in Er. discriminate.
  - exact Ef.
Qed.

Lemma reg3_move m : mv m ->
  (exists q r, fbq (tr m) = q :: r /\ fbq (tr (S m)) = r) \/ fbq (tr (S m)) = fbq (tr m).
Proof.
  intros Hmv. destruct (move_fbq dv _ _ (tr_move fixed dv s0 tr lb HI Hex m Hmv)) as [(q & r & c & Ef & Es)|Ef]; [left|right; exact Ef].
  exists q, r. split; [exact Ef|]. rewrite Es. reflexivity.
Qed.

Lemma pop_next k : Reg3 (tr k) -> fbq (tr k) <> [] -> exists j, (k <= j)%nat /\ (length (fbq (tr j)) < length (fbq (tr k)))%nat.
Proof.
  intros HR Hne.
  assert (Hgo : forall k', (k <= k')%nat -> Reg3 (tr k') -> fbq (tr k') = fbq (tr k) -> pcs (tr k') <> Calc ->
            exists j, (k' <= j)%nat /\ (length (fbq (tr j)) < length (fbq (tr k)))%nat).
  { intros k' Hk' HR' Ef' Hpc'.
    apply (by_moves fixed dv dv_wf sumrule s0 tr lb HI HH Hex Fsched Ftake Frel Ftick
             (fun m => Reg3 (tr m) /\ fbq (tr m) = fbq (tr k) /\ pcs (tr m) <> Calc)
             (fun m => (length (fbq (tr m)) < length (fbq (tr k)))%nat)) with (k := k'); [| | |auto].
    - intros m (_ & _ & Hn). exact Hn.
    - intros m (H1 & H2 & H3) Hnm. destruct (reg3_quiet m H1 Hnm) as (G1 & G2 & G3). split; [exact G1|]. split; congruence.
    - intros m (H1 & H2 & H3) Hmv.
      assert (HR1 : Reg3 (tr (S m))) by (apply (s_reg3_from m (S m)); [lia|exact H1]).
      destruct (reg3_move m Hmv) as [(q & r & Ef & Ef1)|Ef1].
      + left. rewrite Ef1, <- H2, Ef. cbn [length]. lia.
      + right. split; [exact HR1|]. split; [congruence|].
        apply (move_pre_pop dv _ _ (tr_move fixed dv s0 tr lb HI Hex m Hmv) H3 Ef1). rewrite H2. exact Hne. }
  destruct (is_calc_dec (pcs (tr k))) as [Ec|Hnc]; [|apply (Hgo k (le_n _) HR eq_refl Hnc)].
  destruct (next_move fixed dv dv_wf sumrule s0 tr lb HI HH Hex Fsched Ftake Frel Ftick k) as (j & Hj & Hm & Hmin).
  assert (Hj' : Reg3 (tr j) /\ pcs (tr j) = Calc /\ fbq (tr j) = fbq (tr k)).
  { apply (along (fun i => Reg3 (tr i) /\ pcs (tr i) = Calc /\ fbq (tr i) = fbq (tr k)) k j Hj); [|auto].
    intros i Hi (H1 & H2 & H3). destruct (reg3_quiet i H1 (Hmin i Hi)) as (G1 & G2 & G3). split; [exact G1|]. split; congruence. }
  destruct Hj' as (HRj & Epj & Efj).
  destruct (tr_move fixed dv s0 tr lb HI Hex j Hm) as [Hs|[Ht _]]; [|unfold tick_moves in Ht; rewrite Epj in Ht; discriminate].
  unfold sstep in Hs. rewrite Epj in Hs. inversion Hs as [Hs'].
  destruct (step_calc_chan dv (tr j)) as (_ & _ & Ef1 & _). rewrite Hs' in Ef1.
  destruct (step_calc_shape dv (tr j)) as [_ Hpc1]. rewrite Hs' in Hpc1.
  destruct (Hgo (S j)) as (j' & Hj' & Hlt); [lia|apply (s_reg3_from j (S j)); [lia|exact HRj]|congruence| |].
  - destruct Hpc1 as [E|[E|[e E]]]; rewrite E; discriminate.
  - exists j'. split; [lia|exact Hlt].
Qed.

Lemma fb_flush : forall n k, length (fbq (tr k)) = n -> Reg3 (tr k) -> exists j, (k <= j)%nat /\ Reg3 (tr j) /\ fbq (tr j) = [].
Proof.
  induction n as [n IH] using lt_wf_ind. intros k Hn HR.
  destruct (fbq (tr k)) as [|q r] eqn:Ef; [exists k; split; [lia|]; split; [exact HR|exact Ef]|].
  destruct (pop_next k HR) as (j & Hj & Hlt); [rewrite Ef; discriminate|].
  destruct (IH (length (fbq (tr j)))) with (k := j) as (j' & Hj' & HR' & Ef'); [rewrite Ef in Hlt; lia|reflexivity|apply (s_reg3_from k j Hj HR)|].
  exists j'. split; [lia|]. split; assumption.
Qed.

Theorem static_quiesce : exists j, (i0 <= j)%nat /\ Reg3 (tr j) /\ fbq (tr j) = [].
Proof.
  destruct eventually_reg3 as (i & Hi & HR). destruct (fb_flush _ i eq_refl HR) as (j & Hj & HR' & Ef).
  exists j. split; [lia|]. split; assumption.
Qed.
End SFlush.

(* ================= 4. a fair static continuation from any quiet state ================= *)
(* persistence facts for static steps *)
Lemma sched_step_outq fixed dv o s s' : sched_step fixed dv o s = Some s' ->
  held s' = held s /\ (outq s' = outq s \/ exists px, outq s' = outq s ++ [px]).
Proof.
  intros Hs. unfold sched_step, step_calc, calc_base, step_recalc, do_cmd in Hs.
  destruct_matches Hs; try discriminate; inversion Hs; subst; proj; (split; [reflexivity|]); first [left; reflexivity|right; eexists; reflexivity].
Qed.

Lemma outq_keep fixed dv s l s' : is_step' fixed dv s l s' -> l <> LEnv Take -> outq s <> [] -> outq s' <> [].
Proof.
  intros Hs Hl Hne. destruct l as [o|op|]; cbn [is_step'] in Hs.
  - destruct (sched_step_outq _ _ _ _ _ Hs) as [_ [E|[px E]]]; rewrite E; [exact Hne|]. destruct (outq s); [contradiction|discriminate].
  - destruct Hs as [_ Hs]. destruct op; try congruence; unfold env_step in Hs;
      destruct_matches Hs; try discriminate; inversion Hs; subst; proj; try exact Hne; congruence.
  - subst s'. exact Hne.
Qed.

Lemma held_keep' fixed dv s l s' p : is_step' fixed dv s l s' -> l <> LEnv (Release p) ->
  In p (map fst (held s)) -> In p (map fst (held s')).
Proof.
  intros Hs Hl Hin. destruct l as [o|op|]; cbn [is_step'] in Hs.
  - destruct (sched_step_outq _ _ _ _ _ Hs) as [E _]. rewrite E. exact Hin.
  - destruct Hs as [_ Hs]. destruct op as [c x|c| |q| | | |c q bf|q]; cbn [env_step] in Hs.
    + destruct (closed s c); [discriminate|]. inversion Hs; subst; exact Hin.
    + inversion Hs; subst; exact Hin.
    + destruct (outq s); [discriminate|]. inversion Hs; subst; proj. right. exact Hin.
    + destruct (remove1 q (held s)) as [h|] eqn:Er; [|discriminate]. inversion Hs; subst; proj.
      eapply remove1_other; eauto. intros ->. apply Hl. reflexivity.
    + destruct_matches Hs; inversion Hs; subst; proj; exact Hin.
    + inversion Hs; subst; exact Hin.
    + inversion Hs; subst; exact Hin.
    + inversion Hs; subst; exact Hin.
    + inversion Hs; subst; exact Hin.
  - subst s'. exact Hin.
Qed.

Lemma enabled_keep fixed dv s l s' : Quiet s -> (exists o s1, sched_step fixed dv o s = Some s1) ->
  is_step fixed dv s l s' -> ~ is_sched l -> forall o, exists s2, sched_step fixed dv o s' = Some s2.
Proof.
  intros HQ He Hs Hl o. destruct l as [o'|op|]; cbn [is_step] in Hs.
  - exfalso. apply Hl. exists o'. reflexivity.
  - destruct Hs as [Hop Hs]. eapply sched_enabled_stable; eauto.
  - subst s'. destruct He as (o1 & s1 & He). rewrite (sched_step_sstep fixed dv o1 s HQ) in He.
    rewrite (sched_step_sstep fixed dv o s HQ). eauto.
Qed.

Lemma step_static_Quiet fixed dv s l s' : Quiet s -> is_step fixed dv s l s' -> Quiet s'.
Proof.
  intros HQ Hs. destruct l as [o|op|]; cbn [is_step] in Hs.
  - eapply static_Quiet; [eapply sched_step_static; eauto|exact HQ].
  - destruct Hs as [Hop Hs]. eapply static_Quiet; [eapply env_step_static; eauto|exact HQ].
  - subst s'. exact HQ.
Qed.

Inductive mode := MS | MT | MR | MK.
Lemma mode_eq_dec (a b : mode) : {a = b} + {a <> b}.
Proof. decide equality. Qed.

Section Cont.
Variable fixed : bool.
Variable dv : nat -> Divider.

Definition clab (s : st) (c : mode) : label :=
  match c with
  | MS => match sched_step fixed dv 0 s with Some _ => LSched 0 | None => LStutter end
  | MT => match outq s with [] => LStutter | _ :: _ => LEnv Take end
  | MR => match held s with [] => LStutter | (p, _) :: _ => LEnv (Release p) end
  | MK => LEnv Tick
  end.
Definition cmode (s : st) (c : mode) : mode :=
  match c with MS => MT | MT => MR | MR => match held s with [] => MK | _ :: _ => MR end | MK => MS end.
Definition cstep (s : st) (l : label) : st := match step_opt fixed dv l s with Some s' => s' | None => s end.

Lemma clab_ok s c : exists s', step_opt fixed dv (clab s c) s = Some s'.
Proof.
  destruct c; cbn [clab].
  - destruct (sched_step fixed dv 0 s) as [s'|] eqn:E; [exists s'; exact E|exists s; reflexivity].
  - destruct (outq s) as [|px q] eqn:E; [exists s; reflexivity|]. cbn [step_opt static_opb env_step]. rewrite E. eexists; reflexivity.
  - destruct (held s) as [|[p x] h] eqn:E; [exists s; reflexivity|]. cbn [step_opt static_opb env_step]. rewrite E. cbn [remove1].
    rewrite N.eqb_refl. eexists; reflexivity.
  - cbn [step_opt static_opb]. rewrite tick_step. eexists; reflexivity.
Qed.
Lemma cstep_is_step s c : is_step fixed dv s (clab s c) (cstep s (clab s c)).
Proof. destruct (clab_ok s c) as [s' E]. unfold cstep. rewrite E. apply step_opt_is_step. exact E. Qed.

Lemma clab_sched s c : is_sched (clab s c) -> c = MS.
Proof. intros [o E]. destruct c; cbn [clab] in E; auto; destruct_matches E; discriminate. Qed.
Lemma clab_take s c : clab s c = LEnv Take -> c = MT.
Proof. intros E. destruct c; cbn [clab] in E; auto; destruct_matches E; discriminate. Qed.
Lemma clab_release s c p : clab s c = LEnv (Release p) -> c = MR.
Proof. intros E. destruct c; cbn [clab] in E; auto; destruct_matches E; discriminate. Qed.

Variable X : st.
Hypothesis HQX : Quiet X.

Fixpoint cconf (n : nat) : st * mode :=
  match n with
  | O => (X, MS)
  | S m => (cstep (fst (cconf m)) (clab (fst (cconf m)) (snd (cconf m))), cmode (fst (cconf m)) (snd (cconf m)))
  end.
Definition ctr (n : nat) : st := fst (cconf n).
Definition cmd (n : nat) : mode := snd (cconf n).
Definition clb (n : nat) : label := clab (ctr n) (cmd n).

Lemma ctr_S n : ctr (S n) = cstep (ctr n) (clb n).
Proof. reflexivity. Qed.
Lemma cmd_S n : cmd (S n) = cmode (ctr n) (cmd n).
Proof. reflexivity. Qed.
Lemma c_step n : is_step fixed dv (ctr n) (clb n) (ctr (S n)).
Proof. rewrite ctr_S. apply cstep_is_step. Qed.
Lemma c_Q n : Quiet (ctr n).
Proof. induction n as [|n IH]; [exact HQX|]. eapply step_static_Quiet; [exact IH|apply c_step]. Qed.

(* the release phase ends *)
Lemma cstep_release s q y h : held s = (q, y) :: h -> held (cstep s (LEnv (Release q))) = h.
Proof. intros Hh. unfold cstep. cbn [step_opt static_opb env_step]. rewrite Hh. cbn [remove1]. rewrite N.eqb_refl. reflexivity. Qed.

Lemma mr_exit : forall k n, length (held (ctr n)) = k -> cmd n = MR -> exists m, (n <= m)%nat /\ cmd m = MK.
Proof.
  induction k as [|k IH]; intros n Hk Hm.
  - exists (S n). split; [lia|]. rewrite cmd_S, Hm. cbn [cmode]. destruct (held (ctr n)); [reflexivity|discriminate].
  - destruct (held (ctr n)) as [|[q y] h] eqn:Eh; [discriminate|]. cbn [length] in Hk.
    destruct (IH (S n)) as (m & Hle & Hmk).
    + rewrite ctr_S. unfold clb. rewrite Hm. cbn [clab]. rewrite Eh. rewrite (cstep_release _ q y h Eh). lia.
    + rewrite cmd_S, Hm. cbn [cmode]. rewrite Eh. reflexivity.
    + exists m. split; [lia|exact Hmk].
Qed.

Lemma reach_MS n : exists m, (n <= m)%nat /\ cmd m = MS.
Proof.
  destruct (cmd n) eqn:Em.
  - exists n. split; [lia|exact Em].
  - destruct (mr_exit _ (S n) eq_refl) as (m & Hm & Hk); [rewrite cmd_S, Em; reflexivity|].
    exists (S m). split; [lia|]. rewrite cmd_S, Hk. reflexivity.
  - destruct (mr_exit _ n eq_refl Em) as (m & Hm & Hk). exists (S m). split; [lia|]. rewrite cmd_S, Hk. reflexivity.
  - exists (S n). split; [lia|]. rewrite cmd_S, Em. reflexivity.
Qed.

Lemma reach_mode c n : exists m, (n <= m)%nat /\ cmd m = c /\ forall i, (n <= i < m)%nat -> cmd i <> c.
Proof.
  assert (Hex : exists m, (n <= m)%nat /\ cmd m = c).
  { destruct (reach_MS n) as (m & Hm & Es).
    assert (E1 : cmd (S m) = MT) by (rewrite cmd_S, Es; reflexivity).
    assert (E2 : cmd (S (S m)) = MR) by (rewrite cmd_S, E1; reflexivity).
    destruct c.
    - exists m. auto.
    - exists (S m). split; [lia|exact E1].
    - exists (S (S m)). split; [lia|exact E2].
    - destruct (mr_exit _ (S (S m)) eq_refl E2) as (m' & Hm' & Hk). exists m'. split; [lia|exact Hk]. }
  destruct Hex as (m & Hm & Ec).
  destruct (first_from (fun i => cmd i = c) (fun i => mode_eq_dec (cmd i) c) n m Hm Ec) as (m' & Hm' & E' & Hmin).
  exists m'. split; [lia|]. split; assumption.
Qed.

Lemma c_F_tick n : exists m, (n <= m)%nat /\ clb m = LEnv Tick.
Proof. destruct (reach_mode MK n) as (m & Hm & E & _). exists m. split; [exact Hm|]. unfold clb. rewrite E. reflexivity. Qed.

Lemma c_F_take n : outq (ctr n) <> [] -> exists m, (n <= m)%nat /\ clb m = LEnv Take.
Proof.
  intros Hne. destruct (reach_mode MT n) as (m & Hm & E & Hmin). exists m. split; [exact Hm|].
  assert (Ho : outq (ctr m) <> []).
  { apply (along (fun i => outq (ctr i) <> []) n m Hm); [|exact Hne].
    intros i Hi Hq. apply (outq_keep fixed dv (ctr i) (clb i)); [apply is_step_weaken; apply c_step| |exact Hq].
    intros El. apply (Hmin i Hi). unfold clb in El. apply (clab_take _ _ El). }
  unfold clb. rewrite E. cbn [clab]. destruct (outq (ctr m)); [contradiction|reflexivity].
Qed.

Lemma c_F_sched n : (exists o s', sched_step fixed dv o (ctr n) = Some s') -> exists m, (n <= m)%nat /\ is_sched (clb m).
Proof.
  intros He. destruct (reach_mode MS n) as (m & Hm & E & Hmin). exists m. split; [exact Hm|].
  assert (Hen : exists o s', sched_step fixed dv o (ctr m) = Some s').
  { apply (along (fun i => exists o s', sched_step fixed dv o (ctr i) = Some s') n m Hm); [|exact He].
    intros i Hi Hq. destruct (enabled_keep fixed dv (ctr i) (clb i) (ctr (S i)) (c_Q i) Hq (c_step i)) with (o := 0%nat) as [s2 E2].
    - intros Hsc. apply (Hmin i Hi). unfold clb in Hsc. apply (clab_sched _ _ Hsc).
    - exists 0%nat, s2. exact E2. }
  destruct Hen as (o & s' & Hs). rewrite (sched_step_sstep fixed dv o _ (c_Q m)) in Hs.
  rewrite <- (sched_step_sstep fixed dv 0 _ (c_Q m)) in Hs.
  unfold clb. rewrite E. cbn [clab]. rewrite Hs. exists 0%nat. reflexivity.
Qed.

Lemma mr_release p : forall k m, length (held (ctr m)) = k -> cmd m = MR -> In p (map fst (held (ctr m))) ->
  exists j, (m <= j)%nat /\ clb j = LEnv (Release p).
Proof.
  induction k as [|k IH]; intros m Hk Hm Hin.
  - destruct (held (ctr m)); [destruct Hin|discriminate].
  - destruct (held (ctr m)) as [|[q y] h] eqn:Eh; [discriminate|]. cbn [length] in Hk. cbn [map fst] in Hin.
    assert (El : clb m = LEnv (Release q)) by (unfold clb; rewrite Hm; cbn [clab]; rewrite Eh; reflexivity).
    destruct (N.eq_dec q p) as [->|Hne]; [exists m; split; [lia|exact El]|].
    destruct Hin as [E|Hin]; [contradiction|].
    destruct (IH (S m)) as (j & Hj & Hl).
    + rewrite ctr_S, El, (cstep_release _ q y h Eh). lia.
    + rewrite cmd_S, Hm. cbn [cmode]. rewrite Eh. reflexivity.
    + rewrite ctr_S, El, (cstep_release _ q y h Eh). exact Hin.
    + exists j. split; [lia|exact Hl].
Qed.

Lemma c_F_rel n p x : In (p, x) (held (ctr n)) -> exists m, (n <= m)%nat /\ clb m = LEnv (Release p).
Proof.
  intros Hin0. assert (Hin : In p (map fst (held (ctr n)))) by (apply in_map_iff; exists (p, x); auto).
  destruct (reach_mode MR n) as (m & Hm & E & Hmin).
  assert (Hh : In p (map fst (held (ctr m)))).
  { apply (along (fun i => In p (map fst (held (ctr i)))) n m Hm); [|exact Hin].
    intros i Hi Hq. apply (held_keep' fixed dv (ctr i) (clb i)); [apply is_step_weaken; apply c_step| |exact Hq].
    intros El. apply (Hmin i Hi). unfold clb in El. apply (clab_release _ _ _ El). }
  destruct (mr_release p _ m eq_refl E Hh) as (j & Hj & Hl). exists j. split; [lia|exact Hl].
Qed.
End Cont.

(* ================= 5. splicing: the static execution that follows tr until the graceful exit fires ================= *)
Definition isDN (c : pc) : bool := match c with Drain None => true | _ => false end.

Lemma static_no_drain_none fixed dv s l s' : Quiet s -> is_step fixed dv s l s' -> isDN (pcs s) = false -> isDN (pcs s') = false.
Proof.
  intros HQ Hs Hn. destruct l as [o|op|]; cbn [is_step] in Hs.
  - rewrite (sched_step_sstep fixed dv o s HQ) in Hs. unfold sstep in Hs. destruct (pcs s) eqn:Epc.
    + destruct_matches Hs; try discriminate; inversion Hs; subst; reflexivity.
    + inversion Hs; subst s'. destruct (step_calc_shape dv s) as [_ [E|[E|[e E]]]]; rewrite E; reflexivity.
    + destruct_matches Hs; try discriminate; inversion Hs; subst; reflexivity.
    + destruct_matches Hs; try discriminate; inversion Hs; subst; reflexivity.
    + destruct_matches Hs; try discriminate; inversion Hs; subst; reflexivity.
    + destruct_matches Hs; try discriminate; inversion Hs; subst; reflexivity.
    + inversion Hs; subst s'. destruct (step_recalc_shape dv s proc) as [_ [E|[E|[e E]]]]; rewrite E; reflexivity.
    + destruct_matches Hs; try discriminate; inversion Hs; subst; reflexivity.
    + discriminate.
    + destruct_matches Hs; try discriminate; inversion Hs; subst; reflexivity.
    + destruct_matches Hs; try discriminate; inversion Hs; subst; proj; try reflexivity; exact Hn.
    + discriminate.
  - destruct Hs as [Hop Hs]. destruct op as [c x|c| |p| | | |c p bf|p]; cbn [static_op] in Hop; try contradiction.
    + cbn [env_step] in Hs. destruct (closed s c); [discriminate|]. inversion Hs; subst; exact Hn.
    + cbn [env_step] in Hs. inversion Hs; subst; exact Hn.
    + cbn [env_step] in Hs. destruct (outq s); [discriminate|]. inversion Hs; subst; exact Hn.
    + cbn [env_step] in Hs. destruct (remove1 p (held s)); [|discriminate]. inversion Hs; subst; exact Hn.
    + rewrite tick_step in Hs. inversion Hs; subst s'. destruct (tick_moves s); [|exact Hn].
      destruct (pcs s) eqn:Epc; proj; try reflexivity; try (rewrite Epc; exact Hn).
      destruct intr; reflexivity.
  - subst s'. exact Hn.
Qed.

Lemma enabled_unerase fixed dv s : (exists o s', sched_step fixed dv o (erase s) = Some s') -> exists o s', sched_step fixed dv o s = Some s'.
Proof.
  intros (o & s' & Hs). destruct (fires s) eqn:Ef.
  - exists o. eexists. apply (fires_step fixed dv o s Ef).
  - rewrite (sched_step_erase fixed dv o s Ef) in Hs. destruct (sched_step fixed dv o s) as [s1|] eqn:E1; [exists o, s1; exact E1|discriminate].
Qed.

Section Splice.
Variable fixed : bool.
Variable dv : nat -> Divider.
Hypothesis dv_wf : forall k ps n d, NoDup (keys d) -> NoDup (keys (dv k ps n d)).
Variable s0 : st.
Variable tr : nat -> st.
Variable lb : nat -> label.
Hypothesis HI : InitL1 s0.
Hypothesis HH : H s0 < two64.
Hypothesis Hex : execution' fixed dv s0 tr lb.
Hypothesis Fsched : F_sched fixed dv tr lb.
Hypothesis Ftake : F_take tr lb.
Hypothesis Frel : F_rel tr lb.
Hypothesis Ftick : F_tick_w tr lb.

Let Gstep := gx_step fixed dv s0 tr lb Hex.
Let GQ := fun i => proj2 (gx_static fixed dv s0 tr lb HI Hex i).

(* the first index (up to n) at which the pc is Drain None *)
Fixpoint firstdn (n : nat) : option nat :=
  match n with
  | O => if isDN (pcs (tr 0%nat)) then Some 0%nat else None
  | S m => match firstdn m with Some k => Some k | None => if isDN (pcs (tr (S m))) then Some (S m) else None end
  end.

Lemma firstdn_none n : firstdn n = None -> forall i, (i <= n)%nat -> isDN (pcs (tr i)) = false.
Proof.
  induction n as [|n IH]; cbn [firstdn]; intros Hn i Hi.
  - replace i with 0%nat by lia. destruct (isDN (pcs (tr 0%nat))); [discriminate|reflexivity].
  - destruct (firstdn n) as [k|] eqn:E; [discriminate|]. destruct (isDN (pcs (tr (S n)))) eqn:E2; [discriminate|].
    destruct (Nat.eq_dec i (S n)) as [->|Hne]; [exact E2|]. apply IH; [reflexivity|lia].
Qed.
Lemma firstdn_some n k : firstdn n = Some k ->
  (k <= n)%nat /\ isDN (pcs (tr k)) = true /\ match k with O => True | S k' => firstdn k' = None end.
Proof.
  induction n as [|n IH]; cbn [firstdn]; intros Hn.
  - destruct (isDN (pcs (tr 0%nat))) eqn:E; [|discriminate]. inversion Hn; subst k. auto.
  - destruct (firstdn n) as [k'|] eqn:E.
    + inversion Hn; subst k'. destruct (IH eq_refl) as (H1 & H2 & H3). split; [lia|]. auto.
    + destruct (isDN (pcs (tr (S n)))) eqn:E2; [|discriminate]. inversion Hn; subst k. split; [lia|]. split; [exact E2|exact E].
Qed.
Lemma firstdn_mono n k m : firstdn n = Some k -> (n <= m)%nat -> firstdn m = Some k.
Proof.
  intros Hn Hle. apply (along (fun i => firstdn i = Some k) n m Hle); [|exact Hn].
  intros i _ Hi. cbn [firstdn]. rewrite Hi. reflexivity.
Qed.
Lemma firstdn_0 : firstdn 0%nat = None.
Proof. cbn [firstdn]. rewrite (ex_init' _ _ _ _ _ Hex), (in_pc s0 (il_init s0 HI)). reflexivity. Qed.

(* the index before the first Drain None is the firing of the graceful exit *)
Lemma fire_index n k : firstdn n = Some k ->
  exists k', k = S k' /\ firstdn k' = None /\ fires (tr k') = true /\ is_sched (lb k').
Proof.
  intros Hn. destruct (firstdn_some n k Hn) as (_ & Hd & Hp). destruct k as [|k'].
  - clear Hp. rewrite (ex_init' _ _ _ _ _ Hex), (in_pc s0 (il_init s0 HI)) in Hd. discriminate.
  - exists k'. split; [reflexivity|]. split; [exact Hp|].
    destruct (step_erase _ _ _ _ _ (Gstep k')) as [(Hf & Hl & _)|Hst]; [auto|].
    exfalso. pose proof (static_no_drain_none fixed dv _ _ _ (GQ k') Hst (firstdn_none k' Hp k' (le_n _))) as Hx.
    change (isDN (pcs (tr (S k'))) = false) in Hx. congruence.
Qed.

Definition Xk (k : nat) : st := with_pc (erase (tr (pred k))) Idle.
Definition tr' (n : nat) : st := match firstdn n with None => erase (tr n) | Some k => ctr fixed dv (Xk k) (n - k) end.
Definition lb' (n : nat) : label := match firstdn n with None => elab (lb n) | Some k => clb fixed dv (Xk k) (n - k) end.

Lemma Xk_Q k : Quiet (Xk k).
Proof. exact (GQ (pred k)). Qed.

Lemma spl_step n : is_step fixed dv (tr' n) (lb' n) (tr' (S n)).
Proof.
  unfold tr', lb'. cbn [firstdn]. destruct (firstdn n) as [k|] eqn:En.
  - destruct (firstdn_some n k En) as (Hk & _). replace (S n - k)%nat with (S (n - k)) by lia. apply c_step.
  - destruct (isDN (pcs (tr (S n)))) eqn:Ed.
    + replace (S n - S n)%nat with 0%nat by lia. unfold Xk. cbn [pred ctr cconf fst].
      destruct (step_erase _ _ _ _ _ (Gstep n)) as [(Hf & [o Hl] & _)|Hst].
      * rewrite Hl. cbn [elab is_step]. apply (fires_step fixed dv o (tr n) Hf).
      * exfalso. pose proof (static_no_drain_none fixed dv _ _ _ (GQ n) Hst (firstdn_none n En n (le_n _))) as Hx.
        change (isDN (pcs (tr (S n))) = false) in Hx. congruence.
    + destruct (step_erase _ _ _ _ _ (Gstep n)) as [(_ & _ & E)|Hst]; [rewrite E in Ed; discriminate|exact Hst].
Qed.

Lemma spl_execution : execution fixed dv s0 tr' lb'.
Proof.
  constructor; [|exact spl_step]. unfold tr'. rewrite firstdn_0, (ex_init' _ _ _ _ _ Hex). apply erase_id. apply (in_graceful s0 (il_init s0 HI)).
Qed.

Lemma spl_pre n : firstdn n = None -> tr' n = erase (tr n) /\ lb' n = elab (lb n).
Proof. intros E. unfold tr', lb'. rewrite E. auto. Qed.
Lemma spl_cont n k m : firstdn n = Some k -> (n - k <= m)%nat -> tr' (m + k) = ctr fixed dv (Xk k) m /\ lb' (m + k) = clb fixed dv (Xk k) m.
Proof.
  intros En Hm. destruct (firstdn_some n k En) as (Hk & _).
  unfold tr', lb'. rewrite (firstdn_mono n k (m + k) En) by lia. replace (m + k - k)%nat with m by lia. auto.
Qed.

(* fairness of the spliced execution *)
Lemma spl_F_tick : F_tick_w tr' lb'.
Proof.
  intros i Ht.
  assert (Hc : forall k j, firstdn j = Some k -> (i <= j)%nat -> exists j', (i <= j')%nat /\ lb' j' = LEnv Tick).
  { intros k j Ej Hj. destruct (c_F_tick fixed dv (Xk k) (j - k)) as (m & Hm & El).
    destruct (spl_cont j k m Ej Hm) as [_ E2]. destruct (firstdn_some j k Ej) as (Hk & _).
    exists (m + k)%nat. split; [lia|]. rewrite E2. exact El. }
  destruct (firstdn i) as [k|] eqn:Ei; [apply (Hc k i Ei (le_n _))|].
  destruct (spl_pre i Ei) as [E1 _]. rewrite E1 in Ht. change (tick_moves (tr i) = true) in Ht.
  destruct (Ftick i Ht) as (j & Hj & Hl). destruct (firstdn j) as [k|] eqn:Ej; [apply (Hc k j Ej Hj)|].
  exists j. split; [exact Hj|]. destruct (spl_pre j Ej) as [_ E2]. rewrite E2, Hl. reflexivity.
Qed.

Lemma spl_F_sched : F_sched fixed dv tr' lb'.
Proof.
  intros i He. destruct (firstdn i) as [k|] eqn:Ei.
  - destruct (firstdn_some i k Ei) as (Hk & _). destruct (spl_cont i k (i - k) Ei (le_n _)) as [E1 _].
    replace (i - k + k)%nat with i in E1 by lia. rewrite E1 in He.
    destruct (c_F_sched fixed dv (Xk k) (Xk_Q k) (i - k) He) as (m & Hm & Hl).
    destruct (spl_cont i k m Ei Hm) as [_ E2]. exists (m + k)%nat. split; [lia|]. rewrite E2. exact Hl.
  - destruct (spl_pre i Ei) as [E1 _]. rewrite E1 in He. apply enabled_unerase in He.
    destruct (Fsched i He) as (j & Hj & Hl). destruct (firstdn j) as [k|] eqn:Ej.
    + destruct (fire_index j k Ej) as (k' & -> & Ek' & _ & Hsc). exists k'. split.
      * destruct (le_lt_dec i k') as [Hle|Hlt]; [exact Hle|]. exfalso.
        destruct (firstdn_some j (S k') Ej) as (_ & Hd & _). rewrite (firstdn_none i Ei (S k')) in Hd by lia. discriminate.
      * destruct (spl_pre k' Ek') as [_ E2]. rewrite E2, (is_sched_elab _ Hsc). exact Hsc.
    + exists j. split; [exact Hj|]. destruct (spl_pre j Ej) as [_ E2]. rewrite E2, (is_sched_elab _ Hl). exact Hl.
Qed.

Lemma firstdn_dec m : {firstdn m = None} + {firstdn m <> None}.
Proof. destruct (firstdn m); [right; discriminate|left; reflexivity]. Qed.

Lemma spl_F_take : F_take tr' lb'.
Proof.
  intros i Hne.
  assert (Hc : forall k j, firstdn j = Some k -> (i <= j)%nat -> outq (tr' j) <> [] -> exists j', (i <= j')%nat /\ lb' j' = LEnv Take).
  { intros k j Ej Hj Ho. destruct (firstdn_some j k Ej) as (Hk & _). destruct (spl_cont j k (j - k) Ej (le_n _)) as [E1 _].
    replace (j - k + k)%nat with j in E1 by lia. rewrite E1 in Ho.
    destruct (c_F_take fixed dv (Xk k) (j - k) Ho) as (m & Hm & El).
    destruct (spl_cont j k m Ej Hm) as [_ E2]. exists (m + k)%nat. split; [lia|]. rewrite E2. exact El. }
  destruct (firstdn i) as [k|] eqn:Ei; [apply (Hc k i Ei (le_n _) Hne)|].
  destruct (spl_pre i Ei) as [E1 _]. assert (Hne' : outq (tr i) <> []) by (rewrite E1 in Hne; exact Hne).
  destruct (Ftake i Hne') as (j & Hj & Hl).
  destruct (first_from (fun m => lb' m = LEnv Take \/ firstdn m <> None)) with (k := i) (j := j) as (m & Hm & HQ & Hmin); [| exact Hj | |].
  { intros m. destruct (label_eq_dec (lb' m) (LEnv Take)); [left; left; assumption|].
    destruct (firstdn_dec m); [right; tauto|left; right; assumption]. }
  { destruct (firstdn j) as [k|] eqn:Ej; [right; discriminate|left]. destruct (spl_pre j Ej) as [_ E2]. rewrite E2, Hl. reflexivity. }
  assert (Ho : outq (tr' m) <> []).
  { apply (along (fun x => outq (tr' x) <> []) i m); [lia| |exact Hne].
    intros x Hx Hq. apply (outq_keep fixed dv (tr' x) (lb' x)); [apply is_step_weaken; apply spl_step| |exact Hq].
    intros El. apply (Hmin x Hx). left. exact El. }
  destruct HQ as [El|Hn]; [exists m; split; [lia|exact El]|].
  destruct (firstdn m) as [k|] eqn:Em; [|congruence]. apply (Hc k m Em); [lia|exact Ho].
Qed.

Lemma spl_F_rel : F_rel tr' lb'.
Proof.
  intros i p x Hin0.
  assert (Hin : In p (map fst (held (tr' i)))) by (apply in_map_iff; exists (p, x); auto).
  assert (Hc : forall k j, firstdn j = Some k -> (i <= j)%nat -> In p (map fst (held (tr' j))) ->
             exists j', (i <= j')%nat /\ lb' j' = LEnv (Release p)).
  { intros k j Ej Hj Ho. destruct (firstdn_some j k Ej) as (Hk & _). destruct (spl_cont j k (j - k) Ej (le_n _)) as [E1 _].
    replace (j - k + k)%nat with j in E1 by lia. rewrite E1 in Ho.
    apply in_map_iff in Ho. destruct Ho as ([q y] & Eq & Ho). cbn [fst] in Eq. subst q.
    destruct (c_F_rel fixed dv (Xk k) (j - k) p y Ho) as (m & Hm & El).
    destruct (spl_cont j k m Ej Hm) as [_ E2]. exists (m + k)%nat. split; [lia|]. rewrite E2. exact El. }
  destruct (firstdn i) as [k|] eqn:Ei; [apply (Hc k i Ei (le_n _) Hin)|].
  destruct (spl_pre i Ei) as [E1 _]. assert (Hin' : In (p, x) (held (tr i))) by (rewrite E1 in Hin0; exact Hin0).
  destruct (Frel i p x Hin') as (j & Hj & Hl).
  destruct (first_from (fun m => lb' m = LEnv (Release p) \/ firstdn m <> None)) with (k := i) (j := j) as (m & Hm & HQ & Hmin); [| exact Hj | |].
  { intros m. destruct (label_eq_dec (lb' m) (LEnv (Release p))); [left; left; assumption|].
    destruct (firstdn_dec m); [right; tauto|left; right; assumption]. }
  { destruct (firstdn j) as [k|] eqn:Ej; [right; discriminate|left]. destruct (spl_pre j Ej) as [_ E2]. rewrite E2, Hl. reflexivity. }
  assert (Ho : In p (map fst (held (tr' m)))).
  { apply (along (fun x => In p (map fst (held (tr' x)))) i m); [lia| |exact Hin].
    intros y Hy Hq. apply (held_keep' fixed dv (tr' y) (lb' y)); [apply is_step_weaken; apply spl_step| |exact Hq].
    intros El. apply (Hmin y Hy). left. exact El. }
  destruct HQ as [El|Hn]; [exists m; split; [lia|exact El]|].
  destruct (firstdn m) as [k|] eqn:Em; [|congruence]. apply (Hc k m Em); [lia|exact Ho].
Qed.
End Splice.

(* ================= 6. the last stretches on the real execution ================= *)
(* --- 6a. from Drain e to Done e: output taken, items released, releases consumed *)
Definition nu (s : st) : nat := (3 * length (outq s) + 2 * length (held s) + length (fbq s))%nat.
Definition prog (l : label) : Prop := is_sched l \/ l = LEnv Take \/ is_release l.
Lemma prog_dec l : {prog l} + {~ prog l}.
Proof.
  unfold prog. destruct (is_sched_dec l); [left; auto|]. destruct (label_eq_dec l (LEnv Take)); [left; auto|].
  destruct (release_dec l); [left; auto|]. right. tauto.
Qed.

Lemma drain_step fixed dv s l s' e : pcs s = Drain e -> stopped s = false -> is_step' fixed dv s l s' ->
  (is_sched l /\ pcs s' = Done e) \/ (pcs s' = Drain e /\ (nu s' <= nu s)%nat /\ (prog l -> (nu s' < nu s)%nat)).
Proof.
  intros Epc Hst Hs. destruct l as [o|op|]; cbn [is_step'] in Hs.
  - unfold sched_step in Hs. rewrite Epc, Hst in Hs. cbn [app] in Hs.
    destruct (sum (actual s) =? 0); [inversion Hs; subst s'; left; split; [exists o; reflexivity|reflexivity]|].
    destruct (fbq s) as [|q r] eqn:Ef; [discriminate|]. rewrite pick_one in Hs. inversion Hs; subst s'. right.
    unfold nu; proj. rewrite Ef. cbn [length]. split; [reflexivity|]. split; [lia|]. intros _. lia.
  - right. destruct Hs as [_ Hs].
    assert (Hnp : forall op', (op' <> Take) -> (forall p, op' <> Release p) -> ~ prog (LEnv op')).
    { intros op' H1 H2 [[o E]|[E|[p E]]]; [discriminate|inversion E; congruence|inversion E; subst; eapply H2; reflexivity]. }
    destruct op as [c x|c| |p| | | |c p bf|p]; cbn [env_step] in Hs.
    + destruct (closed s c); [discriminate|]. inversion Hs; subst s'; unfold nu; proj. split; [exact Epc|]. split; [lia|].
      intros Hp. exfalso. revert Hp. apply Hnp; intros; discriminate.
    + inversion Hs; subst s'; unfold nu; proj. split; [exact Epc|]. split; [lia|].
      intros Hp. exfalso. revert Hp. apply Hnp; intros; discriminate.
    + destruct (outq s) as [|px q] eqn:Eo; [discriminate|]. inversion Hs; subst s'; unfold nu; proj. rewrite Eo. cbn [length].
      split; [exact Epc|]. split; [lia|]. intros _. lia.
    + destruct (remove1 p (held s)) as [h|] eqn:Er; [|discriminate]. inversion Hs; subst s'; unfold nu; proj.
      rewrite (remove1_length _ _ _ Er), app_length. cbn [length]. split; [exact Epc|]. split; [lia|]. intros _. lia.
    + rewrite Epc in Hs. inversion Hs; subst s'. split; [exact Epc|]. split; [lia|].
      intros Hp. exfalso. revert Hp. apply Hnp; intros; discriminate.
    + inversion Hs; subst s'; unfold nu; proj. split; [exact Epc|]. split; [lia|].
      intros Hp. exfalso. revert Hp. apply Hnp; intros; discriminate.
    + inversion Hs; subst s'; unfold nu; proj. split; [exact Epc|]. split; [lia|].
      intros Hp. exfalso. revert Hp. apply Hnp; intros; discriminate.
    + inversion Hs; subst s'; unfold nu; proj. split; [exact Epc|]. split; [lia|].
      intros Hp. exfalso. revert Hp. apply Hnp; intros; discriminate.
    + inversion Hs; subst s'; unfold nu; proj. split; [exact Epc|]. split; [lia|].
      intros Hp. exfalso. revert Hp. apply Hnp; intros; discriminate.
  - subst s'. right. split; [exact Epc|]. split; [lia|]. intros [[o E]|[E|[p E]]]; discriminate.
Qed.

(* --- 6b. the oracle does not matter when nobody stopped the discipline and no command is pending *)
Lemma sched_step_oracle fixed dv o s : stopped s = false -> cmds s = [] -> sched_step fixed dv o s = sched_step fixed dv 0 s.
Proof.
  intros Hs Hc. unfold sched_step. cbv zeta. rewrite Hs, Hc. cbn [app].
  destruct (pcs s) eqn:Epc; try reflexivity.
  - destruct (fbq s); [reflexivity|rewrite !pick_one; reflexivity].
  - destruct (fbq s); [reflexivity|rewrite !pick_one; reflexivity].
  - destruct (get (tactic s) p =? 0); [reflexivity|]. destruct (chan_state s p) as [[[[ch q] cl] bf]|]; [|reflexivity].
    destruct q; [destruct cl; [rewrite !pick_one; reflexivity|reflexivity]|rewrite !pick_one; reflexivity].
  - destruct (N.of_nat (length (outq s)) <? outcap s); [rewrite !pick_one; reflexivity|reflexivity].
  - destruct k as [|k]; [reflexivity|]. destruct (fbq s); [reflexivity|rewrite !pick_one; reflexivity].
  - destruct (sum (actual s) =? 0); [reflexivity|]. destruct (fbq s); [reflexivity|rewrite !pick_one; reflexivity].
Qed.

(* a move of the execution is a step of Prio1P's auto_step *)
Lemma move_auto fixed dv s l s' : stopped s = false -> cmds s = [] -> is_step' fixed dv s l s' -> is_move s l ->
  auto_step fixed dv s = Some s'.
Proof.
  intros Hst Hc Hs [[o ->]|[-> Ht]]; cbn [is_step'] in Hs.
  - unfold auto_step. rewrite <- (sched_step_oracle fixed dv o s Hst Hc), Hs. reflexivity.
  - destruct Hs as [_ Hs]. destruct (tick_move_step _ _ Hs Ht) as [[Epc _]|(ph & p & r & proc & intr & Epc & Hb & _)].
    + unfold auto_step, sched_step. rewrite Epc. exact Hs.
    + unfold read_blocked in Hb. destruct (chan_of s p) as [ch|] eqn:Ech; [|discriminate].
      apply andb_prop in Hb. destruct Hb as [Hb H4]. apply andb_prop in Hb. destruct Hb as [Hb H3].
      apply andb_prop in Hb. destruct Hb as [H1 H2]. apply negb_true_iff in H1, H2, H3.
      unfold auto_step, sched_step, chan_state. rewrite Epc, H1, Ech, H2, H3, Hst. destruct (inq s ch); [exact Hs|discriminate].
Qed.

(* --- 6c. quiet steps keep the regime of a graceful stop in progress *)
Lemma closed_empty_AllIn s : Inv s -> closed_empty s -> AllIn s.
Proof.
  intros Hinv Hce p ch Hch. assert (Hp : In p (prios s)) by (apply (i_chan s Hinv); rewrite Hch; discriminate).
  destruct (Hce p Hp) as (ch' & E & Hc & Hi). rewrite Hch in E. inversion E; subst ch'. auto.
Qed.
Lemma AllIn_closed_empty s : Inv s -> AllIn s -> closed_empty s.
Proof.
  intros Hinv Ha p Hp. apply (i_chan s Hinv) in Hp. destruct (chan_of s p) as [ch|] eqn:Ech; [|congruence].
  exists ch. destruct (Ha p ch Ech) as [Hc Hi]. auto.
Qed.
Lemma zero_inflight s : Inv s -> sum (actual s) = 0 -> outq s = [] /\ held s = [] /\ fbq s = [].
Proof.
  intros Hinv Hz. pose proof (i_sum s Hinv) as Hs. unfold inflight in Hs. rewrite Hz in Hs.
  repeat split; apply length_zero_nil; lia.
Qed.

Lemma greg_quiet fixed dv g s l s' : GReg g s -> Quiet (erase s) -> is_step' fixed dv s l s' -> ~ is_move s l -> Inv s' -> rest_ok s' ->
  GReg g s' /\ pcs s' = pcs s /\ prios s' = prios s.
Proof.
  intros HR HQ Hs Hnm Hinv' Hrest'. pose proof HR as [Hinv Hrest Hsh Hce Hz Hfb Hst Hgr Hcm Hns Hnw Hne Hg].
  destruct (zero_inflight s Hinv Hz) as (Ho & Hh & _).
  assert (HR3 : Reg3 s) by (split; [split; [apply closed_empty_AllIn; assumption|exact Hns]|auto]).
  pose proof (reg3_step' fixed dv s l s' HQ HR3 Hs) as ((Ha' & _) & Ho' & Hh').
  destruct (step_erase _ _ _ _ _ Hs) as [(_ & Hl & _)|Hstat]; [exfalso; apply Hnm; left; exact Hl|].
  assert (Hnm' : ~ is_move (erase s) (elab l)).
  { intros [Hsc|[El Ht]]; apply Hnm.
    - left. destruct l as [o|op|]; [exact Hsc| |exact Hsc]. destruct op; try exact Hsc. destruct Hsc as [o E]; discriminate.
    - right. split; [|exact Ht]. destruct l as [o|op|]; [discriminate| |discriminate]. destruct op; try discriminate. reflexivity. }
  pose proof (quiet_step fixed dv _ _ _ Hstat Hnm') as [Hstc Epc Et Ea _ Edr _ _ _ _ _].
  destruct Hstc as (EH & Epr & Estr & _ & _ & _ & _ & Est & _ & Ecm).
  change (pcs s' = pcs s) in Epc. change (tactic s' = tactic s) in Et. change (actual s' = actual s) in Ea.
  change (drained s' = drained s) in Edr. change (H s' = H s) in EH. change (prios s' = prios s) in Epr.
  change (strategic s' = strategic s) in Estr. change (stopped s' = stopped s) in Est. change (cmds s' = cmds s) in Ecm.
  assert (Ef : fbq s' = fbq s).
  { destruct (quiet_chan fixed dv _ _ _ Hstat Hnm') as [(_ & px & q & Eo & _)|[(p & h & _ & Er & _)|(_ & _ & Ef & _)]].
    - change (outq s = px :: q) in Eo. rewrite Ho in Eo. discriminate.
    - change (remove1 p (held s) = Some h) in Er. rewrite Hh in Er. discriminate.
    - exact Ef. }
  assert (Hgr' : graceful s' = true).
  { destruct l as [o|op|]; cbn [is_step'] in Hs.
    - exfalso. apply Hnm. left. exists o. reflexivity.
    - destruct Hs as [_ Hs]. eapply env_step_graceful_mono; eauto.
    - subst s'. exact Hgr. }
  split; [|split; [exact Epc|exact Epr]].
  assert (A1 : Prio1C.Shares s') by (destruct Hsh as [h1 h2 h3 h4]; constructor; rewrite ?EH, ?Epr, ?Estr; auto).
  assert (A2 : closed_empty s') by (apply AllIn_closed_empty; assumption).
  assert (A3 : sum (actual s') = 0) by congruence.
  assert (A4 : fbq s' = []) by congruence.
  assert (A5 : stopped s' = false) by congruence.
  assert (A6 : cmds s' = []) by congruence.
  assert (A7 : not_send (pcs s')) by (rewrite Epc; exact Hns).
  assert (A8 : pcs s' <> WaitFb) by (rewrite Epc; exact Hnw).
  assert (A9 : noerr (pcs s')) by (rewrite Epc; exact Hne).
  assert (A10 : g = true -> GPhase s').
  { intros Eg. specialize (Hg Eg). unfold GPhase, Prio1C.ahead, alldr in *. rewrite Epc, Epr, Edr, Et. exact Hg. }
  exact (Build_GReg g s' Hinv' Hrest' A1 A2 A3 A4 A5 Hgr' A6 A7 A8 A9 A10).
Qed.

Lemma greg_enabled fixed dv g s : GReg g s -> ~ is_target s -> pcs s <> Idle -> exists s', sched_step fixed dv 0 s = Some s'.
Proof.
  intros [Hinv Hrest Hsh Hce Hz Hfb Hst Hgr Hcm Hns Hnw Hne Hg] HnT Hni.
  unfold is_target in HnT. unfold sched_step. cbv zeta. rewrite Hst, Hcm, Hfb. cbn [app].
  destruct (pcs s) eqn:Epc.
  - eexists; reflexivity.
  - eexists; reflexivity.
  - exfalso. apply Hnw. reflexivity.
  - destruct rest; eexists; reflexivity.
  - destruct (get (tactic s) p =? 0); [eexists; reflexivity|].
    assert (Hp : In p (prios s)) by (unfold rest_ok in Hrest; rewrite Epc in Hrest; destruct Hrest as [pre E]; rewrite E; apply in_or_app; right; left; reflexivity).
    destruct (Hce p Hp) as (ch & Ech & Hcl & Hiq). unfold chan_state. rewrite Ech, Hiq, Hcl. cbn [app]. rewrite pick_one. eexists; reflexivity.
  - exfalso. eapply Hns; reflexivity.
  - eexists; reflexivity.
  - destruct (proc =? 0); [destruct (graceful s && forallb (drained s) (prios s))|]; eexists; reflexivity.
  - exfalso. apply Hni. reflexivity.
  - destruct k; eexists; reflexivity.
  - rewrite Hz. cbn. eexists; reflexivity.
  - exfalso. apply HnT. exact I.
Qed.

Section GTerm.
Variable fixed : bool.
Variable dv : nat -> Divider.
Hypothesis dv_wf : forall k ps n d, NoDup (keys d) -> NoDup (keys (dv k ps n d)).
Hypothesis sumrule : forall k ps n d, NoDup (keys d) -> sum (dv k ps n d) = sum d + n \/ sum (dv k ps n d) = sum d.
Variable s0 : st.
Variable tr : nat -> st.
Variable lb : nat -> label.
Hypothesis HI : InitL1 s0.
Hypothesis HH : H s0 < two64.
Hypothesis Hex : execution' fixed dv s0 tr lb.
Hypothesis Fsched : F_sched fixed dv tr lb.
Hypothesis Ftake : F_take tr lb.
Hypothesis Frel : F_rel tr lb.
Hypothesis Ftick : F_tick_w tr lb.

Let Gstep := gx_step fixed dv s0 tr lb Hex.
Let Ginv := gx_inv fixed dv dv_wf s0 tr lb HI Hex.
Let Grest := gx_rest fixed dv s0 tr lb HI Hex.
Let GQ := fun i => proj2 (gx_static fixed dv s0 tr lb HI Hex i).
Let Gst := gx_stopped fixed dv s0 tr lb HI Hex.
Let Gcm := gx_cmds fixed dv s0 tr lb HI Hex.
Notation mvg := (moves tr lb).

Lemma gx_closed_from k j q : (k <= j)%nat -> closed (tr k) q = true ->
  closed (tr j) q = true /\ written (tr j) q = written (tr k) q.
Proof.
  intros Hle Hc. apply (along (fun i => closed (tr i) q = true /\ written (tr i) q = written (tr k) q) k j Hle); [|auto].
  intros m _ [H1 H2]. destruct (step_closed' fixed dv _ _ _ q (Gstep m) H1) as [H3 H4]. split; [exact H3|congruence].
Qed.

(* --- from Drain e to Done e *)
Lemma drain_done : forall n k e, nu (tr k) = n -> pcs (tr k) = Drain e -> exists j, (k <= j)%nat /\ pcs (tr j) = Done e.
Proof.
  induction n as [n IH] using lt_wf_ind. intros k e Hn Epc.
  assert (Hpl : exists j, (k <= j)%nat /\ prog (lb j)).
  { destruct (sum (actual (tr k)) =? 0) eqn:Ez.
    - destruct (Fsched k) as (j & Hj & Hl); [|exists j; split; [exact Hj|left; exact Hl]].
      exists 0%nat. eexists. unfold sched_step. rewrite Epc, Ez. reflexivity.
    - destruct (fbq (tr k)) as [|q r] eqn:Ef.
      + destruct (outq (tr k)) as [|px o] eqn:Eo.
        * destruct (held (tr k)) as [|[p x] h] eqn:Eh.
          { exfalso. pose proof (i_sum _ (Ginv k)) as Hs. unfold inflight in Hs. rewrite Ef, Eo, Eh in Hs. cbn in Hs.
            apply N.eqb_neq in Ez. congruence. }
          destruct (Frel k p x) as (j & Hj & Hl); [rewrite Eh; left; reflexivity|]. exists j. split; [exact Hj|]. right; right. exists p. exact Hl.
        * destruct (Ftake k) as (j & Hj & Hl); [rewrite Eo; discriminate|]. exists j. split; [exact Hj|]. right; left. exact Hl.
      + destruct (Fsched k) as (j & Hj & Hl); [|exists j; split; [exact Hj|left; exact Hl]].
        exists 0%nat. eexists. unfold sched_step. rewrite Epc, Ez, (Gst k), Ef. cbn [app]. rewrite pick_one. reflexivity. }
  destruct Hpl as (j & Hj & Hp).
  destruct (first_from (fun m => prog (lb m)) (fun m => prog_dec (lb m)) k j Hj Hp) as (m & Hm & Hpm & Hmin).
  assert (Hinv : pcs (tr m) = Drain e /\ (nu (tr m) <= nu (tr k))%nat).
  { apply (along (fun i => pcs (tr i) = Drain e /\ (nu (tr i) <= nu (tr k))%nat) k m); [lia| |split; [exact Epc|lia]].
    intros i Hi [H1 H2]. destruct (drain_step fixed dv _ _ _ e H1 (Gst i) (Gstep i)) as [[Hs _]|(G1 & G2 & _)].
    - exfalso. apply (Hmin i Hi). left. exact Hs.
    - split; [exact G1|lia]. }
  destruct Hinv as [Epm Hnm].
  destruct (drain_step fixed dv _ _ _ e Epm (Gst m) (Gstep m)) as [[_ Hd]|(G1 & _ & G3)].
  - exists (S m). split; [lia|exact Hd].
  - specialize (G3 Hpm). destruct (IH (nu (tr (S m))) ltac:(lia) (S m) e eq_refl G1) as (j' & Hj' & Hd).
    exists j'. split; [lia|exact Hd].
Qed.

(* --- the regime of a graceful stop in progress, along the execution *)
Lemma greg_stretch g k j : (k <= j)%nat -> (forall m, (k <= m < j)%nat -> ~ mvg m) -> GReg g (tr k) ->
  GReg g (tr j) /\ pcs (tr j) = pcs (tr k) /\ gpos (tr j) = gpos (tr k).
Proof.
  intros Hle Hmin HR.
  apply (along (fun i => GReg g (tr i) /\ pcs (tr i) = pcs (tr k) /\ gpos (tr i) = gpos (tr k)) k j Hle); [|auto].
  intros m Hm (H1 & H2 & H3).
  destruct (greg_quiet fixed dv g _ _ _ H1 (GQ m) (Gstep m) (Hmin m Hm) (Ginv (S m)) (Grest (S m))) as (G1 & G2 & G3).
  split; [exact G1|]. split; [congruence|]. rewrite <- H3. unfold gpos. rewrite G2, G3. reflexivity.
Qed.

Lemma greg_move_step g m : GReg g (tr m) -> mvg m -> ~ is_target (tr m) ->
  GReg g (tr (S m)) /\ (gpos (tr (S m)) < gpos (tr m))%nat.
Proof.
  intros HR Hmv HnT. destruct (greg_progress fixed dv dv_wf sumrule g (tr m) HR HnT) as (s' & Ha & HR' & _ & Hlt).
  rewrite (move_auto fixed dv _ _ _ (Gst m) (Gcm m) (Gstep m) Hmv) in Ha. inversion Ha; subst s'. auto.
Qed.

Lemma greg_next_move g k : GReg g (tr k) -> ~ is_target (tr k) ->
  exists j, (k <= j)%nat /\ mvg j /\ forall m, (k <= m < j)%nat -> ~ mvg m.
Proof.
  intros HR HnT.
  assert (Hfirst : forall j, (k <= j)%nat -> mvg j -> exists j', (k <= j')%nat /\ mvg j' /\ forall m, (k <= m < j')%nat -> ~ mvg m).
  { intros j Hj Hm. destruct (first_from (fun m => mvg m) (fun m => is_move_dec (tr m) (lb m)) k j Hj Hm) as (m & Hm1 & Hm2 & Hmin).
    exists m. split; [lia|]. split; assumption. }
  destruct (pcs (tr k)) eqn:Epc;
    try (destruct (greg_enabled fixed dv g (tr k) HR HnT) as [s' He]; [rewrite Epc; discriminate|];
         destruct (Fsched k) as (j & Hj & Hl); [exists 0%nat, s'; exact He|]; apply (Hfirst j Hj); left; exact Hl).
  (* Idle: the clock *)
  destruct (Ftick k) as (j & Hj & Hl); [unfold tick_moves; rewrite Epc; reflexivity|].
  destruct (first_from (fun m => mvg m \/ lb m = LEnv Tick)) with (k := k) (j := j) as (m & Hm & HQ & Hmin); [|exact Hj|right; exact Hl|].
  { intros m. destruct (is_move_dec (tr m) (lb m)); [left; left; assumption|].
    destruct (label_eq_dec (lb m) (LEnv Tick)); [left; right; assumption|right; tauto]. }
  assert (Hq : forall i, (k <= i < m)%nat -> ~ mvg i) by (intros i Hi Hx; apply (Hmin i Hi); left; exact Hx).
  exists m. split; [lia|]. split; [|exact Hq].
  destruct HQ as [Hx|Hx]; [exact Hx|]. right. split; [exact Hx|].
  destruct (greg_stretch g k m ltac:(lia) Hq HR) as (_ & Epm & _). unfold tick_moves. rewrite Epm, Epc. reflexivity.
Qed.

Lemma greg_reach_tr g k : GReg g (tr k) -> exists j, (k <= j)%nat /\ GReg g (tr j) /\ is_target (tr j).
Proof.
  intros HD.
  apply (ranked (fun m => GReg g (tr m)) (fun m => gpos (tr m)) (fun m => GReg g (tr m) /\ is_target (tr m)))
    with (n := gpos (tr k)); [|lia|exact HD].
  clear k HD. intros k HD. destruct (is_target_dec (tr k)) as [Ht|Hnt]; [exists k; split; [lia|left; auto]|].
  destruct (greg_next_move g k HD Hnt) as (j & Hj & Hm & Hmin).
  destruct (greg_stretch g k j Hj Hmin HD) as (HDj & Epc & Egp).
  destruct (greg_move_step g j HDj Hm) as [HD' Hlt]; [unfold is_target in *; rewrite Epc; exact Hnt|].
  exists (S j). split; [lia|right]. split; [exact HD'|lia].
Qed.

Lemma greg_done k : GReg false (tr k) -> exists j, (k <= j)%nat /\ pcs (tr j) = Done None.
Proof.
  intros HR. destruct (greg_reach_tr false k HR) as (j & Hj & HRj & HT).
  unfold is_target in HT. destruct (pcs (tr j)) eqn:Epj; try contradiction.
  - (* back at Calc: the final round *)
    destruct (Fsched j) as (j1 & Hj1 & Hl1); [exists 0%nat; eexists; unfold sched_step; rewrite Epj; reflexivity|].
    destruct (first_from (fun m => mvg m) (fun m => is_move_dec (tr m) (lb m)) j j1 Hj1 (or_introl Hl1)) as (m & Hm & Hmv & Hmin).
    destruct (greg_stretch false j m ltac:(lia) Hmin HRj) as (HRm & Epm & _). rewrite Epj in Epm.
    destruct (calc_start fixed dv sumrule (tr m) (Ginv m) (Prio1C.g_sh _ _ HRm) Epm (Prio1C.g_zero _ _ HRm)) as (s2 & E2 & Hpc2 & Hsg & Hpos).
    assert (Es : tr (S m) = s2).
    { pose proof (move_auto fixed dv _ _ _ (Gst m) (Gcm m) (Gstep m) Hmv) as Ha. unfold auto_step in Ha. rewrite E2 in Ha. inversion Ha; reflexivity. }
    assert (Ep2 : prios s2 = prios (tr m)) by (destruct Hsg as (_ & Ep2 & _); exact Ep2).
    assert (HR2 : GReg true (tr (S m))).
    { apply (greg_frame false true (tr m) (tr (S m)) HRm (Ginv (S m)) (Grest (S m))); rewrite Es.
      - exact Hsg.
      - rewrite Hpc2. unfold not_send; intros; discriminate.
      - rewrite Hpc2. discriminate.
      - rewrite Hpc2. intros e0; split; discriminate.
      - intros _. unfold GPhase. rewrite Hpc2. split; [reflexivity|]. intros p Hp. right. rewrite Ep2 in Hp. split; [exact Hp|].
        apply Hpos. exact Hp. }
    destruct (greg_reach_tr true (S m) HR2) as (j2 & Hj2 & HR3 & HT3).
    pose proof (Prio1C.g_good _ _ HR3 eq_refl) as HG. unfold is_target in HT3. unfold GPhase in HG.
    destruct (pcs (tr j2)) eqn:Epc3; try contradiction.
    exists j2. split; [lia|].
    pose proof (Prio1C.g_ne _ _ HR3) as Hne. rewrite Epc3 in Hne. destruct e as [e1|]; [exfalso; apply (proj2 (Hne e1)); reflexivity|exact Epc3].
  - exists j. split; [exact Hj|].
    pose proof (Prio1C.g_ne _ _ HRj) as Hne. rewrite Epj in Hne. destruct e as [e1|]; [exfalso; apply (proj2 (Hne e1)); reflexivity|exact Epj].
Qed.

(* --- the theorem: GracefulStop() is called and every registered input is eventually closed *)
Hypothesis Hgr : exists i, graceful (tr i) = true.
Hypothesis Hclose : forall p ch, chan_of s0 p = Some ch -> exists i, closed (tr i) ch = true.

Lemma all_closed : exists i, forall p ch, chan_of s0 p = Some ch -> forall j, (i <= j)%nat -> closed (tr j) ch = true.
Proof.
  destruct (ev_always_list (fun p j => forall ch, chan_of s0 p = Some ch -> closed (tr j) ch = true) (prios s0)) as [i1 Hd].
  - intros p Hp. destruct (chan_of s0 p) as [ch|] eqn:Ech.
    + destruct (Hclose p ch Ech) as [i Hi]. exists i. intros j Hj ch' E. inversion E; subst ch'. apply (gx_closed_from i j ch Hj Hi).
    + exists 0%nat. intros j _ ch E. discriminate.
  - exists i1. intros p ch Hch j Hj. apply (Hd p); [|exact Hj|exact Hch].
    apply (in_chan s0 (il_init s0 HI)). rewrite Hch. discriminate.
Qed.

Lemma dn_done k : isDN (pcs (tr k)) = true -> exists j, pcs (tr j) = Done None.
Proof.
  intros Hd. assert (Epc : pcs (tr k) = Drain None).
  { destruct (pcs (tr k)) as [| | | | | | | | | |e|]; try discriminate. destruct e; [discriminate|reflexivity]. }
  destruct (drain_done _ k None eq_refl Epc) as (j & _ & Hj). exists j. exact Hj.
Qed.

Theorem graceful_done_sec : exists j, pcs (tr j) = Done None.
Proof.
  destruct all_closed as [i1 Hc1]. destruct Hgr as [ig Hg].
  set (i0 := Nat.max i1 ig).
  set (T := tr' fixed dv tr). set (L := lb' fixed dv tr lb).
  pose proof (spl_execution fixed dv s0 tr lb HI HH Hex) as Hex'.
  pose proof (spl_F_sched fixed dv s0 tr lb HI HH Hex Fsched) as F1.
  pose proof (spl_F_take fixed dv s0 tr lb HI HH Hex Ftake) as F2.
  pose proof (spl_F_rel fixed dv s0 tr lb HI HH Hex Frel) as F3.
  pose proof (spl_F_tick fixed dv s0 tr lb HH Ftick) as F4.
  destruct (firstdn tr i0) as [k|] eqn:E0.
  { destruct (firstdn_some s0 tr HH i0 k E0) as (_ & Hd & _). apply (dn_done k Hd). }
  destruct (spl_pre fixed dv tr lb i0 E0) as [ET0 _].
  destruct (static_quiesce fixed dv dv_wf sumrule s0 T L HI HH Hex' F1 F2 F3 F4 i0) as (j & Hj & HR3 & Ef).
  { intros p ch Hch. unfold T. rewrite ET0. change (closed (tr i0) ch = true). apply (Hc1 p ch Hch). lia. }
  destruct (firstdn tr j) as [k|] eqn:Ej.
  { destruct (firstdn_some s0 tr HH j k Ej) as (_ & Hd & _). apply (dn_done k Hd). }
  destruct (spl_pre fixed dv tr lb j Ej) as [ETj _]. unfold T in HR3, Ef. rewrite ETj in HR3, Ef.
  change (Reg3 (tr j)) in HR3. change (fbq (tr j) = []) in Ef.
  destruct HR3 as ((Ha & Hns) & Ho & Hh).
  assert (Hz : sum (actual (tr j)) = 0).
  { pose proof (i_sum _ (Ginv j)) as Hs. unfold inflight in Hs. rewrite Ho, Hh, Ef in Hs. exact Hs. }
  assert (HR : GReg false (tr j)).
  { apply (Build_GReg false (tr j) (Ginv j) (Grest j) (gx_sharesC fixed dv s0 tr lb HI HH Hex j)).
    - apply AllIn_closed_empty; [apply Ginv|exact Ha].
    - exact Hz.
    - exact Ef.
    - apply Gst.
    - apply (gx_graceful_from fixed dv s0 tr lb Hex ig j); [|exact Hg]. lia.
    - apply Gcm.
    - exact Hns.
    - intros Hpc. pose proof (gx_sharesC fixed dv s0 tr lb HI HH Hex j) as Hsh.
      pose proof (Prio1C.prio1_no_wait_when_idle fixed dv dv_wf s0 (tr j) (il_init s0 HI) (gx_reach fixed dv s0 tr lb Hex j) Hpc
                    (Prio1C.sh_H _ Hsh) (Prio1C.sh_sum _ Hsh)) as Hpos. lia.
    - pose proof (tr_live fixed dv dv_wf sumrule s0 T L HI HH Hex' j) as Hlv. unfold T in Hlv. rewrite ETj in Hlv.
      change (live_pc (pcs (tr j))) in Hlv. intros e. destruct (Hlv (Some e)) as [H1 H2]. split; assumption.
    - discriminate. }
  destruct (greg_done j HR) as (j' & _ & Hd). exists j'. exact Hd.
Qed.
End GTerm.

(* ================= 7. Part A: the closed theorems ================= *)
(* executions with an arbitrary environment (used for stability here and for Part B) *)
Definition is_step_any (fixed : bool) (dv : nat -> Divider) (s : st) (l : label) (s' : st) : Prop :=
  match l with
  | LSched o => sched_step fixed dv o s = Some s'
  | LEnv op => env_step s op = Some s'
  | LStutter => s' = s
  end.
Record execution_any (fixed : bool) (dv : nat -> Divider) (s0 : st) (tr : nat -> st) (lb : nat -> label) : Prop := {
  exa_init : tr 0%nat = s0;
  exa_step : forall i, is_step_any fixed dv (tr i) (lb i) (tr (S i)) }.
Lemma is_step'_any fixed dv s l s' : is_step' fixed dv s l s' -> is_step_any fixed dv s l s'.
Proof. destruct l as [o|op|]; cbn [is_step' is_step_any]; auto. intros [_ Hs]; exact Hs. Qed.
Lemma execution'_any fixed dv s0 tr lb : execution' fixed dv s0 tr lb -> execution_any fixed dv s0 tr lb.
Proof. intros [H0 Hs]. constructor; [exact H0|]. intros i. apply is_step'_any. apply Hs. Qed.

Lemma done_step_any fixed dv s l s' e : pcs s = Done e -> is_step_any fixed dv s l s' ->
  pcs s' = Done e /\ delivered s' = delivered s /\ reads s' = reads s /\ ~ is_sched l.
Proof.
  intros Epc Hs. destruct l as [o|op|]; cbn [is_step_any] in Hs.
  - unfold sched_step in Hs. rewrite Epc in Hs. discriminate.
  - destruct (env_step_fault s op s' e (or_intror Epc) Hs) as [[Hx|Hx] [Ed Er]].
    + exfalso. unfold env_step in Hs. rewrite ?Epc in Hs. destruct_matches Hs; try discriminate; inversion Hs; subst s'; cbn in Hx; congruence.
    + split; [exact Hx|]. split; [exact Ed|]. split; [exact Er|]. intros [o E]; discriminate.
  - subst s'. split; [exact Epc|]. split; [reflexivity|]. split; [reflexivity|]. intros [o E]; discriminate.
Qed.

(* --- Done is for ever (every environment, every oracle): same result, nothing more is read or delivered, the scheduler is silent *)
Theorem prio1_done_stable_any : forall fixed dv s0 tr lb, execution_any fixed dv s0 tr lb ->
  forall j k e, (j <= k)%nat -> pcs (tr j) = Done e ->
  pcs (tr k) = Done e /\ delivered (tr k) = delivered (tr j) /\ reads (tr k) = reads (tr j) /\ ~ is_sched (lb k).
Proof.
  intros fixed dv s0 tr lb Hex j k e Hle Hd.
  assert (Hk : pcs (tr k) = Done e /\ delivered (tr k) = delivered (tr j) /\ reads (tr k) = reads (tr j)).
  { apply (along (fun i => pcs (tr i) = Done e /\ delivered (tr i) = delivered (tr j) /\ reads (tr i) = reads (tr j)) j k Hle); [|auto].
    intros m _ (H1 & H2 & H3). destruct (done_step_any fixed dv _ _ _ e H1 (exa_step _ _ _ _ _ Hex m)) as (G1 & G2 & G3 & _).
    split; [exact G1|]. split; congruence. }
  destruct Hk as (H1 & H2 & H3). split; [exact H1|]. split; [exact H2|]. split; [exact H3|].
  apply (done_step_any fixed dv _ _ _ e H1 (exa_step _ _ _ _ _ Hex k)).
Qed.
Print Assumptions prio1_done_stable_any.

Theorem prio1_done_stable : forall fixed dv s0 tr lb, execution' fixed dv s0 tr lb ->
  forall j k e, (j <= k)%nat -> pcs (tr j) = Done e -> pcs (tr k) = Done e /\ delivered (tr k) = delivered (tr j).
Proof.
  intros fixed dv s0 tr lb Hex j k e Hle Hd.
  destruct (prio1_done_stable_any fixed dv s0 tr lb (execution'_any _ _ _ _ _ Hex) j k e Hle Hd) as (H1 & H2 & _). auto.
Qed.
Print Assumptions prio1_done_stable.

(* what holds in a state that is Done without error in an execution without Stop *)
Definition Finished (s0 s : st) : Prop :=
  pcs s = Done None /\ outq s = [] /\ held s = [] /\ fbq s = [] /\ sum (actual s) = 0 /\ graceful s = true /\
  delivered s = rev (map (fun r => (snd (fst r), snd r)) (reads s)) /\
  (forall p ch, In p (prios s0) -> chan_of s0 p = Some ch ->
     delivered_from s ch = written s ch /\ closed s ch = true /\ inq s ch = [] /\ drained s p = true).

Lemma done_finished fixed dv s0 tr lb : (forall k ps n d, NoDup (keys d) -> NoDup (keys (dv k ps n d))) -> InitL1 s0 ->
  execution' fixed dv s0 tr lb -> forall j, pcs (tr j) = Done None -> Finished s0 (tr j).
Proof.
  intros Hwf HI Hex j Hd. pose proof (il_init s0 HI) as I1.
  pose proof (gx_reach fixed dv s0 tr lb Hex j) as Hr. pose proof (gx_stopped fixed dv s0 tr lb HI Hex j) as Hst.
  destruct (prio1_done_without_stop fixed dv Hwf s0 (tr j) None I1 Hr Hd Hst) as (Hz & Ho & Hh & Hf & Hg).
  destruct (Hg eq_refl) as [Hgr Hdr].
  destruct (prio1_exactly_once fixed dv Hwf s0 (tr j) I1 Hr Hd Hst) as [Hdl Hall].
  split; [exact Hd|]. split; [exact Ho|]. split; [exact Hh|]. split; [exact Hf|]. split; [exact Hz|]. split; [exact Hgr|].
  split; [exact Hdl|]. intros p ch Hp Hch.
  assert (Hp' : In p (prios (tr j))) by (rewrite (gx_prios fixed dv s0 tr lb HI Hex j); exact Hp).
  assert (Hch' : chan_of (tr j) p = Some ch) by (rewrite (gx_chan fixed dv s0 tr lb HI Hex j); exact Hch).
  split; [apply (prio1_exactly_once_per_channel_gen fixed dv Hwf s0 (tr j) I1 Hr Hd Hst p ch Hp' Hch')|].
  destruct (prio1_drained_closed_empty fixed dv s0 (tr j) I1 Hr p (Hdr p Hp')) as (ch' & E & Hc & Hi).
  rewrite Hch' in E. inversion E; subst ch'. auto.
Qed.

(* --- C07 for v1 as a liveness statement; the clock only has to tick when the scheduler waits for it (F_tick_w).
       No hypothesis on the feedback limit and none on the channels (they may be shared by several priorities). *)
Theorem prio1_graceful_eventually_done_w : forall fixed dv s0 tr lb, dv_ok dv -> InitL1 s0 -> H s0 < two64 ->
  execution' fixed dv s0 tr lb -> F_sched fixed dv tr lb -> F_take tr lb -> F_rel tr lb -> F_tick_w tr lb ->
  (exists i, graceful (tr i) = true) ->                                                               (* GracefulStop() is called *)
  (forall p ch, In p (prios s0) -> chan_of s0 p = Some ch -> exists i, closed (tr i) ch = true) ->    (* every registered input is closed *)
  exists j, pcs (tr j) = Done None /\ outq (tr j) = [] /\ held (tr j) = [] /\ fbq (tr j) = [] /\
            (forall p ch, In p (prios s0) -> chan_of s0 p = Some ch ->
               delivered_from (tr j) ch = written (tr j) ch /\ inq (tr j) ch = [] /\ closed (tr j) ch = true).
Proof.
  intros fixed dv s0 tr lb [Hwf Hsr] HI HH Hex F1 F2 F3 F4 Hg Hcl.
  destruct (graceful_done_sec fixed dv Hwf Hsr s0 tr lb HI HH Hex F1 F2 F3 F4 Hg) as [j Hd].
  { intros p ch Hch. apply (Hcl p ch); [|exact Hch]. apply (in_chan s0 (il_init s0 HI)). rewrite Hch. discriminate. }
  exists j. destruct (done_finished fixed dv s0 tr lb Hwf HI Hex j Hd) as (_ & Ho & Hh & Hf & _ & _ & _ & Hall).
  split; [exact Hd|]. split; [exact Ho|]. split; [exact Hh|]. split; [exact Hf|].
  intros p ch Hp Hch. destruct (Hall p ch Hp Hch) as (H1 & H2 & H3 & _). auto.
Qed.
Print Assumptions prio1_graceful_eventually_done_w.

(* --- the statement of the task (time passes: F_tick) *)
Theorem prio1_graceful_eventually_done : forall fixed dv s0 tr lb, dv_ok dv -> InitL1 s0 -> H s0 < two64 ->
  execution' fixed dv s0 tr lb -> F_sched fixed dv tr lb -> F_take tr lb -> F_rel tr lb -> F_tick lb ->
  (exists i, graceful (tr i) = true) ->
  (forall p ch, In p (prios s0) -> chan_of s0 p = Some ch -> exists i, closed (tr i) ch = true) ->
  exists j, pcs (tr j) = Done None /\ outq (tr j) = [] /\ held (tr j) = [] /\ fbq (tr j) = [] /\
            (forall p ch, In p (prios s0) -> chan_of s0 p = Some ch ->
               delivered_from (tr j) ch = written (tr j) ch /\ inq (tr j) ch = [] /\ closed (tr j) ch = true).
Proof. intros fixed dv s0 tr lb Hd HI HH Hex F1 F2 F3 F4. eapply prio1_graceful_eventually_done_w; eauto using F_tick_weaken. Qed.
Print Assumptions prio1_graceful_eventually_done.

(* --- termination is for ever: from some index on every state is Done None, with everything read delivered in order, per channel
       exactly what was written, nothing in flight, and the ghost logs final *)
Theorem prio1_graceful_eventually_finished : forall fixed dv s0 tr lb, dv_ok dv -> InitL1 s0 -> H s0 < two64 ->
  execution' fixed dv s0 tr lb -> F_sched fixed dv tr lb -> F_take tr lb -> F_rel tr lb -> F_tick_w tr lb ->
  (exists i, graceful (tr i) = true) ->
  (forall p ch, In p (prios s0) -> chan_of s0 p = Some ch -> exists i, closed (tr i) ch = true) ->
  exists j, forall k, (j <= k)%nat -> Finished s0 (tr k) /\ delivered (tr k) = delivered (tr j) /\ ~ is_sched (lb k) /\
                                      (forall p ch, In p (prios s0) -> chan_of s0 p = Some ch -> written (tr k) ch = written (tr j) ch).
Proof.
  intros fixed dv s0 tr lb [Hwf Hsr] HI HH Hex F1 F2 F3 F4 Hg Hcl.
  destruct (graceful_done_sec fixed dv Hwf Hsr s0 tr lb HI HH Hex F1 F2 F3 F4 Hg) as [j Hd].
  { intros p ch Hch. apply (Hcl p ch); [|exact Hch]. apply (in_chan s0 (il_init s0 HI)). rewrite Hch. discriminate. }
  exists j. intros k Hk.
  destruct (prio1_done_stable_any fixed dv s0 tr lb (execution'_any _ _ _ _ _ Hex) j k None Hk Hd) as (H1 & H2 & _ & H4).
  split; [apply (done_finished fixed dv s0 tr lb Hwf HI Hex k H1)|]. split; [exact H2|]. split; [exact H4|].
  intros p ch Hp Hch. destruct (done_finished fixed dv s0 tr lb Hwf HI Hex j Hd) as (_ & _ & _ & _ & _ & _ & _ & Hall).
  destruct (Hall p ch Hp Hch) as (_ & Hc & _). apply (gx_closed_from fixed dv s0 tr lb Hex j k ch Hk Hc).
Qed.
Print Assumptions prio1_graceful_eventually_finished.

(* --- the hypotheses are necessary as well: under fairness the discipline ends normally IF AND ONLY IF GracefulStop() is called and
       every registered input is eventually closed (the direction => is prio1_done_without_stop / prio1_drained_closed_empty) *)
Theorem prio1_graceful_done_iff : forall fixed dv s0 tr lb, dv_ok dv -> InitL1 s0 -> H s0 < two64 ->
  execution' fixed dv s0 tr lb -> F_sched fixed dv tr lb -> F_take tr lb -> F_rel tr lb -> F_tick_w tr lb ->
  ((exists j, pcs (tr j) = Done None) <->
   ((exists i, graceful (tr i) = true) /\
    (forall p ch, In p (prios s0) -> chan_of s0 p = Some ch -> exists i, closed (tr i) ch = true))).
Proof.
  intros fixed dv s0 tr lb Hd HI HH Hex F1 F2 F3 F4. split.
  - intros [j Hj]. destruct Hd as [Hwf _].
    destruct (done_finished fixed dv s0 tr lb Hwf HI Hex j Hj) as (_ & _ & _ & _ & _ & Hg & _ & Hall).
    split; [exists j; exact Hg|]. intros p ch Hp Hch. exists j. apply (Hall p ch Hp Hch).
  - intros [Hg Hcl]. destruct (prio1_graceful_eventually_done_w fixed dv s0 tr lb Hd HI HH Hex F1 F2 F3 F4 Hg Hcl) as (j & Hj & _).
    exists j. exact Hj.
Qed.
Print Assumptions prio1_graceful_done_iff.

(* ================= 8. Part A, non-vacuity: a fair execution that calls GracefulStop, closes its inputs and terminates ================= *)
(* A finite script, after which the clock ticks for ever (the discipline is Done: a tick changes nothing).  The script is checked step
   by step: at every state the obligations of fairness are met inside the script, and at its end the discipline is Done. *)
Definition gopb (op : env_op) : bool := match op with StopCall | AddCall _ _ _ | RmvCall _ => false | _ => true end.
Lemma gopb_op op : gopb op = true -> graceful_op op.
Proof. destruct op; cbn; intros E; try exact I; discriminate. Qed.
Definition step_opt' (fixed : bool) (dv : nat -> Divider) (l : label) (s : st) : option st :=
  match l with
  | LSched o => sched_step fixed dv o s
  | LEnv op => if gopb op then env_step s op else None
  | LStutter => Some s
  end.
Lemma step_opt'_is_step fixed dv l s s' : step_opt' fixed dv l s = Some s' -> is_step' fixed dv s l s'.
Proof.
  destruct l as [o|op|]; cbn [step_opt' is_step']; auto.
  - destruct (gopb op) eqn:E; [|discriminate]. intros Hs. split; [apply gopb_op; exact E|exact Hs].
  - intros E; inversion E; reflexivity.
Qed.

Section Fin.
Variable fixed : bool.
Variable dv : nat -> Divider.
Variable s0 : st.
Variable pre : list label.
Hypothesis HI : InitL1 s0.

Definition FOk (s : st) (rest : list label) : Prop :=
  (sched_step fixed dv 0 s = None \/ In (LSched 0) rest) /\ (outq s <> [] -> In (LEnv Take) rest) /\
  (forall p x, In (p, x) (held s) -> In (LEnv (Release p)) rest).
Fixpoint fchain (rest : list label) (s : st) : Prop :=
  FOk s rest /\ match rest with [] => exists e, pcs s = Done e | a :: r => exists s', step_opt' fixed dv a s = Some s' /\ fchain r s' end.
Lemma fchain_ok rest s : fchain rest s -> FOk s rest.
Proof. destruct rest; cbn [fchain]; tauto. Qed.
Lemma fchain_cons a r s s' : FOk s (a :: r) -> step_opt' fixed dv a s = Some s' -> fchain r s' -> fchain (a :: r) s.
Proof. intros H1 H2 H3. cbn [fchain]. split; [exact H1|]. exists s'. auto. Qed.
Lemma fchain_nil s e : FOk s [] -> pcs s = Done e -> fchain [] s.
Proof. intros H1 H2. cbn [fchain]. split; [exact H1|]. exists e. exact H2. Qed.

Hypothesis Hpre : fchain pre s0.

Definition fnxt (c : st * list label) : st * list label :=
  match snd c with [] => c | a :: r => (match step_opt' fixed dv a (fst c) with Some s' => s' | None => fst c end, r) end.
Fixpoint fconf (n : nat) : st * list label := match n with O => (s0, pre) | S m => fnxt (fconf m) end.
Definition ftr (n : nat) : st := fst (fconf n).
Definition flb (n : nat) : label := match snd (fconf n) with [] => LEnv Tick | a :: _ => a end.

Lemma fconf_chain n : fchain (snd (fconf n)) (fst (fconf n)).
Proof.
  induction n as [|n IH]; [exact Hpre|]. cbn [fconf]. unfold fnxt. destruct (snd (fconf n)) as [|a r] eqn:E; [rewrite E; exact IH|].
  cbn [fchain] in IH. destruct IH as [_ (s' & Hs & Hc)]. cbn [fst snd]. rewrite Hs. exact Hc.
Qed.

Lemma fin_execution : execution' fixed dv s0 ftr flb.
Proof.
  constructor; [reflexivity|]. intros i. pose proof (fconf_chain i) as Hc. unfold ftr, flb. cbn [fconf]. unfold fnxt.
  destruct (snd (fconf i)) as [|a r] eqn:E.
  - cbn [fchain] in Hc. destruct Hc as [_ [e He]]. cbn [is_step' env_step graceful_op]. rewrite He. split; [exact I|reflexivity].
  - cbn [fchain] in Hc. destruct Hc as [_ (s' & Hs & _)]. cbn [fst]. rewrite Hs. apply step_opt'_is_step. exact Hs.
Qed.

Lemma fahead l : forall rest n, snd (fconf n) = rest -> In l rest -> exists j, (n <= j)%nat /\ flb j = l.
Proof.
  induction rest as [|a r IH]; intros n E Hin; [destruct Hin|].
  destruct Hin as [->|Hin].
  - exists n. split; [lia|]. unfold flb. rewrite E. reflexivity.
  - destruct (IH (S n)) as (j & Hj & Hl); [cbn [fconf]; unfold fnxt; rewrite E; reflexivity|exact Hin|]. exists j. split; [lia|exact Hl].
Qed.
Lemma fend : forall rest n, snd (fconf n) = rest -> snd (fconf (n + length rest)) = [].
Proof.
  induction rest as [|a r IH]; intros n E; cbn [length].
  - rewrite Nat.add_0_r. exact E.
  - replace (n + S (length r))%nat with (S n + length r)%nat by lia. apply IH. cbn [fconf]. unfold fnxt. rewrite E. reflexivity.
Qed.

Lemma fin_F_sched : F_sched fixed dv ftr flb.
Proof.
  intros i (o & s' & He).
  rewrite (sched_step_oracle fixed dv o _ (gx_stopped fixed dv s0 ftr flb HI fin_execution i) (gx_cmds fixed dv s0 ftr flb HI fin_execution i)) in He.
  destruct (fchain_ok _ _ (fconf_chain i)) as ([Hn|Hin] & _); [unfold ftr in He; congruence|].
  destruct (fahead _ _ i eq_refl Hin) as (j & Hj & Hl). exists j. split; [exact Hj|exists 0%nat; exact Hl].
Qed.
Lemma fin_F_take : F_take ftr flb.
Proof.
  intros i Hne. assert (Hin : In (LEnv Take) (snd (fconf i))).
  { destruct (fchain_ok _ _ (fconf_chain i)) as (_ & Ht & _). apply Ht; exact Hne. }
  apply (fahead _ _ i eq_refl Hin).
Qed.
Lemma fin_F_rel : F_rel ftr flb.
Proof.
  intros i p x Hh. assert (Hin : In (LEnv (Release p)) (snd (fconf i))).
  { destruct (fchain_ok _ _ (fconf_chain i)) as (_ & _ & Hr). apply (Hr p x); exact Hh. }
  apply (fahead _ _ i eq_refl Hin).
Qed.
Lemma fin_F_tick : F_tick flb.
Proof.
  intros i. exists (i + length (snd (fconf i)))%nat. split; [lia|]. unfold flb. rewrite (fend _ i eq_refl). reflexivity.
Qed.
End Fin.

Fixpoint run_l' (fixed : bool) (dv : nat -> Divider) (l : list label) (s : st) : option st :=
  match l with [] => Some s | a :: r => match step_opt' fixed dv a s with Some s' => run_l' fixed dv r s' | None => None end end.
Fixpoint drive_done (fixed : bool) (dv : nat -> Divider) (n : nat) (s : st) : list label :=
  match n with
  | O => []
  | S n' => match pcs s with
            | Done _ => []
            | _ => let l := gpick fixed dv s in l :: match step_opt' fixed dv l s with Some s' => drive_done fixed dv n' s' | None => [] end
            end
  end.

(* the instance: New() with priorities 2 > 1 on channels 0 and 1 (unbuffered), H = 2, Fair divider; items are written to both inputs,
   GracefulStop() is called while data is still pending, input 0 is closed, one more item is written to input 1, then input 1 is closed;
   a greedy fair environment does the rest until the discipline is Done *)
Definition gt_head : list label :=
  [LEnv (Put 0 7); LEnv (Put 1 8); LSched 0; LSched 0; LSched 0; LEnv GracefulCall; LEnv (Close 0); LSched 0; LEnv (Put 1 9); LSched 0; LEnv (Close 1)].
Definition gt_s1 : st := Eval vm_compute in match run_l' true dv_example gt_head pos_s0 with Some s => s | None => pos_s0 end.
Definition gt_pre : list label := Eval vm_compute in gt_head ++ drive_done true dv_example 300 gt_s1.
Definition gt_X : st := Eval vm_compute in match run_l' true dv_example gt_pre pos_s0 with Some s => s | None => pos_s0 end.
Example gt_X_view : pcs gt_X = Done None /\ delivered gt_X = [(2, 7); (1, 8); (1, 9)] /\ graceful gt_X = true.
Proof. vm_compute. repeat split; reflexivity. Qed.

Ltac fin_in := repeat (first [left; reflexivity | right]).
Ltac fok_tac :=
  split; [ first [ left; vm_compute; reflexivity | right; solve [fin_in] ]
  | split; [ first [ (intros _; solve [fin_in]) | (let Hc := fresh in intros Hc; exfalso; apply Hc; reflexivity) ]
           | let p := fresh in let x := fresh in let Hin := fresh in intros p x Hin; vm_compute in Hin;
             repeat (destruct Hin as [Hin|Hin]; [inversion Hin; subst; solve [fin_in] | ]); destruct Hin ] ].
Ltac fchain_tac :=
  lazymatch goal with
  | |- fchain ?f ?d (?a :: ?r) ?s =>
      let res := eval vm_compute in (step_opt' f d a s) in
      lazymatch res with
      | Some ?s1 => apply (fchain_cons f d a r s s1); [fok_tac|vm_compute; reflexivity|fchain_tac]
      end
  | |- fchain ?f ?d [] ?s => apply (fchain_nil f d s None); [fok_tac|vm_compute; reflexivity]
  end.

Lemma gt_chain : fchain true dv_example gt_pre pos_s0.
Proof. unfold gt_pre. fchain_tac. Qed.

Lemma pos_initL1 : InitL1 pos_s0.
Proof.
  apply (init_state_InitL1 dv_example pos_cfg 2 (fun _ => false) 2 dv_example_ok).
  - repeat constructor; cbn [In]; intros Hx; repeat (destruct Hx as [Hx|Hx]; try discriminate); auto.
  - vm_compute; discriminate.
  - vm_compute; discriminate.
  - split; [vm_compute; reflexivity|]. intros p Hp. vm_compute in Hp. destruct Hp as [<-|[<-|[]]]; vm_compute; discriminate.
Qed.

Definition gt_tr : nat -> st := ftr true dv_example pos_s0 gt_pre.
Definition gt_lb : nat -> label := flb true dv_example pos_s0 gt_pre.

(* the theorem instantiated on this execution: all its hypotheses hold *)
Example gt_eventually_done : exists j, pcs (gt_tr j) = Done None /\ outq (gt_tr j) = [] /\ held (gt_tr j) = [] /\ fbq (gt_tr j) = [] /\
  (forall p ch, In p (prios pos_s0) -> chan_of pos_s0 p = Some ch ->
     delivered_from (gt_tr j) ch = written (gt_tr j) ch /\ inq (gt_tr j) ch = [] /\ closed (gt_tr j) ch = true).
Proof.
  apply (prio1_graceful_eventually_done true dv_example pos_s0 gt_tr gt_lb dv_example_ok pos_initL1); [reflexivity| | | | | | |].
  - exact (fin_execution _ _ _ _ gt_chain).
  - exact (fin_F_sched _ _ _ _ pos_initL1 gt_chain).
  - exact (fin_F_take _ _ _ _ gt_chain).
  - exact (fin_F_rel _ _ _ _ gt_chain).
  - exact (fin_F_tick _ _ _ _).
  - exists 6%nat. vm_compute. reflexivity.
  - intros p ch Hp Hch. vm_compute in Hp. destruct Hp as [<-|[<-|[]]]; vm_compute in Hch; inversion Hch; subst ch;
      [exists 7%nat|exists 11%nat]; vm_compute; reflexivity.
Qed.
Print Assumptions gt_eventually_done.

(* ... and read off directly *)
Example gt_view : length gt_pre = 67%nat /\ pcs (gt_tr 67) = Done None /\ pcs (gt_tr 1000) = Done None /\
  delivered (gt_tr 67) = [(2, 7); (1, 8); (1, 9)] /\ written (gt_tr 67) 0%nat = [7] /\ written (gt_tr 67) 1%nat = [8; 9] /\
  delivered_from (gt_tr 67) 1 = [8; 9] /\ gt_lb 1000 = LEnv Tick.
Proof. vm_compute. repeat split; reflexivity. Qed.

(* ================= 9. Part B: Stop() / cancellation (C16), repaired code, every environment, every oracle ================= *)
(* The ready alternatives of the select the scheduler is at ([] when the pc is not at a select). *)
Definition sel_alts (s : st) : list alt :=
  let stop_alt := if stopped s then [AStop] else [] in
  let fb_alt := match fbq s with [] => [] | _ => [AFb] end in
  match pcs s with
  | Top => stop_alt ++ (match cmds s with [] => [] | _ => [ACmd] end) ++ fb_alt
  | WaitFb => stop_alt ++ fb_alt
  | Read _ p _ _ _ =>
      if get (tactic s) p =? 0 then [] else
      match chan_state s p with
      | None => []
      | Some (ch, q, cl, bf) => stop_alt ++ match q with [] => if cl then [AIn] else [] | _ => [AIn] end
      end
  | Send _ _ _ _ _ => stop_alt ++ (if N.of_nat (length (outq s)) <? outcap s then [AOut] else [])
  | LimFb (S _) => stop_alt ++ fb_alt
  | Drain _ => if sum (actual s) =? 0 then [] else stop_alt ++ fb_alt
  | _ => []
  end.
(* the discipline is stopped (so the stop alternative is ready at every select) and the oracle resolves the select to ANOTHER ready
   alternative *)
Definition avoids_stop (s : st) (o : nat) : bool :=
  stopped s && match pick o (sel_alts s) with Some AStop => false | Some _ => true | None => false end.
Definition avoid_at (s : st) (l : label) : bool := match l with LSched o => avoids_stop s o | _ => false end.

(* the stop-preferring oracle 0 never avoids the stop alternative *)
Lemma avoids_stop_oracle0 s : avoids_stop s 0 = false.
Proof.
  unfold avoids_stop, sel_alts. destruct (stopped s); [|reflexivity]. cbn [andb app].
  destruct (pcs s); try reflexivity; try (rewrite pick_first; reflexivity).
  - destruct (get (tactic s) p =? 0); [reflexivity|]. destruct (chan_state s p) as [[[[ch q] cl] bf]|]; [|reflexivity].
    cbn [app]. rewrite pick_first. reflexivity.
  - destruct k; [reflexivity|rewrite pick_first; reflexivity].
  - destruct (sum (actual s) =? 0); [reflexivity|]. cbn [app]. rewrite pick_first. reflexivity.
Qed.

Lemma pick_cons_some {A} o (a : A) l : exists b, pick o (a :: l) = Some b.
Proof. apply pick_some. discriminate. Qed.

(* an oracle that does not avoid the stop alternative acts like the stop-preferring oracle 0 *)
Lemma not_avoid_oracle0 fixed dv o s : stopped s = true -> avoids_stop s o = false ->
  sched_step fixed dv o s = sched_step fixed dv 0 s.
Proof.
  intros Hst Ha. unfold avoids_stop, sel_alts in Ha. rewrite Hst in Ha. cbn [andb app] in Ha.
  unfold sched_step. cbv zeta. rewrite Hst. cbn [app].
  destruct (pcs s) eqn:Epc; try reflexivity.
  - rewrite pick_first. destruct (pick_cons_some o AStop ((match cmds s with [] => [] | _ :: _ => [ACmd] end) ++ match fbq s with [] => [] | _ :: _ => [AFb] end)) as [b Eb].
    rewrite Eb in *. destruct b; try discriminate. reflexivity.
  - rewrite pick_first. destruct (pick_cons_some o AStop (match fbq s with [] => [] | _ :: _ => [AFb] end)) as [b Eb].
    rewrite Eb in *. destruct b; try discriminate. reflexivity.
  - destruct (get (tactic s) p =? 0); [reflexivity|]. destruct (chan_state s p) as [[[[ch q] cl] bf]|]; [|reflexivity].
    cbn [app] in *. rewrite pick_first.
    destruct (pick_cons_some o AStop (match q with [] => if cl then [AIn] else [] | _ :: _ => [AIn] end)) as [b Eb].
    rewrite Eb in *. destruct b; try discriminate. reflexivity.
  - rewrite pick_first. destruct (pick_cons_some o AStop (if N.of_nat (length (outq s)) <? outcap s then [AOut] else [])) as [b Eb].
    rewrite Eb in *. destruct b; try discriminate. reflexivity.
  - destruct k as [|k]; [reflexivity|]. rewrite pick_first.
    destruct (pick_cons_some o AStop (match fbq s with [] => [] | _ :: _ => [AFb] end)) as [b Eb].
    rewrite Eb in *. destruct b; try discriminate. reflexivity.
  - destruct (sum (actual s) =? 0); [reflexivity|]. cbn [app] in *. rewrite pick_first.
    destruct (pick_cons_some o AStop (match fbq s with [] => [] | _ :: _ => [AFb] end)) as [b Eb].
    rewrite Eb in *. destruct b; try discriminate. reflexivity.
Qed.

Lemma env_step_stopped s op s' : env_step s op = Some s' -> stopped s = true -> stopped s' = true.
Proof. intros Hs Hst. unfold env_step in Hs. destruct_matches Hs; try discriminate; inversion Hs; subst; proj; auto. Qed.

Lemma env_step_pc s op s' : env_step s op = Some s' -> op <> Tick -> pcs s' = pcs s.
Proof. intros Hs Hop. destruct op; try congruence; unfold env_step in Hs; destruct_matches Hs; try discriminate; inversion Hs; subst; reflexivity. Qed.

Lemma tick_stop_bound s s' : env_step s Tick = Some s' -> (stop_bound s' <= stop_bound s)%nat /\ (pcs s = Idle -> (stop_bound s' < stop_bound s)%nat).
Proof.
  intros Hs. rewrite tick_step in Hs. inversion Hs; subst s'; clear Hs. destruct (tick_moves s) eqn:Et.
  - unfold tick_moves in Et. destruct (pcs s) eqn:Epc; try discriminate.
    + unfold stop_bound; proj. rewrite Epc. split; [destruct intr; destruct ph; lia|discriminate].
    + unfold stop_bound; proj. rewrite Epc. split; [lia|intros _; lia].
  - split; [lia|]. intros Epc. unfold tick_moves in Et. rewrite Epc in Et. discriminate.
Qed.

Lemma nonsched_step fixed dv s l s' : is_step_any fixed dv s l s' -> ~ is_sched l -> stopped s = true ->
  stopped s' = true /\ (stop_bound s' <= stop_bound s)%nat /\ (l <> LEnv Tick -> pcs s' = pcs s).
Proof.
  intros Hs Hl Hst. destruct l as [o|op|]; cbn [is_step_any] in Hs.
  - exfalso. apply Hl. exists o. reflexivity.
  - split; [eapply env_step_stopped; eauto|]. destruct (env_op_eq_dec op Tick) as [->|Hne].
    + split; [apply (tick_stop_bound s s' Hs)|]. congruence.
    + pose proof (env_step_pc s op s' Hs Hne) as Epc. split; [|intros _; exact Epc].
      unfold stop_bound. rewrite Epc, (env_step_prios s op s' Hs). lia.
  - subst s'. split; [exact Hst|]. split; [lia|]. reflexivity.
Qed.

Lemma idle_dec (c : pc) : {c = Idle} + {c <> Idle}.
Proof. destruct c; auto; right; discriminate. Qed.

Section Stop.
Variable dv : nat -> Divider.
Variable s0 : st.
Variable tr : nat -> st.
Variable lb : nat -> label.
Hypothesis Hex : execution_any true dv s0 tr lb.
Hypothesis Fsched : F_sched true dv tr lb.
Hypothesis Ftick : F_tick_w tr lb.

(* the number of selects, among the first n steps, at which the oracle avoided the ready stop alternative *)
Fixpoint navoid (n : nat) : nat := match n with O => 0%nat | S m => (navoid m + if avoid_at (tr m) (lb m) then 1 else 0)%nat end.

Let Astep := exa_step true dv s0 tr lb Hex.

Lemma navoid_mono k j : (k <= j)%nat -> (navoid k <= navoid j)%nat.
Proof. intros Hle. apply (along (fun i => (navoid k <= navoid i)%nat) k j Hle); [|lia]. intros m _ Hm. cbn [navoid]. lia. Qed.
Lemma navoid_nonsched m : ~ is_sched (lb m) -> navoid (S m) = navoid m.
Proof. intros Hl. cbn [navoid]. destruct (lb m) as [o| |]; cbn [avoid_at]; try lia. exfalso. apply Hl. exists o. reflexivity. Qed.

(* a stretch without scheduler steps *)
Lemma nonsched_stretch k m : (k <= m)%nat -> (forall i, (k <= i < m)%nat -> ~ is_sched (lb i)) -> stopped (tr k) = true ->
  stopped (tr m) = true /\ (stop_bound (tr m) <= stop_bound (tr k))%nat /\ navoid m = navoid k.
Proof.
  intros Hle Hns Hst.
  apply (along (fun i => stopped (tr i) = true /\ (stop_bound (tr i) <= stop_bound (tr k))%nat /\ navoid i = navoid k) k m Hle); [|auto].
  intros i Hi (H1 & H2 & H3). destruct (nonsched_step true dv _ _ _ (Astep i) (Hns i Hi) H1) as (G1 & G2 & _).
  split; [exact G1|]. split; [lia|]. rewrite (navoid_nonsched i (Hns i Hi)). exact H3.
Qed.

(* progress: from a stopped state that is not Done, after finitely many steps that change neither the count nor (upwards) the bound,
   a step either is one more avoidance or decreases the bound *)
Lemma stop_progress k : stopped (tr k) = true -> (forall e, pcs (tr k) <> Done e) ->
  exists m, (k <= m)%nat /\ stopped (tr (S m)) = true /\
    ((navoid (S m) = S (navoid k)) \/ (navoid (S m) = navoid k /\ (stop_bound (tr (S m)) < stop_bound (tr k))%nat)).
Proof.
  intros Hst Hnd. destruct (idle_dec (pcs (tr k))) as [Epc|Hni].
  2:{ destruct (prio1_stop_never_blocked true dv (tr k) Hst Hnd Hni) as [s1 He].
      destruct (Fsched k) as (j & Hj & Hl); [exists 0%nat, s1; exact He|].
      destruct (first_from (fun m => is_sched (lb m)) (fun m => is_sched_dec (lb m)) k j Hj Hl) as (m & Hm & [o Hlm] & Hmin).
      destruct (nonsched_stretch k m ltac:(lia) Hmin Hst) as (Hstm & Hbm & Hnm).
      exists m. split; [lia|].
      pose proof (Astep m) as Hs. rewrite Hlm in Hs. cbn [is_step_any] in Hs.
      destruct (sched_step_graceful _ _ _ _ _ Hs) as [_ Est]. split; [congruence|].
      cbn [navoid]. rewrite Hlm. cbn [avoid_at]. destruct (avoids_stop (tr m) o) eqn:Eav; [left; lia|right; split; [lia|]].
      rewrite (not_avoid_oracle0 true dv o (tr m) Hstm Eav) in Hs.
      destruct (auto_step_stop true dv (tr m) eq_refl Hstm) as (s2 & Ha & _ & Hlt).
      { intros e E. unfold sched_step in Hs. rewrite E in Hs. discriminate. }
      unfold auto_step in Ha. rewrite Hs in Ha. inversion Ha; subst s2. lia. }
  (* Idle: the clock *)
  destruct (Ftick k) as (j & Hj & Hl); [unfold tick_moves; rewrite Epc; reflexivity|].
  destruct (first_from (fun m => is_sched (lb m) \/ lb m = LEnv Tick)) with (k := k) (j := j) as (m & Hm & HQ & Hmin); [|exact Hj|right; exact Hl|].
  { intros m. destruct (is_sched_dec (lb m)); [left; left; assumption|].
    destruct (label_eq_dec (lb m) (LEnv Tick)); [left; right; assumption|right; tauto]. }
  assert (Hns : forall i, (k <= i < m)%nat -> ~ is_sched (lb i)) by (intros i Hi Hx; apply (Hmin i Hi); left; exact Hx).
  destruct (nonsched_stretch k m ltac:(lia) Hns Hst) as (Hstm & Hbm & Hnm).
  assert (Epm : pcs (tr m) = Idle).
  { rewrite <- Epc. apply (along (fun i => stopped (tr i) = true /\ pcs (tr i) = pcs (tr k)) k m); [lia| |auto].
    intros i Hi [H1 H2]. destruct (nonsched_step true dv _ _ _ (Astep i) (Hns i Hi) H1) as (G1 & _ & G3). split; [exact G1|].
    rewrite G3; [exact H2|]. intros E. apply (Hmin i Hi). right. exact E. }
  pose proof (Astep m) as Hs. destruct HQ as [[o Hlm]|Hlm]; rewrite Hlm in Hs; cbn [is_step_any] in Hs.
  { unfold sched_step in Hs. rewrite Epm in Hs. discriminate. }
  exists m. split; [lia|]. split; [eapply env_step_stopped; eauto|]. right.
  split; [rewrite navoid_nonsched; [exact Hnm|rewrite Hlm; intros [o E]; discriminate]|].
  destruct (tick_stop_bound _ _ Hs) as [_ Hlt]. specialize (Hlt Epm). lia.
Qed.

Hypothesis Hstop : exists i, stopped (tr i) = true.
(* the oracle avoids the (ready) stop alternative only finitely often *)
Hypothesis Fstop : exists B, forall n, (navoid n <= B)%nat.

Theorem stop_done_sec : exists j e, pcs (tr j) = Done e.
Proof.
  destruct Hstop as [i0 Hst0]. destruct Fstop as [B HB].
  assert (Hmain : forall r b k, (B - navoid k <= r)%nat -> (stop_bound (tr k) <= b)%nat -> stopped (tr k) = true ->
            exists j e, pcs (tr j) = Done e).
  { induction r as [r IHr] using lt_wf_ind. induction b as [b IHb] using lt_wf_ind. intros k Hr Hb Hst.
    assert (Hd : (exists e, pcs (tr k) = Done e) \/ (forall e, pcs (tr k) <> Done e))
      by (destruct (pcs (tr k)); eauto; right; intros; discriminate).
    destruct Hd as [[e He]|Hnd]; [exists k, e; exact He|].
    destruct (stop_progress k Hst Hnd) as (m & Hm & Hstm & [Hav|[Hsame Hlt]]).
    - pose proof (HB (S m)) as Hle. apply (IHr (B - navoid (S m))%nat ltac:(lia) (stop_bound (tr (S m))) (S m)); [lia|lia|exact Hstm].
    - apply (IHb (stop_bound (tr (S m))) ltac:(lia) (S m)); [lia|lia|exact Hstm]. }
  apply (Hmain (B - navoid i0)%nat (stop_bound (tr i0)) i0); [lia|lia|exact Hst0].
Qed.
End Stop.

(* --- the closed theorems of Part B.  No hypothesis on the initial state, on the divider, on the environment (producers, consumers,
       handlers, AddInput/RemoveInput callers may do anything or nothing).  The hypothesis on the oracle: once the discipline is stopped
       the selects resolve to a non-stop alternative only finitely often (F_stop below).  It is NECESSARY (prio1_stop_done_iff): a
       select of Go is random, so with probability 1 it holds, but an adversarial oracle can keep the loop alive as long as the
       environment feeds it (prio1_stop_needs_oracle_fairness). *)
Definition F_stop (tr : nat -> st) (lb : nat -> label) : Prop := exists B, forall n, (navoid tr lb n <= B)%nat.

Theorem prio1_stop_eventually_done_w : forall dv s0 tr lb, execution_any true dv s0 tr lb ->
  F_sched true dv tr lb -> F_tick_w tr lb -> F_stop tr lb ->
  (exists i, stopped (tr i) = true) -> exists j e, pcs (tr j) = Done e.
Proof. intros dv s0 tr lb Hex F1 F2 F3 Hst. exact (stop_done_sec dv s0 tr lb Hex F1 F2 Hst F3). Qed.
Print Assumptions prio1_stop_eventually_done_w.

Theorem prio1_stop_eventually_done : forall dv s0 tr lb, Init1 s0 -> execution_any true dv s0 tr lb ->
  F_sched true dv tr lb -> F_tick lb -> F_stop tr lb ->
  (exists i, stopped (tr i) = true) -> exists j e, pcs (tr j) = Done e.
Proof. intros dv s0 tr lb _ Hex F1 F2 F3 Hst. eapply prio1_stop_eventually_done_w; eauto using F_tick_weaken. Qed.
Print Assumptions prio1_stop_eventually_done.

(* the hypothesis on the oracle is necessary: in a terminating execution the selects avoid the stop alternative finitely often *)
Theorem prio1_done_F_stop : forall fixed dv s0 tr lb, execution_any fixed dv s0 tr lb ->
  (exists j e, pcs (tr j) = Done e) -> F_stop tr lb.
Proof.
  intros fixed dv s0 tr lb Hex (j & e & Hd). exists (navoid tr lb j). intros n.
  destruct (le_lt_dec n j) as [Hle|Hlt]; [apply navoid_mono; exact Hle|].
  assert (E : navoid tr lb n = navoid tr lb j); [|lia].
  apply (along (fun i => navoid tr lb i = navoid tr lb j) j n); [lia| |reflexivity].
  intros m Hm Hi. rewrite navoid_nonsched; [exact Hi|].
  apply (prio1_done_stable_any fixed dv s0 tr lb Hex j m e); [lia|exact Hd].
Qed.

Theorem prio1_stop_done_iff : forall dv s0 tr lb, execution_any true dv s0 tr lb ->
  F_sched true dv tr lb -> F_tick_w tr lb -> (exists i, stopped (tr i) = true) ->
  ((exists j e, pcs (tr j) = Done e) <-> F_stop tr lb).
Proof.
  intros dv s0 tr lb Hex F1 F2 Hst. split.
  - apply (prio1_done_F_stop true dv s0 tr lb Hex).
  - intros F3. apply (prio1_stop_eventually_done_w dv s0 tr lb Hex F1 F2 F3 Hst).
Qed.
Print Assumptions prio1_stop_done_iff.


(* ================= 10. Part B, sharper: the oracle only matters where the ENVIRONMENT feeds the loop ================= *)
(* Avoiding the stop alternative in favour of a feedback (AFb) or of the output (AOut) consumes something that is in the pipeline and is
   bounded by the potential psi below; only two choices can be repeated for ever, because the environment can feed them for ever:
   taking a command (ACmd at the top of the loop: AddInput/RemoveInput callers) and reading an input (AIn: producers).  It is enough
   that THESE are taken finitely often once the discipline is stopped. *)
Definition psi (s : st) : nat := (4 * in_send (pcs s) + 3 * length (outq s) + 2 * length (held s) + length (fbq s))%nat.
Definition counted (s : st) (o : nat) : bool :=
  avoids_stop s o &&
  match pcs s with
  | Top => match pick o (sel_alts s) with Some ACmd => true | _ => false end
  | Read _ _ _ _ _ => true
  | _ => false
  end.
Definition count_at (s : st) (l : label) : bool := match l with LSched o => counted s o | _ => false end.

Lemma counted_avoids s o : counted s o = true -> avoids_stop s o = true.
Proof. unfold counted. intros E. apply andb_prop in E. apply E. Qed.

Lemma nonsched_psi fixed dv s l s' : is_step_any fixed dv s l s' -> ~ is_sched l -> (psi s' <= psi s)%nat.
Proof.
  intros Hs Hl. destruct l as [o|op|]; cbn [is_step_any] in Hs.
  - exfalso. apply Hl. exists o. reflexivity.
  - destruct op as [c x|c| |p| | | |c p bf|p]; cbn [env_step] in Hs.
    + destruct (closed s c); [discriminate|]. inversion Hs; subst s'; unfold psi; proj; lia.
    + inversion Hs; subst s'; unfold psi; proj; lia.
    + destruct (outq s) as [|px q] eqn:Eo; [discriminate|]. inversion Hs; subst s'; unfold psi; proj. rewrite Eo. cbn [length]. lia.
    + destruct (remove1 p (held s)) as [h|] eqn:Er; [|discriminate]. inversion Hs; subst s'; unfold psi; proj.
      rewrite (remove1_length _ _ _ Er), app_length. cbn [length]. lia.
    + change (env_step s Tick = Some s') in Hs. rewrite tick_step in Hs. inversion Hs; subst s'. destruct (tick_moves s); [|lia].
      destruct (pcs s) eqn:Epc; try lia; unfold psi; proj; rewrite Epc; [destruct intr|]; cbn [in_send]; lia.
    + inversion Hs; subst s'; unfold psi; proj; lia.
    + inversion Hs; subst s'; unfold psi; proj; lia.
    + inversion Hs; subst s'; unfold psi; proj; lia.
    + inversion Hs; subst s'; unfold psi; proj; lia.
  - subst s'. lia.
Qed.

Lemma in_send_calc_pc s c : calc_pc s c -> in_send c = 0%nat.
Proof. intros [->|[->|[e ->]]]; reflexivity. Qed.

(* the stop-preferring resolution never adds to the pipeline *)
Lemma sched0_psi dv s s' : stopped s = true -> sched_step true dv 0 s = Some s' -> (psi s' <= psi s)%nat.
Proof.
  intros Hst Hs. unfold sched_step in Hs. cbv zeta in Hs. rewrite Hst in Hs. cbn [app] in Hs. destruct (pcs s) eqn:Epc.
  - rewrite pick_first in Hs. inversion Hs; subst s'; unfold psi; proj; rewrite Epc; cbn [in_send]; lia.
  - inversion Hs; subst s'. destruct (step_calc_chan dv s) as (Eo & Eh & Ef & _). destruct (step_calc_shape dv s) as [_ Hpc].
    unfold psi. rewrite Eo, Eh, Ef, Epc, (in_send_calc_pc _ _ Hpc). cbn [in_send]. lia.
  - rewrite pick_first in Hs. inversion Hs; subst s'; unfold psi; proj; rewrite Epc; cbn [in_send]; lia.
  - destruct rest; inversion Hs; subst s'; unfold psi; proj; rewrite Epc; [destruct ph|destruct (drained s n)]; cbn [in_send]; lia.
  - assert (Hgo : forall t, t = with_pc s (Prio ph rest proc) -> (psi t <= psi s)%nat).
    { intros t ->. unfold psi; proj; rewrite Epc; cbn [in_send]; lia. }
    destruct (get (tactic s) p =? 0); [inversion Hs; apply Hgo; reflexivity|].
    destruct (chan_state s p) as [[[[ch q] cl] bf]|]; [|inversion Hs; apply Hgo; reflexivity].
    cbn [app] in Hs. rewrite pick_first in Hs. inversion Hs; apply Hgo; reflexivity.
  - rewrite pick_first in Hs. inversion Hs; subst s'; unfold psi; proj; rewrite Epc; cbn [in_send]; lia.
  - inversion Hs; subst s'. destruct (step_recalc_chan dv s proc) as (Eo & Eh & Ef & _). destruct (step_recalc_shape dv s proc) as [_ Hpc].
    unfold psi. rewrite Eo, Eh, Ef, Epc. destruct Hpc as [E|[E|[e E]]]; rewrite E; cbn [in_send]; lia.
  - destruct (proc =? 0); [destruct (graceful s && forallb (drained s) (prios s))|]; inversion Hs; subst s'; unfold psi; proj; rewrite Epc; cbn [in_send]; lia.
  - discriminate.
  - destruct k as [|k]; [|rewrite pick_first in Hs]; inversion Hs; subst s'; unfold psi; proj; rewrite Epc; cbn [in_send]; lia.
  - destruct (sum (actual s) =? 0); [|rewrite pick_first in Hs]; inversion Hs; subst s'; unfold psi; proj; rewrite Epc; cbn [in_send]; lia.
  - discriminate.
Qed.

(* an avoidance that is not counted consumes from the pipeline *)
Lemma uncounted_psi dv o s s' : stopped s = true -> avoids_stop s o = true -> counted s o = false ->
  sched_step true dv o s = Some s' -> (psi s' < psi s)%nat.
Proof.
  intros Hst Ha Hc Hs. unfold counted in Hc. rewrite Ha in Hc. cbn [andb] in Hc.
  unfold avoids_stop in Ha. rewrite Hst in Ha. cbn [andb] in Ha. unfold sel_alts in Ha, Hc. rewrite Hst in Ha, Hc.
  unfold sched_step in Hs. cbv zeta in Hs. rewrite Hst in Hs. destruct (pcs s) eqn:Epc; try discriminate.
  - destruct (pick o ([AStop] ++ (match cmds s with [] => [] | _ :: _ => [ACmd] end) ++ match fbq s with [] => [] | _ :: _ => [AFb] end)) as [a|];
      [|discriminate]. destruct a; try discriminate;
      (destruct (fbq s) as [|q r] eqn:Ef; [discriminate|]; inversion Hs; subst s'; unfold psi; proj; rewrite Epc, Ef; cbn [in_send length]; lia).
  - destruct (pick o ([AStop] ++ match fbq s with [] => [] | _ :: _ => [AFb] end)) as [a|]; [|discriminate]. destruct a; try discriminate;
      (destruct (fbq s) as [|q r] eqn:Ef; [discriminate|]; inversion Hs; subst s'; unfold psi; proj; rewrite Epc, Ef; cbn [in_send length]; lia).
  - destruct (pick o ([AStop] ++ (if N.of_nat (length (outq s)) <? outcap s then [AOut] else []))) as [a|]; [|discriminate].
    destruct a; try discriminate; (inversion Hs; subst s'; unfold psi; proj; rewrite Epc, app_length; cbn [in_send length]; lia).
  - destruct k as [|k]; [discriminate|].
    destruct (pick o ([AStop] ++ match fbq s with [] => [] | _ :: _ => [AFb] end)) as [a|]; [|discriminate]. destruct a; try discriminate;
      (destruct (fbq s) as [|q r] eqn:Ef; [discriminate|]; inversion Hs; subst s'; unfold psi; proj; rewrite Epc, Ef; cbn [in_send length]; lia).
  - destruct (sum (actual s) =? 0); [discriminate|].
    destruct (pick o ([AStop] ++ match fbq s with [] => [] | _ :: _ => [AFb] end)) as [a|]; [|discriminate]. destruct a; try discriminate;
      (destruct (fbq s) as [|q r] eqn:Ef; [discriminate|]; inversion Hs; subst s'; unfold psi; proj; rewrite Epc, Ef; cbn [in_send length]; lia).
Qed.

Section Stop2.
Variable dv : nat -> Divider.
Variable s0 : st.
Variable tr : nat -> st.
Variable lb : nat -> label.
Hypothesis Hex : execution_any true dv s0 tr lb.
Hypothesis Fsched : F_sched true dv tr lb.
Hypothesis Ftick : F_tick_w tr lb.

(* the number of times, among the first n steps, the stopped scheduler took a command or read an input instead of stopping *)
Fixpoint ncount (n : nat) : nat := match n with O => 0%nat | S m => (ncount m + if count_at (tr m) (lb m) then 1 else 0)%nat end.

Let Astep := exa_step true dv s0 tr lb Hex.

Lemma ncount_nonsched m : ~ is_sched (lb m) -> ncount (S m) = ncount m.
Proof. intros Hl. cbn [ncount]. destruct (lb m) as [o| |]; cbn [count_at]; try lia. exfalso. apply Hl. exists o. reflexivity. Qed.
Lemma ncount_le_navoid n : (ncount n <= navoid tr lb n)%nat.
Proof.
  induction n as [|n IH]; cbn [ncount navoid]; [lia|]. destruct (lb n) as [o| |]; cbn [count_at avoid_at]; try lia.
  destruct (counted (tr n) o) eqn:Ec; [rewrite (counted_avoids _ _ Ec); lia|]. destruct (avoids_stop (tr n) o); lia.
Qed.

Lemma nonsched_stretch2 k m : (k <= m)%nat -> (forall i, (k <= i < m)%nat -> ~ is_sched (lb i)) -> stopped (tr k) = true ->
  stopped (tr m) = true /\ (stop_bound (tr m) <= stop_bound (tr k))%nat /\ (psi (tr m) <= psi (tr k))%nat /\ ncount m = ncount k.
Proof.
  intros Hle Hns Hst.
  apply (along (fun i => stopped (tr i) = true /\ (stop_bound (tr i) <= stop_bound (tr k))%nat /\ (psi (tr i) <= psi (tr k))%nat /\
                         ncount i = ncount k) k m Hle); [|auto].
  intros i Hi (H1 & H2 & H3 & H4). destruct (nonsched_step true dv _ _ _ (Astep i) (Hns i Hi) H1) as (G1 & G2 & _).
  pose proof (nonsched_psi true dv _ _ _ (Astep i) (Hns i Hi)) as G3.
  split; [exact G1|]. split; [lia|]. split; [lia|]. rewrite (ncount_nonsched i (Hns i Hi)). exact H4.
Qed.

Lemma stop_progress2 k : stopped (tr k) = true -> (forall e, pcs (tr k) <> Done e) ->
  exists m, (k <= m)%nat /\ stopped (tr (S m)) = true /\
    ((ncount (S m) = S (ncount k)) \/
     (ncount (S m) = ncount k /\ ((psi (tr (S m)) < psi (tr k))%nat \/
                                  ((psi (tr (S m)) <= psi (tr k))%nat /\ (stop_bound (tr (S m)) < stop_bound (tr k))%nat)))).
Proof.
  intros Hst Hnd. destruct (idle_dec (pcs (tr k))) as [Epc|Hni].
  2:{ destruct (prio1_stop_never_blocked true dv (tr k) Hst Hnd Hni) as [s1 He].
      destruct (Fsched k) as (j & Hj & Hl); [exists 0%nat, s1; exact He|].
      destruct (first_from (fun m => is_sched (lb m)) (fun m => is_sched_dec (lb m)) k j Hj Hl) as (m & Hm & [o Hlm] & Hmin).
      destruct (nonsched_stretch2 k m ltac:(lia) Hmin Hst) as (Hstm & Hbm & Hpm & Hnm).
      exists m. split; [lia|].
      pose proof (Astep m) as Hs. rewrite Hlm in Hs. cbn [is_step_any] in Hs.
      destruct (sched_step_graceful _ _ _ _ _ Hs) as [_ Est]. split; [congruence|].
      cbn [ncount]. rewrite Hlm. cbn [count_at]. destruct (counted (tr m) o) eqn:Ec; [left; lia|right; split; [lia|]].
      destruct (avoids_stop (tr m) o) eqn:Eav.
      - left. pose proof (uncounted_psi dv o _ _ Hstm Eav Ec Hs). lia.
      - right. rewrite (not_avoid_oracle0 true dv o (tr m) Hstm Eav) in Hs.
        pose proof (sched0_psi dv _ _ Hstm Hs) as Hp0.
        destruct (auto_step_stop true dv (tr m) eq_refl Hstm) as (s2 & Ha & _ & Hlt).
        { intros e E. unfold sched_step in Hs. rewrite E in Hs. discriminate. }
        unfold auto_step in Ha. rewrite Hs in Ha. inversion Ha; subst s2. split; lia. }
  destruct (Ftick k) as (j & Hj & Hl); [unfold tick_moves; rewrite Epc; reflexivity|].
  destruct (first_from (fun m => is_sched (lb m) \/ lb m = LEnv Tick)) with (k := k) (j := j) as (m & Hm & HQ & Hmin); [|exact Hj|right; exact Hl|].
  { intros m. destruct (is_sched_dec (lb m)); [left; left; assumption|].
    destruct (label_eq_dec (lb m) (LEnv Tick)); [left; right; assumption|right; tauto]. }
  assert (Hns : forall i, (k <= i < m)%nat -> ~ is_sched (lb i)) by (intros i Hi Hx; apply (Hmin i Hi); left; exact Hx).
  destruct (nonsched_stretch2 k m ltac:(lia) Hns Hst) as (Hstm & Hbm & Hpm & Hnm).
  assert (Epm : pcs (tr m) = Idle).
  { rewrite <- Epc. apply (along (fun i => stopped (tr i) = true /\ pcs (tr i) = pcs (tr k)) k m); [lia| |auto].
    intros i Hi [H1 H2]. destruct (nonsched_step true dv _ _ _ (Astep i) (Hns i Hi) H1) as (G1 & _ & G3). split; [exact G1|].
    rewrite G3; [exact H2|]. intros E. apply (Hmin i Hi). right. exact E. }
  pose proof (Astep m) as Hs. destruct HQ as [[o Hlm]|Hlm]; rewrite Hlm in Hs; cbn [is_step_any] in Hs.
  { unfold sched_step in Hs. rewrite Epm in Hs. discriminate. }
  assert (Hnsm : ~ is_sched (lb m)) by (rewrite Hlm; intros [o E]; discriminate).
  exists m. split; [lia|]. split; [eapply env_step_stopped; eauto|]. right.
  split; [rewrite ncount_nonsched; [exact Hnm|exact Hnsm]|]. right.
  pose proof (nonsched_psi true dv (tr m) (lb m) (tr (S m)) (Astep m) Hnsm) as Hp.
  destruct (tick_stop_bound _ _ Hs) as [_ Hlt]. specialize (Hlt Epm). split; lia.
Qed.

Hypothesis Hstop : exists i, stopped (tr i) = true.
Hypothesis Fstop : exists B, forall n, (ncount n <= B)%nat.

Theorem stop_done_sec2 : exists j e, pcs (tr j) = Done e.
Proof.
  destruct Hstop as [i0 Hst0]. destruct Fstop as [B HB].
  assert (Hmain : forall r p b k, (B - ncount k <= r)%nat -> (psi (tr k) <= p)%nat -> (stop_bound (tr k) <= b)%nat -> stopped (tr k) = true ->
            exists j e, pcs (tr j) = Done e).
  { induction r as [r IHr] using lt_wf_ind. induction p as [p IHp] using lt_wf_ind. induction b as [b IHb] using lt_wf_ind.
    intros k Hr Hp Hb Hst.
    assert (Hd : (exists e, pcs (tr k) = Done e) \/ (forall e, pcs (tr k) <> Done e))
      by (destruct (pcs (tr k)); eauto; right; intros; discriminate).
    destruct Hd as [[e He]|Hnd]; [exists k, e; exact He|].
    destruct (stop_progress2 k Hst Hnd) as (m & Hm & Hstm & [Hav|[Hsame [Hlt|[Hle Hlt]]]]).
    - pose proof (HB (S m)) as Hle.
      apply (IHr (B - ncount (S m))%nat ltac:(lia) (psi (tr (S m))) (stop_bound (tr (S m))) (S m)); [lia|lia|lia|exact Hstm].
    - apply (IHp (psi (tr (S m))) ltac:(lia) (stop_bound (tr (S m))) (S m)); [lia|lia|lia|exact Hstm].
    - apply (IHb (stop_bound (tr (S m))) ltac:(lia) (S m)); [lia|lia|lia|exact Hstm]. }
  apply (Hmain (B - ncount i0)%nat (psi (tr i0)) (stop_bound (tr i0)) i0); [lia|lia|lia|exact Hst0].
Qed.
End Stop2.

(* once stopped, the scheduler takes a new command or reads from an input (instead of stopping) only finitely often *)
Definition F_stop_in (tr : nat -> st) (lb : nat -> label) : Prop := exists B, forall n, (ncount tr lb n <= B)%nat.
Lemma F_stop_weaken tr lb : F_stop tr lb -> F_stop_in tr lb.
Proof. intros [B HB]. exists B. intros n. pose proof (ncount_le_navoid tr lb n). pose proof (HB n). lia. Qed.

Theorem prio1_stop_eventually_done_strong : forall dv s0 tr lb, execution_any true dv s0 tr lb ->
  F_sched true dv tr lb -> F_tick_w tr lb -> F_stop_in tr lb ->
  (exists i, stopped (tr i) = true) -> exists j e, pcs (tr j) = Done e.
Proof. intros dv s0 tr lb Hex F1 F2 F3 Hst. exact (stop_done_sec2 dv s0 tr lb Hex F1 F2 Hst F3). Qed.
Print Assumptions prio1_stop_eventually_done_strong.

Theorem prio1_stop_done_iff_strong : forall dv s0 tr lb, execution_any true dv s0 tr lb ->
  F_sched true dv tr lb -> F_tick_w tr lb -> (exists i, stopped (tr i) = true) ->
  ((exists j e, pcs (tr j) = Done e) <-> F_stop_in tr lb).
Proof.
  intros dv s0 tr lb Hex F1 F2 Hst. split.
  - intros Hd. apply F_stop_weaken. apply (prio1_done_F_stop true dv s0 tr lb Hex Hd).
  - intros F3. apply (prio1_stop_eventually_done_strong dv s0 tr lb Hex F1 F2 F3 Hst).
Qed.
Print Assumptions prio1_stop_done_iff_strong.

(* ================= 11. Part B, non-vacuity: a script with Stop(), then the clock for ever ================= *)
Definition step_opt_any (fixed : bool) (dv : nat -> Divider) (l : label) (s : st) : option st :=
  match l with LSched o => sched_step fixed dv o s | LEnv op => env_step s op | LStutter => Some s end.
Lemma step_opt_any_is_step fixed dv l s s' : step_opt_any fixed dv l s = Some s' -> is_step_any fixed dv s l s'.
Proof. destruct l as [o|op|]; cbn [step_opt_any is_step_any]; auto. intros E; inversion E; reflexivity. Qed.

Section FinAny.
Variable fixed : bool.
Variable dv : nat -> Divider.
Variable s0 : st.
Variable pre : list label.

Definition AOk (s : st) (rest : list label) : Prop := (exists e, pcs s = Done e) \/ exists o, In (LSched o) rest.
Fixpoint achain (rest : list label) (s : st) : Prop :=
  AOk s rest /\ match rest with [] => exists e, pcs s = Done e | a :: r => exists s', step_opt_any fixed dv a s = Some s' /\ achain r s' end.
Lemma achain_ok rest s : achain rest s -> AOk s rest.
Proof. destruct rest; cbn [achain]; tauto. Qed.
Lemma achain_cons a r s s' : AOk s (a :: r) -> step_opt_any fixed dv a s = Some s' -> achain r s' -> achain (a :: r) s.
Proof. intros H1 H2 H3. cbn [achain]. split; [exact H1|]. exists s'. auto. Qed.
Lemma achain_nil s e : pcs s = Done e -> achain [] s.
Proof. intros H2. cbn [achain]. split; [left; exists e; exact H2|exists e; exact H2]. Qed.

Hypothesis Hpre : achain pre s0.

Definition anxt (c : st * list label) : st * list label :=
  match snd c with [] => c | a :: r => (match step_opt_any fixed dv a (fst c) with Some s' => s' | None => fst c end, r) end.
Fixpoint aconf (n : nat) : st * list label := match n with O => (s0, pre) | S m => anxt (aconf m) end.
Definition atr (n : nat) : st := fst (aconf n).
Definition alb (n : nat) : label := match snd (aconf n) with [] => LEnv Tick | a :: _ => a end.

Lemma aconf_chain n : achain (snd (aconf n)) (fst (aconf n)).
Proof.
  induction n as [|n IH]; [exact Hpre|]. cbn [aconf]. unfold anxt. destruct (snd (aconf n)) as [|a r] eqn:E; [rewrite E; exact IH|].
  cbn [achain] in IH. destruct IH as [_ (s' & Hs & Hc)]. cbn [fst snd]. rewrite Hs. exact Hc.
Qed.
Lemma fin_execution_any : execution_any fixed dv s0 atr alb.
Proof.
  constructor; [reflexivity|]. intros i. pose proof (aconf_chain i) as Hc. unfold atr, alb. cbn [aconf]. unfold anxt.
  destruct (snd (aconf i)) as [|a r] eqn:E.
  - cbn [achain] in Hc. destruct Hc as [_ [e He]]. cbn [is_step_any env_step]. rewrite He. reflexivity.
  - cbn [achain] in Hc. destruct Hc as [_ (s' & Hs & _)]. cbn [fst]. rewrite Hs. apply step_opt_any_is_step. exact Hs.
Qed.
Lemma aahead l : forall rest n, snd (aconf n) = rest -> In l rest -> exists j, (n <= j)%nat /\ alb j = l.
Proof.
  induction rest as [|a r IH]; intros n E Hin; [destruct Hin|].
  destruct Hin as [->|Hin].
  - exists n. split; [lia|]. unfold alb. rewrite E. reflexivity.
  - destruct (IH (S n)) as (j & Hj & Hl); [cbn [aconf]; unfold anxt; rewrite E; reflexivity|exact Hin|]. exists j. split; [lia|exact Hl].
Qed.
Lemma aend : forall rest n, snd (aconf n) = rest -> snd (aconf (n + length rest)) = [].
Proof.
  induction rest as [|a r IH]; intros n E; cbn [length].
  - rewrite Nat.add_0_r. exact E.
  - replace (n + S (length r))%nat with (S n + length r)%nat by lia. apply IH. cbn [aconf]. unfold anxt. rewrite E. reflexivity.
Qed.
Lemma fin_any_F_sched : F_sched fixed dv atr alb.
Proof.
  intros i (o & s' & He). destruct (achain_ok _ _ (aconf_chain i)) as [[e Hd]|[o' Hin]].
  - unfold atr in He. rewrite (prio1_done_is_final fixed dv o _ e Hd) in He. discriminate.
  - destruct (aahead _ _ i eq_refl Hin) as (j & Hj & Hl). exists j. split; [exact Hj|exists o'; exact Hl].
Qed.
Lemma fin_any_F_tick : F_tick alb.
Proof. intros i. exists (i + length (snd (aconf i)))%nat. split; [lia|]. unfold alb. rewrite (aend _ i eq_refl). reflexivity. Qed.
Lemma fin_any_done : exists j e, pcs (atr j) = Done e.
Proof.
  exists (0 + length pre)%nat. pose proof (aconf_chain (0 + length pre)) as Hc. rewrite (aend pre 0%nat eq_refl) in Hc.
  cbn [achain] in Hc. destruct Hc as [_ [e He]]. exists e. exact He.
Qed.
End FinAny.

Ltac aok_tac := first [ left; eexists; vm_compute; reflexivity | right; eexists; solve [fin_in] ].
Ltac achain_tac :=
  lazymatch goal with
  | |- achain ?f ?d (?a :: ?r) ?s =>
      let res := eval vm_compute in (step_opt_any f d a s) in
      lazymatch res with
      | Some ?s1 => apply (achain_cons f d a r s s1); [aok_tac|vm_compute; reflexivity|achain_tac]
      end
  | |- achain ?f ?d [] ?s => eapply (achain_nil f d s); vm_compute; reflexivity
  end.

Fixpoint run_any (fixed : bool) (dv : nat -> Divider) (l : list label) (s : st) : option st :=
  match l with [] => Some s | a :: r => match step_opt_any fixed dv a s with Some s' => run_any fixed dv r s' | None => None end end.
(* after a stop: the stop-preferring scheduler, the clock when it sleeps *)
Fixpoint drive_stop (fixed : bool) (dv : nat -> Divider) (n : nat) (s : st) : list label :=
  match n with
  | O => []
  | S n' => match pcs s with
            | Done _ => []
            | _ => let l := match sched_step fixed dv 0 s with Some _ => LSched 0 | None => LEnv Tick end in
                   l :: match step_opt_any fixed dv l s with Some s' => drive_stop fixed dv n' s' | None => [] end
            end
  end.

(* New() as in section 8; two items are written, the scheduler reaches the read of input 0, Stop() is called; the next two selects
   AVOID the stop alternative (the item is read and written to the output: oracle 1), then the stop alternative is taken *)
Definition st_head : list label :=
  [LEnv (Put 0 7); LEnv (Put 1 8); LSched 0; LSched 0; LSched 0; LEnv StopCall; LSched 1; LSched 1].
Definition st_s1 : st := Eval vm_compute in match run_any true dv_example st_head pos_s0 with Some s => s | None => pos_s0 end.
Definition st_pre : list label := Eval vm_compute in st_head ++ drive_stop true dv_example 100 st_s1.
Lemma st_chain : achain true dv_example st_pre pos_s0.
Proof. unfold st_pre. achain_tac. Qed.
Definition st_tr : nat -> st := atr true dv_example pos_s0 st_pre.
Definition st_lb : nat -> label := alb true dv_example pos_s0 st_pre.

Example st_eventually_done : exists j e, pcs (st_tr j) = Done e.
Proof.
  apply (prio1_stop_eventually_done dv_example pos_s0 st_tr st_lb (il_init _ pos_initL1)).
  - exact (fin_execution_any _ _ _ _ st_chain).
  - exact (fin_any_F_sched _ _ _ _ st_chain).
  - exact (fin_any_F_tick _ _ _ _).
  - apply (prio1_done_F_stop true dv_example pos_s0 st_tr st_lb (fin_execution_any _ _ _ _ st_chain)). exact (fin_any_done _ _ _ _ st_chain).
  - exists 6%nat. vm_compute. reflexivity.
Qed.
Print Assumptions st_eventually_done.

Example st_view : length st_pre = 22%nat /\ pcs (st_tr 22) = Done None /\ stopped (st_tr 5) = false /\ stopped (st_tr 6) = true /\
  navoid st_tr st_lb 100 = 2%nat /\ ncount st_tr st_lb 100 = 1%nat /\ delivered (st_tr 22) = [(2, 7)] /\ inq (st_tr 22) 1%nat = [8].
Proof. vm_compute. repeat split; reflexivity. Qed.

(* ================= 12. Part B: the hypothesis on the oracle cannot be dropped ================= *)
(* Infinite executions made of a prefix and a cycle that re-establishes an invariant (the ghost logs grow, so the states do not repeat). *)
Section Loop.
Variable fixed : bool.
Variable dv : nat -> Divider.
Variable s0 : st.
Variable pre cyc : list label.
Variable Ok : st -> Prop.      (* checked at every state *)
Variable Iv : st -> Prop.      (* re-established at the end of every segment *)

Fixpoint ichain (rest : list label) (s : st) : Prop :=
  Ok s /\
  match rest with [] => Iv s | a :: r => exists s', step_opt_any fixed dv a s = Some s' /\ ichain r s' end.
Hypothesis Hpre : ichain pre s0.
Hypothesis Hcyc : forall s, Iv s -> ichain cyc s.
Hypothesis Hne : cyc <> [].

Definition leff (c : st * list label) : list label := match snd c with [] => cyc | l => l end.
Definition llab (c : st * list label) : label := hd LStutter (leff c).
Definition lnxt (c : st * list label) : st * list label :=
  (match step_opt_any fixed dv (llab c) (fst c) with Some s' => s' | None => fst c end, tl (leff c)).
Fixpoint lconf (n : nat) : st * list label := match n with O => (s0, pre) | S n' => lnxt (lconf n') end.
Definition ltr' (n : nat) : st := fst (lconf n).
Definition llb' (n : nat) : label := llab (lconf n).

Lemma ichain_ok rest s : ichain rest s -> Ok s.
Proof. destruct rest; cbn [ichain]; tauto. Qed.
Lemma leff_chain c : ichain (snd c) (fst c) -> ichain (leff c) (fst c).
Proof. unfold leff. destruct (snd c) eqn:E; [cbn [ichain]; intros [_ Hi]; apply Hcyc; exact Hi|auto]. Qed.
Lemma leff_nonempty c : leff c <> [].
Proof. unfold leff. destruct (snd c); [exact Hne|discriminate]. Qed.
Lemma ichain_head rest s : ichain rest s -> rest <> [] -> exists s', step_opt_any fixed dv (hd LStutter rest) s = Some s' /\ ichain (tl rest) s'.
Proof. destruct rest as [|a r]; cbn [ichain hd tl]; intros [_ Hc] Hn; [contradiction|exact Hc]. Qed.

Lemma lconf_chain n : ichain (snd (lconf n)) (fst (lconf n)) /\
  exists s', step_opt_any fixed dv (llb' n) (ltr' n) = Some s' /\ ichain (tl (leff (lconf n))) s'.
Proof.
  induction n as [|n [IH (s' & Hs & Hch)]].
  - split; [exact Hpre|]. apply ichain_head; [apply leff_chain; exact Hpre|apply leff_nonempty].
  - assert (E : lconf (S n) = (s', tl (leff (lconf n)))).
    { cbn [lconf]. unfold lnxt. unfold llb', ltr' in Hs. rewrite Hs. reflexivity. }
    assert (Hc : ichain (snd (lconf (S n))) (fst (lconf (S n)))) by (rewrite E; exact Hch).
    split; [exact Hc|]. apply ichain_head; [apply leff_chain; exact Hc|apply leff_nonempty].
Qed.

Lemma loop_execution : execution_any fixed dv s0 ltr' llb'.
Proof.
  constructor; [reflexivity|]. intros i. destruct (lconf_chain i) as [_ (s' & Hs & _)].
  apply step_opt_any_is_step. rewrite Hs. unfold ltr'. cbn [lconf]. unfold lnxt. unfold llb', ltr' in Hs. rewrite Hs. reflexivity.
Qed.
Lemma loop_ok j : Ok (ltr' j).
Proof. destruct (lconf_chain j) as [Hc _]. apply (ichain_ok _ _ Hc). Qed.

(* the labels are those of the prefix and of the cycle *)
Lemma lconf_incl n : incl (snd (lconf n)) (pre ++ cyc).
Proof.
  induction n as [|n IH]; [cbn [lconf snd]; apply incl_appl; apply incl_refl|].
  change (snd (lconf (S n))) with (tl (leff (lconf n))). unfold leff. destruct (snd (lconf n)) as [|a r] eqn:E.
  - intros x Hx. apply in_or_app. right. destruct cyc; [destruct Hx|right; exact Hx].
  - intros x Hx. apply IH. right. exact Hx.
Qed.
Lemma llb'_in n : In (llb' n) (pre ++ cyc).
Proof.
  unfold llb', llab, leff. destruct (snd (lconf n)) as [|a r] eqn:E.
  - apply in_or_app. right. destruct cyc; [contradiction|left; reflexivity].
  - apply (lconf_incl n). rewrite E. left. reflexivity.
Qed.
Lemma loop_execution' : (forall op, In (LEnv op) (pre ++ cyc) -> graceful_op op) -> execution' fixed dv s0 ltr' llb'.
Proof.
  intros Hg. destruct loop_execution as [H0 Hs]. constructor; [exact H0|]. intros i. specialize (Hs i). pose proof (llb'_in i) as Hin.
  destruct (llb' i) as [o|op|]; cbn [is_step_any is_step'] in *; auto.
Qed.

Lemma lahead : forall k n, (k < length (leff (lconf n)))%nat -> llb' (n + k) = nth k (leff (lconf n)) LStutter.
Proof.
  induction k as [|k IH]; intros n Hk.
  - rewrite Nat.add_0_r. unfold llb', llab. destruct (leff (lconf n)); reflexivity.
  - destruct (leff (lconf n)) as [|a r] eqn:Ee; [cbn [length] in Hk; lia|]. cbn [length] in Hk. cbn [nth].
    replace (n + S k)%nat with (S n + k)%nat by lia.
    assert (Er : leff (lconf (S n)) = r).
    { unfold leff at 1. change (snd (lconf (S n))) with (tl (leff (lconf n))). rewrite Ee. cbn [tl]. destruct r; [cbn [length] in Hk; lia|reflexivity]. }
    rewrite IH; rewrite Er; [reflexivity|lia].
Qed.
Lemma lboundary : forall m n, length (snd (lconf n)) = m -> exists j, (n <= j)%nat /\ snd (lconf j) = [].
Proof.
  induction m as [|m IH]; intros n Hm.
  - exists n. split; [lia|]. destruct (snd (lconf n)); [reflexivity|discriminate].
  - destruct (IH (S n)) as (j & Hj & E).
    + change (snd (lconf (S n))) with (tl (leff (lconf n))). unfold leff. destruct (snd (lconf n)) as [|a r]; [discriminate|]. cbn [tl]. cbn [length] in Hm. lia.
    + exists j. split; [lia|exact E].
Qed.
Lemma lcyc_label l i : In l cyc -> exists j, (i <= j)%nat /\ llb' j = l.
Proof.
  intros Hin. destruct (lboundary _ i eq_refl) as (m & Hm & E).
  assert (Hin' : In l (leff (lconf m))) by (unfold leff; rewrite E; exact Hin).
  destruct (In_nth _ _ LStutter Hin') as (k & Hk & En). exists (m + k)%nat. split; [lia|]. rewrite lahead; auto.
Qed.
End Loop.

(* the loop: once stopped at the read of input 0, a producer writes an item (Put), the select reads it instead of stopping (oracle 1),
   the clock ticks, the select on the output takes the stop alternative and drops the item (oracle 0), back at the read *)
Definition ne_prefix : list label := [LSched 0; LSched 0; LSched 0; LEnv StopCall].
Definition ne_cyc : list label := [LEnv (Put 0 7); LSched 1; LEnv Tick; LSched 0].
Definition loop_inv (s : st) : Prop :=
  pcs s = Read P1 2 [1] 0 false /\ stopped s = true /\ (get (tactic s) 2 =? 0) = false /\ chan_of s 2 = Some 0%nat /\
  closed s 0%nat = false /\ inq s 0%nat = [].

Definition notdone (s : st) : Prop := forall e, pcs s <> Done e.
Lemma ne_cyc_ok dv s : loop_inv s -> ichain true dv notdone loop_inv ne_cyc s.
Proof.
  intros (Epc & Hst & Ht & Hch & Hcl & Hiq). destruct s. cbn in Epc, Hst, Ht, Hch, Hcl, Hiq. subst.
  unfold ne_cyc. cbn [ichain step_opt_any env_step]. proj.
  split; [intros e; discriminate|]. rewrite Hcl. eexists. split; [reflexivity|]. proj.
  split; [intros e; discriminate|].
  unfold sched_step, chan_state. proj. rewrite Ht, Hch. unfold updn at 1. cbn [Nat.eqb]. rewrite Hiq, Hcl. cbn [app].
  eexists. split; [reflexivity|]. proj.
  split; [intros e; discriminate|]. eexists. split; [reflexivity|].
  split; [intros e; discriminate|]. proj. cbn [app]. rewrite pick_first. eexists. split; [reflexivity|].
  split; [intros e; discriminate|]. unfold loop_inv; proj. unfold updn. cbn [Nat.eqb]. auto 10.
Qed.

Lemma ichain_cons fixed dv (Ok Iv : st -> Prop) a r s s' : Ok s -> step_opt_any fixed dv a s = Some s' -> ichain fixed dv Ok Iv r s' ->
  ichain fixed dv Ok Iv (a :: r) s.
Proof. intros H1 H2 H3. cbn [ichain]. split; [exact H1|]. exists s'. auto. Qed.
Lemma ichain_nil fixed dv (Ok Iv : st -> Prop) s : Ok s -> Iv s -> ichain fixed dv Ok Iv [] s.
Proof. intros H1 H2. cbn [ichain]. auto. Qed.
Ltac ichain_tac oktac :=
  lazymatch goal with
  | |- ichain ?f ?d ?O ?I (?a :: ?r) ?s =>
      let res := eval vm_compute in (step_opt_any f d a s) in
      lazymatch res with
      | Some ?s1 => apply (ichain_cons f d O I a r s s1); [oktac|vm_compute; reflexivity|ichain_tac oktac]
      end
  | |- ichain ?f ?d ?O ?I [] ?s => apply (ichain_nil f d O I s); [oktac|]
  end.
Ltac notdone_tac := let e := fresh "e" in intros e; vm_compute; discriminate.

Lemma ne_pre_ok : ichain true dv_example notdone loop_inv ne_prefix pos_s0.
Proof. unfold ne_prefix. ichain_tac notdone_tac. unfold loop_inv. repeat split; vm_compute; reflexivity. Qed.

Definition ne_tr : nat -> st := ltr' true dv_example pos_s0 ne_prefix ne_cyc.
Definition ne_lb : nat -> label := llb' true dv_example pos_s0 ne_prefix ne_cyc.
Lemma ne_cyc_ne : ne_cyc <> [].
Proof. discriminate. Qed.

(* Stop() is called, the scheduler and the clock run for ever (fairly), the execution never terminates: the oracle reads an input
   instead of stopping infinitely often, fed by a producer that keeps writing *)
Theorem prio1_stop_needs_oracle_fairness : exists dv s0 tr lb,
  Init1 s0 /\ execution_any true dv s0 tr lb /\ F_sched true dv tr lb /\ F_tick lb /\ (exists i, stopped (tr i) = true) /\
  (forall j e, pcs (tr j) <> Done e) /\ ~ F_stop_in tr lb /\ ~ F_stop tr lb.
Proof.
  exists dv_example, pos_s0, ne_tr, ne_lb.
  pose proof (loop_execution true dv_example pos_s0 ne_prefix ne_cyc notdone loop_inv ne_pre_ok (ne_cyc_ok dv_example) ne_cyc_ne) as Hex.
  assert (F1 : F_sched true dv_example ne_tr ne_lb).
  { intros i _. destruct (lcyc_label true dv_example pos_s0 ne_prefix ne_cyc (LSched 0) i) as (j & Hj & Hl); [unfold ne_cyc; fin_in|].
    exists j. split; [exact Hj|exists 0%nat; exact Hl]. }
  assert (F2 : F_tick ne_lb).
  { intros i. apply (lcyc_label true dv_example pos_s0 ne_prefix ne_cyc (LEnv Tick) i). unfold ne_cyc; fin_in. }
  assert (Hst : exists i, stopped (ne_tr i) = true) by (exists 4%nat; vm_compute; reflexivity).
  assert (Hnd : forall j e, pcs (ne_tr j) <> Done e)
    by (apply (loop_ok true dv_example pos_s0 ne_prefix ne_cyc notdone loop_inv ne_pre_ok (ne_cyc_ok dv_example) ne_cyc_ne)).
  split; [exact (il_init _ pos_initL1)|]. split; [exact Hex|]. split; [exact F1|]. split; [exact F2|]. split; [exact Hst|].
  split; [exact Hnd|].
  assert (Hn : ~ F_stop_in ne_tr ne_lb).
  { intros F3. destruct (prio1_stop_eventually_done_strong dv_example pos_s0 ne_tr ne_lb Hex F1 (F_tick_weaken _ _ F2) F3 Hst) as (j & e & Hd).
    exact (Hnd j e Hd). }
  split; [exact Hn|]. intros F3. apply Hn. apply F_stop_weaken. exact F3.
Qed.
Print Assumptions prio1_stop_needs_oracle_fairness.

(* ================= 13. Part A, extra: the liveness of delivery (C06) holds for executions with GracefulStop as well ================= *)
Lemma fires_allin s : Inv2 s -> fires s = true -> Inv s -> Reg1 s.
Proof.
  intros Hi2 Hf Hinv. unfold fires in Hf. destruct (pcs s) eqn:Epc; try discriminate.
  apply andb_prop in Hf. destruct Hf as [_ Hd]. rewrite forallb_forall in Hd. split.
  - intros p ch Hch. assert (Hp : In p (prios s)) by (apply (i_chan s Hinv); rewrite Hch; discriminate).
    destruct (j_drained s Hi2 p (Hd p Hp)) as (ch' & E & Hc & Hi). rewrite Hch in E. inversion E; subst ch'. auto.
  - rewrite Epc. nosend.
Qed.

Section GLive.
Variable fixed : bool.
Variable dv : nat -> Divider.
Hypothesis dv_wf : forall k ps n d, NoDup (keys d) -> NoDup (keys (dv k ps n d)).
Hypothesis sumrule : forall k ps n d, NoDup (keys d) -> sum (dv k ps n d) = sum d + n \/ sum (dv k ps n d) = sum d.
Variable s0 : st.
Variable tr : nat -> st.
Variable lb : nat -> label.
Hypothesis HI : InitL1 s0.
Hypothesis HH : H s0 < two64.
Hypothesis Hex : execution' fixed dv s0 tr lb.
Hypothesis Fsched : F_sched fixed dv tr lb.
Hypothesis Ftake : F_take tr lb.
Hypothesis Frel : F_rel tr lb.
Hypothesis Ftick : F_tick_w tr lb.

Lemma reg1_from' k j : (k <= j)%nat -> Reg1 (tr k) -> Reg1 (tr j).
Proof.
  intros Hle HR. apply (along (fun i => Reg1 (tr i)) k j Hle); [|exact HR].
  intros m _ Hm. apply (proj1 (reg1_step' fixed dv (tr m) (lb m) (tr (S m)) (proj2 (gx_static fixed dv s0 tr lb HI Hex m)) Hm (gx_step fixed dv s0 tr lb Hex m))).
Qed.

Theorem every_item_chan_graceful_sec : forall i p ch x, chan_of s0 p = Some ch -> In x (inq (tr i) ch) ->
  exists j q, (i <= j)%nat /\ chan_of s0 q = Some ch /\ In (q, x) (delivered (tr j)).
Proof.
  intros i p ch x Hch Hin.
  set (T := tr' fixed dv tr). set (L := lb' fixed dv tr lb).
  pose proof (spl_execution fixed dv s0 tr lb HI HH Hex) as Hex'.
  pose proof (spl_F_sched fixed dv s0 tr lb HI HH Hex Fsched) as F1.
  pose proof (spl_F_take fixed dv s0 tr lb HI HH Hex Ftake) as F2.
  pose proof (spl_F_rel fixed dv s0 tr lb HI HH Hex Frel) as F3.
  pose proof (spl_F_tick fixed dv s0 tr lb HH Ftick) as F4.
  destruct (firstdn tr i) as [k|] eqn:Ei.
  - (* the graceful exit has fired: the registered inputs are closed and empty for ever *)
    exfalso. destruct (fire_index fixed dv s0 tr lb HI HH Hex i k Ei) as (k' & -> & Ek' & Hf & _).
    destruct (firstdn_some s0 tr HH i (S k') Ei) as (Hle & _).
    pose proof (fires_allin (tr k') (gx_inv2 fixed dv s0 tr lb HI Hex k') Hf (gx_inv fixed dv dv_wf s0 tr lb HI Hex k')) as HR.
    destruct (reg1_from' k' i ltac:(lia) HR) as [Ha _]. rewrite <- (gx_chan fixed dv s0 tr lb HI Hex i) in Hch.
    destruct (Ha p ch Hch) as [_ Hq]. rewrite Hq in Hin. destruct Hin.
  - destruct (spl_pre fixed dv tr lb i Ei) as [ETi _].
    assert (Hin' : In x (inq (T i) ch)) by (unfold T; rewrite ETi; exact Hin).
    destruct (every_item_chan_sec fixed dv dv_wf sumrule s0 T L HI HH Hex' F1 F2 F3 F4 i p ch x Hch Hin') as (j & q & Hj & Hq & Hd).
    destruct (firstdn tr j) as [k|] eqn:Ej.
    + destruct (fire_index fixed dv s0 tr lb HI HH Hex j k Ej) as (k' & -> & Ek' & Hf & _).
      assert (Hik : (i <= k')%nat).
      { destruct (le_lt_dec i k') as [Hle|Hlt]; [exact Hle|]. exfalso.
        destruct (firstdn_some s0 tr HH j (S k') Ej) as (_ & Hdn & _). rewrite (firstdn_none s0 tr HH i Ei (S k')) in Hdn by lia. discriminate. }
      destruct (spl_pre fixed dv tr lb k' Ek') as [ETk _].
      pose proof (fires_allin (tr k') (gx_inv2 fixed dv s0 tr lb HI Hex k') Hf (gx_inv fixed dv dv_wf s0 tr lb HI Hex k')) as [Ha Hns].
      rewrite <- (gx_chan fixed dv s0 tr lb HI Hex k') in Hch. destruct (Ha p ch Hch) as [_ Hq0].
      pose proof (tr_split fixed dv s0 T L HI Hex' i ch) as Hsi. pose proof (tr_split fixed dv s0 T L HI Hex' k' ch) as Hsk.
      destruct (written_prefix fixed dv s0 T L HI Hex' ch i k' Hik) as [w Hw].
      unfold T in Hsk at 2 3. rewrite ETk in Hsk. change (inq (erase (tr k')) ch) with (inq (tr k') ch) in Hsk. rewrite Hq0, app_nil_r in Hsk.
      assert (Hl : limbo (chan_of s0) ch (erase (tr k')) = []).
      { unfold limbo. change (pcs (erase (tr k'))) with (pcs (tr k')). destruct (pcs (tr k')) eqn:Epc; auto. exfalso. eapply Hns; reflexivity. }
      rewrite Hl, app_nil_r in Hsk.
      assert (Hx : In x (of_chan (chan_of s0) ch (delivered (T k')))).
      { rewrite Hsk, Hw. apply in_or_app. left. rewrite <- Hsi. apply in_or_app. right. apply in_or_app. right. exact Hin'. }
      destruct (of_chan_in _ _ _ _ Hx) as (q' & Hq' & Hd'). exists k', q'. split; [exact Hik|]. split; [exact Hq'|].
      unfold T in Hd'. rewrite ETk in Hd'. exact Hd'.
    + destruct (spl_pre fixed dv tr lb j Ej) as [ETj _]. exists j, q. split; [exact Hj|]. split; [exact Hq|].
      unfold T in Hd. rewrite ETj in Hd. exact Hd.
Qed.
End GLive.

(* every item written to a registered input is eventually delivered (under one of the priorities registered on its channel), also when
   GracefulStop() may be called at any time *)
Theorem prio1_every_item_delivered_chan_graceful : forall fixed dv s0 tr lb, dv_ok dv -> InitL1 s0 -> H s0 < two64 ->
  execution' fixed dv s0 tr lb -> F_sched fixed dv tr lb -> F_take tr lb -> F_rel tr lb -> F_tick_w tr lb ->
  forall i p ch x, chan_of s0 p = Some ch -> In x (inq (tr i) ch) ->
  exists j q, (i <= j)%nat /\ chan_of s0 q = Some ch /\ In (q, x) (delivered (tr j)).
Proof.
  intros fixed dv s0 tr lb [Hwf Hsr] HI HH Hex F1 F2 F3 F4.
  exact (every_item_chan_graceful_sec fixed dv Hwf Hsr s0 tr lb HI HH Hex F1 F2 F3 F4).
Qed.
Print Assumptions prio1_every_item_delivered_chan_graceful.

Theorem prio1_every_item_delivered_graceful : forall fixed dv s0 tr lb, dv_ok dv -> InitL1 s0 -> H s0 < two64 -> chan_inj s0 ->
  execution' fixed dv s0 tr lb -> F_sched fixed dv tr lb -> F_take tr lb -> F_rel tr lb -> F_tick_w tr lb ->
  forall i p ch x, In p (prios s0) -> chan_of s0 p = Some ch -> In x (inq (tr i) ch) ->
  exists j, (i <= j)%nat /\ In (p, x) (delivered (tr j)).
Proof.
  intros fixed dv s0 tr lb Hd HI HH Hinj Hex F1 F2 F3 F4 i p ch x _ Hch Hin.
  destruct (prio1_every_item_delivered_chan_graceful fixed dv s0 tr lb Hd HI HH Hex F1 F2 F3 F4 i p ch x Hch Hin) as (j & q & Hj & Hq & Hdl).
  exists j. split; [exact Hj|]. rewrite (Hinj p q ch Hch Hq). exact Hdl.
Qed.
Print Assumptions prio1_every_item_delivered_graceful.

(* ================= 14. for the states built by New() with the built-in Fair divider: nothing about s0 or the divider is left ================= *)
Theorem prio1_graceful_eventually_done_new_fair : forall fixed cfg h bufs ocap tr lb,
  NoDup (map fst cfg) -> cfg <> [] -> N.of_nat (length cfg) <= h -> h < two64 -> 1 <= ocap ->
  execution' fixed dv_example (init_state dv_example cfg h bufs ocap) tr lb ->
  F_sched fixed dv_example tr lb -> F_take tr lb -> F_rel tr lb -> F_tick lb ->
  (exists i, graceful (tr i) = true) ->
  (forall p ch, In (p, ch) cfg -> exists i, closed (tr i) ch = true) ->
  exists j, pcs (tr j) = Done None /\ outq (tr j) = [] /\ held (tr j) = [] /\ fbq (tr j) = [] /\
            (forall p ch, In (p, ch) cfg -> delivered_from (tr j) ch = written (tr j) ch /\ inq (tr j) ch = [] /\ closed (tr j) ch = true).
Proof.
  intros fixed cfg h bufs ocap tr lb ND1 Hne Hlen H64 Hc Hex F1 F2 F3 F4 Hg Hcl.
  assert (Hh : 1 <= h). { destruct cfg; [congruence|]. cbn [length] in Hlen. lia. }
  assert (Hst : strat_ok dv_example cfg h).
  { unfold strat_ok, dv_example. apply fair_shares.
    - apply nodup_sort_desc. exact ND1.
    - intros E. apply (f_equal (@length N)) in E. rewrite sort_desc_length, map_length in E. destruct cfg; [congruence|discriminate].
    - rewrite sort_desc_length, map_length. exact Hlen. }
  pose proof (init_state_InitL1 dv_example cfg h bufs ocap dv_example_ok ND1 Hh Hc Hst) as HI.
  destruct (prio1_graceful_eventually_done fixed dv_example _ tr lb dv_example_ok HI H64 Hex F1 F2 F3 F4 Hg) as (j & Hd & Ho & Hhd & Hf & Hall).
  { intros p ch _ Hch. cbn [init_state chan_of] in Hch. destruct (init_chans_some _ _ _ _ Hch) as [Hin|Hx]; [|discriminate]. apply (Hcl p ch Hin). }
  exists j. split; [exact Hd|]. split; [exact Ho|]. split; [exact Hhd|]. split; [exact Hf|].
  intros p ch Hin.
  assert (Hch : chan_of (init_state dv_example cfg h bufs ocap) p = Some ch) by (cbn [init_state chan_of]; apply init_chans_in; assumption).
  apply (Hall p ch); [|exact Hch]. apply (in_chan _ (il_init _ HI)). rewrite Hch. discriminate.
Qed.
Print Assumptions prio1_graceful_eventually_done_new_fair.

(* ================= 15. Part B, the statement of the task ================= *)
(* The literal statement (no hypothesis on the oracle) is FALSE: prio1_stop_needs_oracle_fairness.  With the hypothesis that, once the
   discipline is stopped, the scheduler takes a new command or reads an input instead of stopping only finitely often (F_stop_in, which
   is also necessary: prio1_stop_done_iff_strong), it holds -- for every environment and every other resolution of the selects: *)
Theorem prio1_stop_eventually_done_partial : forall dv s0 tr lb, Init1 s0 -> execution_any true dv s0 tr lb ->
  F_sched true dv tr lb -> F_tick_w tr lb ->
  F_stop_in tr lb ->
  (exists i, stopped (tr i) = true) -> exists j e, pcs (tr j) = Done e.
Proof. intros dv s0 tr lb _ Hex F1 F2 F3 Hst. exact (prio1_stop_eventually_done_strong dv s0 tr lb Hex F1 F2 F3 Hst). Qed.
Print Assumptions prio1_stop_eventually_done_partial.

(* ================= 16. Part A in terms of what the environment sees ================= *)
Lemma sched_step_logs fixed dv o s s' : sched_step fixed dv o s = Some s' ->
  (reads s' = reads s \/ exists c q x, reads s' = (c, q, x) :: reads s /\ chan_of s q = Some c) /\
  ((outq s' = outq s /\ delivered s' = delivered s) \/ exists px, outq s' = outq s ++ [px] /\ delivered s' = delivered s ++ [px]).
Proof.
  intros Hs. unfold sched_step, step_calc, calc_base, step_recalc, do_cmd in Hs.
  destruct_matches Hs; try discriminate; inversion Hs; subst s'; proj;
    (split; [first [left; reflexivity | right; do 3 eexists; split; [reflexivity|]; eapply chan_state_some; eassumption]
            |first [left; split; reflexivity | right; eexists; split; reflexivity]]).
Qed.
Lemma env_step_logs s op s' : env_step s op = Some s' -> reads s' = reads s /\ delivered s' = delivered s /\
  (match op with Take => True | _ => outq s' = outq s end).
Proof. intros Hs. unfold env_step in Hs. destruct_matches Hs; try discriminate; inversion Hs; subst s'; proj; auto. Qed.

Section Visible.
Variable fixed : bool.
Variable dv : nat -> Divider.
Hypothesis dv_wf : forall k ps n d, NoDup (keys d) -> NoDup (keys (dv k ps n d)).
Variable s0 : st.
Variable tr : nat -> st.
Variable lb : nat -> label.
Hypothesis HI : InitL1 s0.
Hypothesis HH : H s0 < two64.
Hypothesis Hex : execution' fixed dv s0 tr lb.

(* the items the producers put on channel ch / the items the handlers received, read off the labels of the first n steps *)
Fixpoint puts (ch : nat) (n : nat) : list N :=
  match n with O => [] | S m => puts ch m ++ match lb m with LEnv (Put c x) => if Nat.eqb c ch then [x] else [] | _ => [] end end.
Fixpoint taken (n : nat) : list (N * N) :=
  match n with O => [] | S m => taken m ++ match lb m with LEnv Take => match outq (tr m) with px :: _ => [px] | [] => [] end | _ => [] end end.

Let Gstep := gx_step fixed dv s0 tr lb Hex.

Lemma g_readsok i : ReadsOk (chan_of s0) (tr i).
Proof.
  induction i as [|i IH]; unfold ReadsOk.
  - rewrite (ex_init' _ _ _ _ _ Hex), (in_reads s0 (il_init s0 HI)). intros c q x [].
  - pose proof (Gstep i) as Hs. destruct (lb i) as [o|op|]; cbn [is_step'] in Hs.
    + destruct (sched_step_logs _ _ _ _ _ Hs) as [[E|(c & q & x & E & Hc)] _]; rewrite E; [exact IH|].
      intros c0 q0 x0 [Ein|Hin]; [|apply (IH c0 q0 x0 Hin)]. inversion Ein; subst. rewrite <- (gx_chan fixed dv s0 tr lb HI Hex i). exact Hc.
    + destruct Hs as [_ Hs]. destruct (env_step_logs _ _ _ Hs) as (E & _). rewrite E. exact IH.
    + rewrite Hs. exact IH.
Qed.

Lemma written_puts n ch : written (tr n) ch = inq s0 ch ++ puts ch n.
Proof.
  induction n as [|n IH].
  - rewrite (ex_init' _ _ _ _ _ Hex). cbn [puts]. rewrite app_nil_r. apply (in_written s0 (il_init s0 HI)).
  - pose proof (Gstep n) as Hs. cbn [puts]. destruct (lb n) as [o|op|] eqn:El; cbn [is_step'] in Hs.
    + destruct (sched_step_closed _ _ _ _ _ Hs) as [_ Ew]. rewrite Ew, app_nil_r. exact IH.
    + destruct Hs as [_ Hs]. destruct op as [c x|c| |p| | | |c p bf|p]; cbn [env_step] in Hs.
      * destruct (closed (tr n) c); [discriminate|]. inversion Hs as [Hs']. proj. unfold updn. rewrite (Nat.eqb_sym c ch).
        destruct (Nat.eqb_spec ch c) as [<-|_]; [rewrite IH, app_assoc; reflexivity|rewrite app_nil_r; exact IH].
      * inversion Hs as [Hs']. proj. rewrite app_nil_r; exact IH.
      * destruct (outq (tr n)); [discriminate|]. inversion Hs as [Hs']. proj. rewrite app_nil_r; exact IH.
      * destruct (remove1 p (held (tr n))); [|discriminate]. inversion Hs as [Hs']. proj. rewrite app_nil_r; exact IH.
      * rewrite app_nil_r. destruct_matches Hs; inversion Hs as [Hs']; proj; exact IH.
      * inversion Hs as [Hs']. proj. rewrite app_nil_r; exact IH.
      * inversion Hs as [Hs']. proj. rewrite app_nil_r; exact IH.
      * inversion Hs as [Hs']. proj. rewrite app_nil_r; exact IH.
      * inversion Hs as [Hs']. proj. rewrite app_nil_r; exact IH.
    + rewrite Hs, app_nil_r. exact IH.
Qed.

Lemma delivered_taken n : delivered (tr n) = taken n ++ outq (tr n).
Proof.
  induction n as [|n IH].
  - rewrite (ex_init' _ _ _ _ _ Hex). cbn [taken]. rewrite (in_delivered s0 (il_init s0 HI)), (in_outq s0 (il_init s0 HI)). reflexivity.
  - pose proof (Gstep n) as Hs. cbn [taken]. destruct (lb n) as [o|op|] eqn:El; cbn [is_step'] in Hs.
    + rewrite app_nil_r. destruct (sched_step_logs _ _ _ _ _ Hs) as [_ [[Eo Ed]|(px & Eo & Ed)]]; rewrite Eo, Ed, IH; [reflexivity|].
      rewrite app_assoc. reflexivity.
    + destruct Hs as [_ Hs]. destruct (env_step_logs _ _ _ Hs) as (_ & Ed & Eo). rewrite Ed, IH.
      destruct op; try (rewrite Eo, app_nil_r; reflexivity).
      cbn [env_step] in Hs. destruct (outq (tr n)) as [|px q]; [discriminate|]. inversion Hs as [Hs']. proj. rewrite <- app_assoc. reflexivity.
    + rewrite Hs, app_nil_r. exact IH.
Qed.

(* at a normal end, with distinct channels: what the handlers received under priority p is, in order, exactly what was in the input of p
   at the start followed by what the producers put *)
Lemma done_visible j : chan_inj s0 -> pcs (tr j) = Done None -> forall p ch, In p (prios s0) -> chan_of s0 p = Some ch ->
  map snd (filter (fun d => N.eqb (fst d) p) (taken j)) = inq s0 ch ++ puts ch j.
Proof.
  intros Hinj Hd p ch Hp Hch. pose proof (il_init s0 HI) as I1.
  pose proof (gx_reach fixed dv s0 tr lb Hex j) as Hr. pose proof (gx_stopped fixed dv s0 tr lb HI Hex j) as Hst.
  assert (Hp' : In p (prios (tr j))) by (rewrite (gx_prios fixed dv s0 tr lb HI Hex j); exact Hp).
  assert (Hch' : chan_of (tr j) p = Some ch) by (rewrite (gx_chan fixed dv s0 tr lb HI Hex j); exact Hch).
  pose proof (prio1_exactly_once_by_priority_partial fixed dv dv_wf s0 (tr j) I1 Hr Hd Hst p ch Hp' Hch') as He.
  unfold delivered_under in He. rewrite <- written_puts, <- He.
  - destruct (prio1_done_without_stop fixed dv dv_wf s0 (tr j) None I1 Hr Hd Hst) as (_ & Ho & _).
    rewrite delivered_taken, Ho, app_nil_r. reflexivity.
  - intros c q x Hin. pose proof (g_readsok j c q x Hin) as Hq. split.
    + intros ->. exact (Hinj q p ch Hq Hch).
    + intros ->. rewrite Hch in Hq. inversion Hq; reflexivity.
Qed.
End Visible.

Theorem prio1_graceful_eventually_done_visible : forall fixed dv s0 tr lb, dv_ok dv -> InitL1 s0 -> H s0 < two64 -> chan_inj s0 ->
  execution' fixed dv s0 tr lb -> F_sched fixed dv tr lb -> F_take tr lb -> F_rel tr lb -> F_tick_w tr lb ->
  (exists i, graceful (tr i) = true) ->
  (forall p ch, In p (prios s0) -> chan_of s0 p = Some ch -> exists i, closed (tr i) ch = true) ->
  exists j,
    (forall p ch, In p (prios s0) -> chan_of s0 p = Some ch ->
       map snd (filter (fun d => N.eqb (fst d) p) (taken tr lb j)) = inq s0 ch ++ puts lb ch j) /\
    forall k, (j <= k)%nat ->
      pcs (tr k) = Done None /\ taken tr lb k = taken tr lb j /\
      (forall p ch, In p (prios s0) -> chan_of s0 p = Some ch -> puts lb ch k = puts lb ch j) /\
      lb k <> LEnv Take /\ (forall p ch x, In p (prios s0) -> chan_of s0 p = Some ch -> lb k <> LEnv (Put ch x)) /\
      (forall p, lb k <> LEnv (Release p)) /\ ~ is_sched (lb k).
Proof.
  intros fixed dv s0 tr lb [Hwf Hsr] HI HH Hinj Hex F1 F2 F3 F4 Hg Hcl.
  destruct (prio1_graceful_eventually_finished fixed dv s0 tr lb (conj Hwf Hsr) HI HH Hex F1 F2 F3 F4 Hg Hcl) as [j Hfin].
  exists j. destruct (Hfin j (le_n _)) as ((Hdj & Hoj & _) & _).
  split; [apply (done_visible fixed dv Hwf s0 tr lb HI Hex j Hinj Hdj)|].
  intros k Hk. destruct (Hfin k Hk) as ((Hdk & Hok & Hhk & _ & _ & _ & _ & Hall) & Ed & Hns & Ew).
  split; [exact Hdk|]. split.
  { rewrite !(delivered_taken fixed dv s0 tr lb HI Hex), Hok, Hoj, !app_nil_r in Ed. exact Ed. }
  split.
  { intros p ch Hp Hch. specialize (Ew p ch Hp Hch). rewrite !(written_puts fixed dv s0 tr lb HI Hex) in Ew. apply app_inv_head in Ew. exact Ew. }
  pose proof (gx_step fixed dv s0 tr lb Hex k) as Hs.
  split; [|split; [|split; [|exact Hns]]].
  - intros El. rewrite El in Hs. cbn [is_step' env_step] in Hs. rewrite Hok in Hs. destruct Hs; discriminate.
  - intros p ch x Hp Hch El. rewrite El in Hs. cbn [is_step' env_step] in Hs. destruct (Hall p ch Hp Hch) as (_ & Hc & _).
    rewrite Hc in Hs. destruct Hs; discriminate.
  - intros p El. rewrite El in Hs. cbn [is_step' env_step] in Hs. rewrite Hhk in Hs. destruct Hs; discriminate.
Qed.
Print Assumptions prio1_graceful_eventually_done_visible.

(* ================= 17. Part A: the hypothesis "every share >= 1" (InitL1) cannot be dropped ================= *)
(* The zero-share livelock of Prio1C.v (finding D4: the Rate divider gives priorities 2 and 1 no share when H = 1) as a FAIR INFINITE
   execution: every input is closed, GracefulStop() is called, the scheduler and the clock run for ever, nothing is ever in flight --
   and the discipline never terminates.  Everything InitL1 asks holds except the positivity of the shares. *)
Fixpoint drive_auto (fixed : bool) (dv : nat -> Divider) (n : nat) (s : st) : list label :=
  match n with
  | O => []
  | S n' => let l := match sched_step fixed dv 0 s with Some _ => LSched 0 | None => LEnv Tick end in
            l :: match step_opt_any fixed dv l s with Some s' => drive_auto fixed dv n' s' | None => [] end
  end.
Definition zs_head : list label := [LEnv (Close 0); LEnv (Close 1); LEnv (Close 2); LEnv GracefulCall].
Definition zs_pre : list label := Eval vm_compute in zs_head ++ drive_auto true rate_dv 20 Prio1C.z_s.
Definition zs_cyc : list label := Eval vm_compute in drive_auto true rate_dv 16 Prio1C.z_c.
Definition zok (s : st) : Prop := notdone s /\ outq s = [] /\ held s = [].
Definition zinv (s : st) : Prop := exists n cs, s = Prio1C.with_ghost Prio1C.z_c n cs.
Ltac zok_tac := split; [notdone_tac|split; vm_compute; reflexivity].

Lemma zs_pre_ok : ichain true rate_dv zok zinv zs_pre Prio1C.z_s0.
Proof. unfold zs_pre. ichain_tac zok_tac. exists (ncalls Prio1C.z_c), (calls Prio1C.z_c). vm_compute. reflexivity. Qed.
Lemma zs_cyc_ok s : zinv s -> ichain true rate_dv zok zinv zs_cyc s.
Proof.
  intros (n & cs & ->). unfold zs_cyc. ichain_tac zok_tac.
  exists (S (S n)), (([2], 1) :: ([2; 1], 1) :: cs). vm_compute. reflexivity.
Qed.
Lemma zs_cyc_ne : zs_cyc <> [].
Proof. discriminate. Qed.
Definition zs_tr : nat -> st := ltr' true rate_dv Prio1C.z_s0 zs_pre zs_cyc.
Definition zs_lb : nat -> label := llb' true rate_dv Prio1C.z_s0 zs_pre zs_cyc.

Theorem prio1_graceful_needs_positive_shares : exists dv s0 tr lb,
  dv_ok dv /\ Init1 s0 /\ 1 <= H s0 /\ H s0 < two64 /\ sum_list (map (get (strategic s0)) (prios s0)) = H s0 /\ 1 <= outcap s0 /\
  execution' true dv s0 tr lb /\ F_sched true dv tr lb /\ F_take tr lb /\ F_rel tr lb /\ F_tick lb /\
  (exists i, graceful (tr i) = true) /\
  (forall p ch, In p (prios s0) -> chan_of s0 p = Some ch -> exists i, closed (tr i) ch = true) /\
  forall j e, pcs (tr j) <> Done e.
Proof.
  exists rate_dv, Prio1C.z_s0, zs_tr, zs_lb.
  pose proof (loop_ok true rate_dv Prio1C.z_s0 zs_pre zs_cyc zok zinv zs_pre_ok zs_cyc_ok zs_cyc_ne) as Hok.
  split; [split; [exact rate_dv_wf|exact rate_sumrule]|]. split; [exact Prio1C.z_init|].
  split; [vm_compute; discriminate|]. split; [reflexivity|]. split; [vm_compute; reflexivity|]. split; [vm_compute; discriminate|].
  split.
  { apply (loop_execution' true rate_dv Prio1C.z_s0 zs_pre zs_cyc zok zinv zs_pre_ok zs_cyc_ok zs_cyc_ne).
    intros op Hin. vm_compute in Hin. repeat (destruct Hin as [Hin|Hin]; [inversion Hin; subst; exact I|]). destruct Hin. }
  split.
  { intros i _. destruct (lcyc_label true rate_dv Prio1C.z_s0 zs_pre zs_cyc (LSched 0) i) as (j & Hj & Hl); [unfold zs_cyc; fin_in|].
    exists j. split; [exact Hj|exists 0%nat; exact Hl]. }
  split; [intros i Hne; exfalso; apply Hne; apply (Hok i)|].
  split; [intros i p x Hin; exfalso; destruct (Hok i) as (_ & _ & Hh); unfold zs_tr in Hin; rewrite Hh in Hin; destruct Hin|].
  split; [intros i; apply (lcyc_label true rate_dv Prio1C.z_s0 zs_pre zs_cyc (LEnv Tick) i); unfold zs_cyc; fin_in|].
  split; [exists 4%nat; vm_compute; reflexivity|].
  split.
  { intros p ch Hp Hch. exists 3%nat. vm_compute in Hp. destruct Hp as [<-|[<-|[<-|[]]]]; vm_compute in Hch; inversion Hch; subst ch; vm_compute; reflexivity. }
  intros j e. apply (Hok j).
Qed.
Print Assumptions prio1_graceful_needs_positive_shares.
