(* Tie lemmas: the generated dividers (GenV2Divider.v, GenV1Divider.v) against the hand-written models
   Divider.v (fair, rate, sum_list, is_filled, is_filled_for, v1_call, v2_call), Sched.v (divide_with_min) and
   Float64.v (part_f).

   The two generated files define the same names (gen_SumPriorities, ...), so neither is imported at top level:
   module V2 imports GenV2Divider, module V1 imports GenV1Divider, and the main theorems at the end of the file use
   qualified names.

   Recipe (tools/gotrans/README.md): `unfold gen_f; cbn` runs the function up to the first loop or call; one lemma per
   generated `*_loop<i>` proved by induction over the list with the state as an explicit record constructor.

   No-overflow hypotheses.  The model works in N without wrap-around, the code modulo 2^64:
     - SumPriorities:  sum_list ps < 2^64;
     - Fair, Rate:     every entry that the call touches, plus the dividend, stays below 2^64
                       (forall k, In k ps -> get m k + d < 2^64); Rate needs sum_list ps < 2^64 in addition.
   The entries of keys that are not among the priorities are not constrained. *)
From Coq Require Import List NArith ZArith Bool Lia.
From Cqos Require Import Base Divider Float64 GoSem.
From Cqos Require Sched GenV2Divider GenV1Divider.
Import ListNotations.
Open Scope N_scope.

(* ------------------------------------------------------------------ facts about the models only *)

(* the no-overflow condition of a divider call: the entries of the listed priorities have room for the dividend *)
Definition room (ps : list N) (d : N) (m : dist) : Prop := forall k, In k ps -> get m k + d < u_modulus.

Lemma room_all ps d m : (forall k, get m k + d < u_modulus) -> room ps d m.
Proof. intros H k _. apply H. Qed.

(* the part function of the Rate divider, as the generated code writes it, is Float64.part_f (convertible) *)
Lemma gen_part_is_part_f d S p :
  u_of_f (round_away (fmul (fdiv (f_of_u d) (f_of_u S)) (f_of_u p))) = Float64.part_f d S p.
Proof. reflexivity. Qed.

(* after a complete run of the rate loop the entries of the keys under consideration still have room for the rest *)
Lemma rate_loop_bound part d0 S ks ps : forall rem m m' rem',
  (forall k, In k ks -> get m k + rem < u_modulus) ->
  rate_loop part d0 S ps rem m = (m', Some rem') ->
  forall k, In k ks -> get m' k + rem' < u_modulus.
Proof.
  induction ps as [|p r IH]; intros rem m m' rem' H E; cbn in E.
  - now injection E as <- <-.
  - destruct (N.ltb_spec rem (part d0 S p)) as [Hlt|Hge]; [discriminate|].
    eapply IH; [|exact E]. intros k Hk. unfold add. destruct (N.eq_dec p k) as [->|Hne].
    + rewrite get_set_same. specialize (H k Hk). lia.
    + rewrite get_set_other by auto. specialize (H k Hk). lia.
Qed.

(* a range loop ends normally or with a return, provided its body never runs out of fuel (bodies without while loops) *)
Definition no_fuel {V R} (c : ctl V R) : Prop := match c with Fuel _ => False | _ => True end.
Definition clean {V R} (c : ctl V R) : Prop := match c with Next _ | Ret _ _ => True | _ => False end.
Lemma range_loop_clean {V X R} (body : V -> X -> ctl V R) l :
  (forall v x, no_fuel (body v x)) -> forall v, clean (range_loop body l v).
Proof.
  intros Hb. induction l as [|x l IH]; intros v; cbn; [exact I|].
  specialize (Hb v x). destruct (body v x); cbn in *; auto.
Qed.

Lemma is_filled_for_nil ps : is_filled_for ps [] = match ps with [] => true | _ => false end.
Proof. destruct ps; reflexivity. Qed.

(* ================================================================== v2 *)
Module V2.
Import GenV2Divider.

(* ---- SumPriorities = sum_list, when the sum does not overflow.
   The range variable stays in the state: its final value is irrelevant, so it is quantified existentially. *)
Lemma SumPriorities_loop ps : forall ps0 s p0 w,
  s + sum_list ps < u_modulus ->
  exists p', range_loop gen_SumPriorities_loop1 ps (mk_SumPriorities_vars ps0 s p0 w) =
             Next (mk_SumPriorities_vars ps0 (s + sum_list ps) p' w).
Proof.
  induction ps as [|p r IH]; intros ps0 s p0 w H; cbn in *.
  - exists p0. now rewrite N.add_0_r.
  - rewrite u_add_small by lia. destruct (IH ps0 (s + p) p w) as [p' ->]; [lia|].
    exists p'. do 2 f_equal. lia.
Qed.

Lemma tie_SumPriorities w ps : sum_list ps < u_modulus -> gen_SumPriorities w ps = (w, sum_list ps).
Proof.
  intros H. unfold gen_SumPriorities. cbn.
  now destruct (SumPriorities_loop ps ps 0 0 w) as [p' ->].
Qed.

(* ---- IsDistributionFilled = is_filled on the association list (no hypothesis).
   The loop returns from inside: the lemma is stated on the observable part of the outcome. *)
Definition filled_obs (c : ctl IsDistributionFilled_vars bool) : option (nat * gmap N * option bool) :=
  match c with
  | Next v => Some (IsDistributionFilled_w v, IsDistributionFilled_distribution v, None)
  | Ret v r => Some (IsDistributionFilled_w v, IsDistributionFilled_distribution v, Some r)
  | _ => None
  end.
Lemma IsDistributionFilled_loop (l : dist) : forall (dm : gmap N) q0 w,
  filled_obs (range_loop gen_IsDistributionFilled_loop1 l (mk_IsDistributionFilled_vars dm q0 w)) =
  Some (w, dm, if is_filled l then None else Some false).
Proof.
  induction l as [|[k q] r IH]; intros dm q0 w; cbn; [reflexivity|].
  destruct (q =? 0); cbn; [reflexivity|]. apply IH.
Qed.

Lemma tie_IsDistributionFilled_gen w (dm : gmap N) :
  gen_IsDistributionFilled w dm = (w, dm, is_filled (mitems dm)).
Proof.
  unfold gen_IsDistributionFilled. cbn.
  pose proof (IsDistributionFilled_loop (mitems dm) dm 0 w) as H.
  destruct (range_loop _ _ _) as [v|v r|v|v|v]; cbn in *; try discriminate;
    destruct (is_filled (mitems dm)); now inversion H.
Qed.

(* ---- IsDistributionFilledFor = is_filled_for (no hypothesis) *)
Definition filled_for_obs (c : ctl IsDistributionFilledFor_vars bool) : option (nat * gmap N * option bool) :=
  match c with
  | Next v => Some (IsDistributionFilledFor_w v, IsDistributionFilledFor_distribution v, None)
  | Ret v r => Some (IsDistributionFilledFor_w v, IsDistributionFilledFor_distribution v, Some r)
  | _ => None
  end.
Lemma IsDistributionFilledFor_loop ps : forall ps0 (m : dist) p0 w,
  filled_for_obs (range_loop gen_IsDistributionFilledFor_loop1 ps (mk_IsDistributionFilledFor_vars ps0 (Some m) p0 w)) =
  Some (w, Some m, if is_filled_for ps m then None else Some false).
Proof.
  induction ps as [|p r IH]; intros ps0 m p0 w; cbn; [reflexivity|].
  rewrite aget_get. destruct (get m p =? 0); cbn; [reflexivity|]. apply IH.
Qed.

Lemma tie_IsDistributionFilledFor w ps (m : dist) :
  gen_IsDistributionFilledFor w ps (Some m) = (w, Some m, is_filled_for ps m).
Proof.
  unfold gen_IsDistributionFilledFor. cbn.
  pose proof (IsDistributionFilledFor_loop ps ps m 0 w) as H.
  destruct (range_loop _ _ _) as [v|v r|v|v|v]; cbn in *; try discriminate;
    destruct (is_filled_for ps m); now inversion H.
Qed.

(* the nil map: every read is 0 *)
Lemma tie_IsDistributionFilledFor_nil w ps :
  gen_IsDistributionFilledFor w ps None = (w, None, match ps with [] => true | _ => false end).
Proof. unfold gen_IsDistributionFilledFor. destruct ps; reflexivity. Qed.

Lemma tie_IsDistributionFilledFor_gen w ps (dm : gmap N) :
  gen_IsDistributionFilledFor w ps dm = (w, dm, is_filled_for ps (mitems dm)).
Proof.
  destruct dm as [m|]; [apply tie_IsDistributionFilledFor|].
  rewrite tie_IsDistributionFilledFor_nil. cbn [mitems]. now rewrite is_filled_for_nil.
Qed.

(* ---- Fair = Divider.fair, when no touched entry can overflow *)
Lemma Fair_loop ps : forall ps0 dd (m : dist) dv base rem p0 w,
  (forall k, In k ps -> get m k + base * len ps + rem < u_modulus) ->
  exists p', range_loop gen_Fair_loop1 ps (mk_Fair_vars ps0 dd (Some m) dv base rem p0 w) =
             Next (mk_Fair_vars ps0 dd (Some (fair_loop ps base rem m)) dv base (rem - len ps) p' w).
Proof.
  induction ps as [|p r IH]; intros ps0 dd m dv base rem p0 w H.
  - exists p0. cbn. now rewrite N.sub_0_r.
  - pose proof (H p (or_introl eq_refl)) as Hp.
    assert (Hr : forall k, In k r -> get m k + base * (len r + 1) + rem < u_modulus).
    { intros k Hk. rewrite <- (len_cons p). apply H. now right. }
    rewrite len_cons in *.
    cbn. rewrite !aget_get, !aset_set.
    rewrite u_add_small by nia.
    destruct (N.eqb_spec rem 0) as [->|Hrem]; cbn; unfold add.
    + destruct (IH ps0 dd (set m p (get m p + base)) dv base 0 p w) as [p' E].
      * intros k Hk. destruct (N.eq_dec p k) as [->|Hne].
        -- rewrite get_set_same. nia.
        -- rewrite get_set_other by auto. specialize (Hr k Hk). nia.
      * exists p'. exact E.
    + rewrite !aget_get, !aset_set.
      rewrite u_add_small by (rewrite get_set_same; nia).
      rewrite u_sub_small by nia.
      destruct (IH ps0 dd (set (set m p (get m p + base)) p (get (set m p (get m p + base)) p + 1)) dv base (rem - 1) p w)
        as [p' E].
      * intros k Hk. destruct (N.eq_dec p k) as [->|Hne].
        -- rewrite !get_set_same. nia.
        -- rewrite !get_set_other by auto. specialize (Hr k Hk). nia.
      * exists p'. replace (rem - (len r + 1)) with (rem - 1 - len r) by lia. exact E.
Qed.

Lemma tie_Fair w ps dd (m : dist) :
  room ps dd m ->
  gen_Fair w ps dd (Some m) = (w, Some (fair ps dd m), tt).
Proof.
  intros H. unfold gen_Fair, fair. destruct ps as [|p r]; [reflexivity|].
  set (ps := p :: r) in *.
  assert (Hn : len ps <> 0) by (unfold ps; rewrite len_cons; lia).
  assert (Hdd : dd < u_modulus) by (specialize (H p (or_introl eq_refl)); lia).
  pose proof (N.mul_div_le dd (len ps) Hn) as Hle.
  cbn -[ps]. unfold ps at 1. rewrite len_cons_neq0. cbn -[ps].
  rewrite u_mul_small by (rewrite N.mul_comm; lia).
  rewrite u_sub_small by (rewrite 1?N.mul_comm; lia).
  fold (len ps).
  edestruct Fair_loop as [p' ->]; [|reflexivity].
  intros k Hk. specialize (H k Hk). rewrite (N.mul_comm (dd / len ps)) in *. lia.
Qed.

Lemma tie_Fair_nil w ps dd : gen_Fair w ps dd None = (w, None, tt).
Proof. unfold gen_Fair. destruct ps; reflexivity. Qed.

(* ---- Rate = Divider.rate part_f (the float64 expression is literally Float64.part_f): a function that calls another
   generated function (SumPriorities: rewritten with its tie lemma) and returns from inside the loop *)
Definition rate_obs (c : ctl Rate_vars unit) : option (nat * list N * gmap N * option N) :=
  match c with
  | Next v => Some (Rate_w v, Rate_priorities v, Rate_distribution v, Some (Rate_remainder v))
  | Ret v _ => Some (Rate_w v, Rate_priorities v, Rate_distribution v, None)
  | _ => None
  end.

Lemma Rate_loop ps : forall ps0 dd (m : dist) S rem p0 pt0 w,
  (forall k, In k ps -> get m k + rem < u_modulus) ->
  rate_obs (range_loop gen_Rate_loop1 ps
              (mk_Rate_vars ps0 dd (Some m) S (Float64.fdiv (f_of_u dd) (f_of_u S)) rem p0 pt0 w)) =
  Some (w, ps0, Some (fst (rate_loop Float64.part_f dd S ps rem m)), snd (rate_loop Float64.part_f dd S ps rem m)).
Proof.
  induction ps as [|p r IH]; intros ps0 dd m S rem p0 pt0 w H; [reflexivity|].
  pose proof (H p (or_introl eq_refl)) as Hp.
  cbn. rewrite gen_part_is_part_f. rewrite !aget_get, !aset_set.
  destruct (N.ltb_spec rem (Float64.part_f dd S p)) as [Hlt|Hge]; cbn.
  - rewrite u_add_small by exact Hp. reflexivity.
  - rewrite !aget_get, !aset_set.
    rewrite u_add_small by lia.
    rewrite u_sub_small by lia.
    unfold add. apply IH.
    intros k Hk. specialize (H k (or_intror Hk)). destruct (N.eq_dec p k) as [->|Hne].
    + rewrite get_set_same. lia.
    + rewrite get_set_other by auto. lia.
Qed.

Lemma tie_Rate w ps dd (m : dist) :
  sum_list ps < u_modulus ->
  room ps dd m ->
  gen_Rate w ps dd (Some m) = (w, Some (rate Float64.part_f ps dd m), tt).
Proof.
  intros HS H. unfold gen_Rate, rate. destruct ps as [|p0 r]; [reflexivity|].
  set (ps := p0 :: r) in *.
  cbn -[ps]. unfold ps at 1. rewrite len_cons_neq0. cbn -[ps].
  rewrite tie_SumPriorities by assumption. cbn -[ps].
  pose proof (Rate_loop ps ps dd m (sum_list ps) dd 0 0 w H) as L.
  destruct (rate_loop Float64.part_f dd (sum_list ps) ps dd m) as [m' [rem'|]] eqn:E;
    destruct (range_loop gen_Rate_loop1 ps _) as [v|v u|v|v|v]; cbn in L; try discriminate.
  - injection L as Hw Hps Hm Hr. cbn -[ps]. rewrite Hw, Hm, Hps, Hr. cbn. rewrite aget_get, aset_set.
    (* the final `distribution[priorities[0]] += remainder` is bounded like every other addition *)
    rewrite u_add_small by (eapply (rate_loop_bound _ _ _ ps); [exact H|exact E|now left]).
    reflexivity.
  - injection L as Hw Hps Hm. cbn -[ps]. destruct u. now rewrite Hw, Hm.
Qed.

Lemma tie_Rate_nil w ps dd : gen_Rate w ps dd None = (w, None, tt).
Proof. unfold gen_Rate. destruct ps; reflexivity. Qed.

(* ---- DivideWithMin = Sched.divide_with_min (no hypothesis: one division, no other arithmetic) *)
Lemma tie_DivideWithMin w base divider min :
  gen_DivideWithMin w base divider min = (w, Sched.divide_with_min base divider min).
Proof.
  unfold gen_DivideWithMin, Sched.divide_with_min. cbn.
  destruct (divider =? 0); cbn; [reflexivity|].
  destruct (base / divider <? min); reflexivity.
Qed.

End V2.

(* ================================================================== v1 *)
Module V1.
Import GenV1Divider.

Lemma SumPriorities_loop ps : forall ps0 s p0 w,
  s + sum_list ps < u_modulus ->
  exists p', range_loop gen_SumPriorities_loop1 ps (mk_SumPriorities_vars ps0 s p0 w) =
             Next (mk_SumPriorities_vars ps0 (s + sum_list ps) p' w).
Proof.
  induction ps as [|p r IH]; intros ps0 s p0 w H; cbn in *.
  - exists p0. now rewrite N.add_0_r.
  - rewrite u_add_small by lia. destruct (IH ps0 (s + p) p w) as [p' ->]; [lia|].
    exists p'. do 2 f_equal. lia.
Qed.

Lemma tie_SumPriorities w ps : sum_list ps < u_modulus -> gen_SumPriorities w ps = (w, sum_list ps).
Proof.
  intros H. unfold gen_SumPriorities. cbn.
  now destruct (SumPriorities_loop ps ps 0 0 w) as [p' ->].
Qed.

Definition filled_obs (c : ctl IsDistributionFilled_vars bool) : option (nat * gmap N * option bool) :=
  match c with
  | Next v => Some (IsDistributionFilled_w v, IsDistributionFilled_distribution v, None)
  | Ret v r => Some (IsDistributionFilled_w v, IsDistributionFilled_distribution v, Some r)
  | _ => None
  end.
Lemma IsDistributionFilled_loop (l : dist) : forall (dm : gmap N) q0 w,
  filled_obs (range_loop gen_IsDistributionFilled_loop1 l (mk_IsDistributionFilled_vars dm q0 w)) =
  Some (w, dm, if is_filled l then None else Some false).
Proof.
  induction l as [|[k q] r IH]; intros dm q0 w; cbn; [reflexivity|].
  destruct (q =? 0); cbn; [reflexivity|]. apply IH.
Qed.

Lemma tie_IsDistributionFilled_gen w (dm : gmap N) :
  gen_IsDistributionFilled w dm = (w, dm, is_filled (mitems dm)).
Proof.
  unfold gen_IsDistributionFilled. cbn.
  pose proof (IsDistributionFilled_loop (mitems dm) dm 0 w) as H.
  destruct (range_loop _ _ _) as [v|v r|v|v|v]; cbn in *; try discriminate;
    destruct (is_filled (mitems dm)); now inversion H.
Qed.

Definition filled_for_obs (c : ctl IsDistributionFilledFor_vars bool) : option (nat * gmap N * option bool) :=
  match c with
  | Next v => Some (IsDistributionFilledFor_w v, IsDistributionFilledFor_distribution v, None)
  | Ret v r => Some (IsDistributionFilledFor_w v, IsDistributionFilledFor_distribution v, Some r)
  | _ => None
  end.
Lemma IsDistributionFilledFor_loop ps : forall ps0 (m : dist) p0 w,
  filled_for_obs (range_loop gen_IsDistributionFilledFor_loop1 ps (mk_IsDistributionFilledFor_vars ps0 (Some m) p0 w)) =
  Some (w, Some m, if is_filled_for ps m then None else Some false).
Proof.
  induction ps as [|p r IH]; intros ps0 m p0 w; cbn; [reflexivity|].
  rewrite aget_get. destruct (get m p =? 0); cbn; [reflexivity|]. apply IH.
Qed.

Lemma tie_IsDistributionFilledFor w ps (m : dist) :
  gen_IsDistributionFilledFor w ps (Some m) = (w, Some m, is_filled_for ps m).
Proof.
  unfold gen_IsDistributionFilledFor. cbn.
  pose proof (IsDistributionFilledFor_loop ps ps m 0 w) as H.
  destruct (range_loop _ _ _) as [v|v r|v|v|v]; cbn in *; try discriminate;
    destruct (is_filled_for ps m); now inversion H.
Qed.

Lemma tie_IsDistributionFilledFor_nil w ps :
  gen_IsDistributionFilledFor w ps None = (w, None, match ps with [] => true | _ => false end).
Proof. unfold gen_IsDistributionFilledFor. destruct ps; reflexivity. Qed.

Lemma tie_IsDistributionFilledFor_gen w ps (dm : gmap N) :
  gen_IsDistributionFilledFor w ps dm = (w, dm, is_filled_for ps (mitems dm)).
Proof.
  destruct dm as [m|]; [apply tie_IsDistributionFilledFor|].
  rewrite tie_IsDistributionFilledFor_nil. cbn [mitems]. now rewrite is_filled_for_nil.
Qed.

(* ---- FairDivider.  The loop body is that of v2 Fair; the state has one more field, the hidden `distribution__caller`
   (c0 below), which the loop does not touch. *)
Lemma FairDivider_loop ps : forall ps0 dd (m : dist) dv base rem p0 c0 w,
  (forall k, In k ps -> get m k + base * len ps + rem < u_modulus) ->
  exists p', range_loop gen_FairDivider_loop1 ps (mk_FairDivider_vars ps0 dd (Some m) dv base rem p0 c0 w) =
             Next (mk_FairDivider_vars ps0 dd (Some (fair_loop ps base rem m)) dv base (rem - len ps) p' c0 w).
Proof.
  induction ps as [|p r IH]; intros ps0 dd m dv base rem p0 c0 w H.
  - exists p0. cbn. now rewrite N.sub_0_r.
  - pose proof (H p (or_introl eq_refl)) as Hp.
    assert (Hr : forall k, In k r -> get m k + base * (len r + 1) + rem < u_modulus).
    { intros k Hk. rewrite <- (len_cons p). apply H. now right. }
    rewrite len_cons in *.
    cbn. rewrite !aget_get, !aset_set.
    rewrite u_add_small by nia.
    destruct (N.eqb_spec rem 0) as [->|Hrem]; cbn; unfold add.
    + destruct (IH ps0 dd (set m p (get m p + base)) dv base 0 p c0 w) as [p' E].
      * intros k Hk. destruct (N.eq_dec p k) as [->|Hne].
        -- rewrite get_set_same. nia.
        -- rewrite get_set_other by auto. specialize (Hr k Hk). nia.
      * exists p'. exact E.
    + rewrite !aget_get, !aset_set.
      rewrite u_add_small by (rewrite get_set_same; nia).
      rewrite u_sub_small by nia.
      destruct (IH ps0 dd (set (set m p (get m p + base)) p (get (set m p (get m p + base)) p + 1)) dv base (rem - 1) p c0 w)
        as [p' E].
      * intros k Hk. destruct (N.eq_dec p k) as [->|Hne].
        -- rewrite !get_set_same. nia.
        -- rewrite !get_set_other by auto. specialize (Hr k Hk). nia.
      * exists p'. replace (rem - (len r + 1)) with (rem - 1 - len r) by lia. exact E.
Qed.

(* non-nil argument: updated in place and returned *)
Lemma tie_FairDivider_Some w ps dd (m : dist) :
  ps <> [] -> room ps dd m ->
  gen_FairDivider w ps dd (Some m) = (w, Some (fair ps dd m), Some (fair ps dd m)).
Proof.
  intros Hne H. unfold gen_FairDivider, fair. destruct ps as [|p r]; [contradiction|].
  set (ps := p :: r) in *.
  assert (Hn : len ps <> 0) by (unfold ps; rewrite len_cons; lia).
  assert (Hdd : dd < u_modulus) by (specialize (H p (or_introl eq_refl)); lia).
  pose proof (N.mul_div_le dd (len ps) Hn) as Hle.
  cbn -[ps]. unfold ps at 1. rewrite len_cons_neq0. cbn -[ps].
  rewrite u_mul_small by (rewrite N.mul_comm; lia).
  rewrite u_sub_small by (rewrite 1?N.mul_comm; lia).
  fold (len ps).
  edestruct FairDivider_loop as [p' ->]; [|reflexivity].
  intros k Hk. specialize (H k Hk). rewrite (N.mul_comm (dd / len ps)) in *. lia.
Qed.

(* nil argument: a fresh map is allocated, filled and returned; the caller's nil map stays nil *)
Lemma tie_FairDivider_None w ps dd :
  ps <> [] -> dd < u_modulus ->
  gen_FairDivider w ps dd None = (w, None, Some (fair ps dd [])).
Proof.
  intros Hne Hdd. unfold gen_FairDivider, fair. destruct ps as [|p r]; [contradiction|].
  set (ps := p :: r) in *.
  assert (Hn : len ps <> 0) by (unfold ps; rewrite len_cons; lia).
  pose proof (N.mul_div_le dd (len ps) Hn) as Hle.
  cbn -[ps]. unfold ps at 1. rewrite len_cons_neq0. cbn -[ps].
  rewrite u_mul_small by (rewrite N.mul_comm; lia).
  rewrite u_sub_small by (rewrite 1?N.mul_comm; lia).
  fold (len ps). unfold mmake.
  edestruct (FairDivider_loop ps ps dd []) as [p' ->]; [|reflexivity].
  intros k Hk. cbn [get]. rewrite (N.mul_comm (dd / len ps)) in *. lia.
Qed.

Lemma tie_FairDivider_empty w dd (dm : gmap N) : gen_FairDivider w [] dd dm = (w, dm, None).
Proof. reflexivity. Qed.

(* ---- RateDivider *)
Definition rate_obs (c : ctl RateDivider_vars (gmap N))
  : option (nat * list N * gmap N * option (gmap N) * (option N + gmap N)) :=
  match c with
  | Next v => Some (RateDivider_w v, RateDivider_priorities v, RateDivider_distribution v,
                    RateDivider_distribution__caller v, inl (Some (RateDivider_remainder v)))
  | Ret v r => Some (RateDivider_w v, RateDivider_priorities v, RateDivider_distribution v,
                     RateDivider_distribution__caller v, inr r)
  | _ => None
  end.

Lemma RateDivider_loop ps : forall ps0 dd (m : dist) S rem p0 pt0 c0 w,
  (forall k, In k ps -> get m k + rem < u_modulus) ->
  rate_obs (range_loop gen_RateDivider_loop1 ps
              (mk_RateDivider_vars ps0 dd (Some m) S (Float64.fdiv (f_of_u dd) (f_of_u S)) rem p0 pt0 c0 w)) =
  Some (w, ps0, Some (fst (rate_loop Float64.part_f dd S ps rem m)), c0,
        match snd (rate_loop Float64.part_f dd S ps rem m) with
        | Some rem' => inl (Some rem')
        | None => inr (Some (fst (rate_loop Float64.part_f dd S ps rem m)))
        end).
Proof.
  induction ps as [|p r IH]; intros ps0 dd m S rem p0 pt0 c0 w H; [reflexivity|].
  pose proof (H p (or_introl eq_refl)) as Hp.
  cbn. rewrite gen_part_is_part_f. rewrite !aget_get, !aset_set.
  destruct (N.ltb_spec rem (Float64.part_f dd S p)) as [Hlt|Hge]; cbn.
  - rewrite u_add_small by exact Hp. reflexivity.
  - rewrite !aget_get, !aset_set.
    rewrite u_add_small by lia.
    rewrite u_sub_small by lia.
    unfold add. apply IH.
    intros k Hk. specialize (H k (or_intror Hk)). destruct (N.eq_dec p k) as [->|Hne].
    + rewrite get_set_same. lia.
    + rewrite get_set_other by auto. lia.
Qed.

(* non-nil argument: updated in place and returned (hidden field None throughout) *)
Lemma tie_RateDivider_Some w ps dd (m : dist) :
  ps <> [] -> sum_list ps < u_modulus -> room ps dd m ->
  gen_RateDivider w ps dd (Some m) =
  (w, Some (rate Float64.part_f ps dd m), Some (rate Float64.part_f ps dd m)).
Proof.
  intros Hne HS H. unfold gen_RateDivider, rate. destruct ps as [|p0 r]; [contradiction|].
  set (ps := p0 :: r) in *.
  cbn -[ps]. unfold ps at 1. rewrite len_cons_neq0. cbn -[ps].
  rewrite tie_SumPriorities by assumption. cbn -[ps].
  pose proof (RateDivider_loop ps ps dd m (sum_list ps) dd 0 0 None w H) as L.
  destruct (rate_loop Float64.part_f dd (sum_list ps) ps dd m) as [m' [rem'|]] eqn:E;
    destruct (range_loop gen_RateDivider_loop1 ps _) as [v|v u|v|v|v]; cbn in L; try discriminate.
  - injection L as Hw Hps Hm Hc Hr. cbn -[ps]. rewrite Hw, Hm, Hps, Hr, Hc. cbn. rewrite aget_get, aset_set.
    rewrite u_add_small by (eapply (rate_loop_bound _ _ _ ps); [exact H|exact E|now left]).
    reflexivity.
  - injection L as Hw Hps Hm Hc Hu. cbn -[ps]. now rewrite Hw, Hm, Hc, Hu.
Qed.

(* nil argument: fresh map, the hidden field is Some None (the caller's nil map) *)
Lemma tie_RateDivider_None w ps dd :
  ps <> [] -> sum_list ps < u_modulus -> dd < u_modulus ->
  gen_RateDivider w ps dd None = (w, None, Some (rate Float64.part_f ps dd [])).
Proof.
  intros Hne HS Hdd. unfold gen_RateDivider, rate. destruct ps as [|p0 r]; [contradiction|].
  set (ps := p0 :: r) in *.
  cbn -[ps]. unfold ps at 1. rewrite len_cons_neq0. cbn -[ps].
  rewrite tie_SumPriorities by assumption. cbn -[ps]. unfold mmake.
  assert (H : forall k, In k ps -> get [] k + dd < u_modulus) by (intros k _; cbn [get]; lia).
  pose proof (RateDivider_loop ps ps dd [] (sum_list ps) dd 0 0 (Some None) w H) as L.
  destruct (rate_loop Float64.part_f dd (sum_list ps) ps dd []) as [m' [rem'|]] eqn:E;
    destruct (range_loop gen_RateDivider_loop1 ps _) as [v|v u|v|v|v]; cbn in L; try discriminate.
  - injection L as Hw Hps Hm Hc Hr. cbn -[ps]. rewrite Hw, Hm, Hps, Hr, Hc. cbn. rewrite aget_get, aset_set.
    rewrite u_add_small by (eapply (rate_loop_bound _ _ _ ps); [exact H|exact E|now left]).
    reflexivity.
  - injection L as Hw Hps Hm Hc Hu. cbn -[ps]. now rewrite Hw, Hm, Hc, Hu.
Qed.

Lemma tie_RateDivider_empty w dd (dm : gmap N) : gen_RateDivider w [] dd dm = (w, dm, None).
Proof. reflexivity. Qed.

Lemma tie_DivideWithMin w base divider min :
  gen_DivideWithMin w base divider min = (w, Sched.divide_with_min base divider min).
Proof.
  unfold gen_DivideWithMin, Sched.divide_with_min. cbn.
  destruct (divider =? 0); cbn; [reflexivity|].
  destruct (base / divider <? min); reflexivity.
Qed.

End V1.

(* ================================================================== v1 = v2, wrap-around included *)
(* The v1 and the v2 dividers are the same code up to the allocation of a nil map and the returned value.  This
   is proved here on the generated functions directly (a simulation between the two variable records), without
   any no-overflow hypothesis; the model-level corollary under the hypotheses of the ties is tie_v1_eq_v2 below. *)
Module V12.
Module G1 := GenV1Divider.
Module G2 := GenV2Divider.

(* SumPriorities *)
Definition emb_sum (v : G2.SumPriorities_vars) : G1.SumPriorities_vars :=
  G1.mk_SumPriorities_vars (G2.SumPriorities_priorities v) (G2.SumPriorities_sum v) (G2.SumPriorities_priority v)
    (G2.SumPriorities_w v).
Definition cmap_sum (c : ctl G2.SumPriorities_vars N) : ctl G1.SumPriorities_vars N :=
  match c with
  | Next v => Next (emb_sum v) | Ret v r => Ret (emb_sum v) r | Brk v => Brk (emb_sum v)
  | Cnt v => Cnt (emb_sum v) | Fuel v => Fuel (emb_sum v)
  end.
Lemma SumPriorities_body v x : G1.gen_SumPriorities_loop1 (emb_sum v) x = cmap_sum (G2.gen_SumPriorities_loop1 v x).
Proof. destruct v; reflexivity. Qed.
Lemma SumPriorities_loop ps : forall v,
  range_loop G1.gen_SumPriorities_loop1 ps (emb_sum v) = cmap_sum (range_loop G2.gen_SumPriorities_loop1 ps v).
Proof.
  induction ps as [|p r IH]; intros v; [reflexivity|].
  cbn [range_loop]. rewrite SumPriorities_body.
  destruct (G2.gen_SumPriorities_loop1 v p); cbn [cmap_sum]; try reflexivity; apply IH.
Qed.
Lemma SumPriorities_eq w ps : G1.gen_SumPriorities w ps = G2.gen_SumPriorities w ps.
Proof.
  unfold G1.gen_SumPriorities, G2.gen_SumPriorities. cbn.
  change (G1.mk_SumPriorities_vars ps 0 0 w) with (emb_sum (G2.mk_SumPriorities_vars ps 0 0 w)).
  rewrite SumPriorities_loop.
  destruct (range_loop G2.gen_SumPriorities_loop1 ps _) as [v|v r|v|v|v]; destruct v; reflexivity.
Qed.

(* Fair *)
Definition emb_fair (c0 : option (gmap N)) (v : G2.Fair_vars) : G1.FairDivider_vars :=
  G1.mk_FairDivider_vars (G2.Fair_priorities v) (G2.Fair_dividend v) (G2.Fair_distribution v) (G2.Fair_divider v)
    (G2.Fair_base v) (G2.Fair_remainder v) (G2.Fair_priority v) c0 (G2.Fair_w v).
(* a `return` of v2 is a `return distribution` of v1 *)
Definition cmap_fair c0 (c : ctl G2.Fair_vars unit) : ctl G1.FairDivider_vars (gmap N) :=
  match c with
  | Next v => Next (emb_fair c0 v) | Ret v _ => Ret (emb_fair c0 v) (G2.Fair_distribution v)
  | Brk v => Brk (emb_fair c0 v) | Cnt v => Cnt (emb_fair c0 v) | Fuel v => Fuel (emb_fair c0 v)
  end.
Lemma Fair_body c0 v x : G1.gen_FairDivider_loop1 (emb_fair c0 v) x = cmap_fair c0 (G2.gen_Fair_loop1 v x).
Proof. destruct v. cbn. destruct (_ =? 0); reflexivity. Qed.
Lemma Fair_loop c0 ps : forall v,
  range_loop G1.gen_FairDivider_loop1 ps (emb_fair c0 v) = cmap_fair c0 (range_loop G2.gen_Fair_loop1 ps v).
Proof.
  induction ps as [|p r IH]; intros v; [reflexivity|].
  cbn [range_loop]. rewrite Fair_body.
  destruct (G2.gen_Fair_loop1 v p); cbn [cmap_fair]; try reflexivity; apply IH.
Qed.
Lemma Fair_no_fuel v x : no_fuel (G2.gen_Fair_loop1 v x).
Proof. destruct v. cbn. destruct (_ =? 0); exact I. Qed.
Lemma Fair_eq w ps d (m : dist) :
  ps <> [] ->
  G1.gen_FairDivider w ps d (Some m) =
  (fst (fst (G2.gen_Fair w ps d (Some m))), snd (fst (G2.gen_Fair w ps d (Some m))), snd (fst (G2.gen_Fair w ps d (Some m)))).
Proof.
  intros Hne. destruct ps as [|p0 r]; [contradiction|]. set (ps := p0 :: r).
  unfold G1.gen_FairDivider, G2.gen_Fair.
  cbn -[ps]. unfold ps at 1 4 7 10. rewrite !len_cons_neq0. cbn -[ps].
  match goal with |- context [range_loop G1.gen_FairDivider_loop1 ps ?s] =>
    match goal with |- context [range_loop G2.gen_Fair_loop1 ps ?s2] => change s with (emb_fair None s2) end end.
  rewrite Fair_loop.
  match goal with |- context [range_loop G2.gen_Fair_loop1 ps ?s2] =>
    pose proof (range_loop_clean G2.gen_Fair_loop1 ps Fair_no_fuel s2) as Hc end.
  destruct (range_loop G2.gen_Fair_loop1 ps _) as [v|v u|v|v|v]; try contradiction;
    destruct v; try destruct u; reflexivity.
Qed.

(* Rate *)
Definition emb_rate (c0 : option (gmap N)) (v : G2.Rate_vars) : G1.RateDivider_vars :=
  G1.mk_RateDivider_vars (G2.Rate_priorities v) (G2.Rate_dividend v) (G2.Rate_distribution v) (G2.Rate_divider v)
    (G2.Rate_base v) (G2.Rate_remainder v) (G2.Rate_priority v) (G2.Rate_part v) c0 (G2.Rate_w v).
Definition cmap_rate c0 (c : ctl G2.Rate_vars unit) : ctl G1.RateDivider_vars (gmap N) :=
  match c with
  | Next v => Next (emb_rate c0 v) | Ret v _ => Ret (emb_rate c0 v) (G2.Rate_distribution v)
  | Brk v => Brk (emb_rate c0 v) | Cnt v => Cnt (emb_rate c0 v) | Fuel v => Fuel (emb_rate c0 v)
  end.
Lemma Rate_body c0 v x : G1.gen_RateDivider_loop1 (emb_rate c0 v) x = cmap_rate c0 (G2.gen_Rate_loop1 v x).
Proof. destruct v. cbn. destruct (_ <? _); reflexivity. Qed.
Lemma Rate_no_fuel v x : no_fuel (G2.gen_Rate_loop1 v x).
Proof. destruct v. cbn. destruct (_ <? _); exact I. Qed.
Lemma Rate_loop c0 ps : forall v,
  range_loop G1.gen_RateDivider_loop1 ps (emb_rate c0 v) = cmap_rate c0 (range_loop G2.gen_Rate_loop1 ps v).
Proof.
  induction ps as [|p r IH]; intros v; [reflexivity|].
  cbn [range_loop]. rewrite Rate_body.
  destruct (G2.gen_Rate_loop1 v p); cbn [cmap_rate]; try reflexivity; apply IH.
Qed.
Lemma Rate_eq w ps d (m : dist) :
  ps <> [] ->
  G1.gen_RateDivider w ps d (Some m) =
  (fst (fst (G2.gen_Rate w ps d (Some m))), snd (fst (G2.gen_Rate w ps d (Some m))), snd (fst (G2.gen_Rate w ps d (Some m)))).
Proof.
  intros Hne. destruct ps as [|p0 r]; [contradiction|]. set (ps := p0 :: r).
  unfold G1.gen_RateDivider, G2.gen_Rate.
  cbn -[ps]. unfold ps at 1 4 7 10. rewrite !len_cons_neq0. cbn -[ps].
  rewrite SumPriorities_eq. destruct (G2.gen_SumPriorities w ps) as [w' S]. cbn -[ps].
  match goal with |- context [range_loop G1.gen_RateDivider_loop1 ps ?s] =>
    match goal with |- context [range_loop G2.gen_Rate_loop1 ps ?s2] => change s with (emb_rate None s2) end end.
  rewrite Rate_loop.
  match goal with |- context [range_loop G2.gen_Rate_loop1 ps ?s2] =>
    pose proof (range_loop_clean G2.gen_Rate_loop1 ps Rate_no_fuel s2) as Hc end.
  destruct (range_loop G2.gen_Rate_loop1 ps _) as [v|v u|v|v|v]; try contradiction;
    destruct v; try destruct u; reflexivity.
Qed.

End V12.

(* ================================================================== *)
(* ==== main tie theorems ==== *)
(* u_modulus = 2^64 (GoSem.u_modulus_eq).  `dist` = list (N * N) and `gmap N` = option dist; a nil map is None.
   Every generated function takes the world counter w and returns it first; the dividers do not call function
   values, so w comes back unchanged. *)

(* ---- common.SumPriorities (v2 and v1) = Divider.sum_list, if the sum stays below 2^64 *)
Theorem tie_v2_SumPriorities w ps :
  sum_list ps < u_modulus -> GenV2Divider.gen_SumPriorities w ps = (w, sum_list ps).
Proof. apply V2.tie_SumPriorities. Qed.

Theorem tie_v1_SumPriorities w ps :
  sum_list ps < u_modulus -> GenV1Divider.gen_SumPriorities w ps = (w, sum_list ps).
Proof. apply V1.tie_SumPriorities. Qed.

(* ---- common.IsDistributionFilled (v2 and v1) = Divider.is_filled, no hypothesis; the map is returned unchanged *)
Theorem tie_v2_IsDistributionFilled w (m : dist) :
  GenV2Divider.gen_IsDistributionFilled w (Some m) = (w, Some m, is_filled m).
Proof. apply (V2.tie_IsDistributionFilled_gen w (Some m)). Qed.

Theorem tie_v2_IsDistributionFilled_nil w : GenV2Divider.gen_IsDistributionFilled w None = (w, None, true).
Proof. apply (V2.tie_IsDistributionFilled_gen w None). Qed.

Theorem tie_v1_IsDistributionFilled w (m : dist) :
  GenV1Divider.gen_IsDistributionFilled w (Some m) = (w, Some m, is_filled m).
Proof. apply (V1.tie_IsDistributionFilled_gen w (Some m)). Qed.

Theorem tie_v1_IsDistributionFilled_nil w : GenV1Divider.gen_IsDistributionFilled w None = (w, None, true).
Proof. apply (V1.tie_IsDistributionFilled_gen w None). Qed.

(* ---- common.IsDistributionFilledFor (v2 and v1) = Divider.is_filled_for, no hypothesis.
   A nil map reads 0 everywhere, i.e. behaves as the empty association list. *)
Theorem tie_v2_IsDistributionFilledFor w ps (m : dist) :
  GenV2Divider.gen_IsDistributionFilledFor w ps (Some m) = (w, Some m, is_filled_for ps m).
Proof. apply V2.tie_IsDistributionFilledFor. Qed.

Theorem tie_v2_IsDistributionFilledFor_nil w ps :
  GenV2Divider.gen_IsDistributionFilledFor w ps None = (w, None, is_filled_for ps []).
Proof. apply (V2.tie_IsDistributionFilledFor_gen w ps None). Qed.

Theorem tie_v1_IsDistributionFilledFor w ps (m : dist) :
  GenV1Divider.gen_IsDistributionFilledFor w ps (Some m) = (w, Some m, is_filled_for ps m).
Proof. apply V1.tie_IsDistributionFilledFor. Qed.

Theorem tie_v1_IsDistributionFilledFor_nil w ps :
  GenV1Divider.gen_IsDistributionFilledFor w ps None = (w, None, is_filled_for ps []).
Proof. apply (V1.tie_IsDistributionFilledFor_gen w ps None). Qed.

(* ---- general.DivideWithMin (v2 and v1) = Sched.divide_with_min, no hypothesis *)
Theorem tie_v2_DivideWithMin w base divider min :
  GenV2Divider.gen_DivideWithMin w base divider min = (w, Sched.divide_with_min base divider min).
Proof. apply V2.tie_DivideWithMin. Qed.

Theorem tie_v1_DivideWithMin w base divider min :
  GenV1Divider.gen_DivideWithMin w base divider min = (w, Sched.divide_with_min base divider min).
Proof. apply V1.tie_DivideWithMin. Qed.

(* ---- v2 divider.Fair = Divider.v2_call fair.
   Hypothesis: the entry of every listed priority, plus the dividend, is below 2^64 (entries of other keys are
   free; for ps <> [] this includes d < 2^64). *)
Theorem tie_v2_Fair w ps d (m : dist) :
  (forall k, In k ps -> get m k + d < u_modulus) ->
  GenV2Divider.gen_Fair w ps d (Some m) = (w, Some (Divider.fair ps d m), tt).
Proof. apply V2.tie_Fair. Qed.

Theorem tie_v2_Fair_nil w ps d : GenV2Divider.gen_Fair w ps d None = (w, None, tt).
Proof. apply V2.tie_Fair_nil. Qed.

(* both cases in one statement *)
Theorem tie_v2_Fair_call w ps d (dm : option dist) :
  (forall k, In k ps -> get (mitems dm) k + d < u_modulus) ->
  GenV2Divider.gen_Fair w ps d dm = (w, Divider.v2_call fair ps d dm, tt).
Proof. destruct dm as [m|]; [apply tie_v2_Fair|intros _; apply tie_v2_Fair_nil]. Qed.

(* ---- v2 divider.Rate = Divider.v2_call (rate part_f).
   Hypotheses: the sum of the priorities is below 2^64, and the entry of every listed priority plus the dividend is
   below 2^64.  The float64 expression of the code is Float64.part_f by conversion (gen_part_is_part_f). *)
Theorem tie_v2_Rate w ps d (m : dist) :
  sum_list ps < u_modulus ->
  (forall k, In k ps -> get m k + d < u_modulus) ->
  GenV2Divider.gen_Rate w ps d (Some m) = (w, Some (Divider.rate Float64.part_f ps d m), tt).
Proof. apply V2.tie_Rate. Qed.

Theorem tie_v2_Rate_nil w ps d : GenV2Divider.gen_Rate w ps d None = (w, None, tt).
Proof. apply V2.tie_Rate_nil. Qed.

Theorem tie_v2_Rate_call w ps d (dm : option dist) :
  sum_list ps < u_modulus ->
  (forall k, In k ps -> get (mitems dm) k + d < u_modulus) ->
  GenV2Divider.gen_Rate w ps d dm = (w, Divider.v2_call (rate Float64.part_f) ps d dm, tt).
Proof. destruct dm as [m|]; [apply tie_v2_Rate|intros _ _; apply tie_v2_Rate_nil]. Qed.

(* ---- v1 FairDivider = Divider.v1_call fair.
   The result triple is (w, the caller's map afterwards, the returned map).  Empty priorities: nil is returned and
   the argument is untouched; nil argument: a fresh map is returned and the caller's nil stays nil; otherwise the
   argument is updated in place and returned -- that is GoSem.div1_arg_after.
   Hypothesis as for v2, a nil map counting as empty (so: d < 2^64 when ps <> []). *)
Theorem tie_v1_FairDivider w ps d (dm : option dist) :
  (forall k, In k ps -> get (mitems dm) k + d < u_modulus) ->
  GenV1Divider.gen_FairDivider w ps d dm =
  (w, div1_arg_after dm (Divider.v1_call fair ps d dm), Divider.v1_call fair ps d dm).
Proof.
  intros H. destruct ps as [|p r]; [rewrite V1.tie_FairDivider_empty; now destruct dm|].
  destruct dm as [m|].
  - apply V1.tie_FairDivider_Some; [discriminate|exact H].
  - apply V1.tie_FairDivider_None; [discriminate|]. apply (H p (or_introl eq_refl)).
Qed.

(* ---- v1 RateDivider = Divider.v1_call (rate part_f) *)
Theorem tie_v1_RateDivider w ps d (dm : option dist) :
  sum_list ps < u_modulus ->
  (forall k, In k ps -> get (mitems dm) k + d < u_modulus) ->
  GenV1Divider.gen_RateDivider w ps d dm =
  (w, div1_arg_after dm (Divider.v1_call (rate Float64.part_f) ps d dm), Divider.v1_call (rate Float64.part_f) ps d dm).
Proof.
  intros HS H. destruct ps as [|p r]; [rewrite V1.tie_RateDivider_empty; now destruct dm|].
  destruct dm as [m|].
  - apply V1.tie_RateDivider_Some; [discriminate|exact HS|exact H].
  - apply V1.tie_RateDivider_None; [discriminate|exact HS|]. apply (H p (or_introl eq_refl)).
Qed.

(* ---- v1 = v2 on a non-nil map and non-empty priorities: the v1 divider leaves in its argument, and returns, the
   map that the v2 divider leaves in its argument.  Corollary of the ties above, under their hypotheses. *)
Theorem tie_v1_eq_v2 w ps d (m : dist) :
  ps <> [] ->
  sum_list ps < u_modulus ->
  (forall k, In k ps -> get m k + d < u_modulus) ->
  (exists m', GenV2Divider.gen_Fair w ps d (Some m) = (w, Some m', tt) /\
              GenV1Divider.gen_FairDivider w ps d (Some m) = (w, Some m', Some m') /\ m' = fair ps d m) /\
  (exists m', GenV2Divider.gen_Rate w ps d (Some m) = (w, Some m', tt) /\
              GenV1Divider.gen_RateDivider w ps d (Some m) = (w, Some m', Some m') /\ m' = rate Float64.part_f ps d m).
Proof.
  intros Hne HS H. split.
  - exists (fair ps d m). split; [now apply tie_v2_Fair|]. split; [|reflexivity].
    rewrite (tie_v1_FairDivider w ps d (Some m) H). destruct ps; [contradiction|reflexivity].
  - exists (rate Float64.part_f ps d m). split; [now apply tie_v2_Rate|]. split; [|reflexivity].
    rewrite (tie_v1_RateDivider w ps d (Some m) HS H). destruct ps; [contradiction|reflexivity].
Qed.

(* the same agreement holds without any no-overflow hypothesis (wrap-around included): it is a fact about the two
   generated functions alone, proved by simulation (module V12), and does not mention the model *)
Theorem tie_v1_eq_v2_wrap w ps d (m : dist) :
  ps <> [] ->
  (forall w' m', GenV2Divider.gen_Fair w ps d (Some m) = (w', m', tt) ->
                 GenV1Divider.gen_FairDivider w ps d (Some m) = (w', m', m')) /\
  (forall w' m', GenV2Divider.gen_Rate w ps d (Some m) = (w', m', tt) ->
                 GenV1Divider.gen_RateDivider w ps d (Some m) = (w', m', m')).
Proof.
  intros Hne. split; intros w' m' E.
  - rewrite (V12.Fair_eq w ps d m Hne), E. reflexivity.
  - rewrite (V12.Rate_eq w ps d m Hne), E. reflexivity.
Qed.

(* ================================================================== examples (no theorem is vacuous) *)
(* each main theorem is applied to a small concrete input, and the model side is evaluated *)

Example ex_v2_SumPriorities : GenV2Divider.gen_SumPriorities 7 [3; 2; 1] = (7%nat, 6).
Proof. now rewrite tie_v2_SumPriorities. Qed.
Example ex_v1_SumPriorities : GenV1Divider.gen_SumPriorities 7 [3; 2; 1] = (7%nat, 6).
Proof. now rewrite tie_v1_SumPriorities. Qed.

Example ex_v2_IsDistributionFilled :
  GenV2Divider.gen_IsDistributionFilled 7 (Some [(3, 1); (2, 0)]) = (7%nat, Some [(3, 1); (2, 0)], false)
  /\ GenV2Divider.gen_IsDistributionFilled 7 (Some [(3, 1); (2, 4)]) = (7%nat, Some [(3, 1); (2, 4)], true)
  /\ GenV2Divider.gen_IsDistributionFilled 7 None = (7%nat, None, true).
Proof. now rewrite !tie_v2_IsDistributionFilled, tie_v2_IsDistributionFilled_nil. Qed.
Example ex_v1_IsDistributionFilled :
  GenV1Divider.gen_IsDistributionFilled 7 (Some [(3, 1); (2, 0)]) = (7%nat, Some [(3, 1); (2, 0)], false)
  /\ GenV1Divider.gen_IsDistributionFilled 7 (Some [(3, 1); (2, 4)]) = (7%nat, Some [(3, 1); (2, 4)], true)
  /\ GenV1Divider.gen_IsDistributionFilled 7 None = (7%nat, None, true).
Proof. now rewrite !tie_v1_IsDistributionFilled, tie_v1_IsDistributionFilled_nil. Qed.

(* priority 1 has no entry: filled (only present entries count) but not filled for [3; 1] *)
Example ex_v2_IsDistributionFilledFor :
  GenV2Divider.gen_IsDistributionFilledFor 7 [3; 1] (Some [(3, 1)]) = (7%nat, Some [(3, 1)], false)
  /\ GenV2Divider.gen_IsDistributionFilledFor 7 [3] (Some [(3, 1)]) = (7%nat, Some [(3, 1)], true)
  /\ GenV2Divider.gen_IsDistributionFilledFor 7 [3] None = (7%nat, None, false)
  /\ GenV2Divider.gen_IsDistributionFilledFor 7 [] None = (7%nat, None, true).
Proof. now rewrite !tie_v2_IsDistributionFilledFor, !tie_v2_IsDistributionFilledFor_nil. Qed.
Example ex_v1_IsDistributionFilledFor :
  GenV1Divider.gen_IsDistributionFilledFor 7 [3; 1] (Some [(3, 1)]) = (7%nat, Some [(3, 1)], false)
  /\ GenV1Divider.gen_IsDistributionFilledFor 7 [3] (Some [(3, 1)]) = (7%nat, Some [(3, 1)], true)
  /\ GenV1Divider.gen_IsDistributionFilledFor 7 [3] None = (7%nat, None, false)
  /\ GenV1Divider.gen_IsDistributionFilledFor 7 [] None = (7%nat, None, true).
Proof. now rewrite !tie_v1_IsDistributionFilledFor, !tie_v1_IsDistributionFilledFor_nil. Qed.

Example ex_v2_DivideWithMin :
  GenV2Divider.gen_DivideWithMin 7 100 10 3 = (7%nat, 10) /\ GenV2Divider.gen_DivideWithMin 7 20 10 3 = (7%nat, 3)
  /\ GenV2Divider.gen_DivideWithMin 7 20 0 3 = (7%nat, 20).
Proof. now rewrite !tie_v2_DivideWithMin. Qed.
Example ex_v1_DivideWithMin :
  GenV1Divider.gen_DivideWithMin 7 100 10 3 = (7%nat, 10) /\ GenV1Divider.gen_DivideWithMin 7 20 10 3 = (7%nat, 3)
  /\ GenV1Divider.gen_DivideWithMin 7 20 0 3 = (7%nat, 20).
Proof. now rewrite !tie_v1_DivideWithMin. Qed.

(* the no-overflow hypothesis on a concrete input: finitely many keys to check *)
Ltac room_tac := intros k Hk; cbn in Hk; repeat (destruct Hk as [<-|Hk]; [vm_compute; reflexivity|]); contradiction.

(* 11 over three priorities: base 3, remainder 2 goes to the first two; key 9 is not a priority and is untouched *)
Example ex_v2_Fair :
  GenV2Divider.gen_Fair 7 [3; 2; 1] 11 (Some [(3, 1); (9, 5)]) = (7%nat, Some [(3, 5); (9, 5); (2, 4); (1, 3)], tt).
Proof. rewrite tie_v2_Fair by room_tac. reflexivity. Qed.
Example ex_v2_Fair_nil : GenV2Divider.gen_Fair 7 [3; 2; 1] 11 None = (7%nat, None, tt).
Proof. apply tie_v2_Fair_nil. Qed.
Example ex_v2_Fair_call :
  GenV2Divider.gen_Fair 7 [3; 2; 1] 11 (Some [(3, 1); (9, 5)]) = (7%nat, Some [(3, 5); (9, 5); (2, 4); (1, 3)], tt)
  /\ GenV2Divider.gen_Fair 7 [3; 2; 1] 11 None = (7%nat, None, tt).
Proof. split; (rewrite tie_v2_Fair_call by room_tac); reflexivity. Qed.

(* 11 in the proportion 3:2:1: parts round(5.5) = 6, round(3.67) = 4, then 1 < round(1.83) = 2 ends the loop early *)
Example ex_v2_Rate :
  GenV2Divider.gen_Rate 7 [3; 2; 1] 11 (Some [(3, 1); (9, 5)]) = (7%nat, Some [(3, 7); (9, 5); (2, 4); (1, 1)], tt).
Proof. rewrite tie_v2_Rate by (try room_tac; vm_compute; reflexivity). vm_compute. reflexivity. Qed.
(* 12 in the proportion 3:2:1 runs the loop to the end (leftover 0 goes to the first priority) *)
Example ex_v2_Rate_full :
  GenV2Divider.gen_Rate 7 [3; 2; 1] 12 (Some [(3, 1); (9, 5)]) = (7%nat, Some [(3, 7); (9, 5); (2, 4); (1, 2)], tt).
Proof. rewrite tie_v2_Rate by (try room_tac; vm_compute; reflexivity). vm_compute. reflexivity. Qed.
Example ex_v2_Rate_nil : GenV2Divider.gen_Rate 7 [3; 2; 1] 11 None = (7%nat, None, tt).
Proof. apply tie_v2_Rate_nil. Qed.
Example ex_v2_Rate_call :
  GenV2Divider.gen_Rate 7 [3; 2; 1] 11 (Some [(3, 1); (9, 5)]) = (7%nat, Some [(3, 7); (9, 5); (2, 4); (1, 1)], tt)
  /\ GenV2Divider.gen_Rate 7 [3; 2; 1] 11 None = (7%nat, None, tt).
Proof. split; (rewrite tie_v2_Rate_call by (try room_tac; vm_compute; reflexivity)); vm_compute; reflexivity. Qed.

(* v1: non-nil argument (updated and returned), nil argument (allocated; the caller's nil stays), no priorities (nil) *)
Example ex_v1_FairDivider :
  GenV1Divider.gen_FairDivider 7 [3; 2; 1] 11 (Some [(3, 1); (9, 5)]) =
    (7%nat, Some [(3, 5); (9, 5); (2, 4); (1, 3)], Some [(3, 5); (9, 5); (2, 4); (1, 3)])
  /\ GenV1Divider.gen_FairDivider 7 [3; 2; 1] 11 None = (7%nat, None, Some [(3, 4); (2, 4); (1, 3)])
  /\ GenV1Divider.gen_FairDivider 7 [] 11 (Some [(3, 1)]) = (7%nat, Some [(3, 1)], None).
Proof. repeat split; (rewrite tie_v1_FairDivider by room_tac); reflexivity. Qed.

Example ex_v1_RateDivider :
  GenV1Divider.gen_RateDivider 7 [3; 2; 1] 11 (Some [(3, 1); (9, 5)]) =
    (7%nat, Some [(3, 7); (9, 5); (2, 4); (1, 1)], Some [(3, 7); (9, 5); (2, 4); (1, 1)])
  /\ GenV1Divider.gen_RateDivider 7 [3; 2; 1] 11 None = (7%nat, None, Some [(3, 6); (2, 4); (1, 1)])
  /\ GenV1Divider.gen_RateDivider 7 [] 11 (Some [(3, 1)]) = (7%nat, Some [(3, 1)], None).
Proof.
  repeat split; (rewrite tie_v1_RateDivider by (try room_tac; vm_compute; reflexivity)); vm_compute; reflexivity.
Qed.

Example ex_v1_eq_v2 :
  (exists m', GenV2Divider.gen_Fair 7 [3; 2; 1] 11 (Some [(3, 1); (9, 5)]) = (7%nat, Some m', tt) /\
              GenV1Divider.gen_FairDivider 7 [3; 2; 1] 11 (Some [(3, 1); (9, 5)]) = (7%nat, Some m', Some m') /\
              m' = [(3, 5); (9, 5); (2, 4); (1, 3)]) /\
  (exists m', GenV2Divider.gen_Rate 7 [3; 2; 1] 11 (Some [(3, 1); (9, 5)]) = (7%nat, Some m', tt) /\
              GenV1Divider.gen_RateDivider 7 [3; 2; 1] 11 (Some [(3, 1); (9, 5)]) = (7%nat, Some m', Some m') /\
              m' = [(3, 7); (9, 5); (2, 4); (1, 1)]).
Proof.
  destruct (tie_v1_eq_v2 7 [3; 2; 1] 11 [(3, 1); (9, 5)]) as [[mf (F2 & F1 & Ef)] [mr (R2 & R1 & Er)]];
    [discriminate|vm_compute; reflexivity|room_tac|].
  split; [exists mf|exists mr]; (split; [assumption|split; [assumption|]]).
  - rewrite Ef. reflexivity.
  - rewrite Er. vm_compute. reflexivity.
Qed.

(* with wrap-around: the entry 2^64 - 1 wraps to 1 in both versions (the model, which does not wrap, says 2^64 + 1) *)
Example ex_v1_eq_v2_wrap :
  GenV2Divider.gen_Fair 7 [1] 2 (Some [(1, 18446744073709551615)]) = (7%nat, Some [(1, 1)], tt)
  /\ GenV1Divider.gen_FairDivider 7 [1] 2 (Some [(1, 18446744073709551615)]) = (7%nat, Some [(1, 1)], Some [(1, 1)]).
Proof.
  assert (E : GenV2Divider.gen_Fair 7 [1] 2 (Some [(1, 18446744073709551615)]) = (7%nat, Some [(1, 1)], tt))
    by (vm_compute; reflexivity).
  split; [exact E|]. now apply (tie_v1_eq_v2_wrap 7 [1] 2 [(1, 18446744073709551615)]).
Qed.

(* ---- the hypotheses cannot be dropped: outside them code (modulo 2^64) and model (unbounded N) differ *)
Example Fair_needs_room :
  GenV2Divider.gen_Fair 0 [1] 2 (Some [(1, 18446744073709551615)]) = (0%nat, Some [(1, 1)], tt)
  /\ fair [1] 2 [(1, 18446744073709551615)] = [(1, 18446744073709551617)].
Proof. split; vm_compute; reflexivity. Qed.
Example SumPriorities_needs_bound :
  GenV2Divider.gen_SumPriorities 0 [18446744073709551615; 2] = (0%nat, 1)
  /\ sum_list [18446744073709551615; 2] = 18446744073709551617.
Proof. split; vm_compute; reflexivity. Qed.
(* the wrapped sum 1 makes the first part 10 * (2^64 - 1), far above the dividend: the code stops at the first
   priority, the model (true sum) goes on to the second one *)
Example Rate_needs_sum_bound :
  GenV2Divider.gen_Rate 0 [18446744073709551615; 2] 10 (Some []) = (0%nat, Some [(18446744073709551615, 10)], tt)
  /\ rate Float64.part_f [18446744073709551615; 2] 10 [] = [(18446744073709551615, 10); (2, 0)].
Proof. split; vm_compute; reflexivity. Qed.
