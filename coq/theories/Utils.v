(* Model of v2/priority/utils/utils.go and priority/utils.go (identical logic; v1 passes nil maps):
   genCombinations, isNonFatalConfig, isSuitableConfig (float64 via Flocq), PickUp{Min,Max}*. *)
From Coq Require Import List NArith ZArith Bool.
From Cqos Require Import Base Divider Sched Float64.
Import ListNotations.
Open Scope N_scope.

Definition snoc (p : N) (c : list N) : list N := c ++ [p].

(* for each priority: every combination found so far extended by it, then the priority alone *)
Fixpoint gen_comb_loop (ps : list N) (acc : list (list N)) : list (list N) :=
  match ps with
  | [] => acc
  | p :: r => gen_comb_loop r (acc ++ map (snoc p) acc ++ [[p]])
  end.
Definition gen_combinations (ps : list N) : list (list N) := gen_comb_loop ps [].

Section WithFilled.
(* the "distribution filled" test is a parameter so that the pinned code (is_filled, ignoring absent
   keys) and the current code (is_filled_for) share one definition *)
Variable filled : list N -> dist -> bool.

Definition nonfatal_combs (combs : list (list N)) (dv : Divider) (q : N) : bool :=
  forallb (fun c => filled c (dv c q [])) combs.

Definition is_nonfatal_with (ps : list N) (dv : Divider) (q : N) : bool :=
  nonfatal_combs (gen_combinations (sort_desc ps)) dv q.

(* for quantity := 1; quantity <= max; quantity++ *)
Fixpoint pick_min_from (pred : N -> bool) (q : N) (fuel : nat) : N :=
  match fuel with
  | O => 0
  | S f => if pred q then q else pick_min_from pred (q + 1) f
  end.
Definition pick_min (pred : N -> bool) (max : N) : N := pick_min_from pred 1 (N.to_nat max).
(* for quantity := max; quantity != 0; quantity-- *)
Fixpoint pick_max_nat (pred : N -> bool) (n : nat) : N :=
  match n with
  | O => 0
  | S m => if pred (N.of_nat (S m)) then N.of_nat (S m) else pick_max_nat pred m
  end.
Definition pick_max (pred : N -> bool) (max : N) : N := pick_max_nat pred (N.to_nat max).

(* isDistributionSuitable: ranges over the entries of `reference` *)
Definition fN (n : N) : b64 := of_Z (Z.of_N n).
Definition hundred : b64 := of_Z 100.
Definition one : b64 := of_Z 1.
Definition dist_suitable (d ref : dist) (total ref_total : N) (limit : b64) : bool :=
  let ratio := fdiv (fN ref_total) (fN total) in
  forallb (fun kv =>
    let '(p, rq) := kv in
    if rq =? 0 then false else
    let diff := fsub one (fdiv (fmul ratio (fN (get d p))) (fN rq)) in
    negb (fgt (fmul hundred (fabs diff)) limit)) ref.

Definition reference_factor : N := 1000.
Definition suitable_combs (combs : list (list N)) (ps : list N) (dv : Divider) (q : N) (limit : b64) : bool :=
  let ref_total := reference_factor * sum_list ps in
  forallb (fun c =>
    let d := dv c q [] in
    if filled c d then dist_suitable d (dv c ref_total []) q ref_total limit else false) combs.
Definition is_suitable_with (ps : list N) (dv : Divider) (q : N) (limit : b64) : bool :=
  let sorted := sort_desc ps in suitable_combs (gen_combinations sorted) sorted dv q limit.
End WithFilled.

Definition is_nonfatal := is_nonfatal_with is_filled_for.
Definition is_nonfatal_old := is_nonfatal_with (fun _ d => is_filled d).
Definition is_suitable := is_suitable_with is_filled_for.
Definition pick_min_nonfatal ps dv max := pick_min (is_nonfatal ps dv) max.
Definition pick_max_nonfatal ps dv max := pick_max (is_nonfatal ps dv) max.
Definition pick_min_suitable ps dv max limit := pick_min (fun q => is_suitable ps dv q limit) max.
Definition pick_max_suitable ps dv max limit := pick_max (fun q => is_suitable ps dv q limit) max.
