(* Tie lemmas, part 3 of 4: isZeroActual, isDrainedInputs, markInputAsDrained, increaseActual, decreaseActual,
   decreaseTactic of the generated GenV2Prio.v versus the map updates of Prio2.sched_step (pop_fb, push_out,
   mark_drained, the tests of EndBase and Drain).  Needs GenTiePrio2Base.v for the abstraction `conc` only. *)
From Coq Require Import List NArith ZArith Bool Lia.
From Cqos Require Import Base Divider Sched Prio2 Prio2P GoSem GenV2Prio GenTiePrio2Base.
Import ListNotations.
Open Scope N_scope.

(* ------------------------------------------------------------------ isZeroActual, isDrainedInputs *)

Definition zero_obs (c : ctl isZeroActual_vars bool) : option (nat * Discipline * option bool) :=
  match c with
  | Next v => Some (isZeroActual_w v, isZeroActual_dsc v, None)
  | Ret v r => Some (isZeroActual_w v, isZeroActual_dsc v, Some r)
  | _ => None
  end.

Lemma isZeroActual_loop (l : dist) : forall dsc q w,
  zero_obs (range_loop gen_isZeroActual_loop1 l (mk_isZeroActual_vars dsc q w)) =
  Some (w, dsc, if forallb (fun kv => snd kv =? 0) l then None else Some false).
Proof.
  induction l as [|[k x] r IH]; intros dsc q w; cbn; [reflexivity|].
  destruct (x =? 0); cbn; [apply IH|reflexivity].
Qed.

Lemma tie_isZeroActual_gen w dsc (a : dist) :
  Discipline_actual dsc = Some a -> gen_isZeroActual w dsc = (w, dsc, sum a =? 0).
Proof.
  intros Ea. unfold gen_isZeroActual. cbn. rewrite Ea. cbn.
  pose proof (isZeroActual_loop a dsc 0 w) as L. rewrite <- sum_zero_forallb.
  destruct (range_loop _ a _) as [v|v r|v|v|v]; cbn in *; try discriminate;
    destruct (forallb _ a); try discriminate; injection L as Hw Hd; rewrite ?Hw, ?Hd; subst; reflexivity.
Qed.

Definition drained_obs (c : ctl isDrainedInputs_vars bool) : option (nat * Discipline * option bool) :=
  match c with
  | Next v => Some (isDrainedInputs_w v, isDrainedInputs_dsc v, None)
  | Ret v r => Some (isDrainedInputs_w v, isDrainedInputs_dsc v, Some r)
  | _ => None
  end.

Lemma isDrainedInputs_loop (l : list (N * Input)) : forall dsc i0 w,
  drained_obs (range_loop gen_isDrainedInputs_loop1 l (mk_isDrainedInputs_vars dsc i0 w)) =
  Some (w, dsc, if forallb (fun kv => Input_Drained (snd kv)) l then None else Some false).
Proof.
  induction l as [|[k x] r IH]; intros dsc i0 w; cbn; [reflexivity|].
  destruct (Input_Drained x); cbn; [apply IH|reflexivity].
Qed.

Lemma tie_isDrainedInputs_gen w dsc (ins : list (N * Input)) :
  Discipline_inputs dsc = Some ins ->
  gen_isDrainedInputs w dsc = (w, dsc, forallb (fun kv => Input_Drained (snd kv)) ins).
Proof.
  intros Ei. unfold gen_isDrainedInputs. cbn. rewrite Ei. cbn.
  pose proof (isDrainedInputs_loop ins dsc zero_Input w) as L.
  destruct (range_loop _ ins _) as [v|v r|v|v|v]; cbn in *; try discriminate;
    destruct (forallb _ ins); try discriminate; injection L as Hw Hd; rewrite ?Hw, ?Hd; subst; reflexivity.
Qed.

(* dsc.inputs versus the model: the keys are the priorities, the Drained flags are `drained s` *)
Definition ins_rel (s : st) (ins : list (N * Input)) : Prop :=
  NoDup (map fst ins) /\
  (forall p, In p (prios s) <-> In p (map fst ins)) /\
  (forall p i, In (p, i) ins -> Input_Drained i = drained s p).

Lemma ins_rel_forallb s ins :
  ins_rel s ins -> forallb (fun kv => Input_Drained (snd kv)) ins = forallb (drained s) (prios s).
Proof.
  intros (_ & Hk & Hd). apply eq_true_iff_eq. rewrite !forallb_forall. split.
  - intros Hall p Hp. apply Hk in Hp. apply in_map_iff in Hp. destruct Hp as [[q i] [E Hin]]. cbn in E. subst q.
    rewrite <- (Hd p i Hin). exact (Hall (p, i) Hin).
  - intros Hall [p i] Hin. cbn. rewrite (Hd p i Hin). apply Hall. apply Hk. apply in_map_iff. now exists (p, i).
Qed.

(* ------------------------------------------------------------------ markInputAsDrained *)

Lemma tie_markInputAsDrained_gen w dsc (ins : list (N * Input)) p :
  Discipline_inputs dsc = Some ins ->
  gen_markInputAsDrained w dsc p =
  (w, set_Discipline_inputs (Some (aset ins p (set_Input_Drained true (aget zero_Input ins p)))) dsc, tt).
Proof. intros Ei. unfold gen_markInputAsDrained. cbn. rewrite Ei. reflexivity. Qed.

Lemma in_aset {T : Type} (l : list (N * T)) p x q i :
  NoDup (map fst l) -> In (q, i) (aset l p x) -> (q = p /\ i = x) \/ (q <> p /\ In (q, i) l).
Proof.
  induction l as [|[k v] r IH]; cbn; intros ND Hin.
  - destruct Hin as [E|[]]. injection E as <- <-. now left.
  - inversion ND as [|? ? Hn ND']; subst.
    destruct (N.eqb_spec p k) as [->|Hne]; cbn in Hin.
    + destruct Hin as [E|Hin]; [injection E as <- <-; now left|].
      right. split; [|now right]. intros ->. apply Hn. apply in_map_iff. now exists (k, i).
    + destruct Hin as [E|Hin]; [injection E as <- <-; right; split; [congruence|now left]|].
      destruct (IH ND' Hin) as [?|[? ?]]; [now left|right; split; auto].
Qed.

Lemma aget_in {T : Type} (z : T) (l : list (N * T)) p : In p (map fst l) -> In (p, aget z l p) l.
Proof.
  induction l as [|[k v] r IH]; cbn; [tauto|].
  destruct (N.eqb_spec p k) as [->|Hne]; [now left|]. intros [E|Hin]; [congruence|]. right. now apply IH.
Qed.

Lemma channels_aset (l : list (N * Input)) p x :
  Input_Channel x = Input_Channel (aget zero_Input l p) -> In p (map fst l) ->
  map (fun kv => (fst kv, Input_Channel (snd kv))) (aset l p x) = map (fun kv => (fst kv, Input_Channel (snd kv))) l.
Proof.
  induction l as [|[k v] r IH]; cbn; [tauto|].
  destruct (N.eqb_spec p k) as [->|Hne]; cbn; intros Ec Hin.
  - now rewrite Ec.
  - destruct Hin as [E|Hin]; [congruence|]. now rewrite IH.
Qed.

Lemma ins_rel_mark s ins p c :
  ins_rel s ins -> In p (prios s) ->
  ins_rel (mark_drained s p c) (aset ins p (set_Input_Drained true (aget zero_Input ins p))).
Proof.
  intros (ND & Hk & Hd) Hp. assert (Hpk : In p (map fst ins)) by now apply Hk.
  unfold ins_rel. cbn [prios drained mark_drained]. rewrite map_fst_aset_in by assumption.
  repeat split; auto; try apply Hk.
  intros q i Hin. apply in_aset in Hin; [|assumption]. unfold upd.
  destruct Hin as [[-> ->]|[Hne Hin]].
  - now rewrite N.eqb_refl.
  - destruct (N.eqb_spec q p); [contradiction|]. now apply Hd.
Qed.

(* ------------------------------------------------------------------ increaseActual, decreaseActual, decreaseTactic *)

Lemma tie_increaseActual_gen w dsc (a : dist) p :
  Discipline_actual dsc = Some a -> get a p + 1 < u_modulus ->
  gen_increaseActual w dsc p = (w, set_Discipline_actual (Some (inc a p)) dsc, tt).
Proof.
  intros Ea Hlt. unfold gen_increaseActual. cbn. rewrite Ea, mget_Some, mset_Some.
  now rewrite u_add_small.
Qed.

Lemma tie_decreaseActual_gen w dsc (a : dist) p :
  Discipline_actual dsc = Some a -> 1 <= get a p -> get a p < u_modulus ->
  gen_decreaseActual w dsc p = (w, set_Discipline_actual (Some (dec a p)) dsc, tt).
Proof.
  intros Ea Hge Hlt. unfold gen_decreaseActual. cbn. rewrite Ea, mget_Some, mset_Some.
  now rewrite u_sub_small.
Qed.

Lemma tie_decreaseTactic_gen w dsc (t : dist) p :
  Discipline_tactic dsc = Some t -> 1 <= get t p -> get t p < u_modulus ->
  gen_decreaseTactic w dsc p = (w, set_Discipline_tactic (Some (dec t p)) dsc, tt).
Proof.
  intros Et Hge Hlt. unfold gen_decreaseTactic. cbn. rewrite Et, mget_Some, mset_Some.
  now rewrite u_sub_small.
Qed.


(* the bounds the ties need follow from the model's invariant Prio2P.Inv *)
Lemma inv_send_bounds s ph p x r proc :
  Inv s -> H s < two64 -> pcs s = Send ph p x r proc ->
  1 <= get (tactic s) p /\ get (tactic s) p < two64 /\ get (actual s) p + 1 < two64.
Proof.
  intros I HH Epc. pose proof (i_send s I _ _ _ _ _ Epc) as H1.
  assert (Hr : sum (actual s) + sum (tactic s) <= H s) by (apply (i_round s I); now rewrite Epc).
  pose proof (get_le_sum (tactic s) p (i_ndt s I)). pose proof (get_le_sum (actual s) p (i_nda s I)).
  repeat split; lia.
Qed.

Lemma inv_fb_bounds s p q :
  Inv s -> H s < two64 -> fbq s = p :: q -> 1 <= get (actual s) p /\ get (actual s) p < two64.
Proof.
  intros I HH Efb. pose proof (i_acc s I p) as Ha. unfold cnt in Ha. rewrite Efb in Ha. cbn in Ha.
  rewrite N.eqb_refl in Ha.
  pose proof (get_le_sum (actual s) p (i_nda s I)). pose proof (i_cap s I). split; lia.
Qed.

(* ==== main tie theorems ==== *)

Theorem tie_isZeroActual dv w s unc usf ins :
  gen_isZeroActual w (conc dv s unc usf ins) = (w, conc dv s unc usf ins, sum (actual s) =? 0).
Proof. now apply tie_isZeroActual_gen. Qed.

Theorem tie_isDrainedInputs dv w s unc usf ins :
  ins_rel s ins ->
  gen_isDrainedInputs w (conc dv s unc usf ins) = (w, conc dv s unc usf ins, forallb (drained s) (prios s)).
Proof.
  intros Hr. rewrite (tie_isDrainedInputs_gen w _ ins) by reflexivity. now rewrite (ins_rel_forallb s ins).
Qed.

Theorem tie_markInputAsDrained dv w s unc usf ins p c :
  ins_rel s ins -> In p (prios s) ->
  exists ins', gen_markInputAsDrained w (conc dv s unc usf ins) p = (w, conc dv (mark_drained s p c) unc usf ins', tt) /\
               ins_rel (mark_drained s p c) ins'.
Proof.
  intros Hr Hp. exists (aset ins p (set_Input_Drained true (aget zero_Input ins p))).
  split; [|now apply ins_rel_mark].
  rewrite (tie_markInputAsDrained_gen w _ ins) by reflexivity.
  unfold conc. cbn. rewrite channels_aset; [reflexivity|reflexivity|]. now apply Hr.
Qed.

Theorem tie_increaseActual dv w s unc usf ins p :
  get (actual s) p + 1 < two64 ->
  gen_increaseActual w (conc dv s unc usf ins) p =
  (w, set_Discipline_actual (Some (inc (actual s) p)) (conc dv s unc usf ins), tt).
Proof. intros Hlt. now apply tie_increaseActual_gen. Qed.

Theorem tie_decreaseTactic dv w s unc usf ins p :
  1 <= get (tactic s) p -> get (tactic s) p < two64 ->
  gen_decreaseTactic w (conc dv s unc usf ins) p =
  (w, set_Discipline_tactic (Some (dec (tactic s) p)) (conc dv s unc usf ins), tt).
Proof. intros Hge Hlt. now apply tie_decreaseTactic_gen. Qed.

(* send(): decreaseTactic, then increaseActual = the map updates of Prio2.push_out (bounds: inv_send_bounds) *)
Theorem tie_push_out dv w s unc usf ins p x c :
  1 <= get (tactic s) p -> get (tactic s) p < two64 -> get (actual s) p + 1 < two64 ->
  (let '(w1, d1, _) := gen_decreaseTactic w (conc dv s unc usf ins) p in gen_increaseActual w1 d1 p) =
  (w, conc dv (push_out s p x c) unc usf ins, tt).
Proof.
  intros Hge Hlt Hact. rewrite tie_decreaseTactic by assumption.
  rewrite (tie_increaseActual_gen w _ (actual s)); [reflexivity|reflexivity|assumption].
Qed.

(* getOneFeedback / getLimitedFeedback / waitZeroActual: decreaseActual = Prio2.dec as in pop_fb (bounds: inv_fb_bounds) *)
Theorem tie_decreaseActual dv w s unc usf ins p q c :
  1 <= get (actual s) p -> get (actual s) p < two64 ->
  gen_decreaseActual w (conc dv s unc usf ins) p = (w, conc dv (pop_fb s p q c) unc usf ins, tt).
Proof. intros Hge Hlt. now rewrite (tie_decreaseActual_gen w _ (actual s)). Qed.

(* ==== examples ==== *)

Module Examples.
Import ExDefs.
Definition s_0 : st := mkst 4 [3; 2; 1] str3 [] [] ex_dr Calc 1.
(* -- the small ones *)
Lemma ex_ins_rel c : ins_rel (mkst 4 [3; 2; 1] str3 [(3, 1); (2, 0); (1, 0)] [(3, 0); (2, 1); (1, 0)] ex_dr c 1) ex_ins.
Proof.
  repeat split; [ex_nodup|cbn; tauto|cbn; tauto|].
  intros p i [E|[E|[E|[]]]]; injection E as <- <-; reflexivity.
Qed.
Definition s_s : st := mkst 4 [3; 2; 1] str3 [(3, 1); (2, 0); (1, 0)] [(3, 0); (2, 1); (1, 0)] ex_dr (Send P1 2 77 [1] 0) 1.

Example ex_isZeroActual : snd (gen_isZeroActual 5 (conc fdv s_s [] [] ex_ins)) = false.
Proof. now rewrite tie_isZeroActual. Qed.
Example ex_isZeroActual_true : snd (gen_isZeroActual 5 (conc fdv s_0 [] [] ex_ins)) = true.
Proof. now rewrite tie_isZeroActual. Qed.
Example ex_isDrainedInputs : snd (gen_isDrainedInputs 5 (conc fdv s_s [] [] ex_ins)) = false.
Proof. now rewrite tie_isDrainedInputs by apply ex_ins_rel. Qed.
Example ex_markInputAsDrained :
  exists ins', gen_markInputAsDrained 5 (conc fdv s_s [] [] ex_ins) 2 = (5%nat, conc fdv (mark_drained s_s 2 (Prio P1 [1] 0)) [] [] ins', tt) /\
               map (fun kv => (fst kv, Input_Drained (snd kv))) ins' = [(1, false); (3, true); (2, true)].
Proof.
  destruct (tie_markInputAsDrained fdv 5 s_s [] [] ex_ins 2 (Prio P1 [1] 0) (ex_ins_rel _)) as (ins' & E & _); [cbn; tauto|].
  exists ins'. split; [exact E|].
  apply (f_equal (fun r => Discipline_inputs (snd (fst r)))) in E. vm_compute in E. injection E as <-. reflexivity.
Qed.
Example ex_push_out :
  obs (let '(w1, d1, _) := gen_decreaseTactic 5 (conc fdv s_s [] [] ex_ins) 2 in gen_increaseActual w1 d1 2) =
  (5%nat, Some [(3, 1); (2, 1); (1, 0)], Some [(3, 0); (2, 0); (1, 0)], [], [], tt).
Proof. rewrite (tie_push_out fdv 5 s_s [] [] ex_ins 2 77 (Read P1 2 [1] 1 false)) by first [ex_le | ex_lt]. reflexivity. Qed.
Example ex_decreaseActual :
  obs (gen_decreaseActual 5 (conc fdv s_s [] [] ex_ins) 3) = (5%nat, Some [(3, 0); (2, 0); (1, 0)], Some [(3, 0); (2, 1); (1, 0)], [], [], tt).
Proof. rewrite (tie_decreaseActual fdv 5 s_s [] [] ex_ins 3 [] Calc) by first [ex_le | ex_lt]. reflexivity. Qed.

End Examples.

Print Assumptions tie_isZeroActual.
Print Assumptions tie_isDrainedInputs.
Print Assumptions tie_markInputAsDrained.
Print Assumptions tie_increaseActual.
Print Assumptions tie_decreaseTactic.
Print Assumptions tie_push_out.
Print Assumptions tie_decreaseActual.
Print Assumptions inv_send_bounds.
Print Assumptions inv_fb_bounds.
