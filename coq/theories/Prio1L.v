(* PROGRESS / SATURATION properties of the v1 priority discipline model (Prio1.v), on top of the safety invariants of Prio1P.v:
   the port of Prio2L.v to v1, for executions in which the set of inputs does not change and nobody stops the discipline.
   A  prio1_no_wait_when_idle                        (C06)  the scheduler only waits for a release when one is owed
   B  prio1_share_bound, prio1_full_when_quiet(_sum)  (C05)  saturation
   C  prio1_round_delivers, prio1_alone_gets_all      (C06)  an idle discipline delivers without any release             *)
From Coq Require Import List NArith Lia Bool Arith.
From Cqos Require Import Base Divider DividerP Sched Prio1 Prio1P.
Import ListNotations.
Open Scope N_scope.

Ltac destruct_goal :=
  repeat match goal with |- context [match ?x with _ => _ end] => destruct x eqn:? end.

(* ---------- generic facts about distributions (as in Prio2L.v) ---------- *)
Lemma sum_zero_get d k : NoDup (keys d) -> sum d = 0 -> get d k = 0.
Proof. intros ND Hs. pose proof (get_le_sum d k ND). lia. Qed.

Lemma get_zero_sum d : NoDup (keys d) -> (forall k, get d k = 0) -> sum d = 0.
Proof.
  induction d as [|[k v] r IH]; cbn [sum keys]; intros ND Hz; [reflexivity|].
  inversion ND as [|? ? Hn ND']; subst.
  assert (Hv : v = 0). { specialize (Hz k). cbn [get] in Hz. rewrite N.eqb_refl in Hz. exact Hz. }
  rewrite IH; [lia|exact ND'|].
  intros k'. destruct (N.eqb_spec k' k) as [->|Hne]; [apply get_notin; auto|].
  specialize (Hz k'). cbn [get] in Hz. destruct (N.eqb_spec k' k); [contradiction|auto].
Qed.

Lemma sum_on ps : forall d, NoDup ps -> NoDup (keys d) -> (forall k, ~ In k ps -> get d k = 0) ->
  sum d = sum_list (map (get d) ps).
Proof.
  induction ps as [|p r IH]; intros d NDp NDk Hz; cbn [map sum_list].
  - apply get_zero_sum; auto.
  - inversion NDp as [|? ? Hn NDr]; subst.
    pose proof (sum_set d p 0 NDk) as Hs.
    assert (IHd : sum (set d p 0) = sum_list (map (get (set d p 0)) r)).
    { apply IH; auto.
      - apply nodup_keys_set; auto.
      - intros k Hk. destruct (N.eqb_spec k p) as [->|Hne]; [apply get_set_same|].
        rewrite get_set_other by congruence. apply Hz. intros [E|E]; [congruence|contradiction]. }
    rewrite (map_ext_in (get (set d p 0)) (get d)) in IHd.
    + lia.
    + intros a Ha. apply get_set_other. intros ->. contradiction.
Qed.

Lemma sum_list_pointwise (f g : N -> N) ps :
  (forall p, In p ps -> f p <= g p) -> sum_list (map f ps) = sum_list (map g ps) -> forall p, In p ps -> f p = g p.
Proof.
  induction ps as [|a r IH]; cbn [map sum_list]; intros Hle Hs p Hp; [destruct Hp|].
  assert (Hr : sum_list (map f r) <= sum_list (map g r)).
  { clear -Hle. induction r as [|b r IH]; cbn [map sum_list]; [lia|].
    assert (f b <= g b) by (apply Hle; right; left; reflexivity).
    assert (sum_list (map f r) <= sum_list (map g r)).
    { apply IH. intros p [E|Hp]; apply Hle; [left; exact E|right; right; exact Hp]. }
    lia. }
  assert (Ha : f a <= g a) by (apply Hle; left; reflexivity).
  destruct Hp as [<-|Hp]; [lia|].
  apply IH; auto; [intros q Hq; apply Hle; right; exact Hq|lia].
Qed.

(* ---------- the add-up allotment (calcTacticByAddUpToStrategic) ---------- *)
Lemma add_up_get ps : forall actual strategic tactic picked t' pk',
  NoDup ps -> add_up ps actual strategic tactic picked = Some (t', pk') ->
  (forall p, In p ps -> get t' p = get strategic p - get actual p) /\
  (forall p, ~ In p ps -> get t' p = get tactic p).
Proof.
  induction ps as [|p r IH]; cbn [add_up]; intros actual strategic tactic picked t' pk' ND Ha.
  - inversion Ha; subst. split; [intros ? []|auto].
  - destruct (get strategic p <? get actual p); [discriminate|]. inversion ND as [|? ? Hn NDr]; subst.
    destruct (IH _ _ _ _ _ _ NDr Ha) as [H1 H2]. split.
    + intros q [<-|Hq]; [|auto]. rewrite (H2 p Hn). apply get_set_same.
    + intros q Hq. rewrite H2 by (intros Hx; apply Hq; right; exact Hx). apply get_set_other. intros ->. apply Hq. left; reflexivity.
Qed.

Lemma add_up_total ps : forall actual strategic tactic picked,
  (forall p, In p ps -> get actual p <= get strategic p) ->
  exists t' pk', add_up ps actual strategic tactic picked = Some (t', pk').
Proof.
  induction ps as [|p r IH]; cbn [add_up]; intros actual strategic tactic picked Hle; [eauto|].
  destruct (get strategic p <? get actual p) eqn:E.
  - apply N.ltb_lt in E. specialize (Hle p (or_introl eq_refl)). lia.
  - apply IH. intros q Hq. apply Hle. now right.
Qed.

Lemma add_up_picked ps : forall actual strategic tactic picked t' pk',
  (forall p, In p ps -> get actual p <= get strategic p) ->
  add_up ps actual strategic tactic picked = Some (t', pk') ->
  pk' + sum_list (map (get actual) ps) = picked + sum_list (map (get strategic) ps).
Proof.
  induction ps as [|p r IH]; cbn [add_up map sum_list]; intros actual strategic tactic picked t' pk' Hle Ha.
  - inversion Ha; subst. lia.
  - destruct (get strategic p <? get actual p); [discriminate|].
    apply IH in Ha; [|intros q Hq; apply Hle; now right]. specialize (Hle p (or_introl eq_refl)). lia.
Qed.

(* ---------- selects with at most one ready alternative do not depend on the oracle ---------- *)
Lemma pick_one {A} o (a : A) : pick o [a] = Some a.
Proof. unfold pick. cbn [length]. rewrite Nat.mod_1_r. reflexivity. Qed.

(* ---------- static executions ---------- *)
Definition static_op (o : env_op) : Prop :=
  match o with StopCall | GracefulCall | AddCall _ _ _ | RmvCall _ => False | _ => True end.

Record InitL1 (s0 : st) : Prop := {
  il_init : Init1 s0;
  il_H : 1 <= H s0;
  il_strat_sum : sum_list (map (get (strategic s0)) (prios s0)) = H s0;
  il_strat_pos : forall p, In p (prios s0) -> 1 <= get (strategic s0) p;      (* every share is non-zero: v1 New does NOT check this *)
  il_cap : 1 <= outcap s0 }.

(* the same facts, about the current state *)
Record Shares (s : st) : Prop := {
  sh_H : 1 <= H s;
  sh_sum : sum_list (map (get (strategic s)) (prios s)) = H s;
  sh_pos : forall p, In p (prios s) -> 1 <= get (strategic s) p;
  sh_cap : 1 <= outcap s }.

Lemma InitL1_Shares s0 : InitL1 s0 -> Shares s0.
Proof. intros [I h1 h2 h3 h4]. constructor; auto. Qed.

(* what never changes in a static execution *)
Definition static (s s' : st) : Prop :=
  H s' = H s /\ prios s' = prios s /\ strategic s' = strategic s /\ outcap s' = outcap s /\ fblimit s' = fblimit s /\
  buffered s' = buffered s /\ chan_of s' = chan_of s /\ stopped s' = stopped s /\ graceful s' = graceful s /\ cmds s' = cmds s.

(* nobody stops the discipline, no AddInput / RemoveInput is pending *)
Definition Quiet (s : st) : Prop := stopped s = false /\ graceful s = false /\ cmds s = [].

Lemma static_refl s : static s s.
Proof. repeat split; reflexivity. Qed.
Lemma static_trans s1 s2 s3 : static s1 s2 -> static s2 s3 -> static s1 s3.
Proof.
  intros (a1 & a2 & a3 & a4 & a5 & a6 & a7 & a8 & a9 & a10) (b1 & b2 & b3 & b4 & b5 & b6 & b7 & b8 & b9 & b10).
  repeat split; congruence.
Qed.
Lemma static_Shares s s' : static s s' -> Shares s -> Shares s'.
Proof. intros (E1 & E2 & E3 & E4 & _) [h1 h2 h3 h4]. constructor; rewrite ?E1, ?E2, ?E3, ?E4; auto. Qed.
Lemma static_Quiet s s' : static s s' -> Quiet s -> Quiet s'.
Proof. intros (_ & _ & _ & _ & _ & _ & _ & E8 & E9 & E10) (q1 & q2 & q3). unfold Quiet. rewrite E8, E9, E10. auto. Qed.

Lemma env_step_static s o s' : static_op o -> env_step s o = Some s' -> static s s'.
Proof.
  intros Hop Hs. destruct o; cbn [static_op] in Hop; try contradiction; unfold env_step in Hs;
  destruct_matches Hs; try discriminate; inversion Hs; subst; repeat split; reflexivity.
Qed.

Lemma Init1_Quiet s0 : Init1 s0 -> Quiet s0.
Proof. intros I. repeat split; [apply (in_stopped s0 I)|apply (in_graceful s0 I)|apply (in_cmds s0 I)]. Qed.

Section Progress.
Variable fixed : bool.
Variable dv : nat -> Divider.
Hypothesis dv_wf : forall k ps n d, NoDup (keys d) -> NoDup (keys (dv k ps n d)).

(* the scheduler of a quiet state: no stop alternative, no command alternative, never graceful -- this is v2's step function
   plus the pc Top, with channel identities *)
Definition sstep (s : st) : option st :=
  match pcs s with
  | Top => match fbq s with [] => Some (with_pc s Calc) | p :: q => Some (pop_fb s p q Calc) end
  | Calc => Some (step_calc dv s)
  | WaitFb => match fbq s with [] => None | p :: q => Some (pop_fb s p q Calc) end
  | Prio ph [] proc => Some (with_pc s (match ph with P1 => Recalc proc | P2 => EndBase proc end))
  | Prio ph (p :: r) proc => Some (with_pc s (if drained s p then Prio ph r proc else Read ph p r proc false))
  | Read ph p r proc intr =>
      if get (tactic s) p =? 0 then Some (with_pc s (Prio ph r proc)) else
      match chan_of s p with
      | None => Some (with_pc s (Prio ph r proc))
      | Some ch =>
          match inq s ch with
          | x :: q' => Some (pop_in s ch p x q' (Send ph p x r proc))
          | [] => if closed s ch then Some (mark_drained s p (Prio ph r proc))
                  else if buffered s ch then Some (with_pc s (Prio ph r proc))
                  else None
          end
      end
  | Send ph p x r proc =>
      if N.of_nat (length (outq s)) <? outcap s then Some (push_out s p x (Read ph p r (proc + 1) false)) else None
  | Recalc proc => Some (step_recalc dv s proc)
  | EndBase proc => if proc =? 0 then Some (with_pc s Idle) else Some (with_pc s (LimFb (fblimit s)))
  | Idle => None
  | LimFb O => Some (with_pc s Top)
  | LimFb (S k) => match fbq s with [] => Some (with_pc s Top) | p :: q => Some (pop_fb s p q (LimFb k)) end
  | Drain e => if sum (actual s) =? 0 then Some (with_pc s (Done e))
               else match fbq s with [] => None | p :: q => Some (pop_fb s p q (Drain e)) end
  | Done _ => None
  end.

(* ALL oracles: in a quiet state every select has at most one ready alternative (or only the default) *)
Lemma sched_step_sstep o s : Quiet s -> sched_step fixed dv o s = sstep s.
Proof.
  intros (Hs & Hg & Hc). unfold sched_step, sstep. cbv zeta. rewrite Hs, Hc, Hg. cbn [app andb].
  destruct (pcs s) eqn:Epc; try reflexivity.
  - destruct (fbq s); [rewrite pick_nil|rewrite pick_one]; reflexivity.
  - destruct (fbq s); [rewrite pick_nil|rewrite pick_one]; reflexivity.
  - destruct (get (tactic s) p =? 0); [reflexivity|]. unfold chan_state. destruct (chan_of s p) as [ch|]; [|reflexivity].
    destruct (inq s ch) as [|x q']; [|rewrite pick_one; reflexivity].
    destruct (closed s ch); [rewrite pick_one; reflexivity|rewrite pick_nil; reflexivity].
  - destruct (N.of_nat (length (outq s)) <? outcap s); [rewrite pick_one|rewrite pick_nil]; reflexivity.
  - destruct k as [|k]; [reflexivity|]. destruct (fbq s); [rewrite pick_nil|rewrite pick_one]; reflexivity.
  - destruct (sum (actual s) =? 0); [reflexivity|]. destruct (fbq s); [rewrite pick_nil|rewrite pick_one]; reflexivity.
Qed.

Lemma sstep_static s s' : sstep s = Some s' -> static s s'.
Proof.
  intros Hs. unfold sstep, step_calc, calc_base, step_recalc in Hs.
  destruct_matches Hs; try discriminate; inversion Hs; subst; repeat split; reflexivity.
Qed.

Lemma sched_step_static o s s' : Quiet s -> sched_step fixed dv o s = Some s' -> static s s'.
Proof. intros HQ Hs. rewrite (sched_step_sstep o s HQ) in Hs. apply sstep_static; exact Hs. Qed.

(* ---------- reachability without Stop / GracefulStop / AddInput / RemoveInput ---------- *)
Inductive sreachable (s0 : st) : st -> Prop :=
| sr_init : sreachable s0 s0
| sr_sched s o s' : sreachable s0 s -> sched_step fixed dv o s = Some s' -> sreachable s0 s'
| sr_env s op s' : sreachable s0 s -> static_op op -> env_step s op = Some s' -> sreachable s0 s'.

Lemma sreachable_reachable s0 s : sreachable s0 s -> reachable fixed dv s0 s.
Proof. induction 1; [apply r_init|eapply r_sched; eauto|eapply r_env; eauto]. Qed.

(* H, prios, strategic, outcap, fblimit, buffered, chan_of, stopped = false, graceful = false, cmds = [] are constant *)
Lemma sreachable_static s0 s : Quiet s0 -> sreachable s0 s -> static s0 s /\ Quiet s.
Proof.
  intros HQ Hr. induction Hr as [|s o s' Hr [IH1 IH2] Hs|s op s' Hr [IH1 IH2] Hop Hs].
  - split; [apply static_refl|exact HQ].
  - pose proof (sched_step_static o s s' IH2 Hs) as Hst. split; [eapply static_trans; eauto|eapply static_Quiet; eauto].
  - pose proof (env_step_static s op s' Hop Hs) as Hst. split; [eapply static_trans; eauto|eapply static_Quiet; eauto].
Qed.

Lemma sreachable_const s0 s : Init1 s0 -> sreachable s0 s ->
  H s = H s0 /\ prios s = prios s0 /\ strategic s = strategic s0 /\ chan_of s = chan_of s0 /\ outcap s = outcap s0 /\
  fblimit s = fblimit s0 /\ buffered s = buffered s0 /\ stopped s = false /\ graceful s = false /\ cmds s = [].
Proof.
  intros I Hr. destruct (sreachable_static s0 s (Init1_Quiet s0 I) Hr) as [(e1 & e2 & e3 & e4 & e5 & e6 & e7 & _) (q1 & q2 & q3)].
  repeat split; assumption.
Qed.

Lemma sreachable_Quiet s0 s : InitL1 s0 -> sreachable s0 s -> Quiet s.
Proof. intros I Hr. apply (sreachable_static s0 s (Init1_Quiet s0 (il_init s0 I)) Hr). Qed.
Lemma sreachable_Shares s0 s : InitL1 s0 -> sreachable s0 s -> Shares s.
Proof.
  intros I Hr. eapply static_Shares; [|apply InitL1_Shares; exact I].
  apply (sreachable_static s0 s (Init1_Quiet s0 (il_init s0 I)) Hr).
Qed.
Lemma sreachable_Inv s0 s : InitL1 s0 -> sreachable s0 s -> Inv s.
Proof. intros I Hr. eapply (reachable_inv fixed dv dv_wf); [apply (il_init s0 I)|apply sreachable_reachable; exact Hr]. Qed.

(* when no priority is over its share and `actual` vanishes outside the configured priorities, the add-up path of
   calcTactic succeeds: tactic = strategic - actual, and the round starts *)
Lemma step_calc_addup s : Inv s -> Shares s ->
  (forall p, In p (prios s) -> get (actual s) p <= get (strategic s) p) ->
  (forall q, ~ In q (prios s) -> get (actual s) q = 0) ->
  H s - sum (actual s) <> 0 ->
  exists t, step_calc dv s = with_tac s t (Prio P1 (prios s) 0) /\
    (forall p, In p (prios s) -> get t p = get (strategic s) p - get (actual s) p) /\
    (forall q, ~ In q (prios s) -> get t q = 0) /\ NoDup (keys t).
Proof.
  intros Hinv Hsh Hle Hz Hv. unfold step_calc.
  pose proof (i_cap s Hinv) as Hcap.
  destruct (N.ltb_spec (H s) (sum (actual s))) as [Hlt|_]; [lia|].
  destruct (N.eqb_spec (H s - sum (actual s)) 0) as [E|_]; [contradiction|].
  destruct (add_up_total (prios s) (actual s) (strategic s) (reset (tactic s)) 0 Hle) as (t & pk & Ea).
  rewrite Ea.
  pose proof (add_up_picked _ _ _ _ _ _ _ Hle Ea) as Hpk.
  rewrite <- (sum_on (prios s) (actual s) (i_ndp s Hinv) (i_nda s Hinv) Hz) in Hpk.
  rewrite (sh_sum s Hsh) in Hpk.
  assert (Epk : pk = H s - sum (actual s)) by lia.
  rewrite Epk, N.eqb_refl.
  destruct (add_up_get _ _ _ _ _ _ _ (i_ndp s Hinv) Ea) as [Hg1 Hg2].
  destruct (add_up_sum _ _ _ _ _ _ _ (i_ndp s Hinv) (nodup_keys_reset _ (i_ndt s Hinv)) (fun p _ => get_reset _ p) Ea) as [_ Hnd].
  exists t. split; [reflexivity|]. split; [exact Hg1|]. split; [|exact Hnd].
  intros q Hq. rewrite (Hg2 q Hq). apply get_reset.
Qed.

Lemma step_calc_actual s : actual (step_calc dv s) = actual s.
Proof. unfold step_calc, calc_base. destruct_goal; reflexivity. Qed.

(* ================= A. C06: no waiting for a release when none is owed ================= *)
Definition AInv (s : st) : Prop := pcs s = WaitFb -> 0 < sum (actual s).

Lemma sstep_AInv s s' : Inv s -> Shares s -> AInv s -> sstep s = Some s' -> AInv s'.
Proof.
  intros Hinv Hsh Ha Hs. unfold AInv. intros Hpc'.
  unfold sstep in Hs. destruct (pcs s) eqn:Epc.
  2:{ (* Calc *) inversion Hs; subst s'; clear Hs.
    destruct (N.eqb_spec (sum (actual s)) 0) as [Ez|Hnz].
    - exfalso.
      assert (Hz : forall p, get (actual s) p = 0) by (intros p; apply sum_zero_get; [apply (i_nda s Hinv)|exact Ez]).
      destruct (step_calc_addup s Hinv Hsh) as (t & Et & _).
      + intros p _. rewrite Hz. lia.
      + intros q _. apply Hz.
      + pose proof (sh_H s Hsh). lia.
      + rewrite Et in Hpc'. discriminate.
    - rewrite step_calc_actual. lia. }
  6:{ (* Recalc *) inversion Hs; subst s'.
    destruct (step_recalc_shape dv s proc) as [_ [E|[E|[e E]]]]; rewrite E in Hpc'; discriminate. }
  all: destruct_matches Hs; try discriminate; inversion Hs; subst; discriminate.
Qed.

Lemma env_step_AInv s o s' : AInv s -> env_step s o = Some s' -> AInv s'.
Proof.
  intros Ha Hs. unfold AInv in *. unfold env_step in Hs.
  destruct_matches Hs; try discriminate; inversion Hs; subst; proj; try exact Ha; try discriminate.
  all: intros Hpc'; try discriminate; try (apply Ha; congruence).
Qed.

Theorem prio1_no_wait_when_idle : forall s0 s, InitL1 s0 -> sreachable s0 s -> pcs s = WaitFb -> 0 < sum (actual s).
Proof.
  intros s0 s I Hr. change (AInv s).
  induction Hr as [|s o s' Hr IH Hs|s op s' Hr IH Hop Hs].
  - intros Hpc. rewrite (in_pc s0 (il_init s0 I)) in Hpc. discriminate.
  - rewrite (sched_step_sstep o s (sreachable_Quiet _ _ I Hr)) in Hs.
    eapply sstep_AInv; eauto; [eapply sreachable_Inv; eauto|eapply sreachable_Shares; eauto].
  - eapply env_step_AInv; eauto.
Qed.


(* ================= B. C05: saturation ================= *)
(* "the input never runs dry when the scheduler looks": whenever the scheduler is about to read the input of p with a non-zero
   allowance, that input has data.  Required of every scheduler step AND of every clock tick (see Prio2L.v, sat_literal_false). *)
Definition sat_ok (s : st) : Prop :=
  forall ph p r proc intr, pcs s = Read ph p r proc intr -> get (tactic s) p <> 0 ->
    exists ch, chan_of s p = Some ch /\ inq s ch <> [].
Definition sat_env (s : st) (o : env_op) : Prop :=
  match o with Close _ => False | Tick => sat_ok s | o => static_op o end.

Inductive sat_reachable (s0 : st) : st -> Prop :=
| sa_init : sat_reachable s0 s0
| sa_sched s o s' : sat_reachable s0 s -> sat_ok s -> sched_step fixed dv o s = Some s' -> sat_reachable s0 s'
| sa_env s op s' : sat_reachable s0 s -> sat_env s op -> env_step s op = Some s' -> sat_reachable s0 s'.

(* the literal reading (only scheduler steps are constrained; any static environment step but Close is allowed) -- too weak, see
   sat_literal_false below *)
Inductive sat_reachable_literal (s0 : st) : st -> Prop :=
| sal_init : sat_reachable_literal s0 s0
| sal_sched s o s' : sat_reachable_literal s0 s -> sat_ok s -> sched_step fixed dv o s = Some s' -> sat_reachable_literal s0 s'
| sal_env s op s' : sat_reachable_literal s0 s -> static_op op -> (forall c, op <> Close c) -> env_step s op = Some s' ->
    sat_reachable_literal s0 s'.

Lemma sat_env_static s o : sat_env s o -> static_op o.
Proof. destruct o; cbn [sat_env static_op]; auto. Qed.

Lemma sat_reachable_sreachable s0 s : sat_reachable s0 s -> sreachable s0 s.
Proof.
  induction 1 as [|s o s' Hr IH Hok Hs|s op s' Hr IH Hok Hs]; [apply sr_init|eapply sr_sched; eauto|eapply sr_env; eauto].
  eapply sat_env_static; eauto.
Qed.
Lemma sat_reachable_reachable s0 s : sat_reachable s0 s -> reachable fixed dv s0 s.
Proof. intros Hr. apply sreachable_reachable. apply sat_reachable_sreachable. exact Hr. Qed.

(* phase one: actual + tactic = strategic on the configured priorities, and the allowance of everything already visited is spent *)
Definition P1ok (s : st) (rest : list N) : Prop :=
  (forall p, In p (prios s) -> get (actual s) p + get (tactic s) p = get (strategic s) p) /\
  (forall p, ~ In p rest -> get (tactic s) p = 0).

Definition SPhase (s : st) : Prop :=
  match pcs s with
  | Prio P1 rest _ => P1ok s rest
  | Read P1 p rest _ _ => P1ok s (p :: rest)
  | Send P1 p _ rest _ => P1ok s (p :: rest)
  | Recalc _ => P1ok s []
  | Prio P2 _ _ => forall q, get (tactic s) q = 0
  | Read P2 _ _ _ _ => forall q, get (tactic s) q = 0
  | Send P2 _ _ _ _ => forall q, get (tactic s) q = 0
  | WaitFb => sum (actual s) = H s
  | _ => True
  end.

Record SInv (s : st) : Prop := {
  s_le : forall p, get (actual s) p <= get (strategic s) p;
  s_off : forall q, ~ In q (prios s) -> get (actual s) q = 0;
  s_undr : forall p, drained s p = false;
  s_ph : SPhase s }.

Definition quiet_pc (c : pc) : Prop :=
  match c with Top | Calc | LimFb _ | Drain _ | Done _ | Idle | EndBase _ => True | _ => False end.

Lemma with_pc_SInv_quiet s c : SInv s -> quiet_pc c -> SInv (with_pc s c).
Proof.
  intros [Hle Hoff Hund Hph] Hq. constructor; proj; auto.
  unfold SPhase; proj. destruct c; try contradiction; exact I.
Qed.

Lemma pop_fb_SInv_quiet s p q c : SInv s -> quiet_pc c -> SInv (pop_fb s p q c).
Proof.
  intros [Hle Hoff Hund Hph] Hq. constructor; proj; auto.
  - intros p0. rewrite get_dec. specialize (Hle p0). destruct (N.eqb_spec p0 p) as [E|Hne]; [subst p0|]; lia.
  - intros q0 Hq0. rewrite get_dec. specialize (Hoff q0 Hq0). destruct (N.eqb_spec q0 p) as [E|Hne]; [subst q0|]; lia.
  - unfold SPhase; proj. destruct c; try contradiction; exact I.
Qed.

Lemma step_recalc_zero s proc : Inv s -> sum (tactic s) = 0 ->
  actual (step_recalc dv s proc) = actual s /\ (forall q, get (tactic (step_recalc dv s proc)) q = 0).
Proof.
  intros Hinv Hz. unfold step_recalc. cbv zeta. rewrite Hz.
  destruct (safe_divide (dv (ncalls s)) (useful s) (H s) (reset (tactic s))) as [t1|e1] eqn:E1.
  - destruct (safe_divide_wf dv dv_wf _ _ _ _ _ (i_ndt s Hinv) E1) as [W1 _].
    destruct (safe_divide (dv (S (ncalls s))) (useful_like s t1) 0 (reset t1)) as [t2|e2] eqn:E2.
    + destruct (safe_divide_wf dv dv_wf _ _ _ _ _ W1 E2) as [W2 Hs2]. proj. split; [reflexivity|].
      intros q. apply sum_zero_get; [exact W2|]. destruct Hs2; assumption.
    + proj. split; [reflexivity|]. intros q. apply get_reset.
  - proj. split; [reflexivity|]. intros q. apply get_reset.
Qed.

Lemma rest_ok_read_in s ph p r proc intr : rest_ok s -> pcs s = Read ph p r proc intr -> In p (prios s).
Proof. unfold rest_ok. intros Hok Hpc. rewrite Hpc in Hok. destruct Hok as [pre E]. rewrite E. apply in_or_app. right; left; reflexivity. Qed.
Lemma rest_ok_send_in s ph p x r proc : rest_ok s -> pcs s = Send ph p x r proc -> In p (prios s).
Proof. unfold rest_ok. intros Hok Hpc. rewrite Hpc in Hok. destruct Hok as [pre E]. rewrite E. apply in_or_app. right; left; reflexivity. Qed.

Lemma sstep_SInv s s' : Inv s -> rest_ok s -> Shares s -> SInv s -> sat_ok s -> sstep s = Some s' -> SInv s'.
Proof.
  intros Hinv Hrest Hsh HS Hok Hs. pose proof HS as HS0. destruct HS as [Hle Hoff Hund Hph].
  unfold SPhase in Hph. unfold sstep in Hs. destruct (pcs s) eqn:Epc.
  - (* Top *) destruct (fbq s) as [|p q]; inversion Hs; subst s'; [apply with_pc_SInv_quiet|apply pop_fb_SInv_quiet]; auto; exact I.
  - (* Calc *) inversion Hs; subst s'; clear Hs.
    pose proof (i_cap s Hinv) as Hcap.
    destruct (N.eqb_spec (H s - sum (actual s)) 0) as [Ev|Hv].
    + unfold step_calc. destruct (N.ltb_spec (H s) (sum (actual s))) as [Hlt|_]; [lia|].
      rewrite (proj2 (N.eqb_eq _ _) Ev). constructor; proj; auto.
      unfold SPhase; proj. lia.
    + destruct (step_calc_addup s Hinv Hsh (fun p _ => Hle p) Hoff Hv) as (t & Et & Hg1 & Hg2 & Hnd).
      rewrite Et. constructor; proj; auto. unfold SPhase, P1ok; proj. split.
      * intros p Hp. rewrite (Hg1 p Hp). specialize (Hle p). lia.
      * exact Hg2.
  - (* WaitFb *) destruct (fbq s) as [|p q]; [discriminate|]. inversion Hs; subst s'. apply pop_fb_SInv_quiet; [exact HS0|exact I].
  - (* Prio *) destruct rest as [|p r].
    + inversion Hs; subst s'. constructor; proj; auto. all: unfold SPhase; proj; destruct ph; [exact Hph|exact I].
    + rewrite (Hund p) in Hs. inversion Hs; subst s'. constructor; proj; auto. all: unfold SPhase; proj; destruct ph; exact Hph.
  - (* Read *) destruct (N.eqb_spec (get (tactic s) p) 0) as [Et|Et].
    + inversion Hs; subst s'. constructor; proj; auto. unfold SPhase; proj. destruct ph; [|exact Hph].
      destruct Hph as [Hp1 Hp2]. split; [exact Hp1|]. unfold P1ok; proj.
      intros q Hq. destruct (N.eqb_spec q p) as [->|Hne]; [exact Et|]. apply Hp2. intros [E|E]; [congruence|contradiction].
    + destruct (Hok _ _ _ _ _ Epc Et) as (ch & Ech & Hne). rewrite Ech in Hs. destruct (inq s ch) as [|x q]; [contradiction|].
      inversion Hs; subst s'. constructor; proj; auto. all: unfold SPhase; proj; destruct ph; exact Hph.
  - (* Send *)
    assert (Ht : 1 <= get (tactic s) p) by (eapply (i_send s Hinv); eauto).
    assert (Hp : In p (prios s)) by (eapply rest_ok_send_in; eauto).
    destruct (N.of_nat (length (outq s)) <? outcap s); [|discriminate]. inversion Hs; subst s'.
    destruct ph; [|specialize (Hph p); lia].
    destruct Hph as [Hp1 Hp2]. constructor; proj; auto.
    * intros p0. rewrite get_inc. destruct (N.eqb_spec p0 p) as [->|Hne]; [|apply Hle]. specialize (Hp1 p Hp). lia.
    * intros q Hq. rewrite get_inc. destruct (N.eqb_spec q p) as [->|Hne]; [contradiction|]. apply Hoff; exact Hq.
    * unfold SPhase, P1ok; proj. split.
      -- intros q Hq. rewrite get_inc, get_dec. specialize (Hp1 q Hq). destruct (N.eqb_spec q p) as [->|Hne]; lia.
      -- intros q Hq. rewrite get_dec. destruct (N.eqb_spec q p) as [->|Hne]; [exfalso; apply Hq; left; reflexivity|].
         apply Hp2. exact Hq.
  - (* Recalc *) inversion Hs; subst s'.
    assert (Hz : sum (tactic s) = 0).
    { apply get_zero_sum; [apply (i_ndt s Hinv)|]. intros k. apply (proj2 Hph). intros []. }
    destruct (step_recalc_zero s proc Hinv Hz) as [Ea Ht0].
    destruct (step_recalc_shape dv s proc) as [(Ep & _ & Edr & _) Hpc].
    destruct (sstep_static s (step_recalc dv s proc)) as (_ & _ & Est & _).
    { unfold sstep. rewrite Epc. reflexivity. }
    constructor; rewrite ?Ea, ?Ep, ?Est, ?Edr; auto.
    unfold SPhase. destruct Hpc as [E|[E|[e E]]]; rewrite E; auto.
  - (* EndBase *)
    destruct (proc =? 0); inversion Hs; subst s'; apply with_pc_SInv_quiet; auto; exact I.
  - discriminate.
  - (* LimFb *) destruct k as [|k].
    + inversion Hs; subst s'. apply with_pc_SInv_quiet; auto; exact I.
    + destruct (fbq s) as [|p q]; inversion Hs; subst s'; [apply with_pc_SInv_quiet|apply pop_fb_SInv_quiet]; auto; exact I.
  - (* Drain *) destruct (sum (actual s) =? 0).
    + inversion Hs; subst s'. apply with_pc_SInv_quiet; auto; exact I.
    + destruct (fbq s) as [|p q]; inversion Hs; subst s'. apply pop_fb_SInv_quiet; auto; exact I.
  - discriminate.
Qed.

Lemma env_step_SInv s o s' : SInv s -> sat_env s o -> env_step s o = Some s' -> SInv s'.
Proof.
  intros HS Hok Hs. pose proof HS as HS0. destruct HS as [Hle Hoff Hund Hph].
  destruct o as [ch x|ch| |p| | | |ch p bf|p]; cbn [env_step sat_env static_op] in Hs, Hok; try contradiction.
  - destruct (closed s ch); inversion Hs; subst s'. constructor; proj; auto.
  - destruct (outq s) as [|px q]; inversion Hs; subst s'. constructor; proj; auto.
  - destruct (remove1 p (held s)) as [h|]; inversion Hs; subst s'. constructor; proj; auto.
  - destruct (pcs s) eqn:Epc; try (inversion Hs; subst s'; exact HS0).
    + (* Read *)
      destruct (N.eqb_spec (get (tactic s) p) 0) as [Et|Et].
      * cbn [negb] in Hs. destruct_matches Hs; inversion Hs; subst s'; exact HS0.
      * destruct (Hok _ _ _ _ _ Epc Et) as (ch & Ech & Hne). unfold chan_state in Hs. rewrite Ech in Hs.
        destruct (inq s ch) as [|x q]; [contradiction|]. inversion Hs; subst s'; exact HS0.
    + (* Idle *) inversion Hs; subst s'. apply with_pc_SInv_quiet; auto; exact I.
Qed.

Lemma Init1_SInv s0 : Init1 s0 -> SInv s0.
Proof.
  intros Hi. constructor.
  - intros p. rewrite (in_actual s0 Hi). cbn [get]. lia.
  - intros q _. rewrite (in_actual s0 Hi). reflexivity.
  - apply (in_drained s0 Hi).
  - unfold SPhase. rewrite (in_pc s0 Hi). exact I.
Qed.

Lemma sat_reachable_SInv s0 s : InitL1 s0 -> sat_reachable s0 s -> SInv s.
Proof.
  intros I Hr. induction Hr as [|s o s' Hr IH Hok Hs|s op s' Hr IH Hok Hs].
  - apply Init1_SInv. apply (il_init s0 I).
  - pose proof (sat_reachable_sreachable _ _ Hr) as Hr'.
    rewrite (sched_step_sstep o s (sreachable_Quiet _ _ I Hr')) in Hs.
    eapply sstep_SInv; eauto.
    + eapply sreachable_Inv; eauto.
    + eapply (reachable_rest fixed dv); [apply (il_init s0 I)|apply sreachable_reachable; exact Hr'].
    + eapply sreachable_Shares; eauto.
  - eapply env_step_SInv; eauto.
Qed.

Theorem prio1_share_bound : forall s0 s, InitL1 s0 -> sat_reachable s0 s -> forall p, get (actual s) p <= get (strategic s) p.
Proof. intros s0 s I Hr. apply (s_le s). eapply sat_reachable_SInv; eauto. Qed.

Theorem prio1_full_when_quiet : forall s0 s, InitL1 s0 -> sat_reachable s0 s -> pcs s = WaitFb ->
  forall p, In p (prios s) -> get (actual s) p = get (strategic s) p.
Proof.
  intros s0 s I Hr Hpc.
  pose proof (sat_reachable_SInv _ _ I Hr) as [Hle Hoff _ Hph]. unfold SPhase in Hph. rewrite Hpc in Hph.
  pose proof (sat_reachable_sreachable _ _ Hr) as Hr'.
  pose proof (sreachable_Inv _ _ I Hr') as Hinv.
  pose proof (sreachable_Shares _ _ I Hr') as Hsh.
  apply sum_list_pointwise; [intros p _; apply Hle|].
  rewrite <- (sum_on (prios s) (actual s) (i_ndp s Hinv) (i_nda s Hinv) Hoff). rewrite Hph. symmetry. apply (sh_sum s Hsh).
Qed.

Corollary prio1_full_when_quiet_sum : forall s0 s, InitL1 s0 -> sat_reachable s0 s -> pcs s = WaitFb -> sum (actual s) = H s.
Proof.
  intros s0 s I Hr Hpc. pose proof (sat_reachable_SInv _ _ I Hr) as [_ _ _ Hph]. unfold SPhase in Hph. rewrite Hpc in Hph. exact Hph.
Qed.


(* ================= C. C06: an idle discipline delivers without any release ================= *)
(* the scheduler alone, select resolved by the oracle o, letting time pass (Tick) when it sleeps in Idle or is blocked reading an
   empty unbuffered input.  `auto_step fixed dv` of Prio1P.v is `auto_step_o 0`. *)
Definition auto_step_o (o : nat) (s : st) : option st :=
  match sched_step fixed dv o s with
  | Some s' => Some s'
  | None => match pcs s with Idle | Read _ _ _ _ _ => env_step s Tick | _ => None end
  end.
Fixpoint iter_auto_o (os : list nat) (s : st) : option st :=
  match os with [] => Some s | o :: r => match auto_step_o o s with Some s' => iter_auto_o r s' | None => None end end.
(* the scheduler alone, no clock *)
Fixpoint iter_sched_o (os : list nat) (s : st) : option st :=
  match os with [] => Some s | o :: r => match sched_step fixed dv o s with Some s' => iter_sched_o r s' | None => None end end.

(* the same for quiet states, where no oracle is needed *)
Definition astep (s : st) : option st :=
  match sstep s with Some s' => Some s' | None =>
  match pcs s with Idle | Read _ _ _ _ _ => env_step s Tick | _ => None end end.
Fixpoint iter_a (n : nat) (s : st) : option st :=
  match n with O => Some s | S n' => match astep s with None => None | Some s' => iter_a n' s' end end.
Fixpoint iter_s (n : nat) (s : st) : option st :=
  match n with O => Some s | S n' => match sstep s with None => None | Some s' => iter_s n' s' end end.

Lemma auto_step_is_o s : auto_step fixed dv s = auto_step_o 0 s.
Proof. reflexivity. Qed.
Lemma auto_step_o_astep o s : Quiet s -> auto_step_o o s = astep s.
Proof. intros HQ. unfold auto_step_o, astep. rewrite (sched_step_sstep o s HQ). reflexivity. Qed.
Lemma astep_static s s' : astep s = Some s' -> static s s'.
Proof.
  unfold astep. intros Hs. destruct (sstep s) as [s1|] eqn:E.
  - inversion Hs; subst. apply sstep_static; exact E.
  - destruct (pcs s); try discriminate; eapply (env_step_static s Tick); eauto; exact I.
Qed.
Lemma iter_a_static n : forall s s', iter_a n s = Some s' -> static s s'.
Proof.
  induction n as [|n IH]; intros s s' Hi; cbn [iter_a] in Hi.
  - inversion Hi; subst. apply static_refl.
  - destruct (astep s) as [s1|] eqn:E; [|discriminate]. eapply static_trans; [eapply astep_static; eauto|apply IH; exact Hi].
Qed.
Lemma iter_auto_o_a : forall os s, Quiet s -> iter_auto_o os s = iter_a (length os) s.
Proof.
  induction os as [|o r IH]; intros s HQ; cbn [length iter_a iter_auto_o]; [reflexivity|].
  rewrite (auto_step_o_astep o s HQ). destruct (astep s) as [s1|] eqn:E; [|reflexivity].
  apply IH. eapply static_Quiet; [eapply astep_static; eauto|exact HQ].
Qed.
Lemma iter_auto_a n : forall s, Quiet s -> iter_auto fixed dv n s = iter_a n s.
Proof.
  induction n as [|n IH]; intros s HQ; cbn [iter_a iter_auto]; [reflexivity|].
  rewrite auto_step_is_o, (auto_step_o_astep 0 s HQ). destruct (astep s) as [s1|] eqn:E; [|reflexivity].
  apply IH. eapply static_Quiet; [eapply astep_static; eauto|exact HQ].
Qed.
Lemma iter_sched_o_s : forall os s, Quiet s -> iter_sched_o os s = iter_s (length os) s.
Proof.
  induction os as [|o r IH]; intros s HQ; cbn [length iter_s iter_sched_o]; [reflexivity|].
  rewrite (sched_step_sstep o s HQ). destruct (sstep s) as [s1|] eqn:E; [|reflexivity].
  apply IH. eapply static_Quiet; [eapply sstep_static; eauto|exact HQ].
Qed.
Lemma iter_a_auto_o os s s' : Quiet s -> iter_a (length os) s = Some s' -> iter_auto_o os s = Some s'.
Proof. intros HQ Hi. rewrite (iter_auto_o_a os s HQ). exact Hi. Qed.
Lemma iter_a_auto n s s' : Quiet s -> iter_a n s = Some s' -> iter_auto fixed dv n s = Some s'.
Proof. intros HQ Hi. rewrite (iter_auto_a n s HQ). exact Hi. Qed.
Lemma iter_s_sched_o os s s' : Quiet s -> iter_s (length os) s = Some s' -> iter_sched_o os s = Some s'.
Proof. intros HQ Hi. rewrite (iter_sched_o_s os s HQ). exact Hi. Qed.

Lemma a_of_s s s1 : sstep s = Some s1 -> astep s = Some s1.
Proof. intros E. unfold astep. rewrite E. reflexivity. Qed.
Lemma iter_s_S n s s1 s' : sstep s = Some s1 -> iter_s n s1 = Some s' -> iter_s (S n) s = Some s'.
Proof. intros H1 H2. cbn [iter_s]. rewrite H1. exact H2. Qed.
Lemma iter_a_S n s s1 s' : astep s = Some s1 -> iter_a n s1 = Some s' -> iter_a (S n) s = Some s'.
Proof. intros H1 H2. cbn [iter_a]. rewrite H1. exact H2. Qed.
Lemma iter_a_app k : forall n s s2 s', iter_a k s = Some s2 -> iter_a n s2 = Some s' -> iter_a (k + n) s = Some s'.
Proof.
  induction k as [|k IH]; intros n s s2 s' H1 H2; cbn [iter_a Nat.add] in *.
  - inversion H1; subst. exact H2.
  - destruct (astep s) as [s1|]; [|discriminate]. eapply IH; eauto.
Qed.
Lemma iter_s_app k : forall n s s2 s', iter_s k s = Some s2 -> iter_s n s2 = Some s' -> iter_s (k + n) s = Some s'.
Proof.
  induction k as [|k IH]; intros n s s2 s' H1 H2; cbn [iter_s Nat.add] in *.
  - inversion H1; subst. exact H2.
  - destruct (sstep s) as [s1|]; [|discriminate]. eapply IH; eauto.
Qed.

Lemma astep_sreachable s0 s s' : InitL1 s0 -> sreachable s0 s -> astep s = Some s' -> sreachable s0 s'.
Proof.
  intros I Hr E. unfold astep in E. destruct (sstep s) as [s1|] eqn:Es.
  - inversion E; subst. apply (sr_sched s0 s 0%nat s' Hr). rewrite (sched_step_sstep 0 s (sreachable_Quiet _ _ I Hr)). exact Es.
  - destruct (pcs s); try discriminate; apply (sr_env s0 s Tick s' Hr); auto; exact Logic.I.
Qed.
Lemma iter_a_sreachable n : forall s0 s s', InitL1 s0 -> sreachable s0 s -> iter_a n s = Some s' -> sreachable s0 s'.
Proof.
  induction n as [|n IH]; intros s0 s s' I Hr Hi; cbn [iter_a] in Hi.
  - inversion Hi; subst; exact Hr.
  - destruct (astep s) as [s1|] eqn:E; [|discriminate]. eapply IH; [exact I| |exact Hi]. eapply astep_sreachable; eauto.
Qed.

(* no configured input is empty, open, unbuffered and not yet drained: the scheduler never blocks in Read *)
Definition NoBlock (s : st) : Prop :=
  forall q ch, In q (prios s) -> chan_of s q = Some ch -> drained s q = false -> closed s ch = false -> inq s ch = [] ->
    buffered s ch = true.

Lemma scan_delivers : forall rest s proc p0 ch0,
  pcs s = Prio P1 rest proc -> incl rest (prios s) -> In p0 rest -> chan_of s p0 = Some ch0 -> drained s p0 = false ->
  inq s ch0 <> [] -> 1 <= get (tactic s) p0 -> outq s = [] -> 1 <= outcap s ->
  exists n s', iter_a n s = Some s' /\ (n <= 3 * length rest)%nat /\ length (delivered s') = S (length (delivered s)) /\
    (NoBlock s -> (n <= 2 * length rest + 1)%nat /\ iter_s n s = Some s').
Proof.
  induction rest as [|q r IH]; intros s proc p0 ch0 Hpc Hincl Hin Hch0 Hdr Hiq Ht Ho Hcap; [destruct Hin|].
  assert (Hq : In q (prios s)) by (apply Hincl; left; reflexivity).
  assert (Hincl' : incl r (prios s)) by (intros a Ha; apply Hincl; right; exact Ha).
  assert (Hskip : forall k s2, iter_a k s = Some s2 -> (k <= 3)%nat ->
            (NoBlock s -> (k <= 2)%nat /\ iter_s k s = Some s2 /\ NoBlock s2) ->
            pcs s2 = Prio P1 r proc -> prios s2 = prios s -> chan_of s2 = chan_of s -> drained s2 p0 = false -> inq s2 = inq s ->
            get (tactic s2) p0 = get (tactic s) p0 -> outq s2 = [] -> outcap s2 = outcap s -> delivered s2 = delivered s ->
            q <> p0 ->
            exists n s', iter_a n s = Some s' /\ (n <= 3 * length (q :: r))%nat /\
              length (delivered s') = S (length (delivered s)) /\
              (NoBlock s -> (n <= 2 * length (q :: r) + 1)%nat /\ iter_s n s = Some s')).
  { intros k s2 Hk Hk3 Hnb2 Hpc2 Ep2 Ech2 Hdr2 Ei2 Et2 Ho2 Ec2 Ed2 Hne.
    destruct (IH s2 proc p0 ch0) as (n & s' & Hi & Hn & Hd & Hnb); auto.
    - rewrite Ep2. exact Hincl'.
    - destruct Hin as [E|Hin]; [contradiction|exact Hin].
    - rewrite Ech2. exact Hch0.
    - rewrite Ei2. exact Hiq.
    - rewrite Et2. exact Ht.
    - rewrite Ec2. exact Hcap.
    - exists (k + n)%nat, s'. split; [eapply iter_a_app; eauto|]. split; [cbn [length]; lia|].
      split; [rewrite Hd, Ed2; reflexivity|].
      intros NB. destruct (Hnb2 NB) as (Hk2 & His & NB2). destruct (Hnb NB2) as [Hn2 His2].
      split; [cbn [length]; lia|eapply iter_s_app; eauto]. }
  assert (E1 : sstep s = Some (with_pc s (if drained s q then Prio P1 r proc else Read P1 q r proc false))).
  { unfold sstep. rewrite Hpc. reflexivity. }
  destruct (drained s q) eqn:Edq.
  - (* already drained: skipped *)
    apply (Hskip 1%nat (with_pc s (Prio P1 r proc))); try reflexivity; auto.
    + eapply iter_a_S; [apply a_of_s; exact E1|reflexivity].
    + intros NB. split; [lia|]. split; [eapply iter_s_S; [exact E1|reflexivity]|exact NB].
    + intros ->. congruence.
  - set (s1 := with_pc s (Read P1 q r proc false)) in *.
    assert (Hskip2 : sstep s1 = Some (with_pc s1 (Prio P1 r proc)) -> q <> p0 ->
              exists n s', iter_a n s = Some s' /\ (n <= 3 * length (q :: r))%nat /\
                length (delivered s') = S (length (delivered s)) /\
                (NoBlock s -> (n <= 2 * length (q :: r) + 1)%nat /\ iter_s n s = Some s')).
    { intros E2 Hne. apply (Hskip 2%nat (with_pc s1 (Prio P1 r proc))); try reflexivity; auto.
      - eapply iter_a_S; [apply a_of_s; exact E1|]. eapply iter_a_S; [apply a_of_s; exact E2|reflexivity].
      - intros NB. split; [lia|]. split; [|exact NB].
        eapply iter_s_S; [exact E1|]. eapply iter_s_S; [exact E2|reflexivity]. }
    destruct (N.eqb_spec (get (tactic s) q) 0) as [Et|Et].
    + (* no allowance: skipped *)
      apply Hskip2.
      * unfold sstep, s1; proj. rewrite (proj2 (N.eqb_eq _ _) Et). reflexivity.
      * intros ->. lia.
    + assert (Etb : (get (tactic s) q =? 0) = false) by (apply N.eqb_neq; exact Et).
      destruct (chan_of s q) as [ch|] eqn:Ech.
      2:{ (* no entry (dead code): skipped *)
        apply Hskip2.
        - unfold sstep, s1; proj. rewrite Etb, Ech. reflexivity.
        - intros ->. congruence. }
      destruct (inq s ch) as [|x qq] eqn:Eq.
      * (* empty input *)
        assert (Hne : q <> p0) by (intros ->; congruence).
        destruct (closed s ch) eqn:Ecl.
        -- assert (E2 : sstep s1 = Some (mark_drained s1 q (Prio P1 r proc))).
           { unfold sstep, s1; proj. rewrite Etb, Ech, Eq, Ecl. reflexivity. }
           apply (Hskip 2%nat (mark_drained s1 q (Prio P1 r proc))); try reflexivity; auto.
           ++ eapply iter_a_S; [apply a_of_s; exact E1|]. eapply iter_a_S; [apply a_of_s; exact E2|reflexivity].
           ++ intros NB. split; [lia|]. split.
              ** eapply iter_s_S; [exact E1|]. eapply iter_s_S; [exact E2|reflexivity].
              ** intros q' ch' Hq' Hch' Hd'. unfold s1 in Hd', Hch' |- *. revert Hd' Hch'. proj. unfold upd.
                 destruct (N.eqb q' q); [discriminate|]. intros Hd' Hch'. apply (NB q' ch'); auto.
           ++ unfold s1; proj. unfold upd. destruct (N.eqb_spec p0 q) as [E|_]; [congruence|exact Hdr].
        -- destruct (buffered s ch) eqn:Ebuf.
           ++ apply Hskip2; [|exact Hne]. unfold sstep, s1; proj. rewrite Etb, Ech, Eq, Ecl, Ebuf. reflexivity.
           ++ (* blocked in iou: two ticks *)
              set (s1' := with_pc s1 (Read P1 q r proc true)).
              assert (A2 : astep s1 = Some s1').
              { unfold astep, sstep, env_step, chan_state, s1', s1; proj. rewrite Etb, Ech, Eq, Ecl, Ebuf. reflexivity. }
              assert (A3 : astep s1' = Some (with_pc s1' (Prio P1 r proc))).
              { unfold astep, sstep, env_step, chan_state, s1', s1; proj. rewrite Etb, Ech, Eq, Ecl, Ebuf. reflexivity. }
              apply (Hskip 3%nat (with_pc s1' (Prio P1 r proc))); try reflexivity; auto.
              ** eapply iter_a_S; [apply a_of_s; exact E1|]. eapply iter_a_S; [exact A2|].
                 eapply iter_a_S; [exact A3|reflexivity].
              ** intros NB. specialize (NB q ch Hq Ech Edq Ecl Eq). congruence.
      * (* data: read it and send it; the output is empty *)
        set (s2 := pop_in s1 ch q x qq (Send P1 q x r proc)).
        assert (E2 : sstep s1 = Some s2).
        { unfold sstep, s2, s1; proj. rewrite Etb, Ech, Eq. reflexivity. }
        assert (E3 : sstep s2 = Some (push_out s2 q x (Read P1 q r (proc + 1) false))).
        { unfold sstep, s2, s1; proj. rewrite Ho. cbn [length N.of_nat].
          assert (Hlt : (0 <? outcap s) = true) by (apply N.ltb_lt; lia). rewrite Hlt. reflexivity. }
        exists 3%nat, (push_out s2 q x (Read P1 q r (proc + 1) false)). split; [|split; [|split]].
        -- eapply iter_a_S; [apply a_of_s; exact E1|]. eapply iter_a_S; [apply a_of_s; exact E2|].
           eapply iter_a_S; [apply a_of_s; exact E3|reflexivity].
        -- cbn [length]. lia.
        -- unfold s2, s1; proj. rewrite app_length. cbn [length]. lia.
        -- intros _. split; [cbn [length]; lia|].
           eapply iter_s_S; [exact E1|]. eapply iter_s_S; [exact E2|]. eapply iter_s_S; [exact E3|reflexivity].
Qed.

Lemma calc_idle_start s : Inv s -> Shares s -> pcs s = Calc -> sum (actual s) = 0 ->
  exists t, sstep s = Some (with_tac s t (Prio P1 (prios s) 0)) /\
            (forall q, In q (prios s) -> get t q = get (strategic s) q) /\
            (forall q, ~ In q (prios s) -> get t q = 0) /\ outq s = [].
Proof.
  intros Hinv Hsh Hpc Hz.
  assert (Hz' : forall q, get (actual s) q = 0) by (intros q; apply sum_zero_get; [apply (i_nda s Hinv)|exact Hz]).
  destruct (step_calc_addup s Hinv Hsh) as (t & Et & Hg & Hg2 & _).
  - intros q _. rewrite Hz'. lia.
  - intros q _. apply Hz'.
  - pose proof (sh_H s Hsh). lia.
  - exists t. split; [unfold sstep; rewrite Hpc, Et; reflexivity|]. split; [|split; [exact Hg2|]].
    + intros q Hq. rewrite (Hg q Hq), Hz'. lia.
    + apply length_zero_nil. pose proof (i_sum s Hinv) as Hs. unfold inflight in Hs. lia.
Qed.

Lemma round_from_calc s : Inv s -> Shares s -> pcs s = Calc -> sum (actual s) = 0 ->
  (exists p ch, In p (prios s) /\ chan_of s p = Some ch /\ drained s p = false /\ inq s ch <> []) ->
  exists n s', iter_a n s = Some s' /\ (n <= 3 * length (prios s) + 1)%nat /\ length (delivered s') = S (length (delivered s)) /\
    (NoBlock s -> (n <= 2 * length (prios s) + 2)%nat /\ iter_s n s = Some s').
Proof.
  intros Hinv Hsh Hpc Hz (p & ch & Hp & Hch & Hdr & Hiq).
  destruct (calc_idle_start s Hinv Hsh Hpc Hz) as (t & E1 & Hg & _ & Ho).
  destruct (scan_delivers (prios s) (with_tac s t (Prio P1 (prios s) 0)) 0 p ch) as (n & s' & Hi & Hn & Hd & Hnb); proj; auto.
  - apply incl_refl.
  - rewrite (Hg p Hp). apply (sh_pos s Hsh p Hp).
  - apply (sh_cap s Hsh).
  - exists (S n), s'. split; [eapply iter_a_S; [apply a_of_s; exact E1|exact Hi]|]. split; [lia|]. split; [exact Hd|].
    intros NB. destruct (Hnb NB) as [Hn2 His]. split; [lia|eapply iter_s_S; [exact E1|exact His]].
Qed.

Lemma round_core s0 s : InitL1 s0 -> sreachable s0 s -> (pcs s = Calc \/ pcs s = Top) -> sum (actual s) = 0 -> fbq s = [] ->
  (exists p ch, In p (prios s) /\ chan_of s p = Some ch /\ drained s p = false /\ inq s ch <> []) ->
  exists n s', iter_a n s = Some s' /\ (n <= 3 * length (prios s) + 2)%nat /\ length (delivered s') = S (length (delivered s)) /\
    (NoBlock s -> (n <= 2 * length (prios s) + 3)%nat /\ iter_s n s = Some s').
Proof.
  intros I Hr [Hpc|Hpc] Hz Hfb Hdata.
  - destruct (round_from_calc s (sreachable_Inv _ _ I Hr) (sreachable_Shares _ _ I Hr) Hpc Hz Hdata) as (n & s' & Hi & Hn & Hd & Hnb).
    exists n, s'. split; [exact Hi|]. split; [lia|]. split; [exact Hd|]. intros NB. destruct (Hnb NB). split; [lia|assumption].
  - assert (E0 : sstep s = Some (with_pc s Calc)) by (unfold sstep; rewrite Hpc, Hfb; reflexivity).
    assert (Hr1 : sreachable s0 (with_pc s Calc)) by (eapply astep_sreachable; eauto; apply a_of_s; exact E0).
    destruct (round_from_calc (with_pc s Calc) (sreachable_Inv _ _ I Hr1) (sreachable_Shares _ _ I Hr1) eq_refl Hz Hdata)
      as (n & s' & Hi & Hn & Hd & Hnb).
    exists (S n), s'. split; [eapply iter_a_S; [apply a_of_s; exact E0|exact Hi]|]. revert Hn Hd Hnb. proj. intros Hn Hd Hnb.
    split; [lia|]. split; [exact Hd|]. intros NB. destruct (Hnb NB) as [Hn2 His]. split; [lia|eapply iter_s_S; [exact E0|exact His]].
Qed.

(* nothing in flight and some input has data: an item is delivered without any release (the clock may tick: iter_auto) *)
Theorem prio1_round_delivers : forall s0 s, InitL1 s0 -> sreachable s0 s -> (pcs s = Calc \/ pcs s = Top) -> sum (actual s) = 0 ->
  fbq s = [] ->
  (exists p ch, In p (prios s) /\ chan_of s p = Some ch /\ drained s p = false /\ inq s ch <> []) ->
  exists n s', iter_auto fixed dv n s = Some s' /\ length (delivered s') = S (length (delivered s)) /\
    (n <= 3 * length (prios s) + 2)%nat.
Proof.
  intros s0 s I Hr Hpc Hz Hfb Hdata. destruct (round_core s0 s I Hr Hpc Hz Hfb Hdata) as (n & s' & Hi & Hn & Hd & _).
  exists n, s'. split; [apply iter_a_auto; [eapply sreachable_Quiet; eauto|exact Hi]|]. split; [exact Hd|exact Hn].
Qed.

(* the same for EVERY resolution of the selects: whatever the oracles, the same state is reached *)
Theorem prio1_round_delivers_oracles : forall s0 s, InitL1 s0 -> sreachable s0 s -> (pcs s = Calc \/ pcs s = Top) ->
  sum (actual s) = 0 -> fbq s = [] ->
  (exists p ch, In p (prios s) /\ chan_of s p = Some ch /\ drained s p = false /\ inq s ch <> []) ->
  exists n s', (n <= 3 * length (prios s) + 2)%nat /\ length (delivered s') = S (length (delivered s)) /\
    forall os, length os = n -> iter_auto_o os s = Some s'.
Proof.
  intros s0 s I Hr Hpc Hz Hfb Hdata. destruct (round_core s0 s I Hr Hpc Hz Hfb Hdata) as (n & s' & Hi & Hn & Hd & _).
  exists n, s'. split; [exact Hn|]. split; [exact Hd|]. intros os Hl. apply iter_a_auto_o; [eapply sreachable_Quiet; eauto|].
  rewrite Hl. exact Hi.
Qed.

(* the scheduler alone, no clock: needs that it cannot block in Read on an empty open unbuffered input (NoBlock) *)
Theorem prio1_round_delivers_noclock : forall s0 s, InitL1 s0 -> sreachable s0 s -> (pcs s = Calc \/ pcs s = Top) ->
  sum (actual s) = 0 -> fbq s = [] ->
  (exists p ch, In p (prios s) /\ chan_of s p = Some ch /\ drained s p = false /\ inq s ch <> []) ->
  (forall q ch, In q (prios s) -> chan_of s q = Some ch -> drained s q = false -> closed s ch = false -> inq s ch = [] ->
     buffered s ch = true) ->
  exists n s', (n <= 2 * length (prios s) + 3)%nat /\ length (delivered s') = S (length (delivered s)) /\
    forall os, length os = n -> iter_sched_o os s = Some s'.
Proof.
  intros s0 s I Hr Hpc Hz Hfb Hdata NB. destruct (round_core s0 s I Hr Hpc Hz Hfb Hdata) as (n & s' & _ & _ & Hd & Hnb).
  destruct (Hnb NB) as [Hn His].
  exists n, s'. split; [exact Hn|]. split; [exact Hd|]. intros os Hl. apply iter_s_sched_o; [eapply sreachable_Quiet; eauto|].
  rewrite Hl. exact His.
Qed.


(* ================= C (second part). a single busy priority gets every handler ================= *)
(* the environment takes from the output whenever it is non-empty; otherwise the scheduler moves (or time passes).
   There is no Release (and no Put, Close, Stop, ...) in such a run. *)
Definition eager_step_o (o : nat) (s : st) : option st :=
  match outq s with [] => auto_step_o o s | _ :: _ => env_step s Take end.
Fixpoint iter_eager_o (os : list nat) (s : st) : option st :=
  match os with [] => Some s | o :: r => match eager_step_o o s with Some s' => iter_eager_o r s' | None => None end end.
(* every select resolved by oracle 0, as in Prio1P.auto_step *)
Definition eager_step (s : st) : option st := match outq s with [] => auto_step fixed dv s | _ :: _ => env_step s Take end.
Fixpoint iter_eager (n : nat) (s : st) : option st :=
  match n with O => Some s | S n' => match eager_step s with None => None | Some s' => iter_eager n' s' end end.
(* quiet states *)
Definition estep (s : st) : option st := match outq s with [] => astep s | _ :: _ => env_step s Take end.
Fixpoint iter_e (n : nat) (s : st) : option st :=
  match n with O => Some s | S n' => match estep s with None => None | Some s' => iter_e n' s' end end.

Lemma estep_static s s' : estep s = Some s' -> static s s'.
Proof.
  unfold estep. intros E. destruct (outq s); [apply astep_static; exact E|]. apply (env_step_static s Take); [exact I|exact E].
Qed.
Lemma eager_step_o_estep o s : Quiet s -> eager_step_o o s = estep s.
Proof. intros HQ. unfold eager_step_o, estep. rewrite (auto_step_o_astep o s HQ). reflexivity. Qed.
Lemma iter_eager_o_e : forall os s, Quiet s -> iter_eager_o os s = iter_e (length os) s.
Proof.
  induction os as [|o r IH]; intros s HQ; cbn [length iter_e iter_eager_o]; [reflexivity|].
  rewrite (eager_step_o_estep o s HQ). destruct (estep s) as [s1|] eqn:E; [|reflexivity].
  apply IH. eapply static_Quiet; [eapply estep_static; eauto|exact HQ].
Qed.
Lemma iter_eager_e n : forall s, Quiet s -> iter_eager n s = iter_e n s.
Proof.
  induction n as [|n IH]; intros s HQ; cbn [iter_e iter_eager]; [reflexivity|].
  change (eager_step s) with (eager_step_o 0 s). rewrite (eager_step_o_estep 0 s HQ).
  destruct (estep s) as [s1|] eqn:E; [|reflexivity].
  apply IH. eapply static_Quiet; [eapply estep_static; eauto|exact HQ].
Qed.
Lemma iter_e_eager_o os s s' : Quiet s -> iter_e (length os) s = Some s' -> iter_eager_o os s = Some s'.
Proof. intros HQ Hi. rewrite (iter_eager_o_e os s HQ). exact Hi. Qed.
Lemma iter_e_eager n s s' : Quiet s -> iter_e n s = Some s' -> iter_eager n s = Some s'.
Proof. intros HQ Hi. rewrite (iter_eager_e n s HQ). exact Hi. Qed.

Lemma e_of_a s s1 : outq s = [] -> astep s = Some s1 -> estep s = Some s1.
Proof. intros Ho E. unfold estep. rewrite Ho. exact E. Qed.
Lemma e_of_s s s1 : outq s = [] -> sstep s = Some s1 -> estep s = Some s1.
Proof. intros Ho E. apply e_of_a; [exact Ho|apply a_of_s; exact E]. Qed.
Lemma iter_e_S n s s1 s' : estep s = Some s1 -> iter_e n s1 = Some s' -> iter_e (S n) s = Some s'.
Proof. intros H1 H2. cbn [iter_e]. rewrite H1. exact H2. Qed.
Lemma iter_e_app k : forall n s s2 s', iter_e k s = Some s2 -> iter_e n s2 = Some s' -> iter_e (k + n) s = Some s'.
Proof.
  induction k as [|k IH]; intros n s s2 s' H1 H2; cbn [iter_e Nat.add] in *.
  - inversion H1; subst. exact H2.
  - destruct (estep s) as [s1|]; [|discriminate]. eapply IH; eauto.
Qed.
Lemma estep_sreachable s0 s s' : InitL1 s0 -> sreachable s0 s -> estep s = Some s' -> sreachable s0 s'.
Proof.
  intros I Hr E. unfold estep in E. destruct (outq s).
  - eapply astep_sreachable; eauto.
  - apply (sr_env s0 s Take s' Hr); [exact Logic.I|exact E].
Qed.
Lemma iter_e_sreachable n : forall s0 s s', InitL1 s0 -> sreachable s0 s -> iter_e n s = Some s' -> sreachable s0 s'.
Proof.
  induction n as [|n IH]; intros s0 s s' I Hr Hi; cbn [iter_e] in Hi.
  - inversion Hi; subst; exact Hr.
  - destruct (estep s) as [s1|] eqn:E; [|discriminate]. eapply IH; [exact I| |exact Hi]. eapply estep_sreachable; eauto.
Qed.

Definition Same (s s' : st) : Prop :=
  static s s' /\ actual s' = actual s /\ tactic s' = tactic s /\ inq s' = inq s /\ outq s' = outq s.
Lemma Same_refl s : Same s s.
Proof. split; [apply static_refl|]. repeat split; reflexivity. Qed.
Lemma Same_trans s1 s2 s3 : Same s1 s2 -> Same s2 s3 -> Same s1 s3.
Proof.
  intros (a0 & a1 & a2 & a3 & a4) (b0 & b1 & b2 & b3 & b4). split; [eapply static_trans; eauto|]. repeat split; congruence.
Qed.
Ltac same_now := split; [repeat split; reflexivity|repeat split; reflexivity].

(* skipping priorities that have no data or no allowance *)
Lemma scan_skip ph : forall rest tail s proc,
  pcs s = Prio ph (rest ++ tail) proc -> outq s = [] ->
  (forall q, In q rest -> (forall c, chan_of s q = Some c -> inq s c = []) \/ get (tactic s) q = 0) ->
  exists n s', iter_e n s = Some s' /\ pcs s' = Prio ph tail proc /\ Same s s' /\
     (forall q, drained s' q = true -> drained s q = true \/ exists c, chan_of s q = Some c /\ inq s c = []).
Proof.
  induction rest as [|q r IH]; intros tail s proc Hpc Ho Hq.
  - exists 0%nat, s. split; [reflexivity|]. split; [exact Hpc|]. split; [apply Same_refl|auto].
  - cbn [app] in Hpc.
    assert (Hcont : forall k s2, iter_e k s = Some s2 -> pcs s2 = Prio ph (r ++ tail) proc -> Same s s2 ->
        (forall q', drained s2 q' = true -> drained s q' = true \/ exists c, chan_of s q' = Some c /\ inq s c = []) ->
        exists n s', iter_e n s = Some s' /\ pcs s' = Prio ph tail proc /\ Same s s' /\
          (forall q', drained s' q' = true -> drained s q' = true \/ exists c, chan_of s q' = Some c /\ inq s c = [])).
    { intros k s2 Hk Hpc2 HS Hd2. pose proof HS as (Hst & Ea & Et & Ei & Eo).
      assert (Ech : chan_of s2 = chan_of s) by (destruct Hst as (_ & _ & _ & _ & _ & _ & E & _); exact E).
      destruct (IH tail s2 proc Hpc2) as (n & s' & Hi & Hpc' & HS' & Hd').
      - rewrite Eo; exact Ho.
      - intros q' Hq'. rewrite Ei, Et, Ech. apply Hq. right; exact Hq'.
      - exists (k + n)%nat, s'. split; [eapply iter_e_app; eauto|]. split; [exact Hpc'|].
        split; [eapply Same_trans; eauto|].
        intros q' Hd. destruct (Hd' q' Hd) as [H1|H1]; [apply Hd2; exact H1|right; rewrite <- Ei, <- Ech; exact H1]. }
    assert (E1 : sstep s = Some (with_pc s (if drained s q then Prio ph (r ++ tail) proc else Read ph q (r ++ tail) proc false))).
    { unfold sstep. rewrite Hpc. reflexivity. }
    destruct (drained s q) eqn:Edq.
    + apply (Hcont 1%nat (with_pc s (Prio ph (r ++ tail) proc))).
      * eapply iter_e_S; [apply e_of_s; [exact Ho|exact E1]|reflexivity].
      * reflexivity.
      * same_now.
      * intros q' Hd. left. exact Hd.
    + set (s1 := with_pc s (Read ph q (r ++ tail) proc false)) in *.
      assert (Ho1 : outq s1 = []) by exact Ho.
      assert (Hcont2 : sstep s1 = Some (with_pc s1 (Prio ph (r ++ tail) proc)) ->
        exists n s', iter_e n s = Some s' /\ pcs s' = Prio ph tail proc /\ Same s s' /\
          (forall q', drained s' q' = true -> drained s q' = true \/ exists c, chan_of s q' = Some c /\ inq s c = [])).
      { intros E2. apply (Hcont 2%nat (with_pc s1 (Prio ph (r ++ tail) proc))).
        - eapply iter_e_S; [apply e_of_s; [exact Ho|exact E1]|].
          eapply iter_e_S; [apply e_of_s; [exact Ho1|exact E2]|reflexivity].
        - reflexivity.
        - same_now.
        - intros q' Hd. left. exact Hd. }
      destruct (N.eqb_spec (get (tactic s) q) 0) as [Et|Et].
      * apply Hcont2. unfold sstep, s1; proj. rewrite (proj2 (N.eqb_eq _ _) Et). reflexivity.
      * assert (Etb : (get (tactic s) q =? 0) = false) by (apply N.eqb_neq; exact Et).
        destruct (chan_of s q) as [ch|] eqn:Ech.
        2:{ apply Hcont2. unfold sstep, s1; proj. rewrite Etb, Ech. reflexivity. }
        assert (Eq : inq s ch = []).
        { destruct (Hq q (or_introl eq_refl)) as [Hi|Ht]; [apply Hi; exact Ech|contradiction]. }
        destruct (closed s ch) eqn:Ecl.
        -- assert (E2 : sstep s1 = Some (mark_drained s1 q (Prio ph (r ++ tail) proc))).
           { unfold sstep, s1; proj. rewrite Etb, Ech, Eq, Ecl. reflexivity. }
           apply (Hcont 2%nat (mark_drained s1 q (Prio ph (r ++ tail) proc))).
           ++ eapply iter_e_S; [apply e_of_s; [exact Ho|exact E1]|].
              eapply iter_e_S; [apply e_of_s; [exact Ho1|exact E2]|reflexivity].
           ++ reflexivity.
           ++ same_now.
           ++ intros q' Hd. unfold s1 in Hd. revert Hd. proj. unfold upd.
              destruct (N.eqb_spec q' q) as [->|Hne]; [intros _; right; exists ch; split; assumption|intros Hd; left; exact Hd].
        -- destruct (buffered s ch) eqn:Ebuf.
           ++ apply Hcont2. unfold sstep, s1; proj. rewrite Etb, Ech, Eq, Ecl, Ebuf. reflexivity.
           ++ set (s1' := with_pc s1 (Read ph q (r ++ tail) proc true)).
              assert (A2 : astep s1 = Some s1').
              { unfold astep, sstep, env_step, chan_state, s1', s1; proj. rewrite Etb, Ech, Eq, Ecl, Ebuf. reflexivity. }
              assert (A3 : astep s1' = Some (with_pc s1' (Prio ph (r ++ tail) proc))).
              { unfold astep, sstep, env_step, chan_state, s1', s1; proj. rewrite Etb, Ech, Eq, Ecl, Ebuf. reflexivity. }
              apply (Hcont 3%nat (with_pc s1' (Prio ph (r ++ tail) proc))).
              ** eapply iter_e_S; [apply e_of_s; [exact Ho|exact E1]|].
                 eapply iter_e_S; [apply e_of_a; [exact Ho1|exact A2]|].
                 eapply iter_e_S; [apply e_of_a; [exact Ho1|exact A3]|reflexivity].
              ** reflexivity.
              ** same_now.
              ** intros q' Hd. left. exact Hd.
Qed.

Lemma take_one s px : outq s = [px] ->
  exists s3, estep s = Some s3 /\ pcs s3 = pcs s /\ tactic s3 = tactic s /\ actual s3 = actual s /\ inq s3 = inq s /\
    outq s3 = [] /\ static s s3 /\ drained s3 = drained s.
Proof.
  intros Ho. unfold estep, env_step. rewrite Ho. eexists. split; [reflexivity|]. proj.
  repeat split; reflexivity.
Qed.

(* reading and sending the whole allowance of p; every item is taken from the output at once *)
Lemma send_loop ph p ch r : forall k s proc intr,
  pcs s = Read ph p r proc intr -> chan_of s p = Some ch -> get (tactic s) p = N.of_nat k -> (k <= length (inq s ch))%nat ->
  outq s = [] -> 1 <= outcap s ->
  exists n s' proc' intr', iter_e n s = Some s' /\ pcs s' = Read ph p r proc' intr' /\ static s s' /\
    get (tactic s') p = 0 /\ (forall q, q <> p -> get (tactic s') q = get (tactic s) q) /\
    get (actual s') p = get (actual s) p + N.of_nat k /\ (forall q, q <> p -> get (actual s') q = get (actual s) q) /\
    (forall c, c <> ch -> inq s' c = inq s c) /\ (length (inq s' ch) + k = length (inq s ch))%nat /\ outq s' = [] /\
    drained s' = drained s.
Proof.
  induction k as [|k IH]; intros s proc intr Hpc Hch Ht Hlen Ho Hcap.
  - exists 0%nat, s, proc, intr. split; [reflexivity|]. split; [exact Hpc|]. split; [apply static_refl|].
    cbn [N.of_nat] in *. repeat split; auto; lia.
  - assert (Etb : (get (tactic s) p =? 0) = false) by (apply N.eqb_neq; rewrite Ht, Nat2N.inj_succ; lia).
    destruct (inq s ch) as [|x qq] eqn:Eq; [cbn [length] in Hlen; lia|].
    set (s1 := pop_in s ch p x qq (Send ph p x r proc)).
    assert (E1 : sstep s = Some s1).
    { unfold sstep. rewrite Hpc, Etb, Hch, Eq. reflexivity. }
    set (s2 := push_out s1 p x (Read ph p r (proc + 1) false)).
    assert (E2 : sstep s1 = Some s2).
    { unfold sstep, s2, s1; proj. rewrite Ho. cbn [length N.of_nat].
      assert (Hlt : (0 <? outcap s) = true) by (apply N.ltb_lt; lia). rewrite Hlt. reflexivity. }
    assert (Ho2 : outq s2 = [(p, x)]) by (unfold s2, s1; proj; rewrite Ho; reflexivity).
    destruct (take_one s2 (p, x) Ho2) as (s3 & E3 & Epc3 & Et3 & Ea3 & Ei3 & Eo3 & Est3 & Ed3).
    destruct (IH s3 (proc + 1) false) as (n & s' & proc' & intr' & Hi & Hpc' & Hst' & Ht0 & Hto & Hap & Hao & Hio & Hil & Ho' & Hd').
    + rewrite Epc3. reflexivity.
    + destruct Est3 as (_ & _ & _ & _ & _ & _ & Ech3 & _). rewrite Ech3. unfold s2, s1; proj. exact Hch.
    + rewrite Et3. unfold s2, s1; proj. rewrite get_dec, N.eqb_refl, Ht, Nat2N.inj_succ. lia.
    + rewrite Ei3. unfold s2, s1; proj. unfold updn. rewrite Nat.eqb_refl. cbn [length] in Hlen. lia.
    + exact Eo3.
    + destruct Est3 as (_ & _ & _ & Ec3 & _). rewrite Ec3. exact Hcap.
    + exists (S (S (S n))), s', proc', intr'.
      split.
      { eapply iter_e_S; [apply e_of_s; [exact Ho|exact E1]|].
        eapply iter_e_S; [apply e_of_s; [exact Ho|exact E2]|].
        eapply iter_e_S; [exact E3|exact Hi]. }
      split; [exact Hpc'|].
      split. { eapply static_trans; [|exact Hst']. eapply static_trans; [|exact Est3]. repeat split; reflexivity. }
      split; [exact Ht0|].
      split. { intros q Hq. rewrite (Hto q Hq), Et3. unfold s2, s1; proj. rewrite get_dec.
               destruct (N.eqb_spec q p); [contradiction|reflexivity]. }
      split. { rewrite Hap, Ea3. unfold s2, s1; proj. rewrite get_inc, N.eqb_refl, Nat2N.inj_succ. lia. }
      split. { intros q Hq. rewrite (Hao q Hq), Ea3. unfold s2, s1; proj. rewrite get_inc.
               destruct (N.eqb_spec q p); [contradiction|reflexivity]. }
      split. { intros c Hc. rewrite (Hio c Hc), Ei3. unfold s2, s1; proj. unfold updn.
               destruct (Nat.eqb_spec c ch); [contradiction|reflexivity]. }
      split. { rewrite Ei3 in Hil. unfold s2, s1 in Hil. revert Hil. proj. unfold updn. rewrite Nat.eqb_refl. cbn [length]. lia. }
      split; [exact Ho'|]. rewrite Hd', Ed3. reflexivity.
Qed.

Lemma get_two_le_sum d p q : NoDup (keys d) -> q <> p -> get d q + get d p <= sum d.
Proof.
  intros ND Hne. pose proof (sum_set d p 0 ND) as Hs.
  pose proof (get_le_sum (set d p 0) q (nodup_keys_set _ _ _ ND)) as Hle.
  rewrite get_set_other in Hle by congruence. lia.
Qed.
Lemma filter_none (f : N -> bool) l : (forall q, In q l -> f q = false) -> filter f l = [].
Proof.
  induction l as [|a r IH]; intros Hf; cbn [filter]; [reflexivity|].
  rewrite (Hf a (or_introl eq_refl)). apply IH. intros q Hq. apply Hf. right; exact Hq.
Qed.
Lemma filter_single (f : N -> bool) l p : NoDup l -> In p l -> f p = true -> (forall q, In q l -> q <> p -> f q = false) ->
  filter f l = [p].
Proof.
  induction l as [|a r IH]; intros ND Hp Hfp Hf; [destruct Hp|].
  inversion ND as [|? ? Hn NDr]; subst. cbn [filter]. destruct (N.eq_dec a p) as [->|Hne].
  - rewrite Hfp. f_equal. apply filter_none. intros q Hq. apply Hf; [right; exact Hq|]. intros ->. contradiction.
  - rewrite (Hf a (or_introl eq_refl) Hne). apply IH; auto.
    + destruct Hp as [E|Hp]; [contradiction|exact Hp].
    + intros q Hq. apply Hf. right; exact Hq.
Qed.
Lemma sum_list_except (g f : N -> N) l p : NoDup l -> In p l -> f p = 0 -> (forall q, In q l -> q <> p -> f q = g q) ->
  sum_list (map f l) + g p = sum_list (map g l).
Proof.
  induction l as [|a r IH]; intros ND Hp Hfp Hf; [destruct Hp|].
  inversion ND as [|? ? Hn NDr]; subst. cbn [map sum_list]. destruct (N.eq_dec a p) as [->|Hne].
  - rewrite Hfp. rewrite (map_ext_in f g); [lia|]. intros q Hq. apply Hf; [right; exact Hq|]. intros ->. contradiction.
  - rewrite (Hf a (or_introl eq_refl) Hne).
    assert (IH' : sum_list (map f r) + g p = sum_list (map g r)).
    { apply IH; auto. destruct Hp as [E|Hp]; [contradiction|exact Hp]. intros q Hq. apply Hf. right; exact Hq. }
    lia.
Qed.
Lemma le_sum_list (f : N -> N) l p : In p l -> f p <= sum_list (map f l).
Proof.
  induction l as [|a r IH]; intros Hp; [destruct Hp|]. cbn [map sum_list]. destruct Hp as [->|Hp]; [lia|]. specialize (IH Hp). lia.
Qed.

Definition same_chan (s s' : st) : Prop :=
  outq s' = outq s /\ held s' = held s /\ fbq s' = fbq s /\ actual s' = actual s /\ closed s' = closed s /\ inq s' = inq s /\
  drained s' = drained s.
Lemma step_recalc_chan s proc : same_chan s (step_recalc dv s proc).
Proof. unfold step_recalc. destruct_goal; repeat split; reflexivity. Qed.

Section Alone.
(* the divider gives the whole dividend to a single priority (true of Fair and Rate) *)
Hypothesis dv_single : forall k p n d, NoDup (keys d) -> get (dv k [p] n d) p = get d p + n /\ sum (dv k [p] n d) = sum d + n.

Lemma single_divide k p n t : NoDup (keys t) -> n < two64 ->
  exists r, safe_divide (dv k) [p] n (reset t) = inl r /\ NoDup (keys r) /\ get r p = n /\ (forall q, q <> p -> get r q = 0).
Proof.
  intros ND Hn. exists (dv k [p] n (reset t)).
  destruct (dv_single k p n (reset t) (nodup_keys_reset _ ND)) as [Hg Hs]. rewrite get_reset in Hg. rewrite sum_reset in Hs.
  assert (W : NoDup (keys (dv k [p] n (reset t)))) by (apply dv_wf; apply nodup_keys_reset; exact ND).
  split.
  - unfold safe_divide, safe_sum. rewrite sum_reset. change (0 <? two64) with true. cbv iota. rewrite Hs, N.add_0_l.
    apply N.ltb_lt in Hn. rewrite Hn. destruct (n =? 0); auto. apply N.ltb_lt in Hn. rewrite wrap_sub by auto.
    rewrite N.eqb_refl. reflexivity.
  - split; [exact W|]. split; [lia|]. intros q Hq. pose proof (get_two_le_sum _ p q W Hq). lia.
Qed.

Lemma recalc_alone s proc p : Inv s -> H s < two64 -> pcs s = Recalc proc -> In p (prios s) ->
  get (tactic s) p = 0 -> (forall q, In q (prios s) -> q <> p -> get (tactic s) q <> 0) ->
  (forall q, q <> p -> get (actual s) q = 0) -> get (actual s) p < H s -> 1 <= sum (tactic s) ->
  exists s', sstep s = Some s' /\ pcs s' = Prio P2 (prios s) proc /\ static s s' /\ same_chan s s' /\
    get (tactic s') p = sum (tactic s) /\ (forall q, q <> p -> get (tactic s') q = 0).
Proof.
  intros Hinv HH Hpc Hp Htp Htq Haq Hap Hrem.
  assert (Hus : useful s = [p]).
  { unfold useful. apply filter_single; [apply (i_ndp s Hinv)|exact Hp|rewrite Htp; reflexivity|].
    intros q Hq Hne. apply N.eqb_neq. apply Htq; auto. }
  destruct (single_divide (ncalls s) p (H s) (tactic s) (i_ndt s Hinv) HH) as (t1 & E1 & W1 & Hg1 & Hz1).
  assert (Hus' : useful_like s t1 = [p]).
  { unfold useful_like. apply filter_single; [apply (i_ndp s Hinv)|exact Hp|rewrite Hg1; apply N.ltb_lt; exact Hap|].
    intros q Hq Hne. rewrite (Haq q Hne), (Hz1 q Hne). reflexivity. }
  assert (Hr : sum (tactic s) < two64).
  { pose proof (i_round s Hinv) as Hr. rewrite Hpc in Hr. specialize (Hr eq_refl). lia. }
  destruct (single_divide (S (ncalls s)) p (sum (tactic s)) t1 W1 Hr) as (t2 & E2 & W2 & Hg2 & Hz2).
  eexists. split.
  - unfold sstep. rewrite Hpc. unfold step_recalc. cbv zeta. rewrite Hus, E1, Hus', E2.
    unfold filled. cbn [forallb]. rewrite Hg2. destruct (N.eqb_spec (sum (tactic s)) 0) as [E|_]; [lia|]. cbn [negb andb]. reflexivity.
  - proj. split; [reflexivity|]. split; [repeat split; reflexivity|]. split; [repeat split; reflexivity|]. split; [exact Hg2|exact Hz2].
Qed.

Lemma alone_from_calc s0 s p ch : InitL1 s0 -> sreachable s0 s -> pcs s = Calc -> sum (actual s) = 0 ->
  H s < two64 -> In p (prios s) -> chan_of s p = Some ch ->
  (forall q c, In q (prios s) -> q <> p -> chan_of s q = Some c -> inq s c = []) -> H s <= N.of_nat (length (inq s ch)) ->
  exists n s', iter_e n s = Some s' /\ get (actual s') p = H s'.
Proof.
  intros HI Hr Hpc Hz HH Hp Hch Hothers Hdata.
  pose proof (il_init s0 HI) as HI0.
  pose proof (sreachable_Inv _ _ HI Hr) as Hinv.
  pose proof (reachable_inv2 fixed dv _ _ HI0 (sreachable_reachable _ _ Hr)) as Hinv2.
  pose proof (sreachable_Shares _ _ HI Hr) as Hsh.
  pose proof (sh_H s Hsh) as HH1.
  assert (Hz' : forall q, get (actual s) q = 0) by (intros q; apply sum_zero_get; [apply (i_nda s Hinv)|exact Hz]).
  assert (Ho : outq s = []).
  { apply length_zero_nil. pose proof (i_sum s Hinv) as Hs. unfold inflight in Hs. lia. }
  assert (Hne : inq s ch <> []) by (intros E; rewrite E in Hdata; cbn [length N.of_nat] in Hdata; lia).
  assert (Hdr : drained s p = false).
  { destruct (drained s p) eqn:E; [|reflexivity]. destruct (j_drained s Hinv2 p E) as (c & Ec & _ & Hi). congruence. }
  assert (Hchne : forall q c, In q (prios s) -> q <> p -> chan_of s q = Some c -> c <> ch).
  { intros q c Hq Hqp Hc ->. apply Hne. eapply Hothers; eauto. }
  assert (Hsp : get (strategic s) p <= H s).
  { rewrite <- (sh_sum s Hsh). apply (le_sum_list (get (strategic s))). exact Hp. }
  pose proof (sh_pos s Hsh p Hp) as Hsp1.
  destruct (step_calc_addup s Hinv Hsh) as (t & Et & Hg1 & Hg2 & _).
  { intros q _. rewrite Hz'. lia. } { intros q _. apply Hz'. } { lia. }
  assert (Ht : forall q, In q (prios s) -> get t q = get (strategic s) q) by (intros q Hq; rewrite (Hg1 q Hq), Hz'; lia).
  destruct (in_split p (prios s) Hp) as (pre & post & Hsplit).
  assert (Hnp : ~ In p (pre ++ post)).
  { pose proof (i_ndp s Hinv) as ND. rewrite Hsplit in ND. apply NoDup_remove_2 in ND. exact ND. }
  assert (Hpre : forall q, In q pre -> In q (prios s) /\ q <> p).
  { intros q Hq. split; [rewrite Hsplit; apply in_or_app; left; exact Hq|]. intros ->. apply Hnp. apply in_or_app; left; exact Hq. }
  assert (Hpost : forall q, In q post -> In q (prios s) /\ q <> p).
  { intros q Hq. split; [rewrite Hsplit; apply in_or_app; right; right; exact Hq|]. intros ->. apply Hnp. apply in_or_app; right; exact Hq. }
  (* --- the round starts *)
  set (s1 := with_tac s t (Prio P1 (prios s) 0)).
  assert (E1 : sstep s = Some s1) by (unfold sstep; rewrite Hpc, Et; reflexivity).
  assert (Hpc1 : pcs s1 = Prio P1 (pre ++ p :: post) 0) by (unfold s1; proj; rewrite Hsplit; reflexivity).
  (* --- phase one, priorities before p *)
  destruct (scan_skip P1 pre (p :: post) s1 0 Hpc1 Ho) as (n1 & s2 & Hi2 & Hpc2 & (Hst2 & Ea2 & Et2 & Ei2 & Eo2) & Hd2).
  { intros q Hq. left. destruct (Hpre q Hq) as [Hq1 Hq2]. intros c Hc. apply (Hothers q c Hq1 Hq2 Hc). }
  assert (Ech2 : chan_of s2 = chan_of s) by (destruct Hst2 as (_ & _ & _ & _ & _ & _ & E & _); exact E).
  assert (Hdr2 : drained s2 p = false).
  { destruct (drained s2 p) eqn:E; [|reflexivity]. destruct (Hd2 p E) as [Hx|(c & Hc & Hx)].
    - unfold s1 in Hx. revert Hx. proj. congruence.
    - unfold s1 in Hc, Hx. revert Hc Hx. proj. congruence. }
  set (s2' := with_pc s2 (Read P1 p post 0 false)).
  assert (E2 : sstep s2 = Some s2') by (unfold sstep; rewrite Hpc2, Hdr2; reflexivity).
  assert (Ho2 : outq s2 = []) by (rewrite Eo2; exact Ho).
  (* --- phase one, p spends its share *)
  set (k1 := N.to_nat (get (strategic s) p)).
  destruct (send_loop P1 p ch post k1 s2' 0 false) as
    (n3 & s3 & proc3 & intr3 & Hi3 & Hpc3 & Hst3 & Ht3p & Ht3o & Ha3p & Ha3o & Hi3o & Hl3 & Ho3 & Hdr3).
  { reflexivity. }
  { unfold s2'; proj. rewrite Ech2. exact Hch. }
  { unfold s2'; proj. rewrite Et2. unfold s1; proj. rewrite (Ht p Hp). unfold k1. rewrite N2Nat.id. reflexivity. }
  { unfold s2'; proj. rewrite Ei2. unfold s1; proj. unfold k1. lia. }
  { exact Ho2. }
  { unfold s2'; proj. destruct Hst2 as (_ & _ & _ & Ec & _). rewrite Ec. apply (sh_cap s Hsh). }
  assert (Hst13 : static s s3).
  { eapply static_trans; [|exact Hst3]. eapply static_trans; [|exact Hst2]. repeat split; reflexivity. }
  assert (Hit3 : iter_e (1 + (n1 + (1 + n3))) s = Some s3).
  { eapply iter_e_S; [apply e_of_s; [exact Ho|exact E1]|]. eapply iter_e_app; [exact Hi2|].
    eapply iter_e_S; [apply e_of_s; [exact Ho2|exact E2]|exact Hi3]. }
  assert (Ha3 : get (actual s3) p = get (strategic s) p).
  { rewrite Ha3p. unfold s2'; proj. rewrite Ea2. unfold s1; proj. rewrite Hz'. unfold k1. rewrite N2Nat.id. lia. }
  destruct (N.eq_dec (get (strategic s) p) (H s)) as [Eall|Hless].
  { (* p is the only priority with a share: done *)
    exists (1 + (n1 + (1 + n3)))%nat, s3. split; [exact Hit3|]. destruct Hst13 as (EH & _). rewrite EH, Ha3. exact Eall. }
  (* --- phase one, priorities after p *)
  set (s3' := with_pc s3 (Prio P1 post proc3)).
  assert (E3 : sstep s3 = Some s3').
  { unfold sstep. rewrite Hpc3, Ht3p. reflexivity. }
  assert (Ech3 : chan_of s3 = chan_of s) by (destruct Hst13 as (_ & _ & _ & _ & _ & _ & E & _); exact E).
  assert (Hinq3 : forall c, c <> ch -> inq s3 c = inq s c).
  { intros c Hc. rewrite (Hi3o c Hc). unfold s2'; proj. rewrite Ei2. reflexivity. }
  assert (Hpc3' : pcs s3' = Prio P1 (post ++ []) proc3) by (rewrite app_nil_r; reflexivity).
  destruct (scan_skip P1 post [] s3' proc3 Hpc3' Ho3) as (n4 & s4 & Hi4 & Hpc4 & (Hst4 & Ea4 & Et4 & Ei4 & Eo4) & Hd4).
  { intros q Hq. left. destruct (Hpost q Hq) as [Hq1 Hq2]. unfold s3'; proj. rewrite Ech3. intros c Hc.
    rewrite (Hinq3 c (Hchne q c Hq1 Hq2 Hc)). apply (Hothers q c Hq1 Hq2 Hc). }
  set (s4' := with_pc s4 (Recalc proc3)).
  assert (E4 : sstep s4 = Some s4') by (unfold sstep; rewrite Hpc4; reflexivity).
  assert (Ho4 : outq s4 = []) by (rewrite Eo4; exact Ho3).
  assert (Hit4 : iter_e (1 + (n1 + (1 + n3)) + (1 + (n4 + 1))) s = Some s4').
  { eapply iter_e_app; [exact Hit3|]. eapply iter_e_S; [apply e_of_s; [exact Ho3|exact E3]|].
    eapply iter_e_app; [exact Hi4|]. eapply iter_e_S; [apply e_of_s; [exact Ho4|exact E4]|reflexivity]. }
  assert (Hst14 : static s s4').
  { eapply static_trans; [exact Hst13|]. eapply static_trans; [|eapply static_trans; [exact Hst4|]]; repeat split; reflexivity. }
  pose proof Hst14 as (EH4 & Epr4 & Estr4 & Ecap4 & _ & _ & Ech4 & _).
  pose proof (sreachable_Inv _ _ HI (iter_e_sreachable _ _ _ _ HI Hr Hit4)) as Hinv4.
  (* --- recalcTactic gives the unused allowance to p *)
  assert (Htac4 : forall q, get (tactic s4') q = if N.eqb q p then 0 else get t q).
  { intros q. unfold s4'; proj. rewrite Et4. unfold s3'; proj. destruct (N.eqb_spec q p) as [->|Hq]; [exact Ht3p|].
    rewrite (Ht3o q Hq). unfold s2'; proj. rewrite Et2. reflexivity. }
  assert (Hact4 : forall q, get (actual s4') q = if N.eqb q p then get (strategic s) p else 0).
  { intros q. unfold s4'; proj. rewrite Ea4. unfold s3'; proj. destruct (N.eqb_spec q p) as [->|Hq]; [exact Ha3|].
    rewrite (Ha3o q Hq). unfold s2'; proj. rewrite Ea2. unfold s1; proj. apply Hz'. }
  assert (Hrem : sum (tactic s4') + get (strategic s) p = H s).
  { rewrite (sum_on (prios s4') (tactic s4') (i_ndp _ Hinv4) (i_ndt _ Hinv4)).
    - rewrite Epr4, <- (sh_sum s Hsh). apply sum_list_except; [apply (i_ndp s Hinv)|exact Hp| |].
      + rewrite Htac4, N.eqb_refl. reflexivity.
      + intros q Hq Hqp. rewrite Htac4. destruct (N.eqb_spec q p); [contradiction|]. apply Ht; exact Hq.
    - intros q Hq. rewrite Epr4 in Hq. rewrite Htac4. destruct (N.eqb_spec q p) as [->|_]; [reflexivity|]. apply Hg2; exact Hq. }
  destruct (recalc_alone s4' proc3 p Hinv4) as (s5 & E5 & Hpc5 & Hst5 & (Eo5 & _ & _ & Ea5 & _ & Ei5 & Edr5) & Ht5p & Ht5o).
  { rewrite EH4; exact HH. } { reflexivity. } { rewrite Epr4; exact Hp. }
  { rewrite Htac4, N.eqb_refl. reflexivity. }
  { intros q Hq Hqp. rewrite Epr4 in Hq. rewrite Htac4. destruct (N.eqb_spec q p); [contradiction|].
    rewrite (Ht q Hq). pose proof (sh_pos s Hsh q Hq). lia. }
  { intros q Hq. rewrite Hact4. destruct (N.eqb_spec q p); [contradiction|reflexivity]. }
  { rewrite Hact4, N.eqb_refl, EH4. lia. }
  { lia. }
  assert (Ho4' : outq s4' = []) by exact Ho4.
  assert (Ho5 : outq s5 = []) by (rewrite Eo5; exact Ho4').
  assert (Ech5 : chan_of s5 = chan_of s) by (destruct Hst5 as (_ & _ & _ & _ & _ & _ & E & _); rewrite E; exact Ech4).
  (* --- phase two, priorities before p have no allowance *)
  assert (Hpc5' : pcs s5 = Prio P2 (pre ++ p :: post) proc3) by (rewrite Hpc5, Epr4, Hsplit; reflexivity).
  destruct (scan_skip P2 pre (p :: post) s5 proc3 Hpc5' Ho5) as (n6 & s6 & Hi6 & Hpc6 & (Hst6 & Ea6 & Et6 & Ei6 & Eo6) & Hd6).
  { intros q Hq. right. destruct (Hpre q Hq) as [_ Hq2]. apply (Ht5o q Hq2). }
  assert (Hlen3 : (N.to_nat (H s) - k1 <= length (inq s3 ch))%nat).
  { revert Hl3. unfold s2'; proj. rewrite Ei2. unfold s1; proj. lia. }
  assert (Hinq5 : inq s5 = inq s3).
  { rewrite Ei5. unfold s4'; proj. rewrite Ei4. reflexivity. }
  assert (Hdr6 : drained s6 p = false).
  { destruct (drained s6 p) eqn:E; [|reflexivity]. exfalso.
    assert (Hk : (0 < N.to_nat (H s) - k1)%nat) by (unfold k1; lia).
    assert (Hne3 : inq s3 ch <> []) by (intros Ex; rewrite Ex in Hlen3; cbn [length] in Hlen3; lia).
    destruct (Hd6 p E) as [Hx|(c & Hc & Hx)].
    2:{ rewrite Ech5, Hch in Hc. inversion Hc; subst c. rewrite Hinq5 in Hx. contradiction. }
    rewrite Edr5 in Hx. unfold s4' in Hx. revert Hx. proj. intros Hx.
    destruct (Hd4 p Hx) as [Hy|(c & Hc & Hy)].
    2:{ unfold s3' in Hc, Hy; revert Hc Hy; proj; rewrite Ech3, Hch; intros Hc Hy. inversion Hc; subst c. contradiction. }
    unfold s3' in Hy. revert Hy. proj. rewrite Hdr3. unfold s2'; proj. congruence. }
  set (s6' := with_pc s6 (Read P2 p post proc3 false)).
  assert (E6 : sstep s6 = Some s6') by (unfold sstep; rewrite Hpc6, Hdr6; reflexivity).
  assert (Ho6 : outq s6 = []) by (rewrite Eo6; exact Ho5).
  (* --- phase two, p spends the rest *)
  set (k2 := N.to_nat (sum (tactic s4'))).
  destruct (send_loop P2 p ch post k2 s6' proc3 false) as
    (n7 & s7 & proc7 & intr7 & Hi7 & Hpc7 & Hst7 & _ & _ & Ha7p & _ & _ & _ & _ & _).
  { reflexivity. }
  { unfold s6'; proj. destruct Hst6 as (_ & _ & _ & _ & _ & _ & E & _). rewrite E, Ech5. exact Hch. }
  { unfold s6'; proj. rewrite Et6, Ht5p. unfold k2. rewrite N2Nat.id. reflexivity. }
  { unfold s6'; proj. rewrite Ei6, Hinq5. unfold k2. unfold k1 in Hlen3. lia. }
  { exact Ho6. }
  { unfold s6'; proj. destruct Hst6 as (_ & _ & _ & Ec6 & _). destruct Hst5 as (_ & _ & _ & Ec5 & _). rewrite Ec6, Ec5, Ecap4.
    apply (sh_cap s Hsh). }
  exists (1 + (n1 + (1 + n3)) + (1 + (n4 + 1)) + (1 + (n6 + (1 + n7))))%nat, s7. split.
  - eapply iter_e_app; [exact Hit4|]. eapply iter_e_S; [apply e_of_s; [exact Ho4'|exact E5]|].
    eapply iter_e_app; [exact Hi6|]. eapply iter_e_S; [apply e_of_s; [exact Ho6|exact E6]|exact Hi7].
  - assert (EH7 : H s7 = H s).
    { destruct Hst7 as (e7 & _). destruct Hst6 as (e6 & _). destruct Hst5 as (e5 & _). rewrite e7. unfold s6'; proj. rewrite e6, e5. exact EH4. }
    rewrite EH7, Ha7p. unfold s6'; proj. rewrite Ea6, Ea5, Hact4, N.eqb_refl. unfold k2. rewrite N2Nat.id. lia.
Qed.

Lemma alone_core s0 s p ch : InitL1 s0 -> sreachable s0 s -> (pcs s = Calc \/ pcs s = Top) -> sum (actual s) = 0 ->
  H s < two64 -> In p (prios s) -> chan_of s p = Some ch ->
  (forall q c, In q (prios s) -> q <> p -> chan_of s q = Some c -> inq s c = []) -> H s <= N.of_nat (length (inq s ch)) ->
  exists n s', iter_e n s = Some s' /\ get (actual s') p = H s'.
Proof.
  intros HI Hr [Hpc|Hpc] Hz HH Hp Hch Hothers Hdata; [eapply alone_from_calc; eauto|].
  pose proof (sreachable_Inv _ _ HI Hr) as Hinv.
  assert (Hfb : fbq s = []). { apply length_zero_nil. pose proof (i_sum s Hinv) as Hs. unfold inflight in Hs. lia. }
  assert (Ho : outq s = []). { apply length_zero_nil. pose proof (i_sum s Hinv) as Hs. unfold inflight in Hs. lia. }
  assert (E0 : sstep s = Some (with_pc s Calc)) by (unfold sstep; rewrite Hpc, Hfb; reflexivity).
  assert (Hr1 : sreachable s0 (with_pc s Calc)) by (eapply astep_sreachable; eauto; apply a_of_s; exact E0).
  destruct (alone_from_calc s0 (with_pc s Calc) p ch HI Hr1 eq_refl Hz HH Hp Hch Hothers Hdata) as (n & s' & Hi & Ha).
  exists (S n), s'. split; [eapply iter_e_S; [apply e_of_s; [exact Ho|exact E0]|exact Hi]|exact Ha].
Qed.

(* only priority p has data (at least H items), nothing is in flight, the consumer takes promptly and never releases:
   priority p ends up holding all H handlers *)
Theorem prio1_alone_gets_all : forall s0 s p ch, InitL1 s0 -> sreachable s0 s -> (pcs s = Calc \/ pcs s = Top) ->
  sum (actual s) = 0 -> H s < two64 -> In p (prios s) -> chan_of s p = Some ch ->
  (forall q c, In q (prios s) -> q <> p -> chan_of s q = Some c -> inq s c = []) -> H s <= N.of_nat (length (inq s ch)) ->
  exists n s', iter_eager n s = Some s' /\ get (actual s') p = H s'.
Proof.
  intros s0 s p ch HI Hr Hpc Hz HH Hp Hch Hothers Hdata.
  destruct (alone_core s0 s p ch HI Hr Hpc Hz HH Hp Hch Hothers Hdata) as (n & s' & Hi & Ha).
  exists n, s'. split; [apply iter_e_eager; [eapply sreachable_Quiet; eauto|exact Hi]|exact Ha].
Qed.

(* the same for EVERY resolution of the selects; the final state is reachable by a static execution *)
Theorem prio1_alone_gets_all_oracles : forall s0 s p ch, InitL1 s0 -> sreachable s0 s -> (pcs s = Calc \/ pcs s = Top) ->
  sum (actual s) = 0 -> H s < two64 -> In p (prios s) -> chan_of s p = Some ch ->
  (forall q c, In q (prios s) -> q <> p -> chan_of s q = Some c -> inq s c = []) -> H s <= N.of_nat (length (inq s ch)) ->
  exists n s', get (actual s') p = H s /\ sreachable s0 s' /\ forall os, length os = n -> iter_eager_o os s = Some s'.
Proof.
  intros s0 s p ch HI Hr Hpc Hz HH Hp Hch Hothers Hdata.
  destruct (alone_core s0 s p ch HI Hr Hpc Hz HH Hp Hch Hothers Hdata) as (n & s' & Hi & Ha).
  pose proof (iter_e_sreachable _ _ _ _ HI Hr Hi) as Hr'.
  exists n, s'. split; [|split; [exact Hr'|]].
  - rewrite Ha. destruct (sreachable_const _ _ (il_init s0 HI) Hr') as (E1 & _). destruct (sreachable_const _ _ (il_init s0 HI) Hr) as (E2 & _).
    congruence.
  - intros os Hl. apply iter_e_eager_o; [eapply sreachable_Quiet; eauto|]. rewrite Hl. exact Hi.
Qed.
End Alone.

End Progress.
Print Assumptions sreachable_reachable.
Print Assumptions sreachable_const.
Print Assumptions sched_step_sstep.
Print Assumptions prio1_no_wait_when_idle.
Print Assumptions prio1_share_bound.
Print Assumptions prio1_full_when_quiet.
Print Assumptions prio1_full_when_quiet_sum.
Print Assumptions prio1_round_delivers.
Print Assumptions prio1_round_delivers_oracles.
Print Assumptions prio1_round_delivers_noclock.
Print Assumptions prio1_alone_gets_all.
Print Assumptions prio1_alone_gets_all_oracles.

(* ---------- non-vacuity: concrete executions with the Fair divider ---------- *)
Definition sat_okb (s : st) : bool :=
  match pcs s with
  | Read _ p _ _ _ =>
      (get (tactic s) p =? 0) ||
      match chan_of s p with Some ch => match inq s ch with [] => false | _ => true end | None => false end
  | _ => true
  end.
Lemma sat_okb_ok s : sat_okb s = true -> sat_ok s.
Proof.
  unfold sat_okb, sat_ok. intros Hb ph p r proc intr Hpc Ht. rewrite Hpc in Hb.
  apply N.eqb_neq in Ht. rewrite Ht in Hb. cbn [orb] in Hb.
  destruct (chan_of s p) as [ch|]; [|discriminate]. exists ch. split; [reflexivity|]. destruct (inq s ch); [discriminate|discriminate].
Qed.

(* a checked run: strict = true checks the saturation condition at scheduler steps and ticks (sat_reachable), strict = false only
   at scheduler steps (sat_reachable_literal); Close, Stop, GracefulStop, AddInput, RemoveInput are refused *)
Fixpoint sat_run (fixed : bool) (dv : nat -> Divider) (strict : bool) (l : list act) (s : st) : option st :=
  match l with
  | [] => Some s
  | Sch o :: r => if sat_okb s then match sched_step fixed dv o s with Some s' => sat_run fixed dv strict r s' | None => None end else None
  | Env Tick :: r => if negb strict || sat_okb s then match env_step s Tick with Some s' => sat_run fixed dv strict r s' | None => None end else None
  | Env (Put ch x) :: r => match env_step s (Put ch x) with Some s' => sat_run fixed dv strict r s' | None => None end
  | Env Take :: r => match env_step s Take with Some s' => sat_run fixed dv strict r s' | None => None end
  | Env (Release p) :: r => match env_step s (Release p) with Some s' => sat_run fixed dv strict r s' | None => None end
  | Env _ :: _ => None
  end.

Lemma sat_run_sound fixed dv l : forall s0 s s',
  sat_reachable fixed dv s0 s -> sat_run fixed dv true l s = Some s' -> sat_reachable fixed dv s0 s'.
Proof.
  induction l as [|a r IH]; intros s0 s s' Hr Hrun; cbn [sat_run] in Hrun.
  - inversion Hrun; subst; auto.
  - destruct a as [o|op].
    + destruct (sat_okb s) eqn:Eb; [|discriminate]. destruct (sched_step fixed dv o s) as [s1|] eqn:E; [|discriminate].
      eapply IH; [|exact Hrun]. eapply sa_sched; eauto. apply sat_okb_ok; exact Eb.
    + destruct op as [ch x|ch| |p| | | |ch p bf|p]; try discriminate.
      * destruct (env_step s (Put ch x)) as [s1|] eqn:E; [|discriminate]. eapply IH; [|exact Hrun]. eapply sa_env; eauto. exact I.
      * destruct (env_step s Take) as [s1|] eqn:E; [|discriminate]. eapply IH; [|exact Hrun]. eapply sa_env; eauto. exact I.
      * destruct (env_step s (Release p)) as [s1|] eqn:E; [|discriminate]. eapply IH; [|exact Hrun]. eapply sa_env; eauto. exact I.
      * cbn [negb orb] in Hrun. destruct (sat_okb s) eqn:Eb; [|discriminate].
        destruct (env_step s Tick) as [s1|] eqn:E; [|discriminate]. eapply IH; [|exact Hrun]. eapply sa_env; eauto.
        apply sat_okb_ok; exact Eb.
Qed.

Lemma sat_run_literal_sound fixed dv l : forall s0 s s',
  sat_reachable_literal fixed dv s0 s -> sat_run fixed dv false l s = Some s' -> sat_reachable_literal fixed dv s0 s'.
Proof.
  induction l as [|a r IH]; intros s0 s s' Hr Hrun; cbn [sat_run] in Hrun.
  - inversion Hrun; subst; auto.
  - destruct a as [o|op].
    + destruct (sat_okb s) eqn:Eb; [|discriminate]. destruct (sched_step fixed dv o s) as [s1|] eqn:E; [|discriminate].
      eapply IH; [|exact Hrun]. eapply sal_sched; eauto. apply sat_okb_ok; exact Eb.
    + destruct op as [ch x|ch| |p| | | |ch p bf|p]; try discriminate.
      * destruct (env_step s (Put ch x)) as [s1|] eqn:E; [|discriminate]. eapply IH; [|exact Hrun]. eapply sal_env; eauto; [exact I|discriminate].
      * destruct (env_step s Take) as [s1|] eqn:E; [|discriminate]. eapply IH; [|exact Hrun]. eapply sal_env; eauto; [exact I|discriminate].
      * destruct (env_step s (Release p)) as [s1|] eqn:E; [|discriminate]. eapply IH; [|exact Hrun]. eapply sal_env; eauto; [exact I|discriminate].
      * cbn [negb orb] in Hrun.
        destruct (env_step s Tick) as [s1|] eqn:E; [|discriminate]. eapply IH; [|exact Hrun]. eapply sal_env; eauto; [exact I|discriminate].
Qed.

(* a static run: Stop, GracefulStop, AddInput, RemoveInput are refused *)
Fixpoint srun (fixed : bool) (dv : nat -> Divider) (l : list act) (s : st) : option st :=
  match l with
  | [] => Some s
  | Sch o :: r => match sched_step fixed dv o s with Some s' => srun fixed dv r s' | None => None end
  | Env (StopCall | GracefulCall | AddCall _ _ _ | RmvCall _) :: _ => None
  | Env op :: r => match env_step s op with Some s' => srun fixed dv r s' | None => None end
  end.
Lemma srun_sound fixed dv l : forall s0 s s', sreachable fixed dv s0 s -> srun fixed dv l s = Some s' -> sreachable fixed dv s0 s'.
Proof.
  induction l as [|a r IH]; intros s0 s s' Hr Hrun; cbn [srun] in Hrun.
  - inversion Hrun; subst; auto.
  - destruct a as [o|op].
    + destruct (sched_step fixed dv o s) as [s1|] eqn:E; [|discriminate]. eapply IH; [|exact Hrun]. eapply sr_sched; eauto.
    + destruct op as [ch x|ch| |p| | | |ch p bf|p]; try discriminate;
      match type of Hrun with context [env_step s ?op] => destruct (env_step s op) as [s1|] eqn:E; [|discriminate] end;
      (eapply IH; [|exact Hrun]); eapply sr_env; eauto; exact I.
Qed.

(* New() with three inputs 3, 2, 1 on channels 0, 1, 2, six handlers, output capacity 6, Fair divider: every share is 2 *)
Definition exl_s0 : st := init_state dv_example [(3, 0%nat); (2, 1%nat); (1, 2%nat)] 6 (fun _ => true) 6.
Example exl_initL1 : InitL1 exl_s0.
Proof.
  constructor.
  - apply (init_state_Init1 dv_example dv_example_wf). cbn [map fst].
    repeat constructor; cbn [In]; intros Hx; repeat (destruct Hx as [Hx|Hx]; try discriminate); auto.
  - vm_compute; discriminate.
  - vm_compute; reflexivity.
  - intros p Hp. vm_compute in Hp. destruct Hp as [<-|[<-|[<-|[]]]]; vm_compute; discriminate.
  - vm_compute; discriminate.
Qed.
Example exl_shares : strategic exl_s0 = [(3, 2); (2, 2); (1, 2)] /\ prios exl_s0 = [3; 2; 1] /\ pcs exl_s0 = Top.
Proof. vm_compute. repeat split; reflexivity. Qed.

Fixpoint rep {A} (n : nat) (a : A) : list A := match n with O => [] | S k => a :: rep k a end.

(* A and B: every input has three items; the scheduler (selects resolved by varying oracles) delivers two of each, all six handlers
   are busy, it waits for a release -- and releases are owed; every priority holds exactly its share *)
Definition exl_puts : list act :=
  [Env (Put 0 30); Env (Put 0 31); Env (Put 0 32); Env (Put 1 20); Env (Put 1 21); Env (Put 1 22);
   Env (Put 2 10); Env (Put 2 11); Env (Put 2 12)].
Definition exl_script : list act := exl_puts ++ rep 11 (Sch 0) ++ rep 11 (Sch 5) ++ rep 11 (Sch 7).
Definition exl_s1 : st := Eval vm_compute in match run false dv_example exl_script exl_s0 with Some s => s | None => exl_s0 end.
Example exl_run : run false dv_example exl_script exl_s0 = Some exl_s1.
Proof. vm_compute; reflexivity. Qed.
Example exl_sat_run : sat_run false dv_example true exl_script exl_s0 = Some exl_s1.
Proof. vm_compute; reflexivity. Qed.
Example exl_srun : srun false dv_example exl_script exl_s0 = Some exl_s1.
Proof. vm_compute; reflexivity. Qed.
Example exl_sat : sat_reachable false dv_example exl_s0 exl_s1.
Proof. exact (sat_run_sound false dv_example exl_script exl_s0 exl_s0 exl_s1 (sa_init _ _ _) exl_sat_run). Qed.
Example exl_wait : sreachable false dv_example exl_s0 exl_s1 /\ sat_reachable false dv_example exl_s0 exl_s1 /\ pcs exl_s1 = WaitFb /\
  fbq exl_s1 = [] /\ sum (actual exl_s1) = 6 /\ delivered exl_s1 = [(3, 30); (3, 31); (2, 20); (2, 21); (1, 10); (1, 11)].
Proof.
  split; [exact (srun_sound false dv_example exl_script exl_s0 exl_s0 exl_s1 (sr_init _ _ _) exl_srun)|].
  split; [exact exl_sat|].
  vm_compute. repeat split; reflexivity.
Qed.
Example exl_A : forall fixed s, sreachable fixed dv_example exl_s0 s -> pcs s = WaitFb -> 0 < sum (actual s).
Proof. intros fixed s. apply (prio1_no_wait_when_idle fixed dv_example dv_example_wf exl_s0 s exl_initL1). Qed.
Example exl_B1 : forall fixed s, sat_reachable fixed dv_example exl_s0 s -> forall p, get (actual s) p <= get (strategic s) p.
Proof. intros fixed s. apply (prio1_share_bound fixed dv_example dv_example_wf exl_s0 s exl_initL1). Qed.
Example exl_B2 : forall p, In p (prios exl_s1) -> get (actual exl_s1) p = get (strategic exl_s1) p.
Proof.
  exact (prio1_full_when_quiet false dv_example dv_example_wf exl_s0 exl_s1 exl_initL1 exl_sat eq_refl).
Qed.

(* B, counterexample to the literal saturation notion (ticks unconstrained): priority 2 (share 1 of 2) has an empty unbuffered
   input, the scheduler looks at it, two ticks pass, and phase two hands its unused allowance to priority 1, whose share is 1 *)
Definition cx_s0 : st := init_state dv_example [(2, 0%nat); (1, 1%nat)] 2 (fun _ => false) 2.
Lemma cx_initL1 : InitL1 cx_s0.
Proof.
  constructor.
  - apply (init_state_Init1 dv_example dv_example_wf). cbn [map fst].
    repeat constructor; cbn [In]; intros Hx; repeat (destruct Hx as [Hx|Hx]; try discriminate); auto.
  - vm_compute; discriminate.
  - vm_compute; reflexivity.
  - intros p Hp. vm_compute in Hp. destruct Hp as [<-|[<-|[]]]; vm_compute; discriminate.
  - vm_compute; discriminate.
Qed.
Definition cx_script : list act := [Env (Put 1 8); Env (Put 1 9)] ++ rep 3 (Sch 0) ++ [Env Tick; Env Tick] ++ rep 12 (Sch 0).
Definition cx_s1 : st := Eval vm_compute in match run false dv_example cx_script cx_s0 with Some s => s | None => cx_s0 end.
Example cx_run : sat_run false dv_example false cx_script cx_s0 = Some cx_s1.
Proof. vm_compute. reflexivity. Qed.
Example sat_literal_false : sat_reachable_literal false dv_example cx_s0 cx_s1 /\ get (actual cx_s1) 1 = 2 /\ get (strategic cx_s1) 1 = 1.
Proof.
  split; [exact (sat_run_literal_sound false dv_example cx_script cx_s0 cx_s0 cx_s1 (sal_init _ _ _) cx_run)|]. split; reflexivity.
Qed.

(* C: one Put to the lowest priority, then the scheduler (with the clock) delivers the item -- whatever the oracles *)
Definition exc_s : st := Eval vm_compute in match run false dv_example [Env (Put 2 8)] exl_s0 with Some s => s | None => exl_s0 end.
Lemma exc_reach fixed : sreachable fixed dv_example exl_s0 exc_s.
Proof. apply (srun_sound fixed dv_example [Env (Put 2 8)] exl_s0 exl_s0 exc_s (sr_init _ _ _)). vm_compute. reflexivity. Qed.
Lemma exc_data : exists p ch, In p (prios exc_s) /\ chan_of exc_s p = Some ch /\ drained exc_s p = false /\ inq exc_s ch <> [].
Proof. exists 1, 2%nat. split; [right; right; left; reflexivity|]. split; [reflexivity|]. split; [reflexivity|]. vm_compute. discriminate. Qed.
Example exl_C : forall fixed, exists n s', (n <= 11)%nat /\ length (delivered s') = 1%nat /\
  forall os, length os = n -> iter_auto_o fixed dv_example os exc_s = Some s'.
Proof.
  intros fixed.
  destruct (prio1_round_delivers_oracles fixed dv_example dv_example_wf exl_s0 exc_s exl_initL1 (exc_reach fixed)
              (or_intror eq_refl) eq_refl eq_refl exc_data) as (n & s' & Hn & Hd & Hi).
  exists n, s'. auto.
Qed.
Example exl_C_concrete : option_map delivered (iter_auto false dv_example 10 exc_s) = Some [(1, 8)] /\
  option_map delivered (iter_auto_o true dv_example [4; 1; 7; 0; 3; 9; 2; 2; 5; 1]%nat exc_s) = Some [(1, 8)].
Proof. split; vm_compute; reflexivity. Qed.

(* C, the scheduler alone without the clock blocks on an empty, open, unbuffered input although another one has data
   (prio1_round_delivers_noclock needs its extra hypothesis; with the clock -- prio1_round_delivers -- it does not) *)
Definition cxc_s : st := Eval vm_compute in match run false dv_example [Env (Put 1 8)] cx_s0 with Some s => s | None => cx_s0 end.
Lemma cxc_reach fixed : sreachable fixed dv_example cx_s0 cxc_s.
Proof. apply (srun_sound fixed dv_example [Env (Put 1 8)] cx_s0 cx_s0 cxc_s (sr_init _ _ _)). vm_compute. reflexivity. Qed.
Lemma cxc_data : exists p ch, In p (prios cxc_s) /\ chan_of cxc_s p = Some ch /\ drained cxc_s p = false /\ inq cxc_s ch <> [].
Proof. exists 1, 1%nat. split; [right; left; reflexivity|]. split; [reflexivity|]. split; [reflexivity|]. vm_compute. discriminate. Qed.
Example round_delivers_needs_noblock : forall fixed os s', iter_sched_o fixed dv_example os cxc_s = Some s' -> delivered s' = [].
Proof.
  intros fixed os s' Hi. rewrite (iter_sched_o_s fixed dv_example os cxc_s) in Hi by (repeat split; reflexivity).
  destruct (length os) as [|[|[|[|n]]]]; vm_compute in Hi; try discriminate; inversion Hi; reflexivity.
Qed.
Example exl_C_auto : forall fixed, exists n s', (n <= 8)%nat /\ iter_auto fixed dv_example n cxc_s = Some s' /\ length (delivered s') = 1%nat.
Proof.
  intros fixed.
  destruct (prio1_round_delivers fixed dv_example dv_example_wf cx_s0 cxc_s cx_initL1 (cxc_reach fixed)
              (or_intror eq_refl) eq_refl eq_refl cxc_data) as (n & s' & Hi & Hd & Hn).
  exists n, s'. auto.
Qed.

(* C, the hypothesis il_strat_pos cannot be dropped (known finding D4, see Prio1D4.v): Rate divider, H = 1, priorities 3 2 1: the
   shares of 2 and 1 are zero; every other field of InitL1 holds; an item for priority 2 is not delivered within the bound of
   prio1_round_delivers (nor, by Prio1D4.v, within 2000 steps) *)
Definition z_dv : nat -> Divider := fun _ => rate part_q.
Definition z_s0 : st := init_state z_dv [(3, 0%nat); (2, 1%nat); (1, 2%nat)] 1 (fun _ => true) 1.
Definition z_s1 : st := Eval vm_compute in match env_step z_s0 (Put 1%nat 7) with Some s => s | None => z_s0 end.
Example round_delivers_needs_positive_shares :
  1 <= H z_s0 /\ sum_list (map (get (strategic z_s0)) (prios z_s0)) = H z_s0 /\ 1 <= outcap z_s0 /\ get (strategic z_s0) 2 = 0 /\
  env_step z_s0 (Put 1%nat 7) = Some z_s1 /\ pcs z_s1 = Top /\ sum (actual z_s1) = 0 /\ fbq z_s1 = [] /\
  (In 2 (prios z_s1) /\ chan_of z_s1 2 = Some 1%nat /\ drained z_s1 2 = false /\ inq z_s1 1%nat = [7]) /\
  forall n, (n <= 3 * length (prios z_s1) + 2)%nat ->
    match iter_auto true z_dv n z_s1 with Some s' => delivered s' = [] | None => False end.
Proof.
  split; [vm_compute; discriminate|]. split; [vm_compute; reflexivity|]. split; [vm_compute; discriminate|].
  split; [vm_compute; reflexivity|]. split; [vm_compute; reflexivity|]. split; [reflexivity|]. split; [reflexivity|].
  split; [reflexivity|]. split; [split; [right; left; reflexivity|repeat split; reflexivity]|].
  intros n Hn. change (3 * length (prios z_s1) + 2)%nat with 11%nat in Hn.
  do 12 (destruct n as [|n]; [vm_compute; reflexivity|]). lia.
Qed.

(* C (second part): priority 3 (share 2 of H = 6) alone has six items: it ends up holding all six handlers *)
Lemma dv_example_single : forall k p n d, NoDup (keys d) ->
  get (dv_example k [p] n d) p = get d p + n /\ sum (dv_example k [p] n d) = sum d + n.
Proof.
  intros k p n d ND. split; [|apply fair_conserves; [discriminate|exact ND]].
  unfold dv_example, fair. cbn [length N.of_nat fair_loop]. change (N.pos (Pos.of_succ_nat 0)) with 1.
  rewrite N.div_1_r, N.mul_1_r, N.sub_diag. cbn [N.eqb fair_loop]. unfold add. apply get_set_same.
Qed.
Definition exa_puts : list act := [Env (Put 0 31); Env (Put 0 32); Env (Put 0 33); Env (Put 0 34); Env (Put 0 35); Env (Put 0 36)].
Definition exa_s : st := Eval vm_compute in match run false dv_example exa_puts exl_s0 with Some s => s | None => exl_s0 end.
Lemma exa_reach fixed : sreachable fixed dv_example exl_s0 exa_s.
Proof. apply (srun_sound fixed dv_example exa_puts exl_s0 exl_s0 exa_s (sr_init _ _ _)). vm_compute. reflexivity. Qed.
Example exl_alone : forall fixed, exists n s', get (actual s') 3 = 6 /\ sreachable fixed dv_example exl_s0 s' /\
  forall os, length os = n -> iter_eager_o fixed dv_example os exa_s = Some s'.
Proof.
  intros fixed.
  assert (Hlt : H exa_s < two64) by (vm_compute; reflexivity).
  assert (Hp : In 3 (prios exa_s)) by (left; reflexivity).
  assert (Hoth : forall q c, In q (prios exa_s) -> q <> 3 -> chan_of exa_s q = Some c -> inq exa_s c = []).
  { intros q c Hq Hne Hc. vm_compute in Hq. destruct Hq as [<-|[<-|[<-|[]]]]; [contradiction| |]; vm_compute in Hc; inversion Hc; reflexivity. }
  assert (Hdata : H exa_s <= N.of_nat (length (inq exa_s 0%nat))) by (vm_compute; discriminate).
  exact (prio1_alone_gets_all_oracles fixed dv_example dv_example_wf dv_example_single exl_s0 exa_s 3 0%nat exl_initL1 (exa_reach fixed)
           (or_intror eq_refl) eq_refl Hlt Hp eq_refl Hoth Hdata).
Qed.
Example exl_alone_concrete : option_map (fun s => (pcs s, get (actual s) 3)) (iter_eager false dv_example 39 exa_s) = Some (WaitFb, 6).
Proof. vm_compute. reflexivity. Qed.
Print Assumptions exl_initL1.
Print Assumptions exl_wait.
Print Assumptions exl_B2.
Print Assumptions sat_literal_false.
Print Assumptions exl_C.
Print Assumptions round_delivers_needs_noblock.
Print Assumptions round_delivers_needs_positive_shares.
Print Assumptions exl_alone.
