(* Deterministic driver for the correspondence check of the v2 priority model: a script of driver operations
   (put / close / take / release / arm a divider fault), each optionally followed by a "settle" (the driver sleeps
   long enough in fake time for the scheduler to reach a state that further time does not change).
   The scheduler is Prio2.sched_step, the environment steps are Prio2.env_step -- the objects of the theorems. *)
From Coq Require Import List NArith ZArith Bool.
From Cqos Require Import Base Divider Sched Prio2.
Import ListNotations.
Open Scope N_scope.

(* the faulty divider used for fault injection: the base result, then the first listed priority gets delta more
   (delta > 0) or up to |delta| less (delta < 0); mirrored by the Go harness's divider wrapper *)
Definition faulty (base : Divider) (delta : Z) : Divider :=
  fun ps d t =>
    let r := base ps d t in
    match ps with
    | [] => r
    | p0 :: _ => if (0 <=? delta)%Z then add r p0 (Z.to_N delta) else set r p0 (get r p0 - Z.to_N (- delta))
    end.

(* the same, but the surplus/shortage lands on the highest configured priority that is NOT in the list the divider
   was called with (if there is one): a fault that a check of the listed entries alone would miss *)
Definition faulty_outside (base : Divider) (delta : Z) (all : list N) : Divider :=
  fun ps d t =>
    match filter (fun q => negb (existsb (N.eqb q) ps)) all with
    | [] => faulty base delta ps d t
    | q :: _ => let r := base ps d t in
                if (0 <=? delta)%Z then add r q (Z.to_N delta) else set r q (get r q - Z.to_N (- delta))
    end.

Record psim := mkPsim {
  ps_st : st;
  ps_held : list N;            (* priorities of the items the driver holds, in the order they were taken *)
  ps_next : N;                 (* next item value *)
  ps_fault : option (nat * Z * bool)  (* (call number, delta, outside?) *)
}.

Definition sim_dv (base : Divider) (all : list N) (f : option (nat * Z * bool)) : nat -> Divider :=
  fun k => match f with
           | Some (n, delta, outside) =>
               if Nat.eqb k n then (if outside then faulty_outside base delta all else faulty base delta) else base
           | None => base
           end.

Definition digest (s : st) : list N :=
  flat_map (fun p => [N.of_nat (length (inq s p)); if drained s p then 1 else 0; get (actual s) p]) (prios s)
  ++ [N.of_nat (length (outq s)); N.of_nat (length (fbq s))].

Fixpoint list_eqb (a b : list N) : bool :=
  match a, b with
  | [], [] => true
  | x :: a', y :: b' => N.eqb x y && list_eqb a' b'
  | _, _ => false
  end.

(* run the scheduler until it blocks; when settling, time passes: the idle sleep and the interrupter waits end, and
   the run stops at an idle point whose digest equals that of the two previous idle points (one unproductive round may
   still differ from the steady state in its divider calls, e.g. the round hit by an injected fault) *)
Fixpoint sched_run (dv : nat -> Divider) (fuel : nat) (settle : bool) (last : option (list N * bool)) (s : st) : st :=
  match fuel with
  | O => s
  | S f =>
      match sched_step dv s with
      | Some s' => sched_run dv f settle last s'
      | None =>
          if negb settle then s else
          match pcs s with
          | Idle =>
              let dg := digest s in
              let go := fun (seen : bool) =>
                match env_step s Tick with Some s' => sched_run dv f settle (Some (dg, seen)) s' | None => s end in
              match last with
              | Some (l, seen) => if list_eqb l dg then (if seen then s else go true) else go false
              | None => go false
              end
          | Read _ _ _ _ _ =>
              match env_step s Tick with Some s' => sched_run dv f settle last s' | None => s end
          | _ => s
          end
      end
  end.

Definition nth_mod (k : N) (l : list N) : option (N * list N) :=
  match l with
  | [] => None
  | _ => let i := N.to_nat (k mod N.of_nat (length l)) in
         Some (nth i l 0, firstn i l ++ skipn (S i) l)
  end.

(* one driver operation; result: (taken priority, taken item) with (0,0) = nothing there, (2^32,0) = output closed *)
Definition closed_mark : N := 4294967296.
Definition apply_op (base : Divider) (fuel : nat) (sm : psim) (code arg : Z) (settle : bool) : psim * (N * N) :=
  let s := ps_st sm in
  let '(s1, sm1, res) :=
    if (code =? 1)%Z then
      match env_step s (Put (Z.to_N arg) (ps_next sm)) with
      | Some s' => (s', mkPsim s' (ps_held sm) (ps_next sm + 1) (ps_fault sm), (0, 0))
      | None => (s, sm, (0, 0))
      end
    else if (code =? 2)%Z then
      match env_step s (Close (Z.to_N arg)) with Some s' => (s', sm, (0, 0)) | None => (s, sm, (0, 0)) end
    else if (code =? 3)%Z then
      match outq s with
      | (p, x) :: _ =>
          match env_step s Take with
          | Some s' => (s', mkPsim s' (ps_held sm ++ [p]) (ps_next sm) (ps_fault sm), (p, x))
          | None => (s, sm, (0, 0))
          end
      | [] => (s, sm, match pcs s with Done _ => (closed_mark, 0) | _ => (0, 0) end)
      end
    else if (code =? 4)%Z then
      match nth_mod (Z.to_N arg) (ps_held sm) with
      | Some (p, rest) =>
          match env_step s (Release p) with
          | Some s' => (s', mkPsim s' rest (ps_next sm) (ps_fault sm), (0, 0))
          | None => (s, sm, (0, 0))
          end
      | None => (s, sm, (0, 0))
      end
    else if (code =? 5)%Z then
      (s, mkPsim s (ps_held sm) (ps_next sm) (Some (ncalls s, arg, false)), (0, 0))
    else if (code =? 7)%Z then
      (s, mkPsim s (ps_held sm) (ps_next sm) (Some (ncalls s, arg, true)), (0, 0))
    else (s, sm, (0, 0)) in
  let s2 := sched_run (sim_dv base (prios s1) (ps_fault sm1)) fuel settle None s1 in
  (mkPsim s2 (ps_held sm1) (ps_next sm1) (ps_fault sm1), res).
