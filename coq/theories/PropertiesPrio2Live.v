(* Property theorems: liveness of the v2 priority discipline over infinite executions under fairness (C06): if handlers eventually release every item they receive, every item written to any input is eventually delivered. *)
From Coq Require Import List NArith Bool. From Cqos Require Import Base Divider Sched Prio2 Prio2P Prio2L Prio2Live. Import ListNotations. Open Scope N_scope.
Theorem C06_v2_every_item_delivered :
  forall (dv : nat -> Divider) (s0 : st) (tr : nat -> st) (lb : nat -> label),
         dv_ok dv ->
         InitL s0 ->
         H s0 < two64 ->
         (1 <= fblimit s0)%nat ->
         execution dv s0 tr lb ->
         F_sched dv tr lb ->
         F_take tr lb ->
         F_rel tr lb ->
         F_tick lb ->
         forall (i : nat) (p x : N),
         In p (prios s0) -> In x (inq (tr i) p) -> exists j : nat, (i <= j)%nat /\ In (p, x) (delivered (tr j)).
Proof. exact @prio2_every_item_delivered. Qed.
Print Assumptions C06_v2_every_item_delivered.

Theorem C06_v2_every_item_delivered_new :
  forall (dv : nat -> Divider) (ps : list N) (h : N) (sorted : list N) (strat : dist) 
           (buf : N -> bool) (tr : nat -> st) (lb : nat -> label),
         ps <> [] ->
         dv_ok dv ->
         InitL (init_state ps h sorted strat buf) ->
         H (init_state ps h sorted strat buf) < two64 ->
         execution dv (init_state ps h sorted strat buf) tr lb ->
         F_sched dv tr lb ->
         F_take tr lb ->
         F_rel tr lb ->
         F_tick lb ->
         forall (i : nat) (p x : N),
         In p (prios (init_state ps h sorted strat buf)) ->
         In x (inq (tr i) p) -> exists j : nat, (i <= j)%nat /\ In (p, x) (delivered (tr j)).
Proof. exact @prio2_every_item_delivered_new. Qed.
Print Assumptions C06_v2_every_item_delivered_new.

Theorem C06_v2_every_item_delivered_weak_clock :
  forall (dv : nat -> Divider) (s0 : st) (tr : nat -> st) (lb : nat -> label),
         dv_ok dv ->
         InitL s0 ->
         H s0 < two64 ->
         (1 <= fblimit s0)%nat ->
         execution dv s0 tr lb ->
         F_sched dv tr lb ->
         F_take tr lb ->
         F_rel tr lb ->
         F_tick_w tr lb ->
         forall (i : nat) (p x : N),
         In p (prios s0) -> In x (inq (tr i) p) -> exists j : nat, (i <= j)%nat /\ In (p, x) (delivered (tr j)).
Proof. exact @prio2_every_item_delivered_w. Qed.
Print Assumptions C06_v2_every_item_delivered_weak_clock.

Theorem C06_v2_head_delivered :
  forall (dv : nat -> Divider) (s0 : st) (tr : nat -> st) (lb : nat -> label),
         dv_ok dv ->
         InitL s0 ->
         H s0 < two64 ->
         (1 <= fblimit s0)%nat ->
         execution dv s0 tr lb ->
         F_sched dv tr lb ->
         F_take tr lb ->
         F_rel tr lb ->
         F_tick lb ->
         forall (i : nat) (p x : N) (q : list N),
         In p (prios s0) ->
         inq (tr i) p = x :: q -> exists j : nat, (i <= j)%nat /\ In (p, x) (delivered (tr j)).
Proof. exact @prio2_head_delivered. Qed.
Print Assumptions C06_v2_head_delivered.

Theorem C06_v2_some_item_delivered :
  forall (dv : nat -> Divider) (s0 : st) (tr : nat -> st) (lb : nat -> label),
         dv_ok dv ->
         InitL s0 ->
         H s0 < two64 ->
         (1 <= fblimit s0)%nat ->
         execution dv s0 tr lb ->
         F_sched dv tr lb ->
         F_take tr lb ->
         F_rel tr lb ->
         F_tick lb ->
         forall i : nat,
         (exists p : N, In p (prios s0) /\ inq (tr i) p <> []) ->
         exists j : nat, (i <= j)%nat /\ (length (delivered (tr i)) < length (delivered (tr j)))%nat.
Proof. exact @prio2_some_item_delivered. Qed.
Print Assumptions C06_v2_some_item_delivered.

Theorem C06_v2_calc_infinitely_often :
  forall (dv : nat -> Divider) (s0 : st) (tr : nat -> st) (lb : nat -> label),
         dv_ok dv ->
         InitL s0 ->
         H s0 < two64 ->
         execution dv s0 tr lb ->
         F_sched dv tr lb ->
         F_take tr lb ->
         F_rel tr lb ->
         F_tick lb ->
         forall i : nat, exists j : nat, (i <= j)%nat /\ (pcs (tr j) = Calc \/ pcs (tr j) = Done None).
Proof. exact @prio2_calc_infinitely_often. Qed.
Print Assumptions C06_v2_calc_infinitely_often.

Theorem C06_v2_liveness_needs_fblimit :
  exists (dv : nat -> Divider) (s0 : st) (tr : nat -> st) (lb : nat -> label),
           dv_ok dv /\
           InitL s0 /\
           H s0 < two64 /\
           fblimit s0 = 0%nat /\
           execution dv s0 tr lb /\
           F_sched dv tr lb /\
           F_take tr lb /\
           F_rel tr lb /\
           F_tick lb /\
           (exists (i : nat) (p x : N),
              In p (prios s0) /\ In x (inq (tr i) p) /\ (forall j : nat, ~ In (p, x) (delivered (tr j)))).
Proof. exact @prio2_liveness_needs_fblimit. Qed.
Print Assumptions C06_v2_liveness_needs_fblimit.

Theorem C06_v2_liveness_nonvacuous :
  forall (i : nat) (p x : N),
         In p (prios ex_s0) ->
         In x (inq (pos_tr i) p) -> exists j : nat, (i <= j)%nat /\ In (p, x) (delivered (pos_tr j)).
Proof. exact @pos_every_item. Qed.
Print Assumptions C06_v2_liveness_nonvacuous.

Theorem C06_v2_sched_enabled_stable :
  forall (dv : nat -> Divider) (s : st) (o : env_op) (s' : st),
         (exists s1 : st, sched_step dv s = Some s1) ->
         env_step s o = Some s' -> exists s2 : st, sched_step dv s' = Some s2.
Proof. exact @sched_enabled_stable. Qed.
Print Assumptions C06_v2_sched_enabled_stable.

