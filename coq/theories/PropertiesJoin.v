(* Property theorems for the join / unite disciplines, untimed part (C03 C09 C11): statement / exact <lemma> / Print Assumptions. *)
From Coq Require Import List ZArith Bool. From Cqos Require Import Join JoinP. Import ListNotations. Open Scope Z_scope.
Theorem C03_join_concat_prefix :
  forall (c : jcfg) (t0 : Z) (evs : list jev) (s : jst) (o : list emission),
         wf_cfg c ->
         no_stop evs ->
         jrun c (jinit t0) t0 evs = Some (s, o) -> concat (out_slices o) ++ pending s = concat (in_items evs).
Proof. exact @join_concat_prefix. Qed.
Print Assumptions C03_join_concat_prefix.

Theorem C03_join_concat :
  forall (c : jcfg) (t0 : Z) (evs : list jev) (s : jst) (o : list emission),
         wf_cfg c ->
         no_stop evs ->
         jrun c (jinit t0) t0 evs = Some (s, o) ->
         pc s = Closed -> concat (out_slices o) = concat (in_items evs).
Proof. exact @join_concat. Qed.
Print Assumptions C03_join_concat.

Theorem C03_join_sizes :
  forall (c : jcfg) (t0 : Z) (evs : list jev) (s : jst) (o : list emission),
         wf_cfg c ->
         no_stop evs ->
         wf_inputs c evs ->
         jrun c (jinit t0) t0 evs = Some (s, o) ->
         forall b : list elem,
         List.In b (out_slices o) ->
         b <> [] /\
         (is_unite c = false -> (length b <= jsize c)%nat) /\
         (is_unite c = true ->
          (jsize c < length b)%nat -> List.In b (in_items evs) /\ (jsize c <= length b)%nat).
Proof. exact @join_sizes. Qed.
Print Assumptions C03_join_sizes.

Theorem C03_emission_sizes :
  forall (c : jcfg) (t0 : Z) (evs : list jev) (s : jst) (o : list emission),
         wf_cfg c ->
         no_stop evs ->
         wf_inputs c evs ->
         jrun c (jinit t0) t0 evs = Some (s, o) ->
         forall (t : Z) (b : list elem) (own : bool) (why : cause),
         List.In (t, b, own, why) o ->
         b <> [] /\
         (own = true -> (length b <= jsize c)%nat) /\
         (own = false ->
          is_unite c = true /\ why = Forwarded /\ (jsize c <= length b)%nat /\ List.In b (in_items evs)).
Proof. exact @emission_sizes. Qed.
Print Assumptions C03_emission_sizes.

Theorem C11_unite_grouping :
  forall (c : jcfg) (t0 : Z) (evs : list jev) (s : jst) (o : list emission),
         wf_cfg c ->
         is_unite c = true ->
         no_stop evs ->
         jrun c (jinit t0) t0 evs = Some (s, o) ->
         pc s = Closed ->
         exists groups : list (list (list elem)),
           concat groups = in_items evs /\
           out_slices o =
           map (concat (A:=elem))
             (filter (fun g : list (list elem) => negb match concat g with
                                                       | [] => true
                                                       | _ :: _ => false
                                                       end) groups).
Proof. exact @unite_grouping. Qed.
Print Assumptions C11_unite_grouping.

Theorem C11_unite_oversize_alone :
  forall (c : jcfg) (t0 : Z) (evs : list jev) (s : jst) (o : list emission),
         wf_cfg c ->
         is_unite c = true ->
         no_stop evs ->
         jrun c (jinit t0) t0 evs = Some (s, o) ->
         pc s = Closed ->
         forall xs : list elem,
         List.In xs (in_items evs) -> (jsize c <= length xs)%nat -> List.In xs (out_slices o).
Proof. exact @unite_oversize_alone. Qed.
Print Assumptions C11_unite_oversize_alone.

Theorem C11_grouping_all_variants :
  forall (c : jcfg) (t0 : Z) (evs : list jev) (s : jst) (o : list emission),
         wf_cfg c ->
         no_stop evs ->
         jrun c (jinit t0) t0 evs = Some (s, o) ->
         pc s = Closed ->
         exists (gs : list (list (list elem))) (rest : list (list elem)),
           out_slices o = map (concat (A:=elem)) gs /\
           concat gs ++ rest = in_items evs /\
           concat rest = [] /\ (forall g : list (list elem), List.In g gs -> concat g <> []).
Proof. exact @grouping_calibration_form. Qed.
Print Assumptions C11_grouping_all_variants.

Theorem C09_join_greedy_untimed :
  forall (c : jcfg) (t0 : Z) (evs : list jev) (s : jst) (o : list emission),
         wf_cfg c ->
         is_unite c = false ->
         interval c = 0 ->
         no_stop evs ->
         wf_inputs c evs ->
         jrun c (jinit t0) t0 evs = Some (s, o) ->
         pc s = Closed -> out_slices o = chunks_of (jsize c) (concat (in_items evs)).
Proof. exact @join_greedy_untimed. Qed.
Print Assumptions C09_join_greedy_untimed.

Theorem C09_unite_greedy_untimed :
  forall (c : jcfg) (t0 : Z) (evs : list jev) (s : jst) (o : list emission),
         wf_cfg c ->
         is_unite c = true ->
         interval c = 0 ->
         no_stop evs ->
         jrun c (jinit t0) t0 evs = Some (s, o) ->
         pc s = Closed -> out_slices o = greedy_unite (jsize c) [] (in_items evs).
Proof. exact @unite_greedy_untimed. Qed.
Print Assumptions C09_unite_greedy_untimed.

Theorem C09_cause_sound :
  forall (c : jcfg) (t0 : Z) (evs : list jev) (s : jst) (o : list emission),
         wf_cfg c ->
         no_stop evs ->
         wf_inputs c evs ->
         jrun c (jinit t0) t0 evs = Some (s, o) ->
         forall (t : Z) (b : list elem) (own : bool) (why : cause),
         List.In (t, b, own, why) o ->
         match why with
         | Full => (jsize c <= length b)%nat
         | Overflow => is_unite c = true
         | Timeout => 0 < interval c
         | Final => True
         | Forwarded => own = false /\ (jsize c <= length b)%nat /\ List.In b (in_items evs)
         end.
Proof. exact @cause_sound. Qed.
Print Assumptions C09_cause_sound.

Theorem C09_join_full_exact :
  forall (c : jcfg) (t0 : Z) (evs : list jev) (s : jst) (o : list emission),
         wf_cfg c ->
         is_unite c = false ->
         no_stop evs ->
         wf_inputs c evs ->
         jrun c (jinit t0) t0 evs = Some (s, o) ->
         forall (t : Z) (b : list elem) (own : bool) (why : cause),
         List.In (t, b, own, why) o ->
         own = true /\ (why = Full /\ length b = jsize c \/ why = Timeout /\ 0 < interval c \/ why = Final).
Proof. exact @join_full_exact. Qed.
Print Assumptions C09_join_full_exact.

Theorem C09_chunks_unique :
  forall (J : nat) (cs : list (list elem)), (1 <= J)%nat -> chunked J cs -> chunks_of J (concat cs) = cs.
Proof. exact @chunks_of_unique. Qed.
Print Assumptions C09_chunks_unique.

