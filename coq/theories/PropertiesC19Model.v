(* Property theorems for C19 on the models: the final states are final, nothing is held at termination. *)
From Coq Require Import List String Bool NArith.
From Cqos Require Import C19 Base Divider Join Limit Prio2 Prio2P.
Import ListNotations.

Theorem C19_join_closed_final : forall c s e, Join.pc s = Closed -> jstep c s e = None \/ exists t, e = StopCall t.
Proof. exact join_closed_final. Qed.
Print Assumptions C19_join_closed_final.
Theorem C19_limit_closed_final : forall c e, lstep c LClosed e = None.
Proof. exact limit_closed_final'. Qed.
Print Assumptions C19_limit_closed_final.
Theorem C19_prio2_done_final : forall dv s e, Prio2.pcs s = Prio2.Done e -> Prio2.sched_step dv s = None.
Proof. exact prio2_done_final. Qed.
Print Assumptions C19_prio2_done_final.
Theorem C19_simple2_handlers_exit : forall dv,
  (forall k ps n d, NoDup (keys d) -> NoDup (keys (dv k ps n d))) -> forall s0 s e,
  Init s0 -> Prio2.reachable dv s0 s -> Prio2.pcs s = Prio2.Done e -> Prio2.held s = [] /\ Prio2.outq s = [].
Proof. exact simple2_handlers_exit. Qed.
Print Assumptions C19_simple2_handlers_exit.
