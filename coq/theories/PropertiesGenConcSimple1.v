(* Property theorems (C16, C19): the handler goroutine of v1 Simple as translated from the CURRENT Go sources: it waits for an item or for the context main() derives and cancels on return, hands the item to Handle, and sends the feedback or gives up on that same context -- three blocking statements, nothing else. *)
From Coq Require Import List NArith ZArith Bool. From Cqos Require Import GoSem GoConc GenV1Simple GenConcV1Simple GenTieConcV1Simple. Import ListNotations.
Theorem C16_gen_conc_simple_v1_handler_wait :
  forall (v : cstate) (k : list (frame cstate payload chan_id fname)),
         step1 table (v, KSeq (wbody loopW) :: k) =
         Block (RqSelect [(CCtxArgDone, None); (COutput, None)] false).
Proof. exact @blocked_handler_wait. Qed.
Print Assumptions C16_gen_conc_simple_v1_handler_wait.

Theorem C16_gen_conc_simple_v1_handler_call :
  forall (v : cstate) (k : list (frame cstate payload chan_id fname)),
         step1 table (v, KSeq gotItem :: k) =
         Block (RqSend CHandleCall (PN (Prioritized_Item (handler_prioritized v)))).
Proof. exact @blocked_handler_call. Qed.
Print Assumptions C16_gen_conc_simple_v1_handler_call.

Theorem C16_gen_conc_simple_v1_handler_feedback :
  forall (v : cstate) (k : list (frame cstate payload chan_id fname)),
         step1 table (v, KSeq (skipn 1 gotItem) :: k) =
         Block
           (RqSelect
              [(CCtxArgDone, None); (CFeedback, Some (PN (Prioritized_Priority (handler_prioritized v))))]
              false).
Proof. exact @blocked_handler_feedback. Qed.
Print Assumptions C16_gen_conc_simple_v1_handler_feedback.

Theorem C16_gen_conc_simple_v1_handler_blocking :
  nblocks (table F_handler) = 3.
Proof. exact @blocking_statements. Qed.
Print Assumptions C16_gen_conc_simple_v1_handler_blocking.

