(* Property theorems (C16): in the goroutine body of v1 join as translated from the CURRENT Go sources (GenConcJoinV1.v) and run by GoConc.v, every select that can block -- the two loops, the write to the output, the wait for the release signal -- offers both stop alternatives (breaker and context); the remaining blocking statements are clock reads and the ticker creation (blocking_statements counts them all). *)
From Coq Require Import List NArith ZArith Bool. From Cqos Require Import GoSem GoConc GenJoinV1 GenConcJoinV1 GenTieConcJoinV1. Import ListNotations.
Theorem C16_gen_conc_join_v1_blocked_loop :
  forall (v : cstate) (k : list (frame cstate payload chan_id fname)),
         step1 table (v, KSeq (wbody loopW) :: k) =
         Block (RqSelect (stopAlts ++ [(CTick, None); (CInput, None)]) false).
Proof. exact @blocked_loop. Qed.
Print Assumptions C16_gen_conc_join_v1_blocked_loop.

Theorem C16_gen_conc_join_v1_blocked_loop_untimeouted :
  forall (v : cstate) (k : list (frame cstate payload chan_id fname)),
         step1 table (v, KSeq (wbody luW) :: k) = Block (RqSelect (stopAlts ++ [(CInput, None)]) false).
Proof. exact @blocked_loop_untimeouted. Qed.
Print Assumptions C16_gen_conc_join_v1_blocked_loop_untimeouted.

Theorem C16_gen_conc_join_v1_blocked_send :
  forall (v : cstate) (k : list (frame cstate payload chan_id fname)),
         step1 table (v, KSeq (skipn 1 body_send) :: k) =
         Block (RqSelect (stopAlts ++ [(COutput, Some (PList (send_item v)))]) false).
Proof. exact @blocked_send. Qed.
Print Assumptions C16_gen_conc_join_v1_blocked_send.

Theorem C16_gen_conc_join_v1_blocked_released :
  forall (v : cstate) (k : list (frame cstate payload chan_id fname)),
         step1 table (v, KSeq (if_then (at_ 2 body_send)) :: k) =
         Block (RqSelect (stopAlts ++ [(CReleased, None)]) false).
Proof. exact @blocked_released. Qed.
Print Assumptions C16_gen_conc_join_v1_blocked_released.

Theorem C16_gen_conc_join_v1_blocking_statements :
  map (fun f : fname => nblocks (table f)) all_fnames = [1; 2; 0; 0; 1; 1; 2; 0].
Proof. exact @blocking_statements. Qed.
Print Assumptions C16_gen_conc_join_v1_blocking_statements.

