(* Model of the v2 priority discipline (v2/priority/priority.go, assist.go): the scheduling goroutine as a
   program-counter machine plus the environment (producers, consumers/handlers, releasers, the clock).

   pc values are the blocking points and the loop structure of the Go code:
     Calc            top of waitCalcTactic: calcTactic()
     WaitFb          getOneFeedback(): `<-dsc.feedback` (blocks)
     Prio ph r n     prioritize(), phase ph, priorities still to visit r, n = processed so far in base()
     Read ph p r n i io()/iou() for priority p; i = iou's `interrupt` flag
     Send ph p x r n send(): `dsc.output <- {p, x}` (blocks while the output is full)
     Recalc n        recalcTactic()
     EndBase n       loop(): after base() returned n
     Idle            time.Sleep(1ns)            (needs the clock)
     LimFb k         getLimitedFeedback(), k iterations left
     Drain e         waitZeroActual() (deferred), then main()'s deferred closes
     Done e          output, feedback and err closed; e = the error delivered on Err()
   Everything between two channel operations is one step.  Channels are FIFO lists: an input's list holds the
   buffered items followed by the items of blocked senders (Go's sender queue is FIFO); likewise feedback. *)
From Coq Require Import List NArith Bool Lia.
From Cqos Require Import Base Divider Sched.
Import ListNotations.
Open Scope N_scope.

Inductive phase := P1 | P2.
Inductive pc :=
| Calc | WaitFb
| Prio (ph : phase) (rest : list N) (proc : N)
| Read (ph : phase) (p : N) (rest : list N) (proc : N) (intr : bool)
| Send (ph : phase) (p : N) (x : N) (rest : list N) (proc : N)
| Recalc (proc : N) | EndBase (proc : N) | Idle | LimFb (k : nat)
| Drain (e : option derr) | Done (e : option derr).

Record st := mkSt {
  H : N; prios : list N; strategic : dist; actual : dist; tactic : dist;
  inq : N -> list N; closed : N -> bool; drained : N -> bool; buffered : N -> bool;
  outq : list (N * N); outcap : N; held : list (N * N); fbq : list N; fblimit : nat;
  pcs : pc; ncalls : nat;
  delivered : list (N * N);            (* ghost: everything ever written to the output, in order *)
  calls : list (list N * N);           (* ghost: (priorities, dividend) of every divider call, newest first *)
  written : N -> list N                (* ghost: everything producers ever wrote to the input of a priority, in order *)
}.

Definition upd {A} (f : N -> A) (k : N) (v : A) : N -> A := fun x => if N.eqb x k then v else f x.
Definition dec (d : dist) (p : N) : dist := set d p (get d p - 1).
Definition inc (d : dist) (p : N) : dist := set d p (get d p + 1).
Definition filled (t : dist) (ps : list N) : bool := forallb (fun p => negb (get t p =? 0)) ps.

Definition with_pc (s : st) (c : pc) : st :=
  mkSt (H s) (prios s) (strategic s) (actual s) (tactic s) (inq s) (closed s) (drained s) (buffered s)
       (outq s) (outcap s) (held s) (fbq s) (fblimit s) c (ncalls s) (delivered s) (calls s) (written s).
Definition with_tac (s : st) (t : dist) (c : pc) : st :=
  mkSt (H s) (prios s) (strategic s) (actual s) t (inq s) (closed s) (drained s) (buffered s)
       (outq s) (outcap s) (held s) (fbq s) (fblimit s) c (ncalls s) (delivered s) (calls s) (written s).
Definition log_call (s : st) (ps : list N) (d : N) : st :=
  mkSt (H s) (prios s) (strategic s) (actual s) (tactic s) (inq s) (closed s) (drained s) (buffered s)
       (outq s) (outcap s) (held s) (fbq s) (fblimit s) (pcs s) (S (ncalls s)) (delivered s) ((ps, d) :: calls s) (written s).
Definition pop_fb (s : st) (p : N) (q : list N) (c : pc) : st :=
  mkSt (H s) (prios s) (strategic s) (dec (actual s) p) (tactic s) (inq s) (closed s) (drained s) (buffered s)
       (outq s) (outcap s) (held s) q (fblimit s) c (ncalls s) (delivered s) (calls s) (written s).
Definition pop_in (s : st) (p : N) (q : list N) (c : pc) : st :=
  mkSt (H s) (prios s) (strategic s) (actual s) (tactic s) (upd (inq s) p q) (closed s) (drained s) (buffered s)
       (outq s) (outcap s) (held s) (fbq s) (fblimit s) c (ncalls s) (delivered s) (calls s) (written s).
Definition mark_drained (s : st) (p : N) (c : pc) : st :=
  mkSt (H s) (prios s) (strategic s) (actual s) (tactic s) (inq s) (closed s) (upd (drained s) p true) (buffered s)
       (outq s) (outcap s) (held s) (fbq s) (fblimit s) c (ncalls s) (delivered s) (calls s) (written s).
Definition push_out (s : st) (p x : N) (c : pc) : st :=
  mkSt (H s) (prios s) (strategic s) (inc (actual s) p) (dec (tactic s) p) (inq s) (closed s) (drained s) (buffered s)
       (outq s ++ [(p, x)]) (outcap s) (held s) (fbq s) (fblimit s) c (ncalls s) (delivered s ++ [(p, x)]) (calls s) (written s).

(* calcTacticByAddUpToStrategic *)
Fixpoint add_up (ps : list N) (actual strategic tactic : dist) (picked : N) : option (dist * N) :=
  match ps with
  | [] => Some (tactic, picked)
  | p :: r =>
      if get strategic p <? get actual p then None
      else let t := get strategic p - get actual p in
           add_up r actual strategic (set tactic p t) (picked + t)
  end.

Definition uncrowded (s : st) : list N := filter (fun p => get (actual s) p <? get (strategic s) p) (prios s).
Definition useful (s : st) : list N := filter (fun p => get (tactic s) p =? 0) (prios s).
Definition useful_like (s : st) (t : dist) : list N := filter (fun p => get (actual s) p <? get t p) (prios s).

Section Step.
Variable dv : nat -> Divider.   (* the divider, indexed by the call number: stateful and faulty dividers included *)

(* calcTacticBase *)
Definition calc_base (s : st) (v : N) : st :=
  let unc := uncrowded s in
  let s1 := log_call s unc v in
  match safe_divide (dv (ncalls s)) unc v (reset (tactic s)) with
  | inr e => with_tac s1 (reset (tactic s)) (Drain (Some e))
  | inl t => with_tac s1 t (if filled t unc then Prio P1 (prios s) 0 else WaitFb)
  end.

Definition step_calc (s : st) : st :=
  let v := H s - sum (actual s) in
  if v =? 0 then with_pc s WaitFb else
  match add_up (prios s) (actual s) (strategic s) (reset (tactic s)) 0 with
  | Some (t, picked) => if picked =? v then with_tac s t (Prio P1 (prios s) 0) else calc_base s v
  | None => calc_base s v
  end.

(* recalcTactic *)
Definition step_recalc (s : st) (proc : N) : st :=
  let rem := sum (tactic s) in
  let us := useful s in
  let s1 := log_call s us (H s) in
  match safe_divide (dv (ncalls s)) us (H s) (reset (tactic s)) with
  | inr e => with_tac s1 (reset (tactic s)) (Drain (Some e))
  | inl t1 =>
      let us' := useful_like s t1 in
      let s2 := log_call s1 us' rem in
      match safe_divide (dv (S (ncalls s))) us' rem (reset t1) with
      | inr e => with_tac s2 (reset t1) (Drain (Some e))
      | inl t2 => with_tac s2 t2 (if filled t2 us' then Prio P2 (prios s) proc else EndBase proc)
      end
  end.

(* None = blocked *)
Definition sched_step (s : st) : option st :=
  match pcs s with
  | Calc => Some (step_calc s)
  | WaitFb => match fbq s with [] => None | p :: q => Some (pop_fb s p q Calc) end
  | Prio ph [] proc => Some (with_pc s (match ph with P1 => Recalc proc | P2 => EndBase proc end))
  | Prio ph (p :: r) proc => Some (with_pc s (if drained s p then Prio ph r proc else Read ph p r proc false))
  | Read ph p r proc intr =>
      if get (tactic s) p =? 0 then Some (with_pc s (Prio ph r proc)) else
      match inq s p with
      | x :: q => Some (pop_in s p q (Send ph p x r proc))
      | [] => if closed s p then Some (mark_drained s p (Prio ph r proc))
              else if buffered s p then Some (with_pc s (Prio ph r proc))   (* io: the select's default *)
              else None                                                     (* iou: waits for an item or the interrupter *)
      end
  | Send ph p x r proc =>
      if N.of_nat (length (outq s)) <? outcap s then Some (push_out s p x (Read ph p r (proc + 1) false)) else None
  | Recalc proc => Some (step_recalc s proc)
  | EndBase proc =>
      if proc =? 0 then (if forallb (drained s) (prios s) then Some (with_pc s (Drain None)) else Some (with_pc s Idle))
      else Some (with_pc s (LimFb (fblimit s)))
  | Idle => None                                                            (* time.Sleep: needs the clock *)
  | LimFb O => Some (with_pc s Calc)
  | LimFb (S k) => match fbq s with [] => Some (with_pc s Calc) | p :: q => Some (pop_fb s p q (LimFb k)) end
  | Drain e => if sum (actual s) =? 0 then Some (with_pc s (Done e))
               else match fbq s with [] => None | p :: q => Some (pop_fb s p q (Drain e)) end
  | Done _ => None
  end.

(* the environment: any interleaving of these *)
Inductive env_op :=
| Put (p x : N)      (* a producer writes x to the input of p (possibly blocking: it then waits in the FIFO) *)
| Close (p : N)      (* close(input p) *)
| Take               (* a handler receives from Output() *)
| Release (p : N)    (* a handler calls Release(p) for an item of p it holds *)
| Tick.              (* one nanosecond passes: the idle sleep ends / the interrupter ticks *)

Fixpoint remove1 (p : N) (l : list (N * N)) : option (list (N * N)) :=
  match l with
  | [] => None
  | (q, x) :: r => if N.eqb p q then Some r else option_map (cons (q, x)) (remove1 p r)
  end.

Definition env_step (s : st) (o : env_op) : option st :=
  match o with
  | Put p x => if closed s p then None else
      Some (mkSt (H s) (prios s) (strategic s) (actual s) (tactic s) (upd (inq s) p (inq s p ++ [x])) (closed s) (drained s) (buffered s)
                 (outq s) (outcap s) (held s) (fbq s) (fblimit s) (pcs s) (ncalls s) (delivered s) (calls s)
                 (upd (written s) p (written s p ++ [x])))
  | Close p =>
      Some (mkSt (H s) (prios s) (strategic s) (actual s) (tactic s) (inq s) (upd (closed s) p true) (drained s) (buffered s)
                 (outq s) (outcap s) (held s) (fbq s) (fblimit s) (pcs s) (ncalls s) (delivered s) (calls s) (written s))
  | Take => match outq s with [] => None | px :: q =>
      Some (mkSt (H s) (prios s) (strategic s) (actual s) (tactic s) (inq s) (closed s) (drained s) (buffered s)
                 q (outcap s) (px :: held s) (fbq s) (fblimit s) (pcs s) (ncalls s) (delivered s) (calls s) (written s)) end
  | Release p => match remove1 p (held s) with None => None | Some h =>
      Some (mkSt (H s) (prios s) (strategic s) (actual s) (tactic s) (inq s) (closed s) (drained s) (buffered s)
                 (outq s) (outcap s) h (fbq s ++ [p]) (fblimit s) (pcs s) (ncalls s) (delivered s) (calls s) (written s)) end
  | Tick =>
      match pcs s with
      | Idle => Some (with_pc s (LimFb (fblimit s)))
      | Read ph p r proc intr =>
          (* iou blocked on an empty, open, unbuffered input: the second consecutive tick ends the wait *)
          if negb (get (tactic s) p =? 0) && negb (buffered s p) && negb (closed s p) && match inq s p with [] => true | _ => false end
          then Some (with_pc s (if intr then Prio ph r proc else Read ph p r proc true))
          else Some s
      | _ => Some s
      end
  end.

Inductive reachable (s0 : st) : st -> Prop :=
| r_init : reachable s0 s0
| r_sched s s' : reachable s0 s -> sched_step s = Some s' -> reachable s0 s'
| r_env s o s' : reachable s0 s -> env_step s o = Some s' -> reachable s0 s'.
End Step.

(* New(): the initial state for distinct priorities ps (keys of Opts.Inputs), given which inputs are buffered.
   capacity = feedback limit = DivideWithMin(H, 10, len(Inputs)) *)
Definition init_state (ps : list N) (h : N) (sorted : list N) (strat : dist) (buf : N -> bool) : st :=
  let cap := divide_with_min h 10 (N.of_nat (length ps)) in
  mkSt h sorted strat [] [] (fun _ => []) (fun _ => false) (fun _ => false) buf
       [] cap [] [] (N.to_nat cap) Calc 1 [] [(sorted, h)] (fun _ => []).

Definition new_v2 (dv : nat -> Divider) (ps : list N) (h : N) (buf : N -> bool) : st + new_err :=
  match prepare_v2 (dv O) ps h with
  | inl (sorted, strat) => inl (init_state ps h sorted strat buf)
  | inr e => inr e
  end.
