(* The constants the models use are the constants of the current Go sources: SrcConsts.v is regenerated from /repo on every run
   (tools/srcconsts evaluates the constant declarations from the AST), and every lemma below is closed by computation.  A changed
   constant breaks the lemma that ties it, i.e. a proof obligation of the properties that depend on it.  One file per discipline,
   so that a changed constant of one discipline does not touch the obligations of another. *)
From Coq Require Import ZArith.
From Cqos Require Import RateConv SrcConsts.

(* ---- limit: Rate.Optimize ---- *)
Lemma tie_limit_optimization_interval : optimization_interval = v2_limit_optimization_interval.
Proof. reflexivity. Qed.
