(* Model of the limit discipline (v2/limit/limit.go): one goroutine; blocking points:
     LRecv k s     `<-dsc.opts.Input` inside pass(); k elements of the current batch sent, batch started at s
     LSend k s x   `dsc.output <- x`
     LSleep u      time.Sleep(Interval - duration) in delay(); u = the instant before which it cannot return
     LClosed       main() returned: output closed *)
From Coq Require Import List ZArith Bool Lia.
Import ListNotations.
Open Scope Z_scope.

Record lcfg := { quantity : Z; linterval : Z }.   (* Rate{Interval, Quantity}, valid: both > 0 *)

Inductive lpc := LRecv (k s : Z) | LSend (k s x : Z) | LSleep (u : Z) | LClosed.

Inductive lev :=
| LIn (t x : Z)      (* an element received from the input *)
| LCloseIn (t : Z)   (* the input found closed *)
| LOut (t : Z)       (* the write to the output completes *)
| LWake (t : Z).     (* time.Sleep returns *)
Definition lev_time (e : lev) : Z := match e with LIn t _ | LCloseIn t | LOut t | LWake t => t end.

(* None: not enabled.  Output: the (time, element) written *)
Definition lstep (c : lcfg) (p : lpc) (e : lev) : option (lpc * list (Z * Z)) :=
  match p, e with
  | LRecv k s, LIn t x => Some (LSend k s x, [])
  | LRecv k s, LCloseIn t => Some (LClosed, [])
  | LSend k s x, LOut t =>
      if k + 1 <? quantity c then Some (LRecv (k + 1) s, [(t, x)])
      else Some (LSleep (t + (linterval c - (t - s))), [(t, x)])   (* duration = t - s; Sleep(Interval - duration) *)
  | LSleep u, LWake t => if u <=? t then Some (LRecv 0 t, []) else None   (* Sleep never returns early *)
  | _, _ => None
  end.

Definition linit (t0 : Z) : lpc := LRecv 0 t0.

Fixpoint lrun (c : lcfg) (p : lpc) (now : Z) (evs : list lev) : option (lpc * list (Z * Z)) :=
  match evs with
  | [] => Some (p, [])
  | e :: r =>
      if now <=? lev_time e then
        match lstep c p e with
        | Some (p1, o1) =>
            match lrun c p1 (lev_time e) r with
            | Some (p2, o2) => Some (p2, o1 ++ o2)
            | None => None
            end
        | None => None
        end
      else None
  end.
