(* Model of the v1 priority discipline (priority/priority.go, assist.go): the scheduling goroutine as a
   program-counter machine, like Prio2.v, plus what v1 adds: Stop()/context cancellation (every blocking point has a
   stop alternative), GracefulStop(), AddInput()/RemoveInput() through unbuffered command channels, user-supplied
   output and feedback channels, the ErrQuantityExceeded check, unchecked divider calls that recompute the strategic
   distribution when inputs change.

   Input channels have identities (nat): AddInput may register a new channel under an existing priority and
   RemoveInput forgets a channel that producers may still write to.

   A Go `select` with several ready cases chooses at random: the step function takes an oracle `o : nat` and the
   theorems quantify over all oracles.

   `fixed` selects between the code as pinned (false: after an interrupted wait for a feedback waitCalcTactic simply
   retries -- and spins for ever when no handler is vacant) and the repaired code (true: the interruption ends the
   wait).  Only the WaitFb/stop transition differs. *)
From Coq Require Import List NArith Bool Lia.
From Cqos Require Import Base Divider Sched.
Import ListNotations.
Open Scope N_scope.

Inductive phase := P1 | P2.
Inductive perr := EDiv (e : derr) | EQuantityExceeded.
Inductive pc :=
| Top | Calc | WaitFb
| Prio (ph : phase) (rest : list N) (proc : N)
| Read (ph : phase) (p : N) (rest : list N) (proc : N) (intr : bool)
| Send (ph : phase) (p : N) (x : N) (rest : list N) (proc : N)
| Recalc (proc : N) | EndBase (proc : N) | Idle | LimFb (k : nat)
| Drain (e : option perr) | Done (e : option perr).

Inductive cmd := CAdd (ch : nat) (p : N) | CRmv (p : N).

Record st := mkSt {
  H : N; prios : list N; strategic : dist; actual : dist; tactic : dist;
  chan_of : N -> option nat;          (* dsc.inputs[p].Channel, None = no entry *)
  drained : N -> bool;                (* dsc.inputs[p].Drained *)
  inq : nat -> list N; closed : nat -> bool; buffered : nat -> bool;    (* input channels, by identity *)
  outq : list (N * N); outcap : N; held : list (N * N); fbq : list N; fblimit : nat;
  stopped : bool;                     (* breaker broken or context cancelled *)
  graceful : bool;                    (* GracefulStop() called *)
  cmds : list cmd;                    (* AddInput / RemoveInput callers blocked on the command channels *)
  pcs : pc; ncalls : nat;
  delivered : list (N * N);           (* ghost: written to the output, in order *)
  calls : list (list N * N);          (* ghost: divider calls, newest first *)
  reads : list (nat * N * N);         (* ghost: (channel, priority under which it was read, item), newest first *)
  dropped : list (N * N);             (* ghost: items read and then dropped by a stop-interrupted send *)
  written : nat -> list N             (* ghost: everything producers wrote to a channel *)
}.

Definition upd {A} (f : N -> A) (k : N) (v : A) : N -> A := fun x => if N.eqb x k then v else f x.
Definition updn {A} (f : nat -> A) (k : nat) (v : A) : nat -> A := fun x => if Nat.eqb x k then v else f x.
Definition dec (d : dist) (p : N) : dist := set d p (get d p - 1).
Definition inc (d : dist) (p : N) : dist := set d p (get d p + 1).
Definition del (d : dist) (p : N) : dist := filter (fun kv => negb (N.eqb (fst kv) p)) d.
Definition filled (t : dist) (ps : list N) : bool := forallb (fun p => negb (get t p =? 0)) ps.

(* field updaters *)
Definition with_pc (s : st) (c : pc) : st :=
  mkSt (H s) (prios s) (strategic s) (actual s) (tactic s) (chan_of s) (drained s) (inq s) (closed s) (buffered s)
       (outq s) (outcap s) (held s) (fbq s) (fblimit s) (stopped s) (graceful s) (cmds s) c (ncalls s)
       (delivered s) (calls s) (reads s) (dropped s) (written s).
Definition with_tac (s : st) (t : dist) (c : pc) : st :=
  mkSt (H s) (prios s) (strategic s) (actual s) t (chan_of s) (drained s) (inq s) (closed s) (buffered s)
       (outq s) (outcap s) (held s) (fbq s) (fblimit s) (stopped s) (graceful s) (cmds s) c (ncalls s)
       (delivered s) (calls s) (reads s) (dropped s) (written s).
Definition log_call (s : st) (ps : list N) (d : N) : st :=
  mkSt (H s) (prios s) (strategic s) (actual s) (tactic s) (chan_of s) (drained s) (inq s) (closed s) (buffered s)
       (outq s) (outcap s) (held s) (fbq s) (fblimit s) (stopped s) (graceful s) (cmds s) (pcs s) (S (ncalls s))
       (delivered s) ((ps, d) :: calls s) (reads s) (dropped s) (written s).
Definition pop_fb (s : st) (p : N) (q : list N) (c : pc) : st :=
  mkSt (H s) (prios s) (strategic s) (dec (actual s) p) (tactic s) (chan_of s) (drained s) (inq s) (closed s) (buffered s)
       (outq s) (outcap s) (held s) q (fblimit s) (stopped s) (graceful s) (cmds s) c (ncalls s)
       (delivered s) (calls s) (reads s) (dropped s) (written s).
Definition pop_in (s : st) (ch : nat) (p x : N) (q : list N) (c : pc) : st :=
  mkSt (H s) (prios s) (strategic s) (actual s) (tactic s) (chan_of s) (drained s) (updn (inq s) ch q) (closed s) (buffered s)
       (outq s) (outcap s) (held s) (fbq s) (fblimit s) (stopped s) (graceful s) (cmds s) c (ncalls s)
       (delivered s) (calls s) ((ch, p, x) :: reads s) (dropped s) (written s).
Definition mark_drained (s : st) (p : N) (c : pc) : st :=
  mkSt (H s) (prios s) (strategic s) (actual s) (tactic s) (chan_of s) (upd (drained s) p true) (inq s) (closed s) (buffered s)
       (outq s) (outcap s) (held s) (fbq s) (fblimit s) (stopped s) (graceful s) (cmds s) c (ncalls s)
       (delivered s) (calls s) (reads s) (dropped s) (written s).
Definition push_out (s : st) (p x : N) (c : pc) : st :=
  mkSt (H s) (prios s) (strategic s) (inc (actual s) p) (dec (tactic s) p) (chan_of s) (drained s) (inq s) (closed s) (buffered s)
       (outq s ++ [(p, x)]) (outcap s) (held s) (fbq s) (fblimit s) (stopped s) (graceful s) (cmds s) c (ncalls s)
       (delivered s ++ [(p, x)]) (calls s) (reads s) (dropped s) (written s).
Definition drop_item (s : st) (p x : N) (c : pc) : st :=
  mkSt (H s) (prios s) (strategic s) (actual s) (tactic s) (chan_of s) (drained s) (inq s) (closed s) (buffered s)
       (outq s) (outcap s) (held s) (fbq s) (fblimit s) (stopped s) (graceful s) (cmds s) c (ncalls s)
       (delivered s) (calls s) (reads s) ((p, x) :: dropped s) (written s).
Definition set_inputs (s : st) (ps : list N) (strat : dist) (co : N -> option nat) (dr : N -> bool) (t : dist) (cs : list cmd) (c : pc) : st :=
  mkSt (H s) ps strat (actual s) t co dr (inq s) (closed s) (buffered s)
       (outq s) (outcap s) (held s) (fbq s) (fblimit s) (stopped s) (graceful s) cs c (ncalls s)
       (delivered s) (calls s) (reads s) (dropped s) (written s).

Fixpoint add_up (ps : list N) (actual strategic tactic : dist) (picked : N) : option (dist * N) :=
  match ps with
  | [] => Some (tactic, picked)
  | p :: r =>
      if get strategic p <? get actual p then None
      else let t := get strategic p - get actual p in
           add_up r actual strategic (set tactic p t) (picked + t)
  end.

Definition uncrowded (s : st) : list N := filter (fun p => get (actual s) p <? get (strategic s) p) (prios s).
Definition useful (s : st) : list N := filter (fun p => get (tactic s) p =? 0) (prios s).
Definition useful_like (s : st) (t : dist) : list N := filter (fun p => get (actual s) p <? get t p) (prios s).

(* the n-th (mod) of the ready alternatives of a select *)
Definition pick {A} (o : nat) (ready : list A) : option A :=
  match ready with [] => None | _ => nth_error ready (Nat.modulo o (length ready)) end.

Section Step.
Variable fixed : bool.
Variable dv : nat -> Divider.

(* `dsc.strategic = Divider(priorities, H, nil)`: a nil map in means allocate; the built-in dividers return nil for an
   empty list, which reads as the empty distribution -- their models return the (empty) argument unchanged *)
Definition strategic_of (k : nat) (ps : list N) (h : N) : dist := dv k ps h [].

Definition calc_base (s : st) (v : N) : st :=
  let unc := uncrowded s in
  let s1 := log_call s unc v in
  match safe_divide (dv (ncalls s)) unc v (reset (tactic s)) with
  | inr e => with_tac s1 (reset (tactic s)) (Drain (Some (EDiv e)))
  | inl t => with_tac s1 t (if filled t unc then Prio P1 (prios s) 0 else WaitFb)
  end.

Definition step_calc (s : st) : st :=
  if H s <? sum (actual s) then with_pc s (Drain (Some EQuantityExceeded)) else
  let v := H s - sum (actual s) in
  if v =? 0 then with_pc s WaitFb else
  match add_up (prios s) (actual s) (strategic s) (reset (tactic s)) 0 with
  | Some (t, picked) => if picked =? v then with_tac s t (Prio P1 (prios s) 0) else calc_base s v
  | None => calc_base s v
  end.

Definition step_recalc (s : st) (proc : N) : st :=
  let rem := sum (tactic s) in
  let us := useful s in
  let s1 := log_call s us (H s) in
  match safe_divide (dv (ncalls s)) us (H s) (reset (tactic s)) with
  | inr e => with_tac s1 (reset (tactic s)) (Drain (Some (EDiv e)))
  | inl t1 =>
      let us' := useful_like s t1 in
      let s2 := log_call s1 us' rem in
      match safe_divide (dv (S (ncalls s))) us' rem (reset t1) with
      | inr e => with_tac s2 (reset t1) (Drain (Some (EDiv e)))
      | inl t2 => with_tac s2 t2 (if filled t2 us' then Prio P2 (prios s) proc else EndBase proc)
      end
  end.

(* addInput / removeInput, executed by the loop when it takes the command *)
Definition do_cmd (s : st) (c : cmd) (rest : list cmd) : st :=
  match c with
  | CAdd ch p =>
      let ps := if existsb (N.eqb p) (prios s) then prios s else sort_desc (prios s ++ [p]) in
      let s1 := log_call s ps (H s) in
      set_inputs s1 ps (strategic_of (ncalls s) ps (H s)) (upd (chan_of s) p (Some ch)) (upd (drained s) p false) (tactic s) rest Calc
  | CRmv p =>
      let ps := filter (fun q => negb (N.eqb q p)) (prios s) in
      let s1 := log_call s ps (H s) in
      set_inputs s1 ps (strategic_of (ncalls s) ps (H s)) (upd (chan_of s) p None) (upd (drained s) p false) (del (tactic s) p) rest Calc
  end.

Inductive alt := AStop | ACmd | AFb | AIn | AOut.

Definition chan_state (s : st) (p : N) : option (nat * list N * bool * bool) :=
  match chan_of s p with
  | Some ch => Some (ch, inq s ch, closed s ch, buffered s ch)
  | None => None
  end.

(* None = blocked *)
Definition sched_step (o : nat) (s : st) : option st :=
  let stop_alt := if stopped s then [AStop] else [] in
  let fb_alt := match fbq s with [] => [] | _ => [AFb] end in
  match pcs s with
  | Top =>
      let cmd_alt := match cmds s with [] => [] | _ => [ACmd] end in
      match pick o (stop_alt ++ cmd_alt ++ fb_alt) with
      | None => Some (with_pc s Calc)                                  (* default *)
      | Some AStop => Some (with_pc s (Drain None))                    (* return nil; deferred waitZeroActual *)
      | Some ACmd => match cmds s with c :: rest => Some (do_cmd s c rest) | [] => None end
      | Some _ => match fbq s with p :: q => Some (pop_fb s p q Calc) | [] => None end
      end
  | Calc => Some (step_calc s)
  | WaitFb =>
      match pick o (stop_alt ++ fb_alt) with
      | None => None
      | Some AStop => if fixed then Some (with_tac s (reset (tactic s)) (Prio P1 (prios s) 0)) else Some (with_pc s Calc)
      | Some _ => match fbq s with p :: q => Some (pop_fb s p q Calc) | [] => None end
      end
  | Prio ph [] proc => Some (with_pc s (match ph with P1 => Recalc proc | P2 => EndBase proc end))
  | Prio ph (p :: r) proc => Some (with_pc s (if drained s p then Prio ph r proc else Read ph p r proc false))
  | Read ph p r proc intr =>
      if get (tactic s) p =? 0 then Some (with_pc s (Prio ph r proc)) else
      match chan_state s p with
      | None => Some (with_pc s (Prio ph r proc))      (* cannot happen: every listed priority has an input *)
      | Some (ch, q, cl, bf) =>
          let in_alt := match q with [] => if cl then [AIn] else [] | _ => [AIn] end in
          match pick o (stop_alt ++ in_alt) with
          | None => if bf then Some (with_pc s (Prio ph r proc)) else None     (* default / wait for the interrupter *)
          | Some AStop => Some (with_pc s (Prio ph r proc))
          | Some _ =>
              match q with
              | x :: q' => Some (pop_in s ch p x q' (Send ph p x r proc))
              | [] => Some (mark_drained s p (Prio ph r proc))
              end
          end
      end
  | Send ph p x r proc =>
      let out_alt := if N.of_nat (length (outq s)) <? outcap s then [AOut] else [] in
      match pick o (stop_alt ++ out_alt) with
      | None => None
      | Some AStop => Some (drop_item s p x (Read ph p r proc false))
      | Some _ => Some (push_out s p x (Read ph p r (proc + 1) false))
      end
  | Recalc proc => Some (step_recalc s proc)
  | EndBase proc =>
      if proc =? 0 then
        (if graceful s && forallb (drained s) (prios s) then Some (with_pc s (Drain None)) else Some (with_pc s Idle))
      else Some (with_pc s (LimFb (fblimit s)))
  | Idle => None
  | LimFb O => Some (with_pc s Top)
  | LimFb (S k) =>
      match pick o (stop_alt ++ fb_alt) with
      | None => Some (with_pc s Top)
      | Some AStop => Some (with_pc s Top)
      | Some _ => match fbq s with p :: q => Some (pop_fb s p q (LimFb k)) | [] => None end
      end
  | Drain e =>
      if sum (actual s) =? 0 then Some (with_pc s (Done e)) else
      match pick o (stop_alt ++ fb_alt) with
      | None => None
      | Some AStop => Some (with_pc s (Done e))
      | Some _ => match fbq s with p :: q => Some (pop_fb s p q (Drain e)) | [] => None end
      end
  | Done _ => None
  end.

Inductive env_op :=
| Put (ch : nat) (x : N) | Close (ch : nat) | Take | Release (p : N) | Tick
| StopCall | GracefulCall | AddCall (ch : nat) (p : N) (bf : bool) | RmvCall (p : N).

Fixpoint remove1 (p : N) (l : list (N * N)) : option (list (N * N)) :=
  match l with
  | [] => None
  | (q, x) :: r => if N.eqb p q then Some r else option_map (cons (q, x)) (remove1 p r)
  end.

Definition env_step (s : st) (op : env_op) : option st :=
  match op with
  | Put ch x => if closed s ch then None else
      Some (mkSt (H s) (prios s) (strategic s) (actual s) (tactic s) (chan_of s) (drained s) (updn (inq s) ch (inq s ch ++ [x])) (closed s) (buffered s)
                 (outq s) (outcap s) (held s) (fbq s) (fblimit s) (stopped s) (graceful s) (cmds s) (pcs s) (ncalls s)
                 (delivered s) (calls s) (reads s) (dropped s) (updn (written s) ch (written s ch ++ [x])))
  | Close ch =>
      Some (mkSt (H s) (prios s) (strategic s) (actual s) (tactic s) (chan_of s) (drained s) (inq s) (updn (closed s) ch true) (buffered s)
                 (outq s) (outcap s) (held s) (fbq s) (fblimit s) (stopped s) (graceful s) (cmds s) (pcs s) (ncalls s)
                 (delivered s) (calls s) (reads s) (dropped s) (written s))
  | Take => match outq s with [] => None | px :: q =>
      Some (mkSt (H s) (prios s) (strategic s) (actual s) (tactic s) (chan_of s) (drained s) (inq s) (closed s) (buffered s)
                 q (outcap s) (px :: held s) (fbq s) (fblimit s) (stopped s) (graceful s) (cmds s) (pcs s) (ncalls s)
                 (delivered s) (calls s) (reads s) (dropped s) (written s)) end
  | Release p => match remove1 p (held s) with None => None | Some h =>
      Some (mkSt (H s) (prios s) (strategic s) (actual s) (tactic s) (chan_of s) (drained s) (inq s) (closed s) (buffered s)
                 (outq s) (outcap s) h (fbq s ++ [p]) (fblimit s) (stopped s) (graceful s) (cmds s) (pcs s) (ncalls s)
                 (delivered s) (calls s) (reads s) (dropped s) (written s)) end
  | Tick =>
      match pcs s with
      | Idle => Some (with_pc s (LimFb (fblimit s)))
      | Read ph p r proc intr =>
          match chan_state s p with
          | Some (ch, [], false, false) =>
              if negb (get (tactic s) p =? 0) then Some (with_pc s (if intr then Prio ph r proc else Read ph p r proc true)) else Some s
          | _ => Some s
          end
      | _ => Some s
      end
  | StopCall =>
      Some (mkSt (H s) (prios s) (strategic s) (actual s) (tactic s) (chan_of s) (drained s) (inq s) (closed s) (buffered s)
                 (outq s) (outcap s) (held s) (fbq s) (fblimit s) true (graceful s) (cmds s) (pcs s) (ncalls s)
                 (delivered s) (calls s) (reads s) (dropped s) (written s))
  | GracefulCall =>
      Some (mkSt (H s) (prios s) (strategic s) (actual s) (tactic s) (chan_of s) (drained s) (inq s) (closed s) (buffered s)
                 (outq s) (outcap s) (held s) (fbq s) (fblimit s) (stopped s) true (cmds s) (pcs s) (ncalls s)
                 (delivered s) (calls s) (reads s) (dropped s) (written s))
  | AddCall ch p bf =>
      Some (mkSt (H s) (prios s) (strategic s) (actual s) (tactic s) (chan_of s) (drained s) (inq s) (closed s) (updn (buffered s) ch bf)
                 (outq s) (outcap s) (held s) (fbq s) (fblimit s) (stopped s) (graceful s) (cmds s ++ [CAdd ch p]) (pcs s) (ncalls s)
                 (delivered s) (calls s) (reads s) (dropped s) (written s))
  | RmvCall p =>
      Some (mkSt (H s) (prios s) (strategic s) (actual s) (tactic s) (chan_of s) (drained s) (inq s) (closed s) (buffered s)
                 (outq s) (outcap s) (held s) (fbq s) (fblimit s) (stopped s) (graceful s) (cmds s ++ [CRmv p]) (pcs s) (ncalls s)
                 (delivered s) (calls s) (reads s) (dropped s) (written s))
  end.

Inductive reachable (s0 : st) : st -> Prop :=
| r_init : reachable s0 s0
| r_sched s o s' : reachable s0 s -> sched_step o s = Some s' -> reachable s0 s'
| r_env s op s' : reachable s0 s -> env_step s op = Some s' -> reachable s0 s'.
End Step.

(* New(): no check of the shares in v1; inputs may be empty.  cfg lists the initial inputs as (priority, channel id).
   feedbackLimit = DivideWithMin(H, 10, 1); the output capacity is the user's. *)
Fixpoint init_chans (cfg : list (N * nat)) (co : N -> option nat) : N -> option nat :=
  match cfg with [] => co | (p, ch) :: r => init_chans r (upd co p (Some ch)) end.

Definition init_state (dv : nat -> Divider) (cfg : list (N * nat)) (h : N) (bufs : nat -> bool) (ocap : N) : st :=
  let sorted := sort_desc (map fst cfg) in
  mkSt h sorted (dv O sorted h []) [] [] (init_chans cfg (fun _ => None)) (fun _ => false)
       (fun _ => []) (fun _ => false) bufs [] ocap [] [] (N.to_nat (divide_with_min h 10 1)) false false [] Top 1
       [] [(sorted, h)] [] [] (fun _ => []).
