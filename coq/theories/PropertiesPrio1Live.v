(* Property theorems: liveness of the v1 priority discipline over infinite executions under fairness (C06), for executions without Stop / GracefulStop / AddInput / RemoveInput and every resolution of the selects. *)
From Coq Require Import List NArith Bool. From Cqos Require Import Base Divider Sched Prio1 Prio1P Prio1L Prio1Live. Import ListNotations. Open Scope N_scope.
Theorem C06_v1_every_item_delivered :
  forall (fixed : bool) (dv : nat -> Divider) (s0 : st) (tr : nat -> st) (lb : nat -> label),
         dv_ok dv ->
         InitL1 s0 ->
         H s0 < two64 ->
         execution fixed dv s0 tr lb ->
         F_sched fixed dv tr lb ->
         F_take tr lb ->
         F_rel tr lb ->
         F_tick_w tr lb ->
         forall (i : nat) (p : N) (ch : nat) (x : N),
         chan_of s0 p = Some ch ->
         (forall q : N, chan_of s0 q = Some ch -> q = p) ->
         In x (inq (tr i) ch) -> exists j : nat, (i <= j)%nat /\ In (p, x) (delivered (tr j)).
Proof. exact @prio1_every_item_delivered_w. Qed.
Print Assumptions C06_v1_every_item_delivered.

Theorem C06_v1_every_item_delivered_new :
  forall (fixed : bool) (dv : nat -> Divider) (cfg : list (N * nat)) (h : N) 
           (bufs : nat -> bool) (ocap : N) (tr : nat -> st) (lb : nat -> label),
         dv_ok dv ->
         NoDup (map fst cfg) ->
         NoDup (map snd cfg) ->
         1 <= h ->
         h < two64 ->
         1 <= ocap ->
         strat_ok dv cfg h ->
         execution fixed dv (init_state dv cfg h bufs ocap) tr lb ->
         F_sched fixed dv tr lb ->
         F_take tr lb ->
         F_rel tr lb ->
         F_tick lb ->
         forall (i : nat) (p : N) (ch : nat) (x : N),
         In (p, ch) cfg -> In x (inq (tr i) ch) -> exists j : nat, (i <= j)%nat /\ In (p, x) (delivered (tr j)).
Proof. exact @prio1_every_item_delivered_new. Qed.
Print Assumptions C06_v1_every_item_delivered_new.

Theorem C06_v1_every_item_delivered_new_fair :
  forall (fixed : bool) (cfg : list (N * nat)) (h : N) (bufs : nat -> bool) 
           (ocap : N) (tr : nat -> st) (lb : nat -> label),
         NoDup (map fst cfg) ->
         NoDup (map snd cfg) ->
         cfg <> [] ->
         N.of_nat (length cfg) <= h ->
         h < two64 ->
         1 <= ocap ->
         execution fixed dv_example (init_state dv_example cfg h bufs ocap) tr lb ->
         F_sched fixed dv_example tr lb ->
         F_take tr lb ->
         F_rel tr lb ->
         F_tick lb ->
         forall (i : nat) (p : N) (ch : nat) (x : N),
         In (p, ch) cfg -> In x (inq (tr i) ch) -> exists j : nat, (i <= j)%nat /\ In (p, x) (delivered (tr j)).
Proof. exact @prio1_every_item_delivered_new_fair. Qed.
Print Assumptions C06_v1_every_item_delivered_new_fair.

Theorem C06_v1_every_item_delivered_chan :
  forall (fixed : bool) (dv : nat -> Divider) (s0 : st) (tr : nat -> st) (lb : nat -> label),
         dv_ok dv ->
         InitL1 s0 ->
         H s0 < two64 ->
         execution fixed dv s0 tr lb ->
         F_sched fixed dv tr lb ->
         F_take tr lb ->
         F_rel tr lb ->
         F_tick_w tr lb ->
         forall (i : nat) (p : N) (ch : nat) (x : N),
         chan_of s0 p = Some ch ->
         In x (inq (tr i) ch) ->
         exists (j : nat) (q : N), (i <= j)%nat /\ chan_of s0 q = Some ch /\ In (q, x) (delivered (tr j)).
Proof. exact @prio1_every_item_delivered_chan_w. Qed.
Print Assumptions C06_v1_every_item_delivered_chan.

Theorem C06_v1_some_item_delivered :
  forall (fixed : bool) (dv : nat -> Divider) (s0 : st) (tr : nat -> st) (lb : nat -> label),
         dv_ok dv ->
         InitL1 s0 ->
         H s0 < two64 ->
         execution fixed dv s0 tr lb ->
         F_sched fixed dv tr lb ->
         F_take tr lb ->
         F_rel tr lb ->
         F_tick_w tr lb ->
         forall i : nat,
         (exists (p : N) (ch : nat), chan_of s0 p = Some ch /\ inq (tr i) ch <> []) ->
         exists j : nat, (i <= j)%nat /\ (length (delivered (tr i)) < length (delivered (tr j)))%nat.
Proof. exact @prio1_some_item_delivered_w. Qed.
Print Assumptions C06_v1_some_item_delivered.

Theorem C06_v1_calc_infinitely_often :
  forall (fixed : bool) (dv : nat -> Divider) (s0 : st) (tr : nat -> st) (lb : nat -> label),
         dv_ok dv ->
         InitL1 s0 ->
         H s0 < two64 ->
         execution fixed dv s0 tr lb ->
         F_sched fixed dv tr lb ->
         F_take tr lb ->
         F_rel tr lb -> F_tick lb -> forall i : nat, exists j : nat, (i <= j)%nat /\ pcs (tr j) = Calc.
Proof. exact @prio1_calc_infinitely_often. Qed.
Print Assumptions C06_v1_calc_infinitely_often.

Theorem C06_v1_liveness_needs_distinct_channels :
  forall fixed : bool,
         exists (dv : nat -> Divider) (s0 : st) (tr : nat -> st) (lb : nat -> label),
           dv_ok dv /\
           InitL1 s0 /\
           H s0 < two64 /\
           (1 <= fblimit s0)%nat /\
           execution fixed dv s0 tr lb /\
           F_sched fixed dv tr lb /\
           F_take tr lb /\
           F_rel tr lb /\
           F_tick lb /\
           (exists (i : nat) (p : N) (ch : nat) (x : N),
              In p (prios s0) /\
              chan_of s0 p = Some ch /\
              In x (inq (tr i) ch) /\ (forall j : nat, ~ In (p, x) (delivered (tr j)))).
Proof. exact @prio1_liveness_needs_distinct_channels. Qed.
Print Assumptions C06_v1_liveness_needs_distinct_channels.

Theorem C06_v1_liveness_nonvacuous :
  forall (fixed : bool) (i : nat) (p : N) (ch : nat) (x : N),
         In (p, ch) pos_cfg ->
         In x (inq (pos_tr fixed i) ch) ->
         exists j : nat, (i <= j)%nat /\ In (p, x) (delivered (pos_tr fixed j)).
Proof. exact @pos_every_item. Qed.
Print Assumptions C06_v1_liveness_nonvacuous.

