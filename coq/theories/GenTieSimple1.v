(* Tie lemmas for GenV1Simple.v (priority/simple.go: SimpleOpts.isValid, SimpleOpts.normalize) versus Run.simple1_capacity.
   Imports only this one generated file. *)
From Coq Require Import List NArith ZArith Bool Lia.
From Cqos Require Import GoSem Sched Run GenTieMiscBase.
From Cqos Require GenV1Simple.
Import ListNotations.

Module S1 := GenV1Simple.

Lemma simple_v1_isValid_raw w opts :
  S1.gen_isValid w opts =
  (w, if is_nil (S1.SimpleOpts_Handle opts) then Some S1.ErrEmptyHandle
      else if (mlen (S1.SimpleOpts_Inputs opts) =? 0)%N then Some S1.ErrEmptyInput else None).
Proof.
  unfold S1.gen_isValid. cbn.
  destruct (is_nil (S1.SimpleOpts_Handle opts)); cbn; [reflexivity|].
  destruct (mlen (S1.SimpleOpts_Inputs opts) =? 0)%N; reflexivity.
Qed.

(* ==== main tie theorems ==== *)

(* v1 SimpleOpts.isValid: a nil Handle is rejected first, then an empty (or nil) map of inputs; HandlersQuantity and
   Divider are not examined here (priority.New does that) *)
Theorem tie_simple_v1_isValid w opts :
  fst (S1.gen_isValid w opts) = w /\
  (snd (S1.gen_isValid w opts) = None <-> S1.SimpleOpts_Handle opts <> None /\ mlen (S1.SimpleOpts_Inputs opts) <> 0%N) /\
  (snd (S1.gen_isValid w opts) = Some S1.ErrEmptyHandle <-> S1.SimpleOpts_Handle opts = None) /\
  (snd (S1.gen_isValid w opts) = Some S1.ErrEmptyInput <->
   S1.SimpleOpts_Handle opts <> None /\ (S1.SimpleOpts_Inputs opts = None \/ S1.SimpleOpts_Inputs opts = Some [])).
Proof.
  rewrite simple_v1_isValid_raw. cbn [fst snd]. rewrite <- mlen_zero.
  destruct (S1.SimpleOpts_Handle opts) as [u|]; cbn [is_nil];
    destruct (N.eqb_spec (mlen (S1.SimpleOpts_Inputs opts)) 0) as [Hz|Hnz];
    repeat split; try congruence; try discriminate; intros; tauto.
Qed.

(* v1 SimpleOpts.normalize: only a nil context is replaced; HandlersQuantity, Inputs, Divider, Handle are unchanged *)
Theorem tie_simple_v1_normalize w opts :
  S1.gen_normalize w opts =
  (w, S1.mk_SimpleOpts (if is_nil (S1.SimpleOpts_Ctx opts) then opaque_some else S1.SimpleOpts_Ctx opts)
        (S1.SimpleOpts_Divider opts) (S1.SimpleOpts_Handle opts) (S1.SimpleOpts_HandlersQuantity opts)
        (S1.SimpleOpts_Inputs opts)).
Proof.
  unfold S1.gen_normalize. destruct opts as [ctx dv h hq inp]; cbn. destruct (is_nil ctx); reflexivity.
Qed.

(* hence the channel capacity NewSimple computes from the normalized options (Run.simple1_capacity, tied to the Go
   constant by ConstsTiePrio.tie_simple1_capacity) is the one of the given options, and for accepted options it is at
   least the number of inputs, so at least 1 *)
Corollary tie_simple_v1_capacity w opts :
  let o := snd (S1.gen_normalize w opts) in
  simple1_capacity (S1.SimpleOpts_HandlersQuantity o) (mlen (S1.SimpleOpts_Inputs o)) =
  simple1_capacity (S1.SimpleOpts_HandlersQuantity opts) (mlen (S1.SimpleOpts_Inputs opts)) /\
  (snd (S1.gen_isValid w opts) = None ->
   (1 <= mlen (S1.SimpleOpts_Inputs opts) <=
    simple1_capacity (S1.SimpleOpts_HandlersQuantity opts) (mlen (S1.SimpleOpts_Inputs opts)))%N).
Proof.
  rewrite tie_simple_v1_normalize. cbn. split; [reflexivity|].
  intros H. apply (proj1 (proj2 (tie_simple_v1_isValid w opts))) in H. destruct H as [_ H].
  unfold simple1_capacity, divide_with_min. cbn [N.eqb].
  destruct (N.ltb_spec (S1.SimpleOpts_HandlersQuantity opts / 10) (mlen (S1.SimpleOpts_Inputs opts))); lia.
Qed.

(* ---------------------------------------------------------------- examples: no theorem is vacuous --------------- *)

Example ex_simple_v1_isValid :
  snd (S1.gen_isValid 7 (S1.mk_SimpleOpts None None (Some tt) 0 (Some [(3%N, Some tt)]))) = None /\
  snd (S1.gen_isValid 7 (S1.mk_SimpleOpts None None None 6 (Some [(3%N, Some tt)]))) = Some S1.ErrEmptyHandle /\
  snd (S1.gen_isValid 7 (S1.mk_SimpleOpts None None (Some tt) 6 (Some []))) = Some S1.ErrEmptyInput /\
  snd (S1.gen_isValid 7 (S1.mk_SimpleOpts None None (Some tt) 6 None)) = Some S1.ErrEmptyInput.
Proof.
  split; [|split; [|split]].
  - apply (tie_simple_v1_isValid 7 (S1.mk_SimpleOpts None None (Some tt) 0 (Some [(3%N, Some tt)]))). cbn. split; discriminate.
  - now apply (tie_simple_v1_isValid 7 (S1.mk_SimpleOpts None None None 6 (Some [(3%N, Some tt)]))).
  - apply (tie_simple_v1_isValid 7 (S1.mk_SimpleOpts None None (Some tt) 6 (Some []))). cbn. split; [discriminate|now right].
  - apply (tie_simple_v1_isValid 7 (S1.mk_SimpleOpts None None (Some tt) 6 None)). cbn. split; [discriminate|now left].
Qed.
Example ex_simple_v1_normalize :
  S1.gen_normalize 7 (S1.mk_SimpleOpts None None (Some tt) 0 (Some [(3%N, Some tt)])) =
  (7%nat, S1.mk_SimpleOpts (Some tt) None (Some tt) 0 (Some [(3%N, Some tt)])).
Proof. now rewrite tie_simple_v1_normalize. Qed.
Example ex_simple_v1_capacity :
  (1 <= 2 <= simple1_capacity 6 2)%N /\ simple1_capacity 6 2 = 2%N /\ simple1_capacity 60 2 = 6%N.
Proof.
  split; [|split; reflexivity].
  exact (proj2 (tie_simple_v1_capacity 7 (S1.mk_SimpleOpts None None (Some tt) 6 (Some [(3%N, Some tt); (1%N, Some tt)]))) eq_refl).
Qed.

(* ---------------------------------------------------------------- assumptions ------------------------------------ *)
Print Assumptions tie_simple_v1_isValid.
Print Assumptions tie_simple_v1_normalize.
Print Assumptions tie_simple_v1_capacity.
