(* Proofs about the v1 priority discipline model (Prio1.v): C01 capacity/accounting (v1), C17 AddInput/RemoveInput,
   C02/C16 data flow (consumed prefix, delivered sub-sequence, dropped items), C07/C16 termination (Stop). *)
From Coq Require Import List NArith Lia Bool Arith Sorted.
From Cqos Require Import Base Divider DividerP Sched Prio1.
Import ListNotations.
Open Scope N_scope.

(* ---------- small arithmetic / list facts (as in Prio2P.v) ---------- *)
Lemma sum_dec d p : NoDup (keys d) -> 1 <= get d p -> sum (dec d p) + 1 = sum d.
Proof. intros ND Hg. unfold dec. pose proof (sum_set d p (get d p - 1) ND). lia. Qed.
Lemma sum_inc d p : NoDup (keys d) -> sum (inc d p) = sum d + 1.
Proof. intros ND. unfold inc. pose proof (sum_set d p (get d p + 1) ND). lia. Qed.
Lemma get_dec d p q : get (dec d p) q = if N.eqb q p then get d p - 1 else get d q.
Proof. unfold dec. destruct (N.eqb_spec q p) as [->|Hne]; [apply get_set_same|apply get_set_other; congruence]. Qed.
Lemma get_inc d p q : get (inc d p) q = if N.eqb q p then get d p + 1 else get d q.
Proof. unfold inc. destruct (N.eqb_spec q p) as [->|Hne]; [apply get_set_same|apply get_set_other; congruence]. Qed.
Lemma nodup_dec d p : NoDup (keys d) -> NoDup (keys (dec d p)).
Proof. apply nodup_keys_set. Qed.
Lemma nodup_inc d p : NoDup (keys d) -> NoDup (keys (inc d p)).
Proof. apply nodup_keys_set. Qed.

Lemma count_snoc p l x : count p (l ++ [x]) = count p l + (if N.eqb p x then 1 else 0).
Proof. rewrite count_app. simpl. lia. Qed.

Lemma remove1_spec p l h : remove1 p l = Some h ->
  length l = S (length h) /\ forall q, count q (map fst l) = count q (map fst h) + (if N.eqb q p then 1 else 0).
Proof.
  revert h. induction l as [|[a x] r IH]; simpl; intros h Hr; [discriminate|].
  destruct (N.eqb_spec p a) as [->|Hne].
  - inversion Hr; subst. split; auto. intros q. lia.
  - destruct (remove1 p r) as [h'|] eqn:E; simpl in Hr; [|discriminate]. inversion Hr; subst.
    destruct (IH h' eq_refl) as [Hl Hc]. split; [simpl; lia|]. intros q. simpl. rewrite Hc. lia.
Qed.

Lemma filter_nodup {A} (f : A -> bool) l : NoDup l -> NoDup (filter f l).
Proof. induction 1 as [|x l Hx ND IH]; simpl; [constructor|]. destruct (f x); auto. constructor; auto. rewrite filter_In. tauto. Qed.

Lemma add_up_sum ps : forall actual strategic tactic picked t' pk',
  NoDup ps -> NoDup (keys tactic) -> (forall p, In p ps -> get tactic p = 0) ->
  add_up ps actual strategic tactic picked = Some (t', pk') ->
  sum t' + picked = sum tactic + pk' /\ NoDup (keys t').
Proof.
  induction ps as [|p r IH]; simpl; intros actual strategic tactic picked t' pk' NDp NDk Hz H.
  - inversion H; subst. split; [lia|auto].
  - destruct (get strategic p <? get actual p) eqn:E; [discriminate|].
    inversion NDp as [|? ? Hn NDr]; subst.
    apply IH in H; auto.
    + destruct H as [H1 H2]. split; auto.
      pose proof (sum_set tactic p (get strategic p - get actual p) NDk) as Hs.
      rewrite (Hz p (or_introl eq_refl)) in Hs. lia.
    + apply nodup_keys_set; auto.
    + intros q Hq. rewrite get_set_other; [apply Hz; right; auto|]. intros ->. contradiction.
Qed.

(* ---------- safe_divide ---------- *)
Lemma wrap_sub a : a < two64 -> (a + two64 - 0) mod two64 = a.
Proof.
  intros Ha. rewrite N.sub_0_r.
  replace (a + two64) with (a + 1 * two64) by lia.
  rewrite N.mod_add by (intros E; discriminate E). apply N.mod_small; auto.
Qed.

Lemma safe_sum_some d v : safe_sum d = Some v -> v = sum d /\ sum d < two64.
Proof. unfold safe_sum. destruct (sum d <? two64) eqn:E; [|discriminate]. intros Hs; inversion Hs; subst. split; auto. now apply N.ltb_lt. Qed.

Lemma safe_divide_inl (f : Divider) ps n t r :
  safe_divide f ps n t = inl r -> r = f ps n t /\ sum t < two64 /\ sum r < two64 /\
  (sum r = 0 \/ (sum r + two64 - sum t) mod two64 = n).
Proof.
  unfold safe_divide. intros Hs.
  destruct (safe_sum t) as [b|] eqn:Eb; [|discriminate].
  destruct (safe_sum (f ps n t)) as [a|] eqn:Ea; [|discriminate].
  apply safe_sum_some in Eb. apply safe_sum_some in Ea. destruct Eb as [-> Hb]. destruct Ea as [-> Ha].
  destruct (sum (f ps n t) =? 0) eqn:E0.
  - inversion Hs; subst. apply N.eqb_eq in E0. auto.
  - destruct ((sum (f ps n t) + two64 - sum t) mod two64 =? n) eqn:E1; [|discriminate].
    inversion Hs; subst. apply N.eqb_eq in E1. auto.
Qed.

Lemma safe_divide_sum (f : Divider) ps n t r :
  sum t = 0 -> safe_divide f ps n t = inl r -> sum r = n \/ sum r = 0.
Proof.
  intros Hz Hs. apply safe_divide_inl in Hs. destruct Hs as [_ [_ [Ha [H0|H1]]]]; auto.
  left. rewrite Hz in H1. rewrite wrap_sub in H1; auto.
Qed.

(* ---------- sorting ---------- *)
Lemma in_insert_desc x a l : In x (insert_desc a l) <-> x = a \/ In x l.
Proof.
  induction l as [|y r IH]; cbn [insert_desc].
  - cbn [In]. intuition.
  - destruct (y <? a); cbn [In]; [intuition|]. rewrite IH. intuition.
Qed.
Lemma in_sort_desc x l : In x (sort_desc l) <-> In x l.
Proof. induction l as [|a r IH]; cbn [sort_desc]; [tauto|]. rewrite in_insert_desc, IH. cbn [In]. intuition. Qed.
Lemma nodup_insert_desc a l : ~ In a l -> NoDup l -> NoDup (insert_desc a l).
Proof.
  induction l as [|y r IH]; cbn [insert_desc]; intros Hn ND.
  - constructor; auto.
  - destruct (y <? a).
    + constructor; auto.
    + inversion ND as [|? ? Hy NDr]; subst. constructor.
      * rewrite in_insert_desc. intros [E|Hin]; [subst; apply Hn; left; reflexivity|contradiction].
      * apply IH; auto. intros Hin; apply Hn; right; exact Hin.
Qed.
Lemma nodup_sort_desc l : NoDup l -> NoDup (sort_desc l).
Proof.
  induction 1 as [|a l Ha ND IH]; cbn [sort_desc]; [constructor|].
  apply nodup_insert_desc; auto. rewrite in_sort_desc. exact Ha.
Qed.

Definition desc (l : list N) : Prop := StronglySorted N.gt l.
Lemma desc_insert a l : ~ In a l -> desc l -> desc (insert_desc a l).
Proof.
  unfold desc. induction l as [|y r IH]; cbn [insert_desc]; intros Hn Hs.
  - constructor; constructor.
  - inversion Hs as [|? ? Hsr Hall]; subst. destruct (N.ltb_spec y a) as [Hlt|Hge].
    + constructor; auto. constructor; [lia|]. rewrite Forall_forall in *. intros z Hz. specialize (Hall z Hz). lia.
    + assert (Hne : a <> y) by (intros ->; apply Hn; left; reflexivity).
      constructor.
      * apply IH; auto. intros Hin; apply Hn; right; exact Hin.
      * rewrite Forall_forall in *. intros z Hz. apply in_insert_desc in Hz. destruct Hz as [->|Hz]; [lia|auto].
Qed.
Lemma desc_sort l : NoDup l -> desc (sort_desc l).
Proof.
  induction 1 as [|a l Ha ND IH]; cbn [sort_desc]; [constructor|].
  apply desc_insert; auto. rewrite in_sort_desc. exact Ha.
Qed.

Lemma existsb_eqb_in p l : existsb (N.eqb p) l = true <-> In p l.
Proof.
  rewrite existsb_exists. split.
  - intros [x [Hx E]]. apply N.eqb_eq in E. subst. exact Hx.
  - intros Hin. exists p. split; auto. apply N.eqb_refl.
Qed.

(* ---------- select ---------- *)
Lemma pick_in {A} o (l : list A) a : pick o l = Some a -> In a l.
Proof. unfold pick. destruct l as [|x r]; [discriminate|]. apply nth_error_In. Qed.
Lemma pick_first {A} (a : A) l : pick 0 (a :: l) = Some a.
Proof. unfold pick. rewrite Nat.mod_0_l by (cbn [length]; discriminate). reflexivity. Qed.
Lemma pick_nil {A} o : @pick A o [] = None.
Proof. reflexivity. Qed.

Lemma list_neq_cons {A} (a : A) l : l <> a :: l.
Proof. intros E. apply (f_equal (@length A)) in E. cbn [length] in E. lia. Qed.

(* ---------- the accounting invariant ---------- *)
Definition inflight (s : st) : N := N.of_nat (length (outq s)) + N.of_nat (length (held s)) + N.of_nat (length (fbq s)).
Definition cnt (s : st) (p : N) : N := count p (map fst (outq s)) + count p (map fst (held s)) + count p (fbq s).
Definition in_round (c : pc) : bool :=
  match c with Prio _ _ _ | Read _ _ _ _ _ | Send _ _ _ _ _ | Recalc _ => true | _ => false end.
Definition noqe (c : pc) : Prop := c <> Drain (Some EQuantityExceeded) /\ c <> Done (Some EQuantityExceeded).

Record Inv (s : st) : Prop := {
  i_nda : NoDup (keys (actual s));
  i_ndt : NoDup (keys (tactic s));
  i_ndp : NoDup (prios s);
  i_acc : forall p, get (actual s) p = cnt s p;
  i_sum : sum (actual s) = inflight s;
  i_cap : sum (actual s) <= H s;
  i_round : in_round (pcs s) = true -> sum (actual s) + sum (tactic s) <= H s;
  i_send : forall ph p x r proc, pcs s = Send ph p x r proc -> 1 <= get (tactic s) p;
  i_done : forall e, pcs s = Done e -> stopped s = true \/ sum (actual s) = 0;
  i_noqe : noqe (pcs s);
  i_chan : forall p, In p (prios s) <-> chan_of s p <> None }.

Record Init1 (s0 : st) : Prop := {
  in_prios : NoDup (prios s0);  in_strat : NoDup (keys (strategic s0));
  in_actual : actual s0 = [];   in_tactic : tactic s0 = [];
  in_outq : outq s0 = [];  in_held : held s0 = [];  in_fbq : fbq s0 = [];  in_cmds : cmds s0 = [];
  in_pc : pcs s0 = Top;  in_stopped : stopped s0 = false;  in_graceful : graceful s0 = false;
  in_delivered : delivered s0 = [];  in_reads : reads s0 = [];  in_dropped : dropped s0 = [];
  in_written : forall ch, written s0 ch = inq s0 ch;        (* inputs may be pre-filled *)
  in_drained : forall p, drained s0 p = false;
  in_chan : forall p, In p (prios s0) <-> chan_of s0 p <> None }.

Lemma init_chans_spec cfg : forall co p, init_chans cfg co p <> None <-> In p (map fst cfg) \/ co p <> None.
Proof.
  induction cfg as [|[q ch] r IH]; intros co p; cbn [init_chans map fst In].
  - tauto.
  - rewrite IH. unfold upd. destruct (N.eqb_spec p q) as [->|Hne].
    + split; [intros _; left; left; reflexivity|intros _; right; discriminate].
    + split; [intros [Hi|Hc]; auto|intros [[E|Hi]|Hc]; auto; congruence].
Qed.

Lemma Init1_Inv s0 : Init1 s0 -> Inv s0.
Proof.
  intros I. destruct I as [Ip Is Ia It Io Ih If Icm Ipc Ist Igr Id Ird Idp Iw Idr Ich].
  constructor; unfold inflight, cnt, noqe; rewrite ?Ia, ?It, ?Io, ?Ih, ?If, ?Ipc; simpl; auto; try apply NoDup_nil; try lia; try discriminate.
  split; discriminate.
Qed.

Ltac proj := cbn [H prios strategic actual tactic chan_of drained inq closed buffered outq outcap held fbq fblimit
                  stopped graceful cmds pcs ncalls delivered calls reads dropped written
                  with_pc with_tac log_call pop_fb pop_in mark_drained push_out drop_item set_inputs].

Ltac destruct_matches Hs :=
  repeat match type of Hs with context [match ?x with _ => _ end] => destruct x eqn:? end.

Section Proofs.
Variable fixed : bool.
Variable dv : nat -> Divider.
(* typing fact of Go maps: a distribution returned by any divider is a map, i.e. has unique keys *)
Hypothesis dv_wf : forall k ps n d, NoDup (keys d) -> NoDup (keys (dv k ps n d)).

Lemma init_state_Init1 cfg h bufs ocap : NoDup (map fst cfg) -> Init1 (init_state dv cfg h bufs ocap).
Proof.
  intros ND. constructor; cbn; auto.
  - now apply nodup_sort_desc.
  - apply dv_wf. constructor.
  - intros p. rewrite in_sort_desc, init_chans_spec. intuition.
Qed.

Ltac inv_fields Hinv :=
  destruct Hinv as [Hnda Hndt Hndp Hacc Hsum Hcap Hround Hsend Hdone Hnoqe Hchan].

Definition not_send (c : pc) : Prop := forall ph p x r pr, c <> Send ph p x r pr.
Definition not_done (c : pc) : Prop := forall e, c <> Done e.

Lemma pop_fb_inv s p q c :
  Inv s -> fbq s = p :: q -> in_round c = false -> not_send c -> not_done c -> noqe c -> Inv (pop_fb s p q c).
Proof.
  intros Hinv Hfb Hc Hns Hnd Hq. inv_fields Hinv.
  assert (Hge : 1 <= get (actual s) p).
  { rewrite Hacc. unfold cnt. rewrite Hfb. simpl. rewrite N.eqb_refl. lia. }
  constructor; proj.
  - now apply nodup_dec.
  - exact Hndt.
  - exact Hndp.
  - intros p0. rewrite get_dec. unfold cnt; proj. specialize (Hacc p0). unfold cnt in Hacc. rewrite Hfb in Hacc. simpl in Hacc.
    revert Hacc. destruct (N.eqb_spec p0 p) as [E|Hne]; intros Hacc; [subst p0|]; lia.
  - pose proof (sum_dec (actual s) p Hnda Hge). unfold inflight in *; proj. rewrite Hfb in Hsum. cbn [length] in Hsum.
    rewrite Nat2N.inj_succ in Hsum. lia.
  - pose proof (sum_dec (actual s) p Hnda Hge). lia.
  - intros Hr. rewrite Hc in Hr. discriminate.
  - intros ph p' x r pr Heq. exfalso. eapply Hns; eauto.
  - intros e Heq. exfalso. eapply Hnd; eauto.
  - exact Hq.
  - exact Hchan.
Qed.

Lemma with_tac_inv s s1 t c :
  Inv s -> NoDup (keys t) ->
  H s1 = H s -> prios s1 = prios s -> actual s1 = actual s -> outq s1 = outq s -> held s1 = held s -> fbq s1 = fbq s ->
  chan_of s1 = chan_of s ->
  (in_round c = true -> sum (actual s) + sum t <= H s) ->
  not_send c -> not_done c -> noqe c -> Inv (with_tac s1 t c).
Proof.
  intros Hinv Hnd EH Ep Ea Eo Eh Ef Ech Hs Hns Hndn Hq. inv_fields Hinv.
  constructor; unfold inflight, cnt in *; proj; rewrite ?EH, ?Ep, ?Ea, ?Eo, ?Eh, ?Ef, ?Ech; auto.
  - intros ph p x r pr Heq. exfalso. eapply Hns; eauto.
  - intros e Heq. exfalso. eapply Hndn; eauto.
Qed.

Lemma with_pc_inv s c :
  Inv s -> (in_round c = true -> sum (actual s) + sum (tactic s) <= H s) ->
  not_send c -> (forall e, c = Done e -> stopped s = true \/ sum (actual s) = 0) -> noqe c -> Inv (with_pc s c).
Proof.
  intros Hinv Hs Hns Hd Hq. inv_fields Hinv. constructor; proj; auto.
  intros ph p x r pr Heq. exfalso. eapply Hns; eauto.
Qed.

Lemma safe_divide_wf k ps d t r :
  NoDup (keys t) -> safe_divide (dv k) ps d (reset t) = inl r -> NoDup (keys r) /\ (sum r = d \/ sum r = 0).
Proof.
  intros ND Hs. split; [|eapply safe_divide_sum; eauto; apply sum_reset].
  apply safe_divide_inl in Hs. destruct Hs as [-> _]. apply dv_wf. now apply nodup_keys_reset.
Qed.

Ltac notsend0 := let ph := fresh in let p := fresh in let x := fresh in let r := fresh in let pr := fresh in
  unfold not_send; intros ph p x r pr; try discriminate; try (destruct ph; discriminate).
Ltac notdone0 := let e := fresh in unfold not_done; intros e; try discriminate.
Ltac fin := try solve [discriminate | notsend0 | notdone0 | intros _; lia | assumption | apply nodup_keys_reset; assumption
                       | reflexivity | intros ? ?; discriminate | split; discriminate ].

Lemma calc_base_inv s v : Inv s -> v = H s - sum (actual s) -> Inv (calc_base dv s v).
Proof.
  intros Hinv Hv. pose proof Hinv as Hinv0. inv_fields Hinv. unfold calc_base.
  destruct (safe_divide (dv (ncalls s)) (uncrowded s) v (reset (tactic s))) as [t'|e] eqn:E.
  - destruct (safe_divide_wf _ _ _ _ _ Hndt E) as [W [Hd|Hd]];
    apply (with_tac_inv s); auto; fin; destruct (filled t' (uncrowded s)); fin.
  - apply (with_tac_inv s); auto; fin.
Qed.

Lemma step_calc_inv s : Inv s -> Inv (step_calc dv s).
Proof.
  intros Hinv. pose proof Hinv as Hinv0. inv_fields Hinv. unfold step_calc.
  destruct (N.ltb_spec (H s) (sum (actual s))) as [Hlt|_]; [lia|].
  destruct (H s - sum (actual s) =? 0) eqn:Ev.
  - apply with_pc_inv; auto; fin.
  - apply N.eqb_neq in Ev.
    destruct (add_up (prios s) (actual s) (strategic s) (reset (tactic s)) 0) as [[t picked]|] eqn:Ea.
    + destruct (picked =? H s - sum (actual s)) eqn:Ep.
      * apply N.eqb_eq in Ep.
        destruct (add_up_sum _ _ _ _ _ _ _ Hndp (nodup_keys_reset _ Hndt) (fun p _ => get_reset _ p) Ea) as [Hs Hnd].
        rewrite sum_reset in Hs. apply (with_tac_inv s); auto; fin.
      * apply calc_base_inv; auto.
    + apply calc_base_inv; auto.
Qed.

Lemma step_recalc_inv s proc : Inv s -> sum (actual s) + sum (tactic s) <= H s -> Inv (step_recalc dv s proc).
Proof.
  intros Hinv Hr. pose proof Hinv as Hinv0. inv_fields Hinv. unfold step_recalc.
  destruct (safe_divide (dv (ncalls s)) (useful s) (H s) (reset (tactic s))) as [t1|e] eqn:E1.
  - destruct (safe_divide_wf _ _ _ _ _ Hndt E1) as [W1 _].
    destruct (safe_divide (dv (S (ncalls s))) (useful_like s t1) (sum (tactic s)) (reset t1)) as [t2|e] eqn:E2.
    + destruct (safe_divide_wf _ _ _ _ _ W1 E2) as [W2 [Hd|Hd]];
      apply (with_tac_inv s); auto; fin;
      match goal with |- context [filled ?a ?b] => destruct (filled a b) end; fin.
    + apply (with_tac_inv s); auto; fin.
  - apply (with_tac_inv s); auto; fin.
Qed.

Lemma nodup_del d p : NoDup (keys d) -> NoDup (keys (del d p)).
Proof.
  unfold del. induction d as [|[k v] r IH]; cbn [filter keys fst]; intros ND; [constructor|].
  inversion ND as [|? ? Hk NDr]; subst. destruct (negb (k =? p)); cbn [keys]; auto.
  constructor; auto. intros Hin. apply Hk. clear -Hin. induction r as [|[k' v'] r IH]; cbn [filter keys fst] in *; [contradiction|].
  destruct (negb (k' =? p)); cbn [keys In] in *; [destruct Hin; auto|auto].
Qed.

Lemma do_cmd_inv s c rest : Inv s -> Inv (do_cmd dv s c rest).
Proof.
  intros Hinv. inv_fields Hinv. unfold do_cmd. destruct c as [ch p|p].
  - constructor; unfold inflight, cnt in *; proj; auto; fin.
    + destruct (existsb (N.eqb p) (prios s)) eqn:Ex; auto.
      apply nodup_sort_desc.
      rewrite <- (rev_involutive (prios s ++ [p])). apply NoDup_rev. rewrite rev_app_distr. cbn [rev app].
      constructor; [|apply NoDup_rev; auto]. rewrite <- in_rev. intros Hin. apply existsb_eqb_in in Hin. congruence.
    + intros q. unfold upd. destruct (N.eqb_spec q p) as [->|Hne].
      * split; [intros _; discriminate|intros _].
        destruct (existsb (N.eqb p) (prios s)) eqn:Ex; [apply existsb_eqb_in; auto|].
        rewrite in_sort_desc. apply in_or_app. right. left. reflexivity.
      * rewrite <- Hchan. destruct (existsb (N.eqb p) (prios s)) eqn:Ex; [tauto|].
        rewrite in_sort_desc, in_app_iff. cbn [In]. intuition congruence.
  - constructor; unfold inflight, cnt in *; proj; auto; fin.
    + now apply nodup_del.
    + now apply filter_nodup.
    + intros q. unfold upd. rewrite filter_In. destruct (N.eqb_spec q p) as [->|Hne]; cbn [negb].
      * split; [intros [_ E]; discriminate|intros E; congruence].
      * rewrite <- Hchan. tauto.
Qed.

Ltac pick_cases Hstep a Ep :=
  match type of Hstep with context [pick ?o ?l] => destruct (pick o l) as [a|] eqn:Ep end.

Lemma pick_stop o (b : bool) l : pick o ((if b then [AStop] else []) ++ l) = Some AStop -> ~ In AStop l -> b = true.
Proof. intros Hp Hn. apply pick_in in Hp. destruct b; [reflexivity|]. exfalso. apply Hn. exact Hp. Qed.

Lemma not_in_fb_alt (q : list N) : ~ In AStop (match q with [] => [] | _ => [AFb] end).
Proof. destruct q; cbn [In]; [tauto|intros [E|[]]; discriminate]. Qed.

Theorem sched_step_inv o s s' : Inv s -> sched_step fixed dv o s = Some s' -> Inv s'.
Proof.
  intros Hinv Hstep. pose proof Hinv as Hinv0. inv_fields Hinv.
  unfold sched_step in Hstep. destruct (pcs s) eqn:Epc; cbv zeta in Hstep.
  - (* Top *)
    pick_cases Hstep a Ep; [destruct a|].
    + inversion Hstep; subst. apply with_pc_inv; auto; fin.
    + destruct (cmds s) as [|c rest]; [discriminate|]. inversion Hstep; subst. now apply do_cmd_inv.
    + destruct (fbq s) as [|p q] eqn:Efb; [discriminate|]. inversion Hstep; subst. apply pop_fb_inv; auto; fin.
    + destruct (fbq s) as [|p q] eqn:Efb; [discriminate|]. inversion Hstep; subst. apply pop_fb_inv; auto; fin.
    + destruct (fbq s) as [|p q] eqn:Efb; [discriminate|]. inversion Hstep; subst. apply pop_fb_inv; auto; fin.
    + inversion Hstep; subst. apply with_pc_inv; auto; fin.
  - (* Calc *) inversion Hstep; subst. now apply step_calc_inv.
  - (* WaitFb *)
    pick_cases Hstep a Ep; [destruct a|discriminate].
    + destruct fixed; inversion Hstep; subst.
      * apply (with_tac_inv s); auto; fin. intros _. rewrite sum_reset. lia.
      * apply with_pc_inv; auto; fin.
    + destruct (fbq s) as [|p q] eqn:Efb; [discriminate|]. inversion Hstep; subst. apply pop_fb_inv; auto; fin.
    + destruct (fbq s) as [|p q] eqn:Efb; [discriminate|]. inversion Hstep; subst. apply pop_fb_inv; auto; fin.
    + destruct (fbq s) as [|p q] eqn:Efb; [discriminate|]. inversion Hstep; subst. apply pop_fb_inv; auto; fin.
    + destruct (fbq s) as [|p q] eqn:Efb; [discriminate|]. inversion Hstep; subst. apply pop_fb_inv; auto; fin.
  - (* Prio *)
    assert (Hr : sum (actual s) + sum (tactic s) <= H s) by (apply Hround; reflexivity).
    destruct rest as [|p r].
    + inversion Hstep; subst. apply with_pc_inv; auto; fin; destruct ph; fin.
    + inversion Hstep; subst. apply with_pc_inv; auto; fin; destruct (drained s p); fin.
  - (* Read *)
    assert (Hr : sum (actual s) + sum (tactic s) <= H s) by (apply Hround; reflexivity).
    destruct (get (tactic s) p =? 0) eqn:Et.
    + inversion Hstep; subst. apply with_pc_inv; auto; fin.
    + apply N.eqb_neq in Et. destruct (chan_state s p) as [[[[ch q] cl] bf]|] eqn:Ecs.
      2:{ inversion Hstep; subst. apply with_pc_inv; auto; fin. }
      pick_cases Hstep a Ep; [|destruct bf; [|discriminate]; inversion Hstep; subst; apply with_pc_inv; auto; fin].
      assert (Hin : forall x q', q = x :: q' -> Inv (pop_in s ch p x q' (Send ph p x rest proc))).
      { intros x q' _. constructor; proj; auto; fin. intros ph0 p0 x0 r0 pr0 Heq. inversion Heq; subst. lia. }
      assert (Hmd : Inv (mark_drained s p (Prio ph rest proc))).
      { constructor; proj; auto; fin. }
      destruct a; try (inversion Hstep; subst; apply with_pc_inv; auto; fin);
        (destruct q as [|x q']; inversion Hstep; subst; [exact Hmd|apply Hin; reflexivity]).
  - (* Send *)
    assert (Hr : sum (actual s) + sum (tactic s) <= H s) by (apply Hround; reflexivity).
    assert (Ht : 1 <= get (tactic s) p) by (eapply Hsend; eauto).
    assert (Hpush : Inv (push_out s p x (Read ph p rest (proc + 1) false))).
    { pose proof (get_le_sum (tactic s) p Hndt) as Hle.
      pose proof (sum_inc (actual s) p Hnda) as Hi. pose proof (sum_dec (tactic s) p Hndt Ht) as Hd.
      constructor; proj.
      + now apply nodup_inc.
      + now apply nodup_dec.
      + exact Hndp.
      + intros q. rewrite get_inc. unfold cnt; proj. rewrite map_app. cbn [map fst]. rewrite count_snoc.
        specialize (Hacc q). unfold cnt in Hacc. destruct (N.eqb_spec q p) as [E|Hne]; [subst q|]; lia.
      + unfold inflight in *; proj. rewrite app_length. cbn [length]. rewrite Nat2N.inj_add. cbn [N.of_nat]. lia.
      + lia.
      + intros _. lia.
      + fin.
      + fin.
      + fin.
      + exact Hchan. }
    pick_cases Hstep a Ep; [|discriminate].
    destruct a; inversion Hstep; subst; try exact Hpush.
    constructor; proj; auto; fin.
  - (* Recalc *)
    assert (Hr : sum (actual s) + sum (tactic s) <= H s) by (apply Hround; reflexivity).
    inversion Hstep; subst. now apply step_recalc_inv.
  - (* EndBase *)
    destruct (proc =? 0); [destruct (graceful s && forallb (drained s) (prios s))|]; inversion Hstep; subst; apply with_pc_inv; auto; fin.
  - (* Idle *) discriminate.
  - (* LimFb *)
    destruct k as [|k].
    + inversion Hstep; subst. apply with_pc_inv; auto; fin.
    + pick_cases Hstep a Ep; [destruct a|]; try (inversion Hstep; subst; apply with_pc_inv; auto; fin);
        (destruct (fbq s) as [|p q] eqn:Efb; [discriminate|]; inversion Hstep; subst; apply pop_fb_inv; auto; fin).
  - (* Drain *)
    assert (Hq : noqe (Drain e) /\ noqe (Done e)).
    { destruct Hnoqe as [Hq1 Hq2]. unfold noqe. repeat split; try discriminate; intros E; inversion E; subst; apply Hq1; reflexivity. }
    destruct Hq as [Hq1 Hq2].
    destruct (sum (actual s) =? 0) eqn:Ez.
    + inversion Hstep; subst. apply N.eqb_eq in Ez. apply with_pc_inv; auto; fin.
    + pick_cases Hstep a Ep; [|discriminate].
      destruct a; try (destruct (fbq s) as [|p q] eqn:Efb; [discriminate|]; inversion Hstep; subst; apply pop_fb_inv; auto; fin).
      inversion Hstep; subst. apply with_pc_inv; auto; fin.
      intros e0 _. left. eapply pick_stop; [exact Ep|apply not_in_fb_alt].
  - discriminate.
Qed.

Theorem env_step_inv s op s' : Inv s -> env_step s op = Some s' -> Inv s'.
Proof.
  intros Hinv Hstep. pose proof Hinv as Hinv0. inv_fields Hinv.
  destruct op as [ch x|ch| |p| | | |ch p bf|p]; cbn [env_step] in Hstep.
  - destruct (closed s ch); inversion Hstep; subst. constructor; proj; auto.
  - inversion Hstep; subst. constructor; proj; auto.
  - destruct (outq s) as [|[p x] q] eqn:Eo; inversion Hstep; subst. constructor; proj; auto.
    + intros q0. specialize (Hacc q0). unfold cnt in *; proj. rewrite Eo in Hacc. cbn [map fst count] in *.
      revert Hacc; destruct (N.eqb q0 p); intros; lia.
    + unfold inflight in *; proj. rewrite Eo in Hsum. cbn [length] in *. rewrite ?Nat2N.inj_succ in *. lia.
  - destruct (remove1 p (held s)) as [h|] eqn:Er; inversion Hstep; subst.
    destruct (remove1_spec _ _ _ Er) as [Hl Hc]. constructor; proj; auto.
    + intros q0. specialize (Hacc q0). unfold cnt in *; proj. rewrite count_snoc. rewrite Hc in Hacc.
      revert Hacc; destruct (N.eqb q0 p); intros; lia.
    + unfold inflight in *; proj. rewrite app_length. cbn [length]. rewrite Hl in Hsum.
      rewrite ?Nat2N.inj_succ, ?Nat2N.inj_add in *. cbn [N.of_nat]. lia.
  - destruct (pcs s) eqn:Epc; try (inversion Hstep; subst; assumption).
    + (* Read *)
      assert (Hr : sum (actual s) + sum (tactic s) <= H s) by (apply Hround; reflexivity).
      destruct_matches Hstep; inversion Hstep; subst; auto.
      all: apply with_pc_inv; auto; fin.
    + (* Idle *) inversion Hstep; subst. apply with_pc_inv; auto; fin.
  - inversion Hstep; subst. constructor; proj; auto.
  - inversion Hstep; subst. constructor; proj; auto.
  - inversion Hstep; subst. constructor; proj; auto.
  - inversion Hstep; subst. constructor; proj; auto.
Qed.

Lemma reachable_inv s0 s : Init1 s0 -> reachable fixed dv s0 s -> Inv s.
Proof.
  intros I Hr. induction Hr as [|s o s' Hr IH Hs|s op s' Hr IH Hs].
  - now apply Init1_Inv.
  - eapply sched_step_inv; eauto.
  - eapply env_step_inv; eauto.
Qed.

(* ---------- C01 (v1) ---------- *)
Theorem prio1_accounting : forall s0 s, Init1 s0 -> reachable fixed dv s0 s -> forall p, get (actual s) p = cnt s p.
Proof. intros s0 s I Hr. apply (i_acc s). eapply reachable_inv; eauto. Qed.

Theorem prio1_capacity : forall s0 s, Init1 s0 -> reachable fixed dv s0 s ->
  N.of_nat (length (outq s)) + N.of_nat (length (held s)) + N.of_nat (length (fbq s)) = sum (actual s) /\ sum (actual s) <= H s.
Proof.
  intros s0 s I Hr. pose proof (reachable_inv _ _ I Hr) as Hinv. inv_fields Hinv. unfold inflight in Hsum. split; [lia|assumption].
Qed.

Theorem prio1_never_quantity_exceeded : forall s0 s, Init1 s0 -> reachable fixed dv s0 s ->
  pcs s <> Drain (Some EQuantityExceeded) /\ pcs s <> Done (Some EQuantityExceeded).
Proof. intros s0 s I Hr. apply (i_noqe s). eapply reachable_inv; eauto. Qed.

Theorem prio1_round_budget : forall s0 s, Init1 s0 -> reachable fixed dv s0 s ->
  match pcs s with Prio _ _ _ | Read _ _ _ _ _ | Send _ _ _ _ _ | Recalc _ => sum (actual s) + sum (tactic s) <= H s | _ => True end.
Proof.
  intros s0 s I Hr. pose proof (reachable_inv _ _ I Hr) as Hinv. inv_fields Hinv.
  destruct (pcs s); auto; apply Hround; reflexivity.
Qed.

(* ---------- C17 ---------- *)
Theorem prio1_inputs_wf : forall s0 s, Init1 s0 -> reachable fixed dv s0 s ->
  NoDup (prios s) /\ (forall p, In p (prios s) <-> chan_of s p <> None).
Proof. intros s0 s I Hr. pose proof (reachable_inv _ _ I Hr) as Hinv. split; [apply (i_ndp s Hinv)|apply (i_chan s Hinv)]. Qed.

(* ---------- C17: the effect of AddInput / RemoveInput ---------- *)
Lemma nodup_snoc {A} (l : list A) a : NoDup l -> ~ In a l -> NoDup (l ++ [a]).
Proof.
  intros ND Hn. rewrite <- (rev_involutive (l ++ [a])). apply NoDup_rev. rewrite rev_app_distr. cbn [rev app].
  constructor; [|apply NoDup_rev; auto]. rewrite <- in_rev. exact Hn.
Qed.
Definition add_prios (ps : list N) (p : N) : list N := if existsb (N.eqb p) ps then ps else sort_desc (ps ++ [p]).
Lemma in_add_prios ps p q : In q (add_prios ps p) <-> q = p \/ In q ps.
Proof.
  unfold add_prios. destruct (existsb (N.eqb p) ps) eqn:Ex.
  - apply existsb_eqb_in in Ex. split; [auto|intros [->|Hq]; auto].
  - rewrite in_sort_desc, in_app_iff. cbn [In]. intuition.
Qed.
Lemma not_existsb_in ps p : existsb (N.eqb p) ps = false -> ~ In p ps.
Proof. intros Ex Hin. apply existsb_eqb_in in Hin. congruence. Qed.
Lemma nodup_add_prios ps p : NoDup ps -> NoDup (add_prios ps p).
Proof.
  intros ND. unfold add_prios. destruct (existsb (N.eqb p) ps) eqn:Ex; auto.
  apply nodup_sort_desc. apply nodup_snoc; auto. now apply not_existsb_in.
Qed.
Lemma desc_add_prios ps p : NoDup ps -> desc ps -> desc (add_prios ps p).
Proof.
  intros ND Hs. unfold add_prios. destruct (existsb (N.eqb p) ps) eqn:Ex; auto.
  apply desc_sort. apply nodup_snoc; auto. now apply not_existsb_in.
Qed.

Theorem prio1_add_effect : forall s ch p rest, NoDup (prios s) ->
  let s' := do_cmd dv s (CAdd ch p) rest in
  chan_of s' p = Some ch /\ drained s' p = false /\ In p (prios s') /\ NoDup (prios s') /\
  (forall q, q <> p -> chan_of s' q = chan_of s q /\ drained s' q = drained s q /\ (In q (prios s') <-> In q (prios s))) /\
  strategic s' = dv (ncalls s) (prios s') (H s) [] /\ actual s' = actual s.
Proof.
  intros s ch p rest ND. cbv zeta. unfold do_cmd, strategic_of. proj. fold (add_prios (prios s) p). unfold upd.
  rewrite N.eqb_refl. repeat split; auto.
  - apply in_add_prios. left; reflexivity.
  - now apply nodup_add_prios.
  - destruct (N.eqb_spec q p); [contradiction|reflexivity].
  - destruct (N.eqb_spec q p); [contradiction|reflexivity].
  - intros Hin. apply in_add_prios in Hin. destruct Hin; [contradiction|assumption].
  - intros Hin. apply in_add_prios. right; assumption.
Qed.

(* sortedness (highest priority first, strictly) is kept by AddInput and by RemoveInput *)
Theorem prio1_add_sorted : forall s ch p rest, NoDup (prios s) -> StronglySorted N.gt (prios s) ->
  StronglySorted N.gt (prios (do_cmd dv s (CAdd ch p) rest)).
Proof. intros s ch p rest ND Hs. unfold do_cmd. proj. now apply desc_add_prios. Qed.

Lemma StronglySorted_filter {A} (R : A -> A -> Prop) (f : A -> bool) l : StronglySorted R l -> StronglySorted R (filter f l).
Proof.
  induction 1 as [|a l Hs IH Hf]; cbn [filter]; [constructor|].
  destruct (f a); auto. constructor; auto.
  rewrite Forall_forall in *. intros x Hx. apply Hf. apply filter_In in Hx. tauto.
Qed.

Theorem prio1_remove_sorted : forall s p rest, StronglySorted N.gt (prios s) ->
  StronglySorted N.gt (prios (do_cmd dv s (CRmv p) rest)).
Proof. intros s p rest Hs. unfold do_cmd. proj. now apply StronglySorted_filter. Qed.

Theorem prio1_remove_effect : forall s p rest,
  let s' := do_cmd dv s (CRmv p) rest in
  chan_of s' p = None /\ ~ In p (prios s') /\ actual s' = actual s /\
  (forall q, q <> p -> chan_of s' q = chan_of s q /\ (In q (prios s') <-> In q (prios s))).
Proof.
  intros s p rest. cbv zeta. unfold do_cmd. proj. unfold upd. rewrite N.eqb_refl. repeat split; auto.
  - rewrite filter_In. rewrite N.eqb_refl. intros [_ E]; discriminate.
  - destruct (N.eqb_spec q p); [contradiction|reflexivity].
  - intros Hin. apply filter_In in Hin. tauto.
  - intros Hin. apply filter_In. split; auto. destruct (N.eqb_spec q p); [contradiction|reflexivity].
Qed.

(* also: the strategic distribution is recomputed, the removed priority loses its tactic entry and nothing else changes there *)
Theorem prio1_remove_effect_more : forall s p rest,
  let s' := do_cmd dv s (CRmv p) rest in
  strategic s' = dv (ncalls s) (prios s') (H s) [] /\ drained s' p = false /\ get (tactic s') p = 0 /\
  (forall q, q <> p -> get (tactic s') q = get (tactic s) q /\ drained s' q = drained s q).
Proof.
  intros s p rest. cbv zeta. unfold do_cmd, strategic_of. proj. unfold upd. rewrite N.eqb_refl. repeat split; auto.
  - unfold del. induction (tactic s) as [|[k v] r IH]; cbn [filter get fst]; auto.
    destruct (N.eqb_spec k p) as [->|Hne]; cbn [negb]; auto. cbn [get]. destruct (N.eqb_spec p k); [congruence|auto].
  - unfold del. induction (tactic s) as [|[k v] r IH]; cbn [filter get fst]; auto.
    destruct (N.eqb_spec k p) as [->|Hne]; cbn [negb].
    + destruct (N.eqb_spec q p); [contradiction|auto].
    + cbn [get]. rewrite IH. reflexivity.
  - destruct (N.eqb_spec q p); [contradiction|reflexivity].
Qed.

(* ---------- C17: reads come from registered channels only ---------- *)
Lemma chan_state_some s p ch q cl bf : chan_state s p = Some (ch, q, cl, bf) ->
  chan_of s p = Some ch /\ q = inq s ch /\ cl = closed s ch /\ bf = buffered s ch.
Proof. unfold chan_state. destruct (chan_of s p) as [c|]; [|discriminate]. intros E. inversion E; subst. auto. Qed.

Theorem prio1_read_registered : forall o s s', sched_step fixed dv o s = Some s' ->
  forall ch p x, reads s' = (ch, p, x) :: reads s -> chan_of s p = Some ch /\ In x (inq s ch).
Proof.
  intros o s s' Hs ch p x Hr.
  unfold sched_step, step_calc, calc_base, step_recalc, do_cmd in Hs.
  destruct_matches Hs; try discriminate; inversion Hs; subst; proj; cbn in Hr;
    try (exfalso; eapply list_neq_cons; eassumption).
  all: inversion Hr; subst;
    match goal with E : chan_state _ _ = Some _ |- _ => apply chan_state_some in E; destruct E as (E1 & E2 & _) end;
    split; [assumption|rewrite <- E2; left; reflexivity].
Qed.

Theorem prio1_unregistered_not_read : forall o s s' ch, sched_step fixed dv o s = Some s' ->
  (forall p, chan_of s p <> Some ch) -> inq s' ch = inq s ch /\ (forall p x, reads s' <> (ch, p, x) :: reads s).
Proof.
  intros o s s' ch Hs Hn.
  unfold sched_step, step_calc, calc_base, step_recalc, do_cmd in Hs.
  destruct_matches Hs; try discriminate; inversion Hs; subst; cbn;
    try (split; [reflexivity|intros p0 x0; apply list_neq_cons]).
  all: match goal with E : chan_state _ _ = Some _ |- _ => apply chan_state_some in E; destruct E as (E1 & E2 & _) end;
    unfold updn; split; [match goal with |- context [Nat.eqb ?a ?c] => destruct (Nat.eqb_spec a c) as [->|Hne] end; [exfalso; eapply Hn; eassumption|reflexivity]|
                         intros p0 x0 E; inversion E; subst; eapply Hn; eassumption].
Qed.

(* ---------- C02 / C16: data flow ---------- *)
Inductive sublist {A : Type} : list A -> list A -> Prop :=
| sl_nil : sublist [] []
| sl_skip x l1 l2 : sublist l1 l2 -> sublist l1 (x :: l2)
| sl_take x l1 l2 : sublist l1 l2 -> sublist (x :: l1) (x :: l2).

Lemma sublist_nil_l {A} (l : list A) : sublist [] l.
Proof. induction l; constructor; auto. Qed.
Lemma sublist_refl {A} (l : list A) : sublist l l.
Proof. induction l; [apply sl_nil|apply sl_take; auto]. Qed.
Lemma sublist_app {A} (a b c d : list A) : sublist a b -> sublist c d -> sublist (a ++ c) (b ++ d).
Proof. intros Hab Hcd. induction Hab; cbn [app]; auto; [apply sl_skip|apply sl_take]; auto. Qed.
Lemma sublist_app_r {A} (a b c : list A) : sublist a b -> sublist a (b ++ c).
Proof. intros Hab. rewrite <- (app_nil_r a). apply sublist_app; auto. apply sublist_nil_l. Qed.
Lemma sublist_in {A} (a b : list A) x : sublist a b -> In x a -> In x b.
Proof. intros Hab. induction Hab; cbn [In]; [tauto|intros Hx; right; auto|intros [Hx|Hx]; [left; auto|right; auto]]. Qed.
Lemma sublist_length {A} (a b : list A) : sublist a b -> (length a <= length b)%nat.
Proof. intros Hab. induction Hab; cbn [length]; lia. Qed.

Definition read_items (s : st) (ch : nat) : list N :=
  rev (map (fun r => snd r) (filter (fun r => Nat.eqb (fst (fst r)) ch) (reads s))).
Definition tag (r : nat * N * N) : N * N := (snd (fst r), snd r).
(* the reads whose fate is settled: all but the item in limbo between the input and the output *)
Definition settled (s : st) : list (nat * N * N) := match pcs s with Send _ _ _ _ _ => tl (reads s) | _ => reads s end.
Definition in_send (c : pc) : nat := match c with Send _ _ _ _ _ => 1%nat | _ => 0%nat end.
Definition all_drained (s : st) : Prop := graceful s = true /\ forall p, In p (prios s) -> drained s p = true.

Record Inv2 (s : st) : Prop := {
  j_prefix : forall ch, read_items s ch ++ inq s ch = written s ch;
  j_sub : sublist (delivered s) (rev (map tag (settled s)));
  j_limbo : forall ph p x r n, pcs s = Send ph p x r n -> exists ch rs, reads s = (ch, p, x) :: rs;
  j_len : length (reads s) = (length (delivered s) + length (dropped s) + in_send (pcs s))%nat;
  j_nodrop : stopped s = false -> dropped s = [];
  j_drained : forall p, drained s p = true -> exists ch, chan_of s p = Some ch /\ closed s ch = true /\ inq s ch = [];
  j_final : pcs s = Drain None \/ pcs s = Done None -> stopped s = true \/ all_drained s }.

Lemma Init1_Inv2 s0 : Init1 s0 -> Inv2 s0.
Proof.
  intros I. destruct I as [Ip Is Ia It Io Ih If Icm Ipc Ist Igr Id Ird Idp Iw Idr Ich].
  constructor; unfold read_items, settled, in_send; rewrite ?Id, ?Ird, ?Idp, ?Ipc; cbn; auto.
  - constructor.
  - intros; discriminate.
  - intros p Hd. rewrite Idr in Hd. discriminate.
  - intros [E|E]; discriminate.
Qed.

Lemma settled_not_send s : not_send (pcs s) -> settled s = reads s.
Proof. unfold settled, not_send. intros Hn. destruct (pcs s); auto. exfalso. eapply Hn; reflexivity. Qed.
Lemma in_send_not_send c : not_send c -> in_send c = 0%nat.
Proof. unfold in_send, not_send. intros Hn. destruct c; auto. exfalso. eapply Hn; reflexivity. Qed.

Definition same_data (s s1 : st) : Prop :=
  prios s1 = prios s /\ chan_of s1 = chan_of s /\ drained s1 = drained s /\ inq s1 = inq s /\ closed s1 = closed s /\
  stopped s1 = stopped s /\ graceful s1 = graceful s /\ delivered s1 = delivered s /\ reads s1 = reads s /\
  dropped s1 = dropped s /\ written s1 = written s.

Lemma frame_same_pc s s1 : Inv2 s -> same_data s s1 -> pcs s1 = pcs s -> Inv2 s1.
Proof.
  intros [Hpre Hsub Hlim Hlen Hnd Hdr Hfin] (Ep & Ech & Edr & Ei & Ecl & Est & Egr & Ed & Er & Edp & Ew) Epc.
  constructor; unfold read_items, settled, all_drained in *; rewrite ?Ep, ?Ech, ?Edr, ?Ei, ?Ecl, ?Est, ?Egr, ?Ed, ?Er, ?Edp, ?Ew, ?Epc; auto.
Qed.

Lemma frame_new_pc s s1 : Inv2 s -> same_data s s1 -> not_send (pcs s) -> not_send (pcs s1) ->
  (pcs s1 = Drain None \/ pcs s1 = Done None -> stopped s = true \/ all_drained s) -> Inv2 s1.
Proof.
  intros [Hpre Hsub Hlim Hlen Hnd Hdr Hfin] (Ep & Ech & Edr & Ei & Ecl & Est & Egr & Ed & Er & Edp & Ew) Hn Hn1 Hf1.
  constructor.
  - unfold read_items in *. rewrite Er, Ei, Ew. exact Hpre.
  - rewrite (settled_not_send s1 Hn1). rewrite (settled_not_send s Hn) in Hsub. rewrite Ed, Er. exact Hsub.
  - intros ph p x r n E. exfalso. eapply Hn1; eauto.
  - rewrite (in_send_not_send _ Hn1). rewrite (in_send_not_send _ Hn) in Hlen. rewrite Er, Ed, Edp. exact Hlen.
  - rewrite Est, Edp. exact Hnd.
  - rewrite Edr, Ech, Ecl, Ei. exact Hdr.
  - unfold all_drained in *. rewrite Est, Egr, Ep, Edr. exact Hf1.
Qed.

Ltac same_data0 := repeat split; reflexivity.

Lemma with_pc_inv2 s c : Inv2 s -> not_send (pcs s) -> not_send c ->
  (c = Drain None \/ c = Done None -> stopped s = true \/ all_drained s) -> Inv2 (with_pc s c).
Proof. intros. apply (frame_new_pc s); auto. same_data0. Qed.

Lemma pop_fb_inv2 s p q c : Inv2 s -> not_send (pcs s) -> not_send c ->
  (c = Drain None \/ c = Done None -> stopped s = true \/ all_drained s) -> Inv2 (pop_fb s p q c).
Proof. intros. apply (frame_new_pc s); auto. same_data0. Qed.

Definition calc_pc (s : st) (c : pc) : Prop := c = WaitFb \/ c = Prio P1 (prios s) 0 \/ exists e, c = Drain (Some e).

Lemma calc_base_shape s v : same_data s (calc_base dv s v) /\ calc_pc s (pcs (calc_base dv s v)).
Proof.
  unfold calc_base, calc_pc. destruct (safe_divide (dv (ncalls s)) (uncrowded s) v (reset (tactic s))) as [t|e].
  - split; [same_data0|]. proj. destruct (filled t (uncrowded s)); auto.
  - split; [same_data0|]. proj. right; right; eexists; reflexivity.
Qed.

Lemma step_calc_shape s : same_data s (step_calc dv s) /\ calc_pc s (pcs (step_calc dv s)).
Proof.
  unfold step_calc. destruct (H s <? sum (actual s)).
  { split; [same_data0|]. right; right; eexists; reflexivity. }
  destruct (H s - sum (actual s) =? 0).
  - split; [same_data0|]. left; reflexivity.
  - destruct (add_up (prios s) (actual s) (strategic s) (reset (tactic s)) 0) as [[t picked]|]; [|apply calc_base_shape].
    destruct (picked =? H s - sum (actual s)); [|apply calc_base_shape].
    split; [same_data0|]. right; left; reflexivity.
Qed.

Lemma step_recalc_shape s proc : same_data s (step_recalc dv s proc) /\
  (pcs (step_recalc dv s proc) = Prio P2 (prios s) proc \/ pcs (step_recalc dv s proc) = EndBase proc \/
   exists e, pcs (step_recalc dv s proc) = Drain (Some e)).
Proof.
  unfold step_recalc. destruct (safe_divide (dv (ncalls s)) (useful s) (H s) (reset (tactic s))) as [t1|e].
  - destruct (safe_divide (dv (S (ncalls s))) (useful_like s t1) (sum (tactic s)) (reset t1)) as [t2|e].
    + split; [same_data0|]. proj. destruct (filled t2 (useful_like s t1)); auto.
    + split; [same_data0|]. proj. right; right; eexists; reflexivity.
  - split; [same_data0|]. proj. right; right; eexists; reflexivity.
Qed.

Lemma do_cmd_inv2 s c rest : Inv2 s -> not_send (pcs s) -> Inv2 (do_cmd dv s c rest).
Proof.
  intros [Hpre Hsub Hlim Hlen Hnd Hdr Hfin] Hn. rewrite (settled_not_send s Hn) in Hsub. rewrite (in_send_not_send _ Hn) in Hlen.
  unfold do_cmd. destruct c as [ch p|p]; constructor; unfold read_items, settled, all_drained in *; proj; auto;
    try (intros; discriminate); try (intros [E|E]; discriminate).
  - intros q. unfold upd. destruct (N.eqb_spec q p) as [->|Hne]; [discriminate|apply Hdr].
  - intros q. unfold upd. destruct (N.eqb_spec q p) as [->|Hne]; [discriminate|apply Hdr].
Qed.

Ltac nostop := let Hin := fresh "Hin" in intros Hin; repeat (apply in_app_or in Hin; destruct Hin as [Hin|Hin]);
  destruct_matches Hin; cbn [In] in Hin; repeat (destruct Hin as [Hin|Hin]; try discriminate Hin); try contradiction.

Ltac fin2 := try solve [discriminate | notsend0 | assumption | reflexivity | exact I
                       | intros [?|?]; discriminate ].

Lemma tag_eq ch p x : tag (ch, p, x) = (p, x).
Proof. reflexivity. Qed.

Theorem sched_step_inv2 o s s' : Inv2 s -> sched_step fixed dv o s = Some s' -> Inv2 s'.
Proof.
  intros Hinv Hstep. pose proof Hinv as Hinv0. destruct Hinv as [Hpre Hsub Hlim Hlen Hnd Hdr Hfin].
  unfold sched_step in Hstep. destruct (pcs s) eqn:Epc; cbv zeta in Hstep.
  - (* Top *)
    assert (Hns : not_send (pcs s)) by (rewrite Epc; fin2).
    pick_cases Hstep a Ep; [destruct a|].
    + inversion Hstep; subst. apply with_pc_inv2; auto; fin2. intros _. left. eapply pick_stop; [exact Ep|nostop].
    + destruct (cmds s) as [|c rest]; [discriminate|]. inversion Hstep; subst. now apply do_cmd_inv2.
    + destruct (fbq s) as [|p q] eqn:Efb; [discriminate|]. inversion Hstep; subst. apply pop_fb_inv2; auto; fin2.
    + destruct (fbq s) as [|p q] eqn:Efb; [discriminate|]. inversion Hstep; subst. apply pop_fb_inv2; auto; fin2.
    + destruct (fbq s) as [|p q] eqn:Efb; [discriminate|]. inversion Hstep; subst. apply pop_fb_inv2; auto; fin2.
    + inversion Hstep; subst. apply with_pc_inv2; auto; fin2.
  - (* Calc *) inversion Hstep; subst. destruct (step_calc_shape s) as [Hsd Hpc].
    apply (frame_new_pc s); auto; try (rewrite Epc; fin2);
      destruct Hpc as [E|[E|[e E]]]; rewrite E; fin2.
  - (* WaitFb *)
    assert (Hns : not_send (pcs s)) by (rewrite Epc; fin2).
    pick_cases Hstep a Ep; [destruct a|discriminate].
    + destruct fixed; inversion Hstep; subst.
      * apply (frame_new_pc s); auto; fin2. same_data0.
      * apply with_pc_inv2; auto; fin2.
    + destruct (fbq s) as [|p q] eqn:Efb; [discriminate|]. inversion Hstep; subst. apply pop_fb_inv2; auto; fin2.
    + destruct (fbq s) as [|p q] eqn:Efb; [discriminate|]. inversion Hstep; subst. apply pop_fb_inv2; auto; fin2.
    + destruct (fbq s) as [|p q] eqn:Efb; [discriminate|]. inversion Hstep; subst. apply pop_fb_inv2; auto; fin2.
    + destruct (fbq s) as [|p q] eqn:Efb; [discriminate|]. inversion Hstep; subst. apply pop_fb_inv2; auto; fin2.
  - (* Prio *)
    assert (Hns : not_send (pcs s)) by (rewrite Epc; fin2).
    destruct rest as [|p r].
    + inversion Hstep; subst. apply with_pc_inv2; auto; destruct ph; fin2.
    + inversion Hstep; subst. apply with_pc_inv2; auto; destruct (drained s p); fin2.
  - (* Read *)
    assert (Hns : not_send (pcs s)) by (rewrite Epc; fin2).
    assert (Hskip : Inv2 (with_pc s (Prio ph rest proc))) by (apply with_pc_inv2; auto; fin2).
    destruct (get (tactic s) p =? 0) eqn:Et; [inversion Hstep; subst; exact Hskip|].
    destruct (chan_state s p) as [[[[ch q] cl] bf]|] eqn:Ecs; [|inversion Hstep; subst; exact Hskip].
    apply chan_state_some in Ecs. destruct Ecs as (Ech & Eq & Ecl & Ebf).
    pick_cases Hstep a Ep; [|destruct bf; [|discriminate]; inversion Hstep; subst; exact Hskip].
    assert (Hgo : a <> AStop -> match q with x :: q' => Inv2 (pop_in s ch p x q' (Send ph p x rest proc))
                                           | [] => Inv2 (mark_drained s p (Prio ph rest proc)) end).
    { intros Ha. destruct q as [|x q'].
      - (* closed and empty: drained *)
        assert (Hcl : cl = true).
        { apply pick_in in Ep. apply in_app_or in Ep. destruct Ep as [Ep|Ep].
          - destruct (stopped s); cbn [In] in Ep; [destruct Ep as [Ep|[]]; congruence|contradiction].
          - destruct cl; [reflexivity|contradiction]. }
        constructor; unfold read_items, settled, all_drained in *; proj; auto; try (rewrite Epc in *; assumption); fin2.
        intros p0. unfold upd. destruct (N.eqb_spec p0 p) as [->|Hne]; [|apply Hdr].
        intros _. exists ch. repeat split; congruence.
      - (* an item is read *)
        rewrite (settled_not_send s Hns) in Hsub. cbn [in_send] in Hlen.
        constructor; unfold settled; proj; auto.
        + intros ch0. unfold read_items, updn in *; proj. cbn [filter fst]. rewrite (Nat.eqb_sym ch0 ch).
          destruct (Nat.eqb_spec ch ch0) as [<-|Hne]; [|apply Hpre].
          cbn [map rev snd]. rewrite <- app_assoc. cbn [app]. rewrite Eq. apply Hpre.
        + intros ph0 p0 x0 r0 n0 E. inversion E; subst. eexists; eexists; reflexivity.
        + cbn [length in_send]. lia.
        + intros p0 Hd0. destruct (Hdr p0 Hd0) as [ch0 (E1 & E2 & E3)]. exists ch0. repeat split; auto.
          unfold updn. destruct (Nat.eqb_spec ch0 ch) as [->|Hne]; auto. rewrite <- Eq in E3. discriminate.
        + fin2. }
    destruct a; try (inversion Hstep; subst; exact Hskip);
      (assert (Hgo' := Hgo ltac:(discriminate)); destruct q as [|x q']; inversion Hstep; subst; exact Hgo').
  - (* Send *)
    destruct (Hlim _ _ _ _ _ eq_refl) as [ch [rs Ers]].
    unfold settled in Hsub. rewrite Epc, Ers in Hsub. cbn [tl] in Hsub. cbn [in_send] in Hlen.
    pick_cases Hstep a Ep; [|discriminate].
    assert (Hpush : Inv2 (push_out s p x (Read ph p rest (proc + 1) false))).
    { constructor; unfold settled; proj; auto; fin2.
      - rewrite Ers. cbn [map rev]. rewrite tag_eq. apply sublist_app; auto. apply sublist_refl.
      - rewrite app_length. cbn [length in_send]. lia. }
    destruct a; inversion Hstep; subst; try exact Hpush.
    assert (Hst : stopped s = true).
    { eapply pick_stop; [exact Ep|]. destruct (N.of_nat (length (outq s)) <? outcap s); cbn [In]; [intros [E|[]]; discriminate|tauto]. }
    constructor; unfold settled; proj; auto; fin2.
    + rewrite Ers. cbn [map rev]. apply sublist_app_r. exact Hsub.
    + cbn [length in_send]. lia.
    + rewrite Hst. discriminate.
  - (* Recalc *)
    inversion Hstep; subst. destruct (step_recalc_shape s proc) as [Hsd Hpc].
    apply (frame_new_pc s); auto; try (rewrite Epc; fin2);
      destruct Hpc as [E|[E|[e E]]]; rewrite E; fin2.
  - (* EndBase *)
    assert (Hns : not_send (pcs s)) by (rewrite Epc; fin2).
    destruct (proc =? 0).
    + destruct (graceful s && forallb (drained s) (prios s)) eqn:Ef; inversion Hstep; subst; apply with_pc_inv2; auto; fin2.
      intros _. right. apply andb_prop in Ef. destruct Ef as [Eg Ef]. split; auto. rewrite forallb_forall in Ef. exact Ef.
    + inversion Hstep; subst; apply with_pc_inv2; auto; fin2.
  - (* Idle *) discriminate.
  - (* LimFb *)
    assert (Hns : not_send (pcs s)) by (rewrite Epc; fin2).
    destruct k as [|k].
    + inversion Hstep; subst. apply with_pc_inv2; auto; fin2.
    + pick_cases Hstep a Ep; [destruct a|]; try (inversion Hstep; subst; apply with_pc_inv2; auto; fin2);
        (destruct (fbq s) as [|p q] eqn:Efb; [discriminate|]; inversion Hstep; subst; apply pop_fb_inv2; auto; fin2).
  - (* Drain *)
    assert (Hns : not_send (pcs s)) by (rewrite Epc; fin2).
    assert (Ha : forall c, c = Drain e \/ c = Done e -> c = Drain None \/ c = Done None -> stopped s = true \/ all_drained s).
    { intros c Hc Hn. apply Hfin. left. destruct Hc as [->| ->]; destruct Hn as [E|E]; inversion E; reflexivity. }
    destruct (sum (actual s) =? 0) eqn:Ez.
    + inversion Hstep; subst. apply with_pc_inv2; auto; fin2. apply Ha; auto.
    + pick_cases Hstep a Ep; [|discriminate].
      destruct a; try (destruct (fbq s) as [|p q] eqn:Efb; [discriminate|]; inversion Hstep; subst; apply pop_fb_inv2; auto; fin2; apply Ha; auto).
      inversion Hstep; subst. apply with_pc_inv2; auto; fin2. apply Ha; auto.
  - discriminate.
Qed.

Theorem env_step_inv2 s op s' : Inv2 s -> env_step s op = Some s' -> Inv2 s'.
Proof.
  intros Hinv Hstep. pose proof Hinv as Hinv0. destruct Hinv as [Hpre Hsub Hlim Hlen Hnd Hdr Hfin].
  destruct op as [ch x|ch| |p| | | |ch p bf|p]; cbn [env_step] in Hstep.
  - destruct (closed s ch) eqn:Ecl; inversion Hstep; subst.
    constructor; unfold read_items, settled, all_drained in *; proj; auto.
    + intros ch0. unfold updn. destruct (Nat.eqb_spec ch0 ch) as [->|Hne]; [|apply Hpre]. rewrite app_assoc. rewrite Hpre. reflexivity.
    + intros p0 Hd0. destruct (Hdr p0 Hd0) as [ch0 (E1 & E2 & E3)]. exists ch0. repeat split; auto.
      unfold updn. destruct (Nat.eqb_spec ch0 ch) as [->|Hne]; auto. congruence.
  - inversion Hstep; subst. constructor; unfold read_items, settled, all_drained in *; proj; auto.
    intros p0 Hd0. destruct (Hdr p0 Hd0) as [ch0 (E1 & E2 & E3)]. exists ch0. repeat split; auto.
    unfold updn. destruct (Nat.eqb ch0 ch); auto.
  - destruct (outq s) as [|px q] eqn:Eo; inversion Hstep; subst. apply (frame_same_pc s); auto. same_data0.
  - destruct (remove1 p (held s)) as [h|] eqn:Er; inversion Hstep; subst. apply (frame_same_pc s); auto. same_data0.
  - destruct (pcs s) eqn:Epc; try (inversion Hstep; subst; assumption).
    + (* Read *)
      assert (Hns : not_send (pcs s)) by (rewrite Epc; fin2).
      destruct_matches Hstep; inversion Hstep; subst; auto.
      all: apply with_pc_inv2; auto; fin2.
    + (* Idle *) inversion Hstep; subst. apply with_pc_inv2; auto; try (rewrite Epc); fin2.
  - inversion Hstep; subst. constructor; unfold read_items, settled, all_drained in *; proj; auto. discriminate.
  - inversion Hstep; subst. constructor; unfold read_items, settled, all_drained in *; proj; auto.
    intros Hf. destruct (Hfin Hf) as [Hs|[Hg Ha]]; auto.
  - inversion Hstep; subst. apply (frame_same_pc s); auto. same_data0.
  - inversion Hstep; subst. apply (frame_same_pc s); auto. same_data0.
Qed.

Lemma reachable_inv2 s0 s : Init1 s0 -> reachable fixed dv s0 s -> Inv2 s.
Proof.
  intros I Hr. induction Hr as [|s o s' Hr IH Hs|s op s' Hr IH Hs].
  - now apply Init1_Inv2.
  - eapply sched_step_inv2; eauto.
  - eapply env_step_inv2; eauto.
Qed.

Theorem prio1_consumed_prefix : forall s0 s, Init1 s0 -> reachable fixed dv s0 s -> forall ch, read_items s ch ++ inq s ch = written s ch.
Proof. intros s0 s I Hr. apply (j_prefix s). eapply reachable_inv2; eauto. Qed.

(* what was delivered is an in-order sub-sequence of what was read; the gaps are exactly the dropped items and the item in limbo *)
Theorem prio1_delivered_subsequence : forall s0 s, Init1 s0 -> reachable fixed dv s0 s ->
  sublist (delivered s) (rev (map (fun r => (snd (fst r), snd r)) (reads s))).
Proof.
  intros s0 s I Hr. destruct (reachable_inv2 _ _ I Hr) as [Hpre Hsub Hlim Hlen Hnd Hdr Hfin].
  change (fun r : nat * N * N => (snd (fst r), snd r)) with tag.
  unfold settled in Hsub. destruct (pcs s) eqn:Epc; auto.
  destruct (Hlim _ _ _ _ _ eq_refl) as [ch [rs Ers]]. rewrite Ers in *. cbn [tl] in Hsub. cbn [map rev].
  now apply sublist_app_r.
Qed.

Theorem prio1_tagged : forall s0 s, Init1 s0 -> reachable fixed dv s0 s ->
  forall p x, In (p, x) (delivered s) -> exists ch, In (ch, p, x) (reads s).
Proof.
  intros s0 s I Hr p x Hin. pose proof (prio1_delivered_subsequence _ _ I Hr) as Hsub.
  apply (sublist_in _ _ _ Hsub) in Hin. apply in_rev in Hin. apply in_map_iff in Hin.
  destruct Hin as [[[ch p0] x0] [E Hin]]. cbn [fst snd] in E. inversion E; subst. exists ch. exact Hin.
Qed.

Theorem prio1_nothing_lost_without_stop : forall s0 s, Init1 s0 -> reachable fixed dv s0 s -> stopped s = false -> dropped s = [].
Proof. intros s0 s I Hr. apply (j_nodrop s). eapply reachable_inv2; eauto. Qed.

Theorem prio1_read_accounting : forall s0 s, Init1 s0 -> reachable fixed dv s0 s ->
  length (reads s) = (length (delivered s) + length (dropped s) + match pcs s with Send _ _ _ _ _ => 1 | _ => 0 end)%nat.
Proof. intros s0 s I Hr. apply (j_len s). eapply reachable_inv2; eauto. Qed.

(* a drained input is a registered, closed and empty channel *)
Theorem prio1_drained_closed_empty : forall s0 s, Init1 s0 -> reachable fixed dv s0 s ->
  forall p, drained s p = true -> exists ch, chan_of s p = Some ch /\ closed s ch = true /\ inq s ch = [].
Proof. intros s0 s I Hr. apply (j_drained s). eapply reachable_inv2; eauto. Qed.

(* ---------- C07 (v1) / C16: termination ---------- *)
Lemma length_zero_nil {A} (l : list A) : N.of_nat (length l) = 0 -> l = [].
Proof. destruct l; [reflexivity|]. cbn [length]. rewrite Nat2N.inj_succ. lia. Qed.

Theorem prio1_done_without_stop : forall s0 s e, Init1 s0 -> reachable fixed dv s0 s -> pcs s = Done e -> stopped s = false ->
  sum (actual s) = 0 /\ outq s = [] /\ held s = [] /\ fbq s = [] /\
  (e = None -> graceful s = true /\ forall p, In p (prios s) -> drained s p = true).
Proof.
  intros s0 s e I Hr Hpc Hst. pose proof (reachable_inv _ _ I Hr) as Hinv. inv_fields Hinv.
  destruct (reachable_inv2 _ _ I Hr) as [Hpre Hsub Hlim Hlen Hnd Hdr Hfin].
  assert (Hz : sum (actual s) = 0) by (destruct (Hdone e Hpc) as [E|E]; [congruence|exact E]).
  unfold inflight in Hsum.
  split; [exact Hz|]. repeat split; try (apply length_zero_nil; lia).
  - subst e. destruct (Hfin (or_intror Hpc)) as [E|[Hg _]]; [congruence|exact Hg].
  - subst e. destruct (Hfin (or_intror Hpc)) as [E|[_ Ha]]; [congruence|exact Ha].
Qed.

(* with or without a stop: a normal end (nil error) that was not forced by Stop means GracefulStop + all inputs drained,
   and a drained input is a registered, closed and empty channel (prio1_drained_closed_empty) *)
Theorem prio1_done_graceful_exactly : forall s0 s, Init1 s0 -> reachable fixed dv s0 s -> pcs s = Done None -> stopped s = false ->
  forall p, In p (prios s) -> exists ch, chan_of s p = Some ch /\ closed s ch = true /\ inq s ch = [].
Proof.
  intros s0 s I Hr Hpc Hst p Hp. destruct (prio1_done_without_stop _ _ _ I Hr Hpc Hst) as (_ & _ & _ & _ & Hd).
  destruct (Hd eq_refl) as [_ Ha]. eapply prio1_drained_closed_empty; eauto.
Qed.

Theorem prio1_done_is_final : forall o s e, pcs s = Done e -> sched_step fixed dv o s = None.
Proof. intros o s e Hpc. unfold sched_step. rewrite Hpc. reflexivity. Qed.

(* C16 liveness, stop-preferring resolution (oracle 0 puts the stop alternative first): once stopped the scheduler is never
   blocked, except in the idle sleep which needs the clock *)
Theorem prio1_stop_never_blocked : forall s, stopped s = true -> (forall e, pcs s <> Done e) -> pcs s <> Idle ->
  exists s', sched_step fixed dv 0 s = Some s'.
Proof.
  intros s Hst Hnd Hni. unfold sched_step. rewrite Hst. destruct (pcs s) eqn:Epc; cbn [app]; rewrite ?pick_first; eauto.
  - destruct fixed; eauto.
  - destruct rest; eauto.
  - destruct (get (tactic s) p =? 0); eauto; destruct (chan_state s p) as [[[[ch q] cl] bf]|]; eauto;
    cbn [app]; rewrite ?pick_first; eauto.
  - destruct (proc =? 0); eauto. destruct (graceful s && forallb (drained s) (prios s)); eauto.
  - exfalso. apply Hni. reflexivity.
  - destruct k; eauto; cbn [app]; rewrite ?pick_first; eauto.
  - destruct (sum (actual s) =? 0); eauto.
  - exfalso. eapply Hnd; reflexivity.
Qed.

(* the scheduler alone, selects resolved by oracle 0; the clock ticks when it sleeps or waits for the interrupter *)
Definition auto_step (s : st) : option st :=
  match sched_step fixed dv 0 s with
  | Some s' => Some s'
  | None => match pcs s with Idle | Read _ _ _ _ _ => env_step s Tick | _ => None end
  end.
Fixpoint iter_auto (n : nat) (s : st) : option st :=
  match n with O => Some s | S n' => match auto_step s with Some s' => iter_auto n' s' | None => None end end.

Lemma iter_auto_reachable n : forall s0 s s', reachable fixed dv s0 s -> iter_auto n s = Some s' -> reachable fixed dv s0 s'.
Proof.
  induction n as [|n IH]; intros s0 s s' Hr Hit; cbn [iter_auto] in Hit.
  - inversion Hit; subst; auto.
  - destruct (auto_step s) as [s1|] eqn:Ea; [|discriminate]. eapply IH; [|exact Hit].
    unfold auto_step in Ea. destruct (sched_step fixed dv 0 s) as [s2|] eqn:Es.
    + inversion Ea; subst. eapply r_sched; eauto.
    + destruct (pcs s); try discriminate; eapply r_env; eauto.
Qed.

Definition stop_bound (s : st) : nat :=
  let L := length (prios s) in
  match pcs s with
  | Done _ => 0 | Drain _ => 1 | Top => 2 | LimFb _ => 3 | Idle => 4 | EndBase _ => 5
  | Prio P2 r _ => 2 * length r + 6
  | Read P2 _ r _ _ => 2 * length r + 7
  | Send P2 _ _ r _ => 2 * length r + 8
  | Recalc _ => 2 * L + 7
  | Prio P1 r _ => 2 * length r + 2 * L + 8
  | Read P1 _ r _ _ => 2 * length r + 2 * L + 9
  | Send P1 _ _ r _ => 2 * length r + 2 * L + 10
  | WaitFb => 4 * L + 9
  | Calc => 4 * L + 10
  end%nat.

Lemma auto_step_stop s : fixed = true -> stopped s = true -> (forall e, pcs s <> Done e) ->
  exists s', auto_step s = Some s' /\ stopped s' = true /\ (stop_bound s' < stop_bound s)%nat.
Proof.
  intros Hfx Hst Hnd. unfold auto_step, sched_step. rewrite Hst. destruct (pcs s) eqn:Epc; cbn [app]; rewrite ?pick_first.
  - (* Top *) eexists; split; [reflexivity|]. split; [exact Hst|]. unfold stop_bound; proj. rewrite Epc. lia.
  - (* Calc *) eexists; split; [reflexivity|]. destruct (step_calc_shape s) as [(Ep & _ & _ & _ & _ & Est & _) Hpc].
    split; [congruence|]. unfold stop_bound. rewrite Ep, Epc.
    destruct Hpc as [E|[E|[e E]]]; rewrite E; lia.
  - (* WaitFb *) rewrite Hfx. eexists; split; [reflexivity|]. split; [exact Hst|]. unfold stop_bound; proj. rewrite Epc. lia.
  - (* Prio *)
    destruct rest as [|p r]; (eexists; split; [reflexivity|]; split; [exact Hst|]); unfold stop_bound; proj; rewrite Epc.
    + destruct ph; lia.
    + destruct (drained s p); destruct ph; cbn [length]; lia.
  - (* Read *)
    assert (Hgo : exists s', Some (with_pc s (Prio ph rest proc)) = Some s' /\ stopped s' = true /\ (stop_bound s' < stop_bound s)%nat).
    { eexists; split; [reflexivity|]. split; [exact Hst|]. unfold stop_bound; proj. rewrite Epc. destruct ph; lia. }
    destruct (get (tactic s) p =? 0); [exact Hgo|]. destruct (chan_state s p) as [[[[ch q] cl] bf]|]; [|exact Hgo].
    cbn [app]. rewrite ?pick_first. exact Hgo.
  - (* Send *) eexists; split; [reflexivity|]. split; [exact Hst|]. unfold stop_bound; proj. rewrite Epc. destruct ph; lia.
  - (* Recalc *) eexists; split; [reflexivity|]. destruct (step_recalc_shape s proc) as [(Ep & _ & _ & _ & _ & Est & _) Hpc].
    split; [congruence|]. unfold stop_bound. rewrite Ep, Epc.
    destruct Hpc as [E|[E|[e E]]]; rewrite E; lia.
  - (* EndBase *)
    destruct (proc =? 0); [destruct (graceful s && forallb (drained s) (prios s))|];
      (eexists; split; [reflexivity|]; split; [exact Hst|]); unfold stop_bound; proj; rewrite Epc; lia.
  - (* Idle *) cbn [env_step]. rewrite Epc. eexists; split; [reflexivity|]. split; [exact Hst|]. unfold stop_bound; proj. rewrite Epc. lia.
  - (* LimFb *)
    destruct k as [|k]; [|cbn [app]; rewrite ?pick_first];
      (eexists; split; [reflexivity|]; split; [exact Hst|]); unfold stop_bound; proj; rewrite Epc; lia.
  - (* Drain *)
    destruct (sum (actual s) =? 0); (eexists; split; [reflexivity|]; split; [exact Hst|]); unfold stop_bound; proj; rewrite Epc; lia.
  - exfalso. eapply Hnd; reflexivity.
Qed.

Lemma stop_terminates_gen : fixed = true -> forall n s, (stop_bound s <= n)%nat -> stopped s = true ->
  exists k s' e, (k <= stop_bound s)%nat /\ iter_auto k s = Some s' /\ pcs s' = Done e.
Proof.
  intros Hfx. induction n as [|n IH]; intros s Hb Hst.
  - assert (Hd : (exists e, pcs s = Done e) \/ (forall e, pcs s <> Done e)) by (destruct (pcs s); eauto; right; intros; discriminate).
    destruct Hd as [[e He]|Hd].
    + exists 0%nat, s, e. repeat split; auto. lia.
    + destruct (auto_step_stop s Hfx Hst Hd) as [s1 (_ & _ & Hlt)]. lia.
  - assert (Hd : (exists e, pcs s = Done e) \/ (forall e, pcs s <> Done e)) by (destruct (pcs s); eauto; right; intros; discriminate).
    destruct Hd as [[e He]|Hd].
    + exists 0%nat, s, e. repeat split; auto. lia.
    + destruct (auto_step_stop s Hfx Hst Hd) as [s1 (Ha & Hst1 & Hlt)].
      destruct (IH s1 ltac:(lia) Hst1) as [k [s' [e (Hk & Hit & Hpc)]]].
      exists (S k), s', e. repeat split; [lia| |exact Hpc]. cbn [iter_auto]. rewrite Ha. exact Hit.
Qed.

(* ... and with the REPAIRED code it terminates within an explicit bound (at most 4 * number of inputs + 10 steps), from every
   stopped state, with no environment step except the clock *)
Theorem prio1_stop_terminates : fixed = true -> forall s0 s, Init1 s0 -> reachable fixed dv s0 s -> stopped s = true ->
  exists n s' e, (n <= stop_bound s)%nat /\ iter_auto n s = Some s' /\ pcs s' = Done e.
Proof. intros Hfx s0 s _ _ Hst. eapply stop_terminates_gen; eauto. Qed.

(* ---------- the priorities still to visit are a suffix of the configured list; the stop bound is linear ---------- *)
Definition suffix (r l : list N) : Prop := exists pre, l = pre ++ r.
Definition rest_ok (s : st) : Prop :=
  match pcs s with
  | Prio _ r _ => suffix r (prios s)
  | Read _ p r _ _ | Send _ p _ r _ => suffix (p :: r) (prios s)
  | _ => True
  end.

Ltac solve_suffix :=
  first [ exact I | assumption | exists []; reflexivity
        | match goal with Hx : suffix (?p :: ?r) ?l |- suffix ?r ?l =>
            let pre := fresh "pre" in let E := fresh "E" in
            destruct Hx as [pre E]; exists (pre ++ [p]); rewrite <- app_assoc; exact E end ].

Lemma sched_step_rest o s s' : rest_ok s -> sched_step fixed dv o s = Some s' -> rest_ok s'.
Proof.
  intros Hok Hs. unfold rest_ok in Hok. unfold sched_step, step_calc, calc_base, step_recalc, do_cmd in Hs.
  destruct (pcs s) eqn:Epc; destruct_matches Hs; try discriminate; inversion Hs; subst; unfold rest_ok; proj; solve_suffix.
Qed.

Lemma env_step_rest s op s' : rest_ok s -> env_step s op = Some s' -> rest_ok s'.
Proof.
  intros Hok Hs. unfold rest_ok in Hok. unfold env_step in Hs.
  destruct (pcs s) eqn:Epc; destruct_matches Hs; try discriminate; inversion Hs; subst; unfold rest_ok; proj;
    rewrite ?Epc; solve_suffix.
Qed.

Lemma reachable_rest s0 s : Init1 s0 -> reachable fixed dv s0 s -> rest_ok s.
Proof.
  intros I Hr. induction Hr as [|s o s' Hr IH Hs|s op s' Hr IH Hs].
  - unfold rest_ok. rewrite (in_pc s0 I). exact Logic.I.
  - eapply sched_step_rest; eauto.
  - eapply env_step_rest; eauto.
Qed.

(* the branch "no entry for the priority" of io()/iou() is dead code: every priority being served has an input *)
Theorem prio1_read_has_channel : forall s0 s, Init1 s0 -> reachable fixed dv s0 s ->
  forall ph p r n i, pcs s = Read ph p r n i -> In p (prios s) /\ exists ch, chan_of s p = Some ch.
Proof.
  intros s0 s I Hr ph p r n i Hpc. pose proof (reachable_rest _ _ I Hr) as Hok. unfold rest_ok in Hok. rewrite Hpc in Hok.
  destruct Hok as [pre E].
  assert (Hin : In p (prios s)) by (rewrite E; apply in_or_app; right; left; reflexivity).
  split; auto. apply (i_chan s (reachable_inv _ _ I Hr)) in Hin. destruct (chan_of s p) as [ch|]; [eauto|congruence].
Qed.

Theorem prio1_stop_bound_linear : forall s0 s, Init1 s0 -> reachable fixed dv s0 s ->
  (stop_bound s <= 4 * length (prios s) + 10)%nat.
Proof.
  intros s0 s I Hr. pose proof (reachable_rest _ _ I Hr) as Hok. unfold rest_ok in Hok. unfold stop_bound.
  destruct (pcs s) eqn:Epc; try lia; destruct Hok as [pre E]; rewrite E, app_length; cbn [length]; destruct ph; lia.
Qed.

(* ---------- the list of priorities stays sorted, highest first ---------- *)
Lemma sched_step_sorted o s s' : NoDup (prios s) -> desc (prios s) -> sched_step fixed dv o s = Some s' -> desc (prios s').
Proof.
  intros ND Hd Hs. unfold sched_step, step_calc, calc_base, step_recalc, do_cmd in Hs.
  destruct_matches Hs; try discriminate; inversion Hs; subst; proj; auto.
  - apply desc_sort. apply nodup_snoc; auto. now apply not_existsb_in.
  - now apply StronglySorted_filter.
Qed.
Lemma env_step_prios s op s' : env_step s op = Some s' -> prios s' = prios s.
Proof. intros Hs. unfold env_step in Hs. destruct_matches Hs; try discriminate; inversion Hs; subst; reflexivity. Qed.

Theorem prio1_inputs_sorted : forall s0 s, Init1 s0 -> StronglySorted N.gt (prios s0) -> reachable fixed dv s0 s ->
  StronglySorted N.gt (prios s).
Proof.
  intros s0 s I Hd Hr. induction Hr as [|s o s' Hr IH Hs|s op s' Hr IH Hs]; auto.
  - eapply sched_step_sorted; eauto. apply (i_ndp s). eapply reachable_inv; eauto.
  - rewrite (env_step_prios _ _ _ Hs). exact IH.
Qed.
Lemma init_state_sorted cfg h bufs ocap : NoDup (map fst cfg) -> StronglySorted N.gt (prios (init_state dv cfg h bufs ocap)).
Proof. intros ND. cbn. now apply desc_sort. Qed.

End Proofs.

Print Assumptions prio1_accounting.
Print Assumptions prio1_capacity.
Print Assumptions prio1_never_quantity_exceeded.
Print Assumptions prio1_round_budget.
Print Assumptions prio1_inputs_wf.
Print Assumptions prio1_add_effect.
Print Assumptions prio1_remove_effect.
Print Assumptions prio1_read_registered.
Print Assumptions prio1_unregistered_not_read.
Print Assumptions prio1_add_sorted.
Print Assumptions prio1_remove_sorted.
Print Assumptions prio1_remove_effect_more.
Print Assumptions prio1_consumed_prefix.
Print Assumptions prio1_delivered_subsequence.
Print Assumptions prio1_tagged.
Print Assumptions prio1_nothing_lost_without_stop.
Print Assumptions prio1_read_accounting.
Print Assumptions prio1_drained_closed_empty.
Print Assumptions prio1_done_without_stop.
Print Assumptions prio1_done_is_final.
Print Assumptions prio1_stop_never_blocked.
Print Assumptions prio1_stop_terminates.
Print Assumptions prio1_read_has_channel.
Print Assumptions prio1_stop_bound_linear.
Print Assumptions prio1_inputs_sorted.
(* ---------- non-vacuity and the spinning of the pinned code: concrete executions with the Fair divider ---------- *)
Inductive act := Sch (o : nat) | Env (op : env_op).
Fixpoint run (fixed : bool) (dv : nat -> Divider) (l : list act) (s : st) : option st :=
  match l with
  | [] => Some s
  | a :: r => match (match a with Sch o => sched_step fixed dv o s | Env op => env_step s op end) with
              | Some s' => run fixed dv r s'
              | None => None
              end
  end.
Lemma run_reachable fixed dv l : forall s0 s s', reachable fixed dv s0 s -> run fixed dv l s = Some s' -> reachable fixed dv s0 s'.
Proof.
  induction l as [|a r IH]; intros s0 s s' Hr Hrun; cbn [run] in Hrun.
  - inversion Hrun; subst; auto.
  - destruct a as [o|op].
    + destruct (sched_step fixed dv o s) as [s1|] eqn:E; [|discriminate]. eapply IH; [|exact Hrun]. eapply r_sched; eauto.
    + destruct (env_step s op) as [s1|] eqn:E; [|discriminate]. eapply IH; [|exact Hrun]. eapply r_env; eauto.
Qed.

Definition dv_example : nat -> Divider := fun _ => fair.
Lemma dv_example_wf : forall k ps n d, NoDup (keys d) -> NoDup (keys (dv_example k ps n d)).
Proof. intros k ps n d ND. unfold dv_example, fair. destruct ps; auto. apply fair_loop_keys; auto. Qed.

(* the pinned code spins after a Stop that arrives while all handlers are busy: one priority, H = 1, the single item is taken
   and never released; the scheduler waits for a feedback; Stop() -> Calc -> WaitFb -> Calc -> ... *)
Definition spin_s0 : st := init_state dv_example [(1, 0%nat)] 1 (fun _ => true) 1.
Definition spin_script : list act :=
  [Env (Put 0 7); Sch 0; Sch 0; Sch 0; Sch 0; Sch 0; Env Take;
   Sch 0; Sch 0; Sch 0; Sch 0; Sch 0; Sch 0; Sch 0; Sch 0; Sch 0; Sch 0; Env StopCall].
Definition spin_s : st := Eval vm_compute in match run false dv_example spin_script spin_s0 with Some s => s | None => spin_s0 end.
Lemma spin_run fixed : run fixed dv_example spin_script spin_s0 = Some spin_s.
Proof. destruct fixed; vm_compute; reflexivity. Qed.
Lemma spin_init : Init1 spin_s0.
Proof. apply init_state_Init1; [apply dv_example_wf|]. cbn. constructor; [intros []|constructor]. Qed.

Definition spinning (s : st) : Prop :=
  stopped s = true /\ fbq s = [] /\ sum (actual s) = H s /\ (pcs s = Calc \/ pcs s = WaitFb).

Lemma spinning_step dv s : spinning s -> exists s', auto_step false dv s = Some s' /\ spinning s'.
Proof.
  intros (Hst & Hfb & Hsum & [Hpc|Hpc]); unfold auto_step, sched_step; rewrite Hpc.
  - unfold step_calc. rewrite Hsum, N.ltb_irrefl, N.sub_diag. cbn [N.eqb].
    eexists; split; [reflexivity|]. unfold spinning; cbn; auto.
  - rewrite Hst, Hfb. cbn [app]. rewrite pick_first.
    eexists; split; [reflexivity|]. unfold spinning; cbn; auto.
Qed.

Lemma spinning_forever dv n : forall s, spinning s -> exists s', iter_auto false dv n s = Some s' /\ spinning s'.
Proof.
  induction n as [|n IH]; intros s Hs; cbn [iter_auto].
  - exists s; auto.
  - destruct (spinning_step dv s Hs) as [s1 [Ha Hs1]]. rewrite Ha. apply IH; auto.
Qed.

Theorem prio1_stop_spins_old : forall fixed, fixed = false -> exists s0 s, Init1 s0 /\ reachable fixed dv_example s0 s /\ stopped s = true /\
  forall n, exists s', iter_auto fixed dv_example n s = Some s' /\ (pcs s' = Calc \/ pcs s' = WaitFb).
Proof.
  intros fixed ->. exists spin_s0, spin_s. split; [|split; [|split]].
  - exact spin_init.
  - exact (run_reachable false dv_example spin_script spin_s0 spin_s0 spin_s (r_init _ _ _) (spin_run false)).
  - reflexivity.
  - assert (Hs : spinning spin_s) by (unfold spinning; cbn; auto).
    intros n. destruct (spinning_forever dv_example n _ Hs) as [s' [Hit (_ & _ & _ & Hpc)]]. eauto.
Qed.
Print Assumptions prio1_stop_spins_old.

(* the same scenario with the repaired code ends *)
Example spin_fixed_ends : exists n s' e, (n <= stop_bound spin_s)%nat /\ iter_auto true dv_example n spin_s = Some s' /\ pcs s' = Done e.
Proof.
  exact (prio1_stop_terminates true dv_example eq_refl spin_s0 spin_s spin_init
           (run_reachable true dv_example spin_script spin_s0 spin_s0 spin_s (r_init _ _ _) (spin_run true)) eq_refl).
Qed.

(* a complete run: New() without inputs, AddInput(channel 5, priority 3), Put, deliver, Take, Release, RemoveInput(3), Stop() *)
Definition ex_s0 : st := init_state dv_example [] 2 (fun _ => true) 2.
Definition ex_script : list act :=
  [Env (AddCall 5 3 true); Sch 0; Env (Put 5 42); Sch 0; Sch 0; Sch 0; Sch 0; Env Take; Env (Release 3);
   Sch 0; Sch 0; Sch 0; Sch 0; Sch 0; Sch 0; Sch 0; Sch 0; Env (RmvCall 3); Sch 0; Sch 0; Env StopCall].
Definition ex_s1 : st := Eval vm_compute in match run true dv_example ex_script ex_s0 with Some s => s | None => ex_s0 end.
Definition ex_s2 : st := Eval vm_compute in match iter_auto true dv_example 9 ex_s1 with Some s => s | None => ex_s0 end.
Lemma ex_init : Init1 ex_s0.
Proof. apply init_state_Init1; [apply dv_example_wf|]. cbn. constructor. Qed.
Example ex_run1 : run true dv_example ex_script ex_s0 = Some ex_s1.
Proof. vm_compute; reflexivity. Qed.
Example ex_run2 : iter_auto true dv_example 9 ex_s1 = Some ex_s2.
Proof. vm_compute; reflexivity. Qed.
Example ex_reach : reachable true dv_example ex_s0 ex_s2 /\
  delivered ex_s2 = [(3, 42)] /\ reads ex_s2 = [(5%nat, 3, 42)] /\ dropped ex_s2 = [] /\ written ex_s2 5%nat = [42] /\
  prios ex_s1 = [] /\ chan_of ex_s1 3 = None /\ stopped ex_s1 = true /\ pcs ex_s1 = Calc /\ stop_bound ex_s1 = 10%nat /\
  pcs ex_s2 = Done None /\ sum (actual ex_s2) = 0.
Proof.
  split.
  - exact (iter_auto_reachable true dv_example 9 ex_s0 ex_s1 ex_s2
             (run_reachable true dv_example ex_script ex_s0 ex_s0 ex_s1 (r_init _ _ _) ex_run1) ex_run2).
  - cbn. repeat split; reflexivity.
Qed.

(* an item is dropped by Stop(): output capacity 1, two items; the second one waits in send() when Stop() arrives *)
Definition dr_s0 : st := init_state dv_example [(3, 5%nat)] 2 (fun _ => true) 1.
Definition dr_script : list act :=
  [Env (Put 5 42); Env (Put 5 43); Sch 0; Sch 0; Sch 0; Sch 0; Sch 0; Sch 0; Env StopCall; Sch 0].
Definition dr_s1 : st := Eval vm_compute in match run true dv_example dr_script dr_s0 with Some s => s | None => dr_s0 end.
Example dr_run : run true dv_example dr_script dr_s0 = Some dr_s1.
Proof. vm_compute; reflexivity. Qed.
Example dr_reach : reachable true dv_example dr_s0 dr_s1 /\
  delivered dr_s1 = [(3, 42)] /\ reads dr_s1 = [(5%nat, 3, 43); (5%nat, 3, 42)] /\ dropped dr_s1 = [(3, 43)] /\
  written dr_s1 5%nat = [42; 43] /\ inq dr_s1 5%nat = [] /\ pcs dr_s1 = Read P1 3 [] 1 false.
Proof.
  split.
  - exact (run_reachable true dv_example dr_script dr_s0 dr_s0 dr_s1 (r_init _ _ _) dr_run).
  - cbn. repeat split; reflexivity.
Qed.
Print Assumptions ex_reach.
Print Assumptions dr_reach.
Print Assumptions spin_fixed_ends.
