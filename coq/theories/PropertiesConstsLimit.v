(* Property theorems: the constants of the models are the constants of the current Go sources (SrcConsts.v is generated from /repo on every run). *)
From Coq Require Import ZArith. From Cqos Require Import RateConv SrcConsts ConstsTieLimit.
Theorem C13_tie_optimization_interval :
  optimization_interval = v2_limit_optimization_interval.
Proof. exact @tie_limit_optimization_interval. Qed.
Print Assumptions C13_tie_optimization_interval.

