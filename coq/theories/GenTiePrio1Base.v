(* Tie lemmas, part 1 of 4 (GenTiePrio1Base / Calc / Term / Inputs): the generated v1 priority discipline (GenV1Prio.v, from priority/priority.go and assist.go) versus the
   hand-written model Prio1.v / Sched.v.

   Abstraction.  `absd fr g inp strat unc us s` is the Go `Discipline` value that the model state `s` stands for:
     dsc.opts.HandlersQuantity = H s        dsc.priorities = prios s
     dsc.actual = Some (actual s)           dsc.tactic = Some (tactic s)        (both maps are made by New, never nil)
     dsc.strategic = strat                  with  mitems strat = strategic s    (a v1 divider returns nil for no priorities)
     dsc.inputs = inp                       with  inputs_rel s inp              (keys = registered priorities, Drained flags)
     dsc.opts.Divider = Some g              with  g k ps d m = Divider.v1_call (dv k) ps d m   (`div_ok`)
     dsc.uncrowded = unc, dsc.useful = us   scratch slices the model does not have: extra arguments
     everything else (channels, breaker, ticker, ctx ...)  = the frame `fr`, never touched
   The world counter `w` of the generated code is the model's divider-call counter `ncalls s`.

   Two places where the code and the model differ in the *representation* of dsc.tactic (never in `get`):
   (1) calcTactic: calcTacticByAddUpToStrategic writes dsc.tactic[p] for the priorities it visits before it gives up, so
       the map that calcTacticBase resets and hands to the divider can have more (zero) keys than `reset (tactic s)` of the
       model.  `step_calc_code` (GenTiePrio1Calc.v) is the step as the code does it; it equals `Prio1.step_calc` when every listed
       priority already has a tactic entry, and is `deq` (same `get` everywhere) to it for dividers that only look at
       the map through `get` (`dv_ext`; Divider.fair and Divider.rate do: fair_deq, rate_deq).
   (2) after a divider error (ErrDividerBad / overflow of the sum after the call) the code leaves the divider's output in
       dsc.tactic, the model resets it; nothing reads dsc.tactic after an error.
   Besides, the loop runs clearActual after every select (no model step): it deletes zero entries of dsc.actual, again
   invisible to `get` and `sum` (tie_v1_clearActual).  Hence the simulation relation between code and model states is
   `st_deq` (equal up to the representation of actual and tactic); the model steps respect it (step_calc_deq,
   step_recalc_deq, do_cmd_deq, pop_fb_deq, push_out_deq) and tie_v1_calcTactic_sim / tie_v1_recalcTactic_sim are the
   ties in that form.  Examples `disagree_*` (GenTiePrio1Calc.v; one here) evaluate both sides on concrete inputs.

   This file: generic facts; the abstraction; the divider hypotheses (and that Divider.fair / Divider.rate satisfy them);
   the helper ties that calcTactic and recalcTactic share (calcDistributionQuantity, safeCalcDistributionQuantity,
   safeDivide, resetTactic, updateUncrowded, updateUseful, updateUsefulLikeUncrowded, isTacticFilled, calcVacants,
   calcTacticByAddUpToStrategic, calcTacticBase); st_deq and the model facts about it; the main theorem
   tie_v1_safeDivide; the example state shared by the other three files.  GenTiePrio1Calc.v, GenTiePrio1Term.v and
   GenTiePrio1Inputs.v import this file and not each other: a change of a Go function breaks this file only if it is
   one of the helpers above, otherwise only the file whose ties involve it. *)

From Coq Require Import List NArith ZArith Bool Lia Sorted.
From Cqos Require Import Base Divider DividerP Sched Prio1 GoSem GenV1Prio.
Import ListNotations.
Open Scope N_scope.

(* ------------------------------------------------------------------ generic facts *)


Lemma two64_modulus : two64 = u_modulus.                               Proof. reflexivity. Qed.

Lemma sort_desc_eq l : GoSem.sort_desc l = Sched.sort_desc l.
Proof.
  assert (Hi : forall x l, GoSem.insert_desc x l = Sched.insert_desc x l).
  { intros x l0; induction l0 as [|y r IH]; cbn; [reflexivity|]. now rewrite IH. }
  induction l as [|x r IH]; cbn; [reflexivity|]. now rewrite IH, Hi.
Qed.

Definition desc (l : list N) : Prop := StronglySorted N.gt l.

Lemma sort_desc_sorted l : desc l -> Sched.sort_desc l = l.
Proof.
  induction 1 as [|x r Hs IH Hf]; cbn; [reflexivity|]. rewrite IH.
  destruct r as [|y r']; cbn; [reflexivity|].
  inversion Hf as [|? ? Hxy _]; subst.
  destruct (N.ltb_spec y x); [reflexivity|lia].
Qed.

Lemma mget_mitems (m : gmap N) k : mget 0 m k = get (mitems m) k.
Proof. destruct m as [l|]; [apply aget_get|reflexivity]. Qed.

Lemma keys_map_fst (d : dist) : keys d = map fst d.
Proof. induction d as [|[k v] r IH]; cbn; congruence. Qed.

(* ---- maps that agree under `get` *)
Definition deq (a b : dist) : Prop := forall k, get a k = get b k.

Lemma deq_refl a : deq a a.                                            Proof. intros k; reflexivity. Qed.
Lemma deq_sym a b : deq a b -> deq b a.                                Proof. intros E k; symmetry; apply E. Qed.
Lemma deq_trans a b c : deq a b -> deq b c -> deq a c.                 Proof. intros E1 E2 k; now rewrite E1. Qed.
Lemma deq_reset a b : deq (reset a) (reset b).                         Proof. intros k; now rewrite !get_reset. Qed.

Lemma get_del_same d p : get (del d p) p = 0.
Proof.
  unfold del. induction d as [|[k v] r IH]; cbn [filter get fst]; [reflexivity|].
  destruct (N.eqb_spec k p) as [->|Hne]; cbn [negb]; [exact IH|].
  cbn [get]. destruct (N.eqb_spec p k); [congruence|exact IH].
Qed.

Lemma get_del_other d p q : q <> p -> get (del d p) q = get d q.
Proof.
  intros Hne. unfold del. induction d as [|[k v] r IH]; cbn [filter get fst]; [reflexivity|].
  destruct (N.eqb_spec k p) as [->|Hkp]; cbn [negb].
  - destruct (N.eqb_spec q p); [contradiction|exact IH].
  - cbn [get]. now rewrite IH.
Qed.

Lemma in_keys_del d p x : In x (keys (del d p)) <-> In x (keys d) /\ x <> p.
Proof.
  unfold del. induction d as [|[k v] r IH]; cbn [filter keys fst In]; [tauto|].
  destruct (N.eqb_spec k p) as [->|Hkp]; cbn [negb keys In]; rewrite IH; intuition congruence.
Qed.

Lemma nodup_del d p : NoDup (keys d) -> NoDup (keys (del d p)).
Proof.
  induction d as [|[k v] r IH]; intros ND; [constructor|].
  inversion ND as [|? ? Hk NDr]; subst. unfold del in *. cbn [filter fst].
  destruct (N.eqb_spec k p) as [->|Hkp]; cbn [negb keys]; auto.
  constructor; auto. intros Hin. apply (in_keys_del r p k) in Hin. tauto.
Qed.

Lemma sum_del d p : NoDup (keys d) -> sum d = get d p + sum (del d p).
Proof.
  induction d as [|[k v] r IH]; intros ND; [reflexivity|].
  inversion ND as [|? ? Hk NDr]; subst. unfold del in *. cbn [filter fst sum get].
  destruct (N.eqb_spec p k) as [->|Hpk].
  - rewrite N.eqb_refl. cbn [negb]. f_equal.
    rewrite (IH NDr), (get_notin r k Hk). reflexivity.
  - destruct (N.eqb_spec k p); [congruence|]. cbn [negb sum]. rewrite (IH NDr). lia.
Qed.

Lemma sum_deq a : forall b, NoDup (keys a) -> NoDup (keys b) -> deq a b -> sum a = sum b.
Proof.
  induction a as [|[k v] r IH]; intros b NDa NDb E.
  - cbn. induction b as [|[k' v'] r' IHb]; [reflexivity|].
    inversion NDb as [|? ? Hk NDr]; subst. cbn [sum].
    pose proof (E k') as Ek. cbn [get] in Ek. rewrite N.eqb_refl in Ek. subst v'.
    rewrite <- IHb; auto. intros x. pose proof (E x) as Ex. cbn [get] in Ex |- *.
    destruct (N.eq_dec x k') as [Hx|Hne].
    + rewrite Hx. now rewrite (get_notin r' k' Hk).
    + destruct (N.eqb_spec x k'); [contradiction|exact Ex].
  - inversion NDa as [|? ? Hk NDr]; subst. cbn [sum].
    rewrite (sum_del b k NDb). pose proof (E k) as Ek. cbn [get] in Ek. rewrite N.eqb_refl in Ek. rewrite <- Ek.
    f_equal. apply IH; auto using nodup_del.
    intros x. destruct (N.eq_dec x k) as [->|Hne].
    + now rewrite get_del_same, (get_notin r k Hk).
    + rewrite get_del_other by assumption. rewrite <- E. cbn [get].
      destruct (N.eqb_spec x k); [contradiction|reflexivity].
Qed.

(* `set` only adds the key when it is missing *)
Lemma reset_set_in d p v : In p (keys d) -> reset (set d p v) = reset d.
Proof.
  induction d as [|[k x] r IH]; cbn [keys In set reset]; [tauto|].
  destruct (N.eqb_spec p k) as [->|Hne]; cbn [reset]; [reflexivity|].
  intros [E|Hin]; [congruence|]. now rewrite IH.
Qed.

Lemma keys_set_in d p v : In p (keys d) -> keys (set d p v) = keys d.
Proof.
  induction d as [|[k x] r IH]; cbn [keys In set]; [tauto|].
  destruct (N.eqb_spec p k) as [->|Hne]; cbn [keys]; [reflexivity|].
  intros [E|Hin]; [congruence|]. now rewrite IH.
Qed.


Lemma set_app_notin a b k v : ~ In k (keys a) -> set (a ++ b) k v = a ++ set b k v.
Proof.
  induction a as [|[k' v'] r IH]; cbn [keys In app set]; intros Hn; [reflexivity|].
  destruct (N.eqb_spec k k') as [->|Hne]; [tauto|]. rewrite IH; tauto.
Qed.

Lemma reset_app a b : reset (a ++ b) = reset a ++ reset b.
Proof. induction a as [|[k v] r IH]; cbn; congruence. Qed.

Lemma keys_app a b : keys (a ++ b) = keys a ++ keys b.
Proof. induction a as [|[k v] r IH]; cbn; congruence. Qed.

Lemma reset_reset d : reset (reset d) = reset d.
Proof. induction d as [|[k v] r IH]; cbn; congruence. Qed.

Lemma zero_ltb_modulus : (0 <? u_modulus) = true.                      Proof. reflexivity. Qed.

Lemma safe_divide_inl_eq (f : Divider) ps n t r : safe_divide f ps n t = inl r -> r = f ps n t.
Proof.
  unfold safe_divide. destruct (safe_sum t); [|discriminate]. destruct (safe_sum (f ps n t)); [|discriminate].
  destruct (_ =? 0); [now intros [= <-]|]. destruct (_ =? n); [now intros [= <-]|discriminate].
Qed.

Lemma eqb_S_n n : Nat.eqb (S n) n = false.
Proof. induction n; cbn; auto. Qed.

(* ------------------------------------------------------------------ the abstraction *)


(* the fields of Discipline / Opts that the model does not have and the translated functions never touch *)
Record frame : Type := mk_frame {
  fr_ctx : opaque; fr_feedback : opaque; fr_optinputs : gmap opaque; fr_output : opaque;
  fr_breaker : opaque; fr_graceful : opaque; fr_inputAdds : opaque; fr_inputRmvs : opaque;
  fr_interrupter : opaque; fr_err : opaque }.

Definition absd (fr : frame) (g : divider_fn) (inp : gmap Input) (strat : gmap N) (unc us : list N) (s : st) : Discipline :=
  mk_Discipline
    (mk_Opts (fr_ctx fr) (Some g) (fr_feedback fr) (Prio1.H s) (fr_optinputs fr) (fr_output fr))
    (fr_breaker fr) (fr_graceful fr) inp (prios s) (fr_inputAdds fr) (fr_inputRmvs fr)
    (Some (actual s)) strat (Some (tactic s)) unc us (N.of_nat (fblimit s)) (fr_interrupter fr) (fr_err fr).

Definition with_actual (s : st) (a : dist) : st :=
  mkSt (Prio1.H s) (prios s) (strategic s) a (tactic s) (chan_of s) (drained s) (inq s) (closed s) (buffered s)
       (outq s) (outcap s) (held s) (fbq s) (fblimit s) (stopped s) (graceful s) (cmds s) (pcs s) (ncalls s)
       (delivered s) (calls s) (reads s) (dropped s) (written s).

(* dsc.inputs versus chan_of / drained: the keys are the registered priorities, the Drained flags agree.  (The identity
   of the channel is not visible in the generated code: channels are opaque.) *)
Definition inputs_rel (s : st) (inp : list (N * Input)) : Prop :=
  NoDup (map fst inp) /\
  forall p, (ahas inp p = true <-> chan_of s p <> None) /\
            (ahas inp p = true -> Input_Drained (aget zero_Input inp p) = drained s p).

(* the generated divider value is the v1 calling convention around the model divider; the model divider returns its
   argument for an empty list of priorities (Divider.fair and Divider.rate do) *)
Definition div_ok (g : divider_fn) (dv : nat -> Divider) : Prop :=
  (forall k ps d m, g k ps d m = v1_call (dv k) ps d m) /\ (forall k d m, dv k [] d m = m).

(* results of calcTactic / recalcTactic as the next program counter of the model *)
Definition err_of (e : perr) : err_V1Prio :=
  match e with
  | EQuantityExceeded => ErrQuantityExceeded
  | EDiv DividerBad => ErrDividerBad
  | EDiv SumOverflow => ErrValueOverflow
  end.

Definition res_of_pc (c : pc) : bool * option err_V1Prio :=
  match c with
  | Prio _ _ _ => (true, None)
  | Drain (Some e) => (false, Some (err_of e))
  | _ => (false, None)
  end.

Definition is_div_err (c : pc) : bool := match c with Drain (Some (EDiv _)) => true | _ => false end.

(* ------------------------------------------------------------------ association lists of inputs *)


Lemma ahas_in {T} (l : list (N * T)) k : ahas l k = true <-> In k (map fst l).
Proof.
  induction l as [|[k' v] r IH]; cbn [ahas map fst In]; [split; [discriminate|tauto]|].
  destruct (N.eqb_spec k k') as [->|Hne]; [tauto|]. rewrite IH. intuition congruence.
Qed.

Lemma ahas_aset {T} (l : list (N * T)) k v q : ahas (aset l k v) q = (N.eqb q k || ahas l q)%bool.
Proof.
  induction l as [|[k' v'] r IH]; cbn [aset ahas].
  - destruct (N.eqb q k); reflexivity.
  - destruct (N.eqb_spec k k') as [->|Hne]; cbn [ahas].
    + destruct (N.eqb q k'); reflexivity.
    + rewrite IH. destruct (N.eqb_spec q k') as [->|Hq]; [|reflexivity].
      now rewrite orb_true_r.
Qed.

Lemma map_fst_aset_notin {T} (l : list (N * T)) k v : ~ In k (map fst l) -> map fst (aset l k v) = map fst l ++ [k].
Proof.
  induction l as [|[k' v'] r IH]; cbn [aset map fst In app]; [reflexivity|].
  intros Hn. destruct (N.eqb_spec k k') as [->|Hne]; [tauto|]. cbn [map fst]. rewrite IH; tauto.
Qed.

Lemma nodup_aset {T} (l : list (N * T)) k v : NoDup (map fst l) -> NoDup (map fst (aset l k v)).
Proof.
  intros ND. destruct (in_dec N.eq_dec k (map fst l)) as [Hin|Hn].
  - now rewrite map_fst_aset_in.
  - rewrite map_fst_aset_notin by assumption.
    rewrite <- (rev_involutive (map fst l ++ [k])). apply NoDup_rev. rewrite rev_app_distr. cbn [rev app].
    constructor; [rewrite <- in_rev; assumption|now apply NoDup_rev].
Qed.

Lemma ahas_adel {T} (l : list (N * T)) k q : ahas (adel l k) q = (negb (N.eqb q k) && ahas l q)%bool.
Proof.
  unfold adel. induction l as [|[k' v'] r IH]; cbn [filter ahas fst].
  - now rewrite andb_false_r.
  - destruct (N.eqb_spec k' k) as [->|Hne]; cbn [negb ahas].
    + rewrite IH. destruct (N.eqb_spec q k); cbn [negb andb]; reflexivity.
    + rewrite IH. destruct (N.eqb_spec q k') as [->|Hq]; [|reflexivity].
      destruct (N.eqb_spec k' k); [contradiction|reflexivity].
Qed.

Lemma aget_adel_other {T} (z : T) (l : list (N * T)) k q : q <> k -> aget z (adel l k) q = aget z l q.
Proof.
  intros Hne. unfold adel. induction l as [|[k' v'] r IH]; cbn [filter aget fst]; [reflexivity|].
  destruct (N.eqb_spec k' k) as [->|Hk]; cbn [negb aget].
  - destruct (N.eqb_spec q k); [contradiction|exact IH].
  - now rewrite IH.
Qed.

Lemma nodup_adel {T} (l : list (N * T)) k : NoDup (map fst l) -> NoDup (map fst (adel l k)).
Proof.
  unfold adel. induction l as [|[k' v'] r IH]; cbn [filter map fst]; intros ND; [constructor|].
  inversion ND as [|? ? Hk NDr]; subst.
  destruct (negb (k' =? k)); cbn [map fst]; auto. constructor; auto.
  intros Hin. apply Hk. apply in_map_iff in Hin. destruct Hin as [[a b] [E Hin]]. apply filter_In in Hin.
  apply in_map_iff. exists (a, b). tauto.
Qed.

Lemma aget_in_nodup {T} (z : T) (l : list (N * T)) k v : NoDup (map fst l) -> In (k, v) l -> aget z l k = v.
Proof.
  induction l as [|[k' v'] r IH]; cbn [map fst In aget]; intros ND Hin; [contradiction|].
  inversion ND as [|? ? Hk NDr]; subst. destruct Hin as [E|Hin].
  - injection E as -> ->. now rewrite N.eqb_refl.
  - destruct (N.eqb_spec k k') as [->|Hne]; [|auto].
    exfalso. apply Hk. apply in_map_iff. exists (k', v). auto.
Qed.

(* ------------------------------------------------------------------ the built-in dividers satisfy the hypotheses *)

Lemma add_deq a b k v : deq a b -> deq (add a k v) (add b k v).
Proof.
  intros E x. destruct (N.eq_dec k x) as [->|Hne].
  - now rewrite !get_add_same, E.
  - now rewrite !get_add_other by assumption.
Qed.

Lemma fair_loop_deq ps : forall base rem a b, deq a b -> deq (fair_loop ps base rem a) (fair_loop ps base rem b).
Proof.
  induction ps as [|p r IH]; intros base rem a b E; cbn; [exact E|].
  destruct (rem =? 0); apply IH; auto using add_deq.
Qed.

Lemma fair_deq ps n a b : deq a b -> deq (fair ps n a) (fair ps n b).
Proof. intros E. unfold fair. destruct ps; [exact E|]. now apply fair_loop_deq. Qed.

Lemma fair_keys ps n d : NoDup (keys d) -> NoDup (keys (fair ps n d)).
Proof. intros ND. unfold fair. destruct ps; [exact ND|]. now apply fair_loop_keys. Qed.

Lemma rate_loop_deq part d0 S ps : forall rem a b, deq a b ->
  deq (fst (rate_loop part d0 S ps rem a)) (fst (rate_loop part d0 S ps rem b)) /\
  snd (rate_loop part d0 S ps rem a) = snd (rate_loop part d0 S ps rem b).
Proof.
  induction ps as [|p r IH]; intros rem a b E; cbn; [auto|].
  destruct (rem <? part d0 S p); cbn; [split; auto using add_deq|]. apply IH. auto using add_deq.
Qed.

Lemma rate_deq part ps n a b : deq a b -> deq (rate part ps n a) (rate part ps n b).
Proof.
  intros E. unfold rate. destruct ps as [|p0 r]; [exact E|].
  destruct (rate_loop_deq part n (sum_list (p0 :: r)) (p0 :: r) n a b E) as [E1 E2].
  destruct (rate_loop part n (sum_list (p0 :: r)) (p0 :: r) n a) as [da oa];
    destruct (rate_loop part n (sum_list (p0 :: r)) (p0 :: r) n b) as [db ob]; cbn in *. subst ob.
  destruct oa; auto using add_deq.
Qed.

(* the generated divider value that corresponds to a model divider *)
Definition v1_divfn (dv : nat -> Divider) : divider_fn := fun k ps d m => v1_call (dv k) ps d m.

Lemma div_ok_fair : div_ok (v1_divfn (fun _ => fair)) (fun _ => fair).
Proof. split; reflexivity. Qed.

Lemma div_ok_rate part : div_ok (v1_divfn (fun _ => rate part)) (fun _ => rate part).
Proof. split; reflexivity. Qed.

(* ------------------------------------------------------------------ calcDistributionQuantity, safeCalcDistributionQuantity, safeDivide *)


Lemma calcDistributionQuantity_loop l : forall m q a w,
  q + sum l < u_modulus ->
  exists a', range_loop gen_calcDistributionQuantity_loop1 l (mk_calcDistributionQuantity_vars m q a w) =
             Next (mk_calcDistributionQuantity_vars m (q + sum l) a' w).
Proof.
  induction l as [|[k v] r IH]; intros m q a w Hlt; cbn in *.
  - exists a. now rewrite N.add_0_r.
  - rewrite u_add_small by lia. destruct (IH m (q + v) v w) as [a' ->]; [lia|].
    exists a'. do 2 f_equal. lia.
Qed.

Lemma tie_calcDistributionQuantity w (l : dist) :
  sum l < u_modulus -> gen_calcDistributionQuantity w (Some l) = (w, Some l, sum l).
Proof.
  intros Hlt. unfold gen_calcDistributionQuantity. cbn.
  now destruct (calcDistributionQuantity_loop l (Some l) 0 0 w Hlt) as [a' ->].
Qed.

Lemma safeCalcDistributionQuantity_loop l : forall m q a sm w,
  q < u_modulus ->
  exists q' a' sm',
    range_loop gen_safeCalcDistributionQuantity_loop1 l (mk_safeCalcDistributionQuantity_vars m q a sm None w) =
    if q + sum l <? u_modulus
    then Next (mk_safeCalcDistributionQuantity_vars m (q + sum l) a' sm' None w)
    else Ret (mk_safeCalcDistributionQuantity_vars m q' a' sm' (Some ErrValueOverflow) w) (0, Some ErrValueOverflow).
Proof.
  induction l as [|[k v] r IH]; intros m q a sm w Hq.
  - exists q, a, sm. cbn. rewrite N.add_0_r. now apply N.ltb_lt in Hq as ->.
  - cbn [range_loop sum]. unfold gen_safeCalcDistributionQuantity_loop1 at 1. cbn [bind snd set_safeCalcDistributionQuantity_amount
      safeCalcDistributionQuantity_quantity safeCalcDistributionQuantity_amount safeCalcDistributionQuantity_distribution
      safeCalcDistributionQuantity_sum safeCalcDistributionQuantity_err safeCalcDistributionQuantity_w].
    destruct (N.ltb_spec (q + v) u_modulus) as [Hlt|Hge].
    + rewrite safe_SumInt_small by assumption. cbn.
      destruct (IH m (q + v) v (q + v) w Hlt) as (q' & a' & sm' & ->).
      exists q', a', sm'. now rewrite N.add_assoc.
    + rewrite safe_SumInt_big by assumption. cbn.
      exists q, v, 0. destruct (N.ltb_spec (q + (v + sum r)) u_modulus); [lia|reflexivity].
Qed.

Lemma tie_safeCalcDistributionQuantity w (l : dist) :
  gen_safeCalcDistributionQuantity w (Some l) =
  (w, Some l, if sum l <? u_modulus then (sum l, None) else (0, Some ErrValueOverflow)).
Proof.
  unfold gen_safeCalcDistributionQuantity. cbn.
  destruct (safeCalcDistributionQuantity_loop l (Some l) 0 0 0 w eq_refl) as (q' & a' & sm' & ->).
  cbn. now destruct (sum l <? u_modulus).
Qed.

Lemma tie_safeCalcDistributionQuantity_nil w :
  gen_safeCalcDistributionQuantity w None = (w, None, (0, None)).
Proof. reflexivity. Qed.

Section SafeDivide.
Variable dv : nat -> Divider.
Variable g : divider_fn.
Hypothesis Hok : div_ok g dv.

Lemma v1_safeDivide_tie w ps d t :
  ps <> [] \/ sum t = 0 ->
  gen_safeDivide w (Some g) ps d (Some t) =
  (if sum t <? u_modulus then S w else w,
   Some (if sum t <? u_modulus then dv w ps d t else t),
   match safe_divide (dv w) ps d t with inl _ => None | inr e => Some (err_of (EDiv e)) end).
Proof.
  destruct Hok as [Hg Hnil]. intros Hps.
  unfold gen_safeDivide, safe_divide, safe_sum. rewrite two64_modulus. cbn.
  rewrite tie_safeCalcDistributionQuantity.
  destruct (sum t <? u_modulus) eqn:Eb; cbn; [|reflexivity].
  rewrite Hg. unfold v1_call. destruct ps as [|p r].
  - cbn. rewrite tie_safeCalcDistributionQuantity_nil. cbn.
    rewrite Hnil, Eb. destruct Hps as [Hps|Hz]; [congruence|]. rewrite Hz. reflexivity.
  - set (ps := p :: r) in *. cbn. rewrite tie_safeCalcDistributionQuantity.
    destruct (sum (dv w ps d t) <? u_modulus) eqn:Ea; cbn; [|reflexivity].
    destruct (sum (dv w ps d t) =? 0) eqn:Ez; cbn; [reflexivity|].
    rewrite u_sub_eq. destruct (_ =? d); reflexivity.
Qed.

End SafeDivide.

(* ------------------------------------------------------------------ the small methods, for an arbitrary Discipline *)

(* resetTactic: every entry of the map becomes 0, the keys stay (unique keys) *)
Lemma resetTactic_loop l2 : forall l1 d p0 w,
  NoDup (keys (l1 ++ l2)) -> Discipline_tactic d = Some (reset l1 ++ l2) ->
  exists p', range_loop gen_resetTactic_loop1 l2 (mk_resetTactic_vars d p0 w) =
             Next (mk_resetTactic_vars (set_Discipline_tactic (Some (reset (l1 ++ l2))) d) p' w).
Proof.
  induction l2 as [|[k v] r IH]; intros l1 d p0 w ND Ht.
  - exists p0. destruct d. cbn in *. subst. now rewrite !app_nil_r.
  - destruct d; cbn in Ht; subst. cbn. rewrite aset_set.
    assert (Hk : ~ In k (keys (reset l1))).
    { rewrite keys_reset. rewrite keys_app in ND. apply NoDup_remove_2 in ND.
      intros Hin. apply ND. apply in_or_app. now left. }
    rewrite (set_app_notin _ _ _ _ Hk). cbn [set]. rewrite N.eqb_refl.
    match goal with |- exists p', range_loop _ _ (mk_resetTactic_vars ?d' ?p ?w') = _ =>
      destruct (IH (l1 ++ [(k, v)]) d' p w') as [p' E] end.
    + now rewrite <- app_assoc.
    + cbn. rewrite reset_app, <- app_assoc. reflexivity.
    + exists p'. rewrite E. cbn. rewrite <- app_assoc. reflexivity.
Qed.

Lemma tie_resetTactic w d t :
  Discipline_tactic d = Some t -> NoDup (keys t) ->
  gen_resetTactic w d = (w, set_Discipline_tactic (Some (reset t)) d, tt).
Proof.
  intros Ht ND. unfold gen_resetTactic. cbn. rewrite Ht. cbn.
  destruct (resetTactic_loop t [] d 0 w ND Ht) as [p' ->]. reflexivity.
Qed.

(* updateUncrowded / updateUseful / updateUsefulLikeUncrowded: filters of dsc.priorities *)
Lemma updateUncrowded_loop l : forall d p0 w a,
  Discipline_actual d = Some a ->
  exists p', range_loop gen_updateUncrowded_loop1 l (mk_updateUncrowded_vars d p0 w) =
    Next (mk_updateUncrowded_vars
            (set_Discipline_uncrowded
               (Discipline_uncrowded d ++ filter (fun p => get a p <? get (mitems (Discipline_strategic d)) p) l) d) p' w).
Proof.
  induction l as [|p r IH]; intros d p0 w a Ha.
  - exists p0. destruct d; cbn. now rewrite app_nil_r.
  - destruct d; cbn in Ha; subst. cbn. rewrite ?aget_get, ?mget_mitems.
    destruct (get a p <? _);
      (match goal with |- exists p', range_loop _ _ (mk_updateUncrowded_vars ?d' ?p1 ?w') = _ =>
         destruct (IH d' p1 w' a eq_refl) as [p' E] end);
      exists p'; rewrite E; cbn; rewrite <- ?app_assoc; reflexivity.
Qed.

Lemma tie_updateUncrowded w d a :
  Discipline_actual d = Some a ->
  gen_updateUncrowded w d =
  (w, set_Discipline_uncrowded (filter (fun p => get a p <? get (mitems (Discipline_strategic d)) p) (Discipline_priorities d)) d, tt).
Proof.
  intros Ha. unfold gen_updateUncrowded. cbn.
  destruct (updateUncrowded_loop (Discipline_priorities d) (set_Discipline_uncrowded [] d) 0 w a) as [p' E];
    [destruct d; exact Ha|].
  destruct d; cbn in *. rewrite E. reflexivity.
Qed.

Lemma updateUseful_loop l : forall d p0 w t,
  Discipline_tactic d = Some t ->
  exists p', range_loop gen_updateUseful_loop1 l (mk_updateUseful_vars d p0 w) =
    Next (mk_updateUseful_vars
            (set_Discipline_useful (Discipline_useful d ++ filter (fun p => get t p =? 0) l) d) p' w).
Proof.
  induction l as [|p r IH]; intros d p0 w t Ht.
  - exists p0. destruct d; cbn. now rewrite app_nil_r.
  - destruct d; cbn in Ht; subst. cbn. rewrite ?aget_get.
    destruct (get t p =? 0);
      (match goal with |- exists p', range_loop _ _ (mk_updateUseful_vars ?d' ?p1 ?w') = _ =>
         destruct (IH d' p1 w' t eq_refl) as [p' E] end);
      exists p'; rewrite E; cbn; rewrite <- ?app_assoc; reflexivity.
Qed.

Lemma tie_updateUseful w d t :
  Discipline_tactic d = Some t ->
  gen_updateUseful w d =
  (w, set_Discipline_useful (filter (fun p => get t p =? 0) (Discipline_priorities d)) d, tt).
Proof.
  intros Ht. unfold gen_updateUseful. cbn.
  destruct (updateUseful_loop (Discipline_priorities d) (set_Discipline_useful [] d) 0 w t) as [p' E];
    [destruct d; exact Ht|].
  destruct d; cbn in *. rewrite E. reflexivity.
Qed.

Lemma updateUsefulLikeUncrowded_loop l : forall d p0 w a t,
  Discipline_actual d = Some a -> Discipline_tactic d = Some t ->
  exists p', range_loop gen_updateUsefulLikeUncrowded_loop1 l (mk_updateUsefulLikeUncrowded_vars d p0 w) =
    Next (mk_updateUsefulLikeUncrowded_vars
            (set_Discipline_useful (Discipline_useful d ++ filter (fun p => get a p <? get t p) l) d) p' w).
Proof.
  induction l as [|p r IH]; intros d p0 w a t Ha Ht.
  - exists p0. destruct d; cbn. now rewrite app_nil_r.
  - destruct d; cbn in Ha, Ht; subst. cbn. rewrite ?aget_get.
    destruct (get a p <? get t p);
      (match goal with |- exists p', range_loop _ _ (mk_updateUsefulLikeUncrowded_vars ?d' ?p1 ?w') = _ =>
         destruct (IH d' p1 w' a t eq_refl eq_refl) as [p' E] end);
      exists p'; rewrite E; cbn; rewrite <- ?app_assoc; reflexivity.
Qed.

Lemma tie_updateUsefulLikeUncrowded w d a t :
  Discipline_actual d = Some a -> Discipline_tactic d = Some t ->
  gen_updateUsefulLikeUncrowded w d =
  (w, set_Discipline_useful (filter (fun p => get a p <? get t p) (Discipline_priorities d)) d, tt).
Proof.
  intros Ha Ht. unfold gen_updateUsefulLikeUncrowded. cbn.
  destruct (updateUsefulLikeUncrowded_loop (Discipline_priorities d) (set_Discipline_useful [] d) 0 w a t) as [p' E];
    [destruct d; exact Ha|destruct d; exact Ht|].
  destruct d; cbn in *. rewrite E. reflexivity.
Qed.

(* isTacticFilled = Prio1.filled *)
Definition isTacticFilled_obs (c : ctl isTacticFilled_vars bool) : option (nat * Discipline * option bool) :=
  match c with
  | Next v => Some (isTacticFilled_w v, isTacticFilled_dsc v, None)
  | Ret v r => Some (isTacticFilled_w v, isTacticFilled_dsc v, Some r)
  | _ => None
  end.

Lemma isTacticFilled_loop l : forall d l0 p0 w t,
  Discipline_tactic d = Some t ->
  isTacticFilled_obs (range_loop gen_isTacticFilled_loop1 l (mk_isTacticFilled_vars d l0 p0 w)) =
  Some (w, d, if filled t l then None else Some false).
Proof.
  induction l as [|p r IH]; intros d l0 p0 w t Ht; cbn; [reflexivity|].
  rewrite Ht, mget_Some. destruct (get t p =? 0); cbn; [reflexivity|]. now apply IH.
Qed.

Lemma tie_isTacticFilled w d l t :
  Discipline_tactic d = Some t -> gen_isTacticFilled w d l = (w, d, filled t l).
Proof.
  intros Ht. unfold gen_isTacticFilled. cbn.
  pose proof (isTacticFilled_loop l d l 0 w t Ht) as E.
  destruct (range_loop _ _ _) as [v|v r|v|v|v]; cbn in *; try discriminate;
    destruct (filled t l); now inversion E.
Qed.

(* calcVacants: HandlersQuantity - sum actual, or ErrQuantityExceeded *)
Lemma tie_calcVacants w d a :
  Discipline_actual d = Some a -> sum a < u_modulus -> Opts_HandlersQuantity (Discipline_opts d) < u_modulus ->
  gen_calcVacants w d =
  (w, d, if Opts_HandlersQuantity (Discipline_opts d) <? sum a then (0, Some ErrQuantityExceeded)
         else (Opts_HandlersQuantity (Discipline_opts d) - sum a, None)).
Proof.
  intros Ha Hs Hh. destruct d; cbn in *; subst. unfold gen_calcVacants. cbn.
  rewrite tie_calcDistributionQuantity by assumption. cbn.
  destruct (N.ltb_spec (Opts_HandlersQuantity Discipline_opts) (sum a)); cbn; [reflexivity|].
  rewrite u_sub_small by assumption. reflexivity.
Qed.

(* calcTacticByAddUpToStrategic, as the code does it: the tactic entries of the priorities visited so far are written *)
Fixpoint add_up_code (ps : list N) (a st t : dist) : dist :=
  match ps with
  | [] => t
  | p :: r => if get st p <? get a p then t else add_up_code r a st (set t p (get st p - get a p))
  end.

Definition add_up_ok (ps : list N) (a st : dist) : bool := forallb (fun p => negb (get st p <? get a p)) ps.

Definition add_up_sum (ps : list N) (a st : dist) : N := sum_list (map (fun p => get st p - get a p) ps).

Lemma add_up_spec ps : forall a st t pk,
  add_up ps a st t pk =
  if add_up_ok ps a st then Some (add_up_code ps a st t, pk + add_up_sum ps a st) else None.
Proof.
  induction ps as [|p r IH]; intros a st t pk; cbn.
  - now rewrite N.add_0_r.
  - destruct (get st p <? get a p); cbn; [reflexivity|]. rewrite IH.
    unfold add_up_ok, add_up_sum. destruct (forallb _ r); [|reflexivity]. now rewrite N.add_assoc.
Qed.

Lemma add_up_sum_le ps a st : add_up_sum ps a st <= sum_list (map (get st) ps).
Proof. induction ps as [|p r IH]; cbn; [lia|]. unfold add_up_sum in IH. lia. Qed.

Lemma byAddUp_loop l : forall d v pk p0 w a t st,
  Discipline_actual d = Some a -> Discipline_tactic d = Some t -> mitems (Discipline_strategic d) = st ->
  pk + sum_list (map (get st) l) < u_modulus ->
  exists pk' p',
    range_loop gen_calcTacticByAddUpToStrategic_loop1 l (mk_calcTacticByAddUpToStrategic_vars d v pk p0 w) =
    if add_up_ok l a st
    then Next (mk_calcTacticByAddUpToStrategic_vars (set_Discipline_tactic (Some (add_up_code l a st t)) d) v
                 (pk + add_up_sum l a st) p' w)
    else Ret (mk_calcTacticByAddUpToStrategic_vars (set_Discipline_tactic (Some (add_up_code l a st t)) d) v pk' p' w) false.
Proof.
  induction l as [|p r IH]; intros d v pk p0 w a t st Ha Ht Hst Hb.
  - exists pk, p0. destruct d; cbn in *; subst. now rewrite N.add_0_r.
  - destruct d; cbn in Ha, Ht, Hst; subst. cbn in Hb. cbn.
    rewrite ?aget_get, ?mget_mitems.
    destruct (get (mitems Discipline_strategic) p <? get a p) eqn:Elt; cbn.
    + exists pk, p. reflexivity.
    + apply N.ltb_ge in Elt. rewrite aget_aset_same, aset_set.
      rewrite ?aget_get, ?mget_mitems. rewrite u_sub_small by lia. rewrite u_add_small by lia.
      match goal with |- exists pk' p', range_loop _ _ (mk_calcTacticByAddUpToStrategic_vars ?d' ?v' ?pk1 ?p1 ?w') = _ =>
        destruct (IH d' v' pk1 p1 w' a (set t p (get (mitems Discipline_strategic) p - get a p)) (mitems Discipline_strategic)
                    eq_refl eq_refl eq_refl) as (pk' & p' & E) end; [lia|].
      exists pk', p'. rewrite E. cbn. rewrite N.add_assoc. reflexivity.
Qed.

#[global] Arguments add_up_ok : simpl never.
#[global] Arguments add_up_sum : simpl never.

Lemma tie_calcTacticByAddUpToStrategic w d v a t st :
  Discipline_actual d = Some a -> Discipline_tactic d = Some t -> NoDup (keys t) ->
  mitems (Discipline_strategic d) = st ->
  sum_list (map (get st) (Discipline_priorities d)) < u_modulus ->
  gen_calcTacticByAddUpToStrategic w d v =
  (w, set_Discipline_tactic (Some (add_up_code (Discipline_priorities d) a st (reset t))) d,
   add_up_ok (Discipline_priorities d) a st && (add_up_sum (Discipline_priorities d) a st =? v)).
Proof.
  intros Ha Ht ND Hst Hb. unfold gen_calcTacticByAddUpToStrategic. cbn.
  rewrite (tie_resetTactic w d t Ht ND).
  destruct d; cbn in Ha, Ht, Hst, Hb; subst. cbn.
  match goal with |- context [range_loop _ _ (mk_calcTacticByAddUpToStrategic_vars ?d' ?v' ?pk1 ?p1 ?w')] =>
    destruct (byAddUp_loop Discipline_priorities d' v' pk1 p1 w' a (reset t) (mitems Discipline_strategic)
                eq_refl eq_refl eq_refl Hb) as (pk' & p' & E) end.
  rewrite E. destruct (add_up_ok _ _ _); reflexivity.
Qed.

Lemma add_up_code_nodup ps : forall a st t, NoDup (keys t) -> NoDup (keys (add_up_code ps a st t)).
Proof.
  induction ps as [|p r IH]; intros a st t ND; cbn; [exact ND|].
  destruct (get st p <? get a p); [exact ND|]. apply IH. now apply nodup_keys_set.
Qed.

Section StepsBase.
Variable dv : nat -> Divider.
Variable g : divider_fn.
Hypothesis Hok : div_ok g dv.
Hypothesis dv_wf : forall k ps n d, NoDup (keys d) -> NoDup (keys (dv k ps n d)).
Hypothesis dv_ext : forall k ps n a b, NoDup (keys a) -> NoDup (keys b) -> deq a b -> deq (dv k ps n a) (dv k ps n b).

Lemma tie_calcTacticBase w d v a t st :
  Opts_Divider (Discipline_opts d) = Some g ->
  Discipline_actual d = Some a -> Discipline_tactic d = Some t -> NoDup (keys t) ->
  mitems (Discipline_strategic d) = st ->
  let unc := filter (fun p => get a p <? get st p) (Discipline_priorities d) in
  gen_calcTacticBase w d v =
  (S w, set_Discipline_uncrowded unc (set_Discipline_tactic (Some (dv w unc v (reset t))) d),
   match safe_divide (dv w) unc v (reset t) with
   | inl r => (filled r unc, None)
   | inr e => (false, Some (err_of (EDiv e)))
   end).
Proof.
  intros Hd Ha Ht ND Hst unc. unfold gen_calcTacticBase. cbn.
  rewrite (tie_resetTactic w d t Ht ND).
  destruct d; cbn in Hd, Ha, Ht, Hst, unc; subst. cbn.
  rewrite (tie_updateUncrowded _ _ a) by reflexivity. cbn. fold unc.
  rewrite Hd. rewrite (v1_safeDivide_tie dv g Hok) by (right; apply sum_reset).
  rewrite sum_reset, zero_ltb_modulus. cbn.
  destruct (safe_divide (dv w) unc v (reset t)) as [r|e] eqn:E; cbn; [|reflexivity].
  apply safe_divide_inl_eq in E. subst r.
  rewrite (tie_isTacticFilled _ _ _ (dv w unc v (reset t))) by reflexivity. reflexivity.
Qed.

Lemma filled_deq t1 t2 l : deq t1 t2 -> filled t1 l = filled t2 l.
Proof. intros E. unfold filled. induction l as [|p r IH]; cbn; [reflexivity|]. now rewrite E, IH. Qed.

Lemma safe_divide_deq k ps n a b :
  NoDup (keys a) -> NoDup (keys b) -> deq a b ->
  match safe_divide (dv k) ps n a, safe_divide (dv k) ps n b with
  | inl _, inl _ => True
  | inr e1, inr e2 => e1 = e2
  | _, _ => False
  end.
Proof.
  intros NDa NDb E. unfold safe_divide, safe_sum.
  rewrite (sum_deq a b NDa NDb E).
  rewrite (sum_deq (dv k ps n a) (dv k ps n b)) by auto using dv_wf, dv_ext.
  destruct (sum b <? two64); [|reflexivity].
  destruct (sum (dv k ps n b) <? two64); [|reflexivity].
  destruct (_ =? 0); [exact I|]. destruct (_ =? n); [exact I|reflexivity].
Qed.

End StepsBase.

(* ------------------------------------------------------------------ the model steps respect the representation slack *)
(* s1 is s2 with other representations of the maps actual and tactic *)
Definition st_deq (s1 s2 : st) : Prop :=
  exists a t, s1 = with_tac (with_actual s2 a) t (pcs s2) /\
              deq a (actual s2) /\ deq t (tactic s2) /\ NoDup (keys a) /\ NoDup (keys t).

Lemma st_deq_refl s : NoDup (keys (actual s)) -> NoDup (keys (tactic s)) -> st_deq s s.
Proof. intros N1 N2. exists (actual s), (tactic s). destruct s; cbn. repeat split; auto using deq_refl. Qed.

Lemma set_deq a b k v : deq a b -> deq (set a k v) (set b k v).
Proof.
  intros E x. destruct (N.eq_dec k x) as [->|Hne].
  - now rewrite !get_set_same.
  - now rewrite !get_set_other by assumption.
Qed.

Lemma add_up_deq ps : forall a1 a2 st t1 t2 pk, deq a1 a2 -> deq t1 t2 ->
  match add_up ps a1 st t1 pk, add_up ps a2 st t2 pk with
  | Some (r1, k1), Some (r2, k2) => deq r1 r2 /\ k1 = k2
  | None, None => True
  | _, _ => False
  end.
Proof.
  induction ps as [|p r IH]; intros a1 a2 st t1 t2 pk Ea Et; cbn; [auto|].
  rewrite (Ea p). destruct (get st p <? get a2 p); [exact I|]. apply IH; auto using set_deq.
Qed.

Lemma add_up_nodup ps a st t pk r k : add_up ps a st t pk = Some (r, k) -> NoDup (keys t) -> NoDup (keys r).
Proof.
  rewrite add_up_spec. destruct (add_up_ok ps a st); [|discriminate]. intros [= <- _] ND. now apply add_up_code_nodup.
Qed.

Section Congruence.
Variable dv : nat -> Divider.
Hypothesis dv_wf : forall k ps n d, NoDup (keys d) -> NoDup (keys (dv k ps n d)).
Hypothesis dv_ext : forall k ps n a b, NoDup (keys a) -> NoDup (keys b) -> deq a b -> deq (dv k ps n a) (dv k ps n b).

Lemma safe_divide_deq2 k ps n a b :
  NoDup (keys a) -> NoDup (keys b) -> deq a b ->
  match safe_divide (dv k) ps n a, safe_divide (dv k) ps n b with
  | inl r1, inl r2 => deq r1 r2 /\ NoDup (keys r1) /\ NoDup (keys r2)
  | inr e1, inr e2 => e1 = e2
  | _, _ => False
  end.
Proof.
  intros NDa NDb E. pose proof (safe_divide_deq dv dv_wf dv_ext k ps n a b NDa NDb E) as Hs.
  destruct (safe_divide (dv k) ps n a) as [r1|e1] eqn:E1; destruct (safe_divide (dv k) ps n b) as [r2|e2] eqn:E2;
    try contradiction; [|exact Hs].
  apply safe_divide_inl_eq in E1, E2. subst. auto using dv_wf, dv_ext.
Qed.

Lemma step_calc_deq s1 s2 :
  NoDup (keys (actual s2)) -> NoDup (keys (tactic s2)) ->
  st_deq s1 s2 -> st_deq (step_calc dv s1) (step_calc dv s2).
Proof.
  intros N1 N2 (a & t & -> & Ea & Et & Na & Nt).
  set (s1 := with_tac (with_actual s2 a) t (pcs s2)).
  unfold step_calc, calc_base.
  change (Prio1.H s1) with (Prio1.H s2). change (actual s1) with a. change (tactic s1) with t.
  change (prios s1) with (prios s2). change (strategic s1) with (strategic s2). change (ncalls s1) with (ncalls s2).
  rewrite (sum_deq a (actual s2) Na N1 Ea).
  destruct (Prio1.H s2 <? sum (actual s2)).
  { exists a, t. repeat split; auto. }
  destruct (Prio1.H s2 - sum (actual s2) =? 0).
  { exists a, t. repeat split; auto. }
  assert (Hu : uncrowded s1 = uncrowded s2).
  { unfold uncrowded. cbn. apply filter_ext. intros p. now rewrite Ea. }
  rewrite Hu.
  pose proof (safe_divide_deq2 (ncalls s2) (uncrowded s2) (Prio1.H s2 - sum (actual s2)) (reset t) (reset (tactic s2))
                (nodup_keys_reset _ Nt) (nodup_keys_reset _ N2) (deq_reset _ _)) as Hsd.
  assert (Hbase :
    st_deq
      match safe_divide (dv (ncalls s2)) (uncrowded s2) (Prio1.H s2 - sum (actual s2)) (reset t) with
      | inl t0 => with_tac (log_call s1 (uncrowded s2) (Prio1.H s2 - sum (actual s2))) t0
                    (if filled t0 (uncrowded s2) then Prio P1 (prios s2) 0 else WaitFb)
      | inr e => with_tac (log_call s1 (uncrowded s2) (Prio1.H s2 - sum (actual s2))) (reset t)
                    (Drain (Some (EDiv e)))
      end
      match safe_divide (dv (ncalls s2)) (uncrowded s2) (Prio1.H s2 - sum (actual s2)) (reset (tactic s2)) with
      | inl t0 => with_tac (log_call s2 (uncrowded s2) (Prio1.H s2 - sum (actual s2))) t0
                    (if filled t0 (uncrowded s2) then Prio P1 (prios s2) 0 else WaitFb)
      | inr e => with_tac (log_call s2 (uncrowded s2) (Prio1.H s2 - sum (actual s2))) (reset (tactic s2)) (Drain (Some (EDiv e)))
      end).
  { destruct (safe_divide (dv (ncalls s2)) (uncrowded s2) (Prio1.H s2 - sum (actual s2)) (reset t)) as [r1|e1];
      destruct (safe_divide (dv (ncalls s2)) (uncrowded s2) (Prio1.H s2 - sum (actual s2)) (reset (tactic s2))) as [r2|e2];
      try contradiction.
    - destruct Hsd as (Er & Nr1 & Nr2). rewrite (filled_deq _ _ (uncrowded s2) Er).
      exists a, r1. repeat split; auto.
    - subst e2. exists a, (reset t). repeat split; cbn; auto using deq_reset, nodup_keys_reset. }
  pose proof (add_up_deq (prios s2) a (actual s2) (strategic s2) (reset t) (reset (tactic s2)) 0 Ea (deq_reset _ _)) as Hau.
  destruct (add_up (prios s2) a (strategic s2) (reset t) 0) as [[r1 k1]|] eqn:A1;
    destruct (add_up (prios s2) (actual s2) (strategic s2) (reset (tactic s2)) 0) as [[r2 k2]|] eqn:A2; try contradiction.
  - destruct Hau as [Er ->]. destruct (k2 =? _); [|exact Hbase].
    exists a, r1. repeat split; auto. eapply add_up_nodup; eauto using nodup_keys_reset.
  - exact Hbase.
Qed.

Lemma step_recalc_deq s1 s2 proc :
  NoDup (keys (actual s2)) -> NoDup (keys (tactic s2)) ->
  st_deq s1 s2 -> st_deq (step_recalc dv s1 proc) (step_recalc dv s2 proc).
Proof.
  intros N1 N2 (a & t & -> & Ea & Et & Na & Nt).
  set (s1 := with_tac (with_actual s2 a) t (pcs s2)).
  assert (Hus : useful s1 = useful s2).
  { unfold useful. cbn. apply filter_ext. intros p. now rewrite Et. }
  unfold step_recalc. rewrite Hus.
  change (Prio1.H s1) with (Prio1.H s2). change (tactic s1) with t.
  change (prios s1) with (prios s2). change (ncalls s1) with (ncalls s2).
  rewrite (sum_deq t (tactic s2) Nt N2 Et).
  pose proof (safe_divide_deq2 (ncalls s2) (useful s2) (Prio1.H s2) (reset t) (reset (tactic s2))
                (nodup_keys_reset _ Nt) (nodup_keys_reset _ N2) (deq_reset _ _)) as Hsd.
  destruct (safe_divide (dv (ncalls s2)) (useful s2) (Prio1.H s2) (reset t)) as [ta|e1];
    destruct (safe_divide (dv (ncalls s2)) (useful s2) (Prio1.H s2) (reset (tactic s2))) as [tb|e2]; try contradiction.
  2:{ subst e2. exists a, (reset t). repeat split; cbn; auto using deq_reset, nodup_keys_reset. }
  destruct Hsd as (E1 & Na1 & Nb1).
  assert (Hul : useful_like s1 ta = useful_like s2 tb).
  { unfold useful_like. cbn. apply filter_ext. intros p. now rewrite Ea, E1. }
  rewrite Hul.
  pose proof (safe_divide_deq2 (S (ncalls s2)) (useful_like s2 tb) (sum (tactic s2)) (reset ta) (reset tb)
                (nodup_keys_reset _ Na1) (nodup_keys_reset _ Nb1) (deq_reset _ _)) as Hsd2.
  destruct (safe_divide (dv (S (ncalls s2))) (useful_like s2 tb) (sum (tactic s2)) (reset ta)) as [ra|e1];
    destruct (safe_divide (dv (S (ncalls s2))) (useful_like s2 tb) (sum (tactic s2)) (reset tb)) as [rb|e2]; try contradiction.
  - destruct Hsd2 as (E2 & Na2 & Nb2). rewrite (filled_deq _ _ (useful_like s2 tb) E2).
    exists a, ra. repeat split; auto.
  - subst e2. exists a, (reset ta). repeat split; cbn; auto using deq_reset, nodup_keys_reset.
Qed.

Lemma del_deq a b p : deq a b -> deq (del a p) (del b p).
Proof.
  intros E x. destruct (N.eq_dec x p) as [->|Hne].
  - now rewrite !get_del_same.
  - now rewrite !get_del_other by assumption.
Qed.

Lemma do_cmd_deq s1 s2 c rest : st_deq s1 s2 -> st_deq (do_cmd dv s1 c rest) (do_cmd dv s2 c rest).
Proof.
  intros (a & t & -> & Ea & Et & Na & Nt). destruct c as [ch p|p].
  - exists a, t. repeat split; auto.
  - exists a, (del t p). repeat split; cbn; auto using del_deq, nodup_del.
Qed.

Lemma dec_deq a b p : deq a b -> deq (dec a p) (dec b p).
Proof. intros E. unfold dec. rewrite (E p). now apply set_deq. Qed.

Lemma inc_deq a b p : deq a b -> deq (inc a p) (inc b p).
Proof. intros E. unfold inc. rewrite (E p). now apply set_deq. Qed.

Lemma pop_fb_deq s1 s2 p q c : st_deq s1 s2 -> st_deq (pop_fb s1 p q c) (pop_fb s2 p q c).
Proof.
  intros (a & t & -> & Ea & Et & Na & Nt). exists (dec a p), t.
  repeat split; cbn; auto using dec_deq. now apply nodup_keys_set.
Qed.

Lemma push_out_deq s1 s2 p x c : st_deq s1 s2 -> st_deq (push_out s1 p x c) (push_out s2 p x c).
Proof.
  intros (a & t & -> & Ea & Et & Na & Nt). exists (inc a p), (dec t p).
  repeat split; cbn; auto using dec_deq, inc_deq; now apply nodup_keys_set.
Qed.

End Congruence.

Lemma st_deq_proj s1 s2 : st_deq s1 s2 ->
  Prio1.H s1 = Prio1.H s2 /\ prios s1 = prios s2 /\ strategic s1 = strategic s2 /\ ncalls s1 = ncalls s2 /\ pcs s1 = pcs s2 /\
  deq (actual s1) (actual s2) /\ deq (tactic s1) (tactic s2) /\ NoDup (keys (actual s1)) /\ NoDup (keys (tactic s1)).
Proof. intros (a & t & -> & Ea & Et & Na & Nt). cbn. repeat split; auto. Qed.

Lemma st_deq_with_tac s1 s2 t' :
  st_deq s1 s2 -> deq t' (tactic s1) -> NoDup (keys t') -> st_deq (with_tac s1 t' (pcs s1)) s2.
Proof.
  intros (a & t & -> & Ea & Et & Na & Nt) E' N'. exists a, t'. cbn in *.
  repeat split; auto. eapply deq_trans; eauto.
Qed.

(* the bound on the strategic shares that tie_v1_calcTactic asks for follows from the bound on their sum *)
Lemma sum_list_get_le ps : forall d, NoDup ps -> NoDup (keys d) -> sum_list (map (get d) ps) <= sum d.
Proof.
  induction ps as [|p r IH]; intros d NDp NDd; cbn; [lia|].
  inversion NDp as [|? ? Hp NDr]; subst.
  rewrite (sum_del d p NDd).
  assert (E : map (get d) r = map (get (del d p)) r).
  { apply map_ext_in. intros q Hq. rewrite get_del_other; [reflexivity|]. intros ->. contradiction. }
  rewrite E. pose proof (IH (del d p) NDr (nodup_del d p NDd)). lia.
Qed.

(* ==== main tie theorems ==== *)
Section Main.
Variable dv : nat -> Divider.                 (* the model divider, indexed by the number of the call *)
Variable g : divider_fn.                      (* the function value stored in dsc.opts.Divider *)
Hypothesis Hok : div_ok g dv.

(* safeDivide = Sched.safe_divide; the caller's map afterwards is the divider's output (the argument when the sum of
   the argument already overflows: then the divider is not called).  For an empty list of priorities the v1 divider
   returns nil and the code reports success whatever the map holds: the hypothesis excludes exactly that case
   (every call site passes a map that was just reset). *)
Theorem tie_v1_safeDivide w ps d t :
  ps <> [] \/ sum t = 0 ->
  gen_safeDivide w (Some g) ps d (Some t) =
  (if sum t <? u_modulus then S w else w,
   Some (if sum t <? u_modulus then dv w ps d t else t),
   match safe_divide (dv w) ps d t with inl _ => None | inr e => Some (err_of (EDiv e)) end).
Proof. exact (v1_safeDivide_tie dv g Hok w ps d t). Qed.

End Main.

(* ------------------------------------------------------------------ the example state shared by the four files; examples for this file *)

Definition ex_dv : nat -> Divider := fun _ => fair.

Definition ex_g : divider_fn := v1_divfn ex_dv.

Lemma ex_wf : forall k ps n d, NoDup (keys d) -> NoDup (keys (ex_dv k ps n d)).
Proof. intros k ps n d. apply fair_keys. Qed.

Lemma ex_ext : forall k ps n a b, NoDup (keys a) -> NoDup (keys b) -> deq a b -> deq (ex_dv k ps n a) (ex_dv k ps n b).
Proof. intros k ps n a b _ _. apply fair_deq. Qed.

Definition ex_frame : frame := mk_frame (Some tt) (Some tt) None (Some tt) (Some tt) (Some tt) (Some tt) (Some tt) (Some tt) (Some tt).

Definition ex_chan (p : N) : option nat := if (p =? 1) || (p =? 2) || (p =? 3) then Some (N.to_nat p) else None.

Definition ex_inp : list (N * Input) := [(1, mk_Input (Some tt) false); (3, mk_Input (Some tt) false); (2, mk_Input (Some tt) false)].

(* 6 handlers, priorities 3 2 1, strategic 2 2 2, `act` in flight, tactic `tac` *)
Definition ex_st (act tac : dist) (c : pc) : st :=
  mkSt 6 [3; 2; 1] (fair [3; 2; 1] 6 []) act tac ex_chan (fun _ => false) (fun _ => []) (fun _ => false) (fun _ => true)
       [] 4 [] [] 1 false false [] c 1 [] [([3; 2; 1], 6)] [] [] (fun _ => []).

Definition ex_abs (s : st) : Discipline := absd ex_frame ex_g (Some ex_inp) (Some (strategic s)) [] [] s.

Ltac nodup_tac := repeat (constructor; [cbn; intuition discriminate|]); constructor.

Lemma ex_inputs_rel act tac c : inputs_rel (ex_st act tac c) ex_inp.
Proof.
  split; [nodup_tac|]. intros p. cbn. unfold ex_chan.
  destruct (N.eqb_spec p 1) as [->|H1]; [cbn; intuition discriminate|].
  destruct (N.eqb_spec p 3) as [->|H3]; [cbn; intuition discriminate|].
  destruct (N.eqb_spec p 2) as [->|H2]; cbn; intuition discriminate.
Qed.

Lemma ex_chan_inv act tac c : forall p, In p (prios (ex_st act tac c)) <-> chan_of (ex_st act tac c) p <> None.
Proof.
  intros p. cbn. unfold ex_chan.
  destruct (N.eqb_spec p 1) as [->|H1]; [cbn; intuition discriminate|].
  destruct (N.eqb_spec p 2) as [->|H2]; [cbn; intuition discriminate|].
  destruct (N.eqb_spec p 3) as [->|H3]; cbn; intuition congruence.
Qed.

Lemma ex_desc act tac c : desc (prios (ex_st act tac c)).
Proof. cbn. repeat (constructor; [|repeat constructor]). constructor. Qed.

(* one item of priority 2 in flight; three items of priority 2 in flight (more than its share); priority 3 has used
   its tactic up with 2 in flight while 2 and 1 have 3 left *)
Definition ex_s1 : st := ex_st [(2, 1)] [(3, 0); (2, 0); (1, 0)] Calc.
Definition ex_s2 : st := ex_st [(2, 3)] [(3, 0); (2, 0); (1, 0)] Calc.
Definition ex_s3 : st := ex_st [(3, 2)] [(3, 0); (2, 1); (1, 2)] (Recalc 2).

Example ex_safeDivide :
  gen_safeDivide 5 (Some ex_g) [3; 1] 3 (Some [(3, 0); (2, 0); (1, 0)]) = (6%nat, Some [(3, 2); (2, 0); (1, 1)], None)
  /\ safe_divide (ex_dv 5) [3; 1] 3 [(3, 0); (2, 0); (1, 0)] = inl [(3, 2); (2, 0); (1, 1)].
Proof. vm_compute. split; reflexivity. Qed.

Example ex_safeDivide_thm :
  gen_safeDivide 5 (Some ex_g) [3; 1] 3 (Some [(3, 0); (2, 0); (1, 0)]) =
  (6%nat, Some (ex_dv 5 [3; 1] 3 [(3, 0); (2, 0); (1, 0)]), None).
Proof. rewrite (tie_v1_safeDivide ex_dv ex_g div_ok_fair) by (left; discriminate). reflexivity. Qed.

(* Disagreement (unreachable): safeDivide with no priorities and a map that is not all zero: the v1 divider returns nil, `after` is 0, the code
   reports success; Sched.safe_divide compares the sums.  No call site can do this (the map is always reset first). *)
Example disagree_safeDivide_empty :
  gen_safeDivide 0 (Some ex_g) [] 5 (Some [(1, 3)]) = (1%nat, Some [(1, 3)], None)
  /\ safe_divide (ex_dv 0) [] 5 [(1, 3)] = inr DividerBad.
Proof. vm_compute. split; reflexivity. Qed.

Print Assumptions tie_v1_safeDivide.
Print Assumptions step_calc_deq.
Print Assumptions step_recalc_deq.
Print Assumptions do_cmd_deq.
Print Assumptions pop_fb_deq.
Print Assumptions push_out_deq.
Print Assumptions fair_deq.
Print Assumptions rate_deq.
Print Assumptions ex_safeDivide_thm.
