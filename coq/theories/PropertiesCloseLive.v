(* Property theorems: bounded termination of the join / unite / limit goroutine after the input is closed, from any state, with a consumer that receives and releases (C03 C12). *)
From Coq Require Import List ZArith Bool. From Cqos Require Import Join Limit CloseLive. Import ListNotations. Open Scope Z_scope.
Theorem C03_join_close_terminates :
  forall (c : jcfg) (s : jst) (t : Z),
         exists (s' : jst) (o : list emission), drain_run c 8 s t = Some (s', o) /\ pc s' = Closed.
Proof. exact @join_close_terminates. Qed.
Print Assumptions C03_join_close_terminates.

Theorem C03_join_never_blocked_on_close :
  forall (c : jcfg) (s : jst) (t : Z),
         pc s <> Closed -> exists (s' : jst) (o : list emission), jstep c s (drain_event s t) = Some (s', o).
Proof. exact @drain_event_enabled. Qed.
Print Assumptions C03_join_never_blocked_on_close.

Theorem C12_limit_close_terminates :
  forall (c : lcfg) (p : lpc) (t : Z),
         exists (p' : lpc) (o : list (Z * Z)), ldrain_run c 3 p t = Some (p', o) /\ p' = LClosed.
Proof. exact @limit_close_terminates. Qed.
Print Assumptions C12_limit_close_terminates.

Theorem C12_limit_close_forwards :
  forall (c : lcfg) (k s x t : Z),
         exists (p' : lpc) (o : list (Z * Z)),
           ldrain_run c 3 (LSend k s x) t = Some (p', o) /\ p' = LClosed /\ map snd o = [x].
Proof. exact @limit_close_forwards. Qed.
Print Assumptions C12_limit_close_forwards.

Theorem C12_limit_never_blocked_on_close :
  forall (c : lcfg) (p : lpc) (t : Z),
         p <> LClosed -> exists (p' : lpc) (o : list (Z * Z)), lstep c p (ldrain_event p t) = Some (p', o).
Proof. exact @ldrain_event_enabled. Qed.
Print Assumptions C12_limit_never_blocked_on_close.

