(* Tie lemmas for GenJoinV1.v (join (v1): Opts.isValid, Opts.normalize, calcInterruptInterval, calcInterruptIntervalNonPositiveAllowed, prepareItem, resetJoin) versus Join.v.  Imports only this one generated file. *)
From Coq Require Import List NArith ZArith Bool Lia.
From Cqos Require Import GoSem Join GenTieMiscBase.
From Cqos Require GenJoinV1.
Import ListNotations.

Module J1 := GenJoinV1.

(* ------------------------------------------------------------------ the result of calcInterruptInterval
   model: inl interval | inr code (1 inaccuracy zero, 2 inaccuracy too big, 3 timeout too small) -- the codes of the
   correspondence harness (errCodeJoin).  `*_enc` is what the Go function returns for a model result (the interval is 0
   next to an error); `*_dec` reads a Go result back (None for the errors that calcInterruptInterval never returns). *)

Definition join_v1_enc (r : Z + Z) : Z * option J1.err_JoinV1 :=
  match r with
  | inl i => (i, None)
  | inr c => (0%Z, Some (if (c =? 1)%Z then J1.ErrTimeoutInaccuracyZero
                         else if (c =? 2)%Z then J1.ErrTimeoutInaccuracyTooBig else J1.ErrTimeoutTooSmall))
  end.
Definition join_v1_dec (r : Z * option J1.err_JoinV1) : option (Z + Z) :=
  match r with
  | (i, None) => Some (inl i)
  | (_, Some J1.ErrTimeoutInaccuracyZero) => Some (inr 1%Z)
  | (_, Some J1.ErrTimeoutInaccuracyTooBig) => Some (inr 2%Z)
  | (_, Some J1.ErrTimeoutTooSmall) => Some (inr 3%Z)
  | (_, Some _) => None
  end.

Lemma join_v1_dec_enc v1 timeout inaccuracy :
  join_v1_dec (join_v1_enc (calc_interval v1 timeout inaccuracy)) = Some (calc_interval v1 timeout inaccuracy).
Proof.
  pose proof (calc_interval_codes v1 timeout inaccuracy) as H.
  destruct (calc_interval v1 timeout inaccuracy) as [i|c]; [reflexivity|].
  destruct H as [->|[->| ->]]; reflexivity.
Qed.

Lemma join_v1_calc_strict_raw w timeout inaccuracy :
  J1.gen_calcInterruptInterval w timeout inaccuracy =
  (w, if (inaccuracy =? 0)%N then (0%Z, Some J1.ErrTimeoutInaccuracyZero)
      else if (100 / inaccuracy =? 0)%N then (0%Z, Some J1.ErrTimeoutInaccuracyTooBig)
      else let i := i_div timeout (i_of_u (100 / inaccuracy)%N) in
           if (i <? 10000000)%Z then (0%Z, Some J1.ErrTimeoutTooSmall) else (i, None)).
Proof.
  unfold J1.gen_calcInterruptInterval. cbn.
  destruct (inaccuracy =? 0)%N; cbn; [reflexivity|].
  destruct (100 / inaccuracy =? 0)%N; cbn; [reflexivity|].
  destruct (i_div timeout (i_of_u (100 / inaccuracy)%N) <? 10000000)%Z; reflexivity.
Qed.

Lemma join_v1_calc_raw w timeout inaccuracy :
  J1.gen_calcInterruptIntervalNonPositiveAllowed w timeout inaccuracy =
  (w, if (timeout <=? 0)%Z then (0%Z, None)
      else if (inaccuracy =? 0)%N then (0%Z, Some J1.ErrTimeoutInaccuracyZero)
      else if (100 / inaccuracy =? 0)%N then (0%Z, Some J1.ErrTimeoutInaccuracyTooBig)
      else let i := i_div timeout (i_of_u (100 / inaccuracy)%N) in
           if (i <? 10000000)%Z then (0%Z, Some J1.ErrTimeoutTooSmall) else (i, None)).
Proof.
  unfold J1.gen_calcInterruptIntervalNonPositiveAllowed. cbn.
  destruct (timeout <=? 0)%Z; cbn; [reflexivity|].
  rewrite join_v1_calc_strict_raw.
  destruct (inaccuracy =? 0)%N; [reflexivity|].
  destruct (100 / inaccuracy =? 0)%N; [reflexivity|]. cbv zeta.
  destruct (i_div timeout (i_of_u (100 / inaccuracy)%N) <? 10000000)%Z; reflexivity.
Qed.

Lemma join_v1_calc w timeout inaccuracy :
  (timeout < i_half)%Z ->
  J1.gen_calcInterruptIntervalNonPositiveAllowed w timeout inaccuracy =
  (w, join_v1_enc (calc_interval true timeout (Z.of_N inaccuracy))).
Proof.
  intros Ht. rewrite join_v1_calc_raw, calc_interval_of_N by assumption. f_equal.
  destruct (timeout <=? 0)%Z; [reflexivity|].
  destruct (inaccuracy =? 0)%N; [reflexivity|].
  destruct (100 / inaccuracy =? 0)%N; [reflexivity|]. cbv zeta.
  destruct (i_div timeout (i_of_u (100 / inaccuracy)%N) <? 10000000)%Z; reflexivity.
Qed.

(* the inner function (without the `timeout <= 0` shortcut) agrees with the model for positive timeouts ... *)
Lemma join_v1_calc_strict_pos w timeout inaccuracy :
  (0 < timeout < i_half)%Z ->
  J1.gen_calcInterruptInterval w timeout inaccuracy = (w, join_v1_enc (calc_interval true timeout (Z.of_N inaccuracy))).
Proof.
  intros Ht. rewrite <- join_v1_calc by lia. rewrite join_v1_calc_raw, join_v1_calc_strict_raw.
  destruct (Z.leb_spec timeout 0); [lia|reflexivity].
Qed.
(* ... and for the others, which the model (like New) never passes to it, it reports an error as soon as the inaccuracy
   is not one: with a valid inaccuracy, "timeout too small" *)
Lemma join_v1_calc_strict_nonpos w timeout inaccuracy :
  (- i_half <= timeout <= 0)%Z -> (1 <= inaccuracy <= 100)%N ->
  J1.gen_calcInterruptInterval w timeout inaccuracy = (w, (0%Z, Some J1.ErrTimeoutTooSmall)).
Proof.
  intros Ht Hi. rewrite join_v1_calc_strict_raw.
  destruct (N.eqb_spec inaccuracy 0) as [Hz|_]; [lia|].
  assert (Hd : (1 <= 100 / inaccuracy)%N) by (apply N.div_le_lower_bound; lia).
  destruct (N.eqb_spec (100 / inaccuracy) 0) as [Hz|_]; [lia|]. cbv zeta.
  rewrite i_of_u_div100.
  assert (Hq : (- i_half <= Z.quot timeout (Z.of_N (100 / inaccuracy)) <= 0)%Z).
  { pose proof (div100_le inaccuracy) as Hle.
    rewrite <- (Z.opp_involutive timeout), Z.quot_opp_l by lia.
    rewrite Z.quot_div_nonneg by lia.
    assert (0 <= - timeout / Z.of_N (100 / inaccuracy) <= - timeout)%Z; [|lia].
    split; [apply Z.div_pos; lia|]. apply Z.div_le_upper_bound; nia. }
  rewrite i_div_small by (unfold i_range, i_half in *; lia).
  destruct (Z.ltb_spec (Z.quot timeout (Z.of_N (100 / inaccuracy))) 10000000); [reflexivity|lia].
Qed.

Lemma join_v1_normalize w opts :
  J1.gen_normalize w opts =
  (w, J1.mk_Opts (if is_nil (J1.Opts_Ctx opts) then opaque_some else J1.Opts_Ctx opts)
        (J1.Opts_Input opts) (J1.Opts_JoinSize opts) (J1.Opts_Released opts) (J1.Opts_Timeout opts)
        (Z.to_N (normalize_inaccuracy (Z.of_N (J1.Opts_TimeoutInaccuracy opts))))).
Proof.
  unfold J1.gen_normalize, normalize_inaccuracy. rewrite of_N_eqb0.
  destruct opts as [ctx inp js rel tmo inacc]; cbn.
  destruct (is_nil ctx); cbn; (destruct (N.eqb_spec inacc 0) as [->|Hnz]; cbn; [reflexivity|now rewrite N2Z.id]).
Qed.

Lemma join_v1_isValid_raw w opts :
  J1.gen_isValid w opts =
  (w, if is_nil (J1.Opts_Input opts) then Some J1.ErrEmptyInput
      else if (J1.Opts_JoinSize opts =? 0)%N then Some J1.ErrInvalidJoinSize else None).
Proof.
  unfold J1.gen_isValid. cbn.
  destruct (is_nil (J1.Opts_Input opts)); cbn; [reflexivity|].
  destruct (J1.Opts_JoinSize opts =? 0)%N; reflexivity.
Qed.

(* ==== main tie theorems ==== *)

(* the function New() calls, calcInterruptIntervalNonPositiveAllowed, = Join.calc_interval true *)
Theorem tie_join_v1_calcInterruptInterval w timeout inaccuracy :
  i_range timeout ->
  J1.gen_calcInterruptIntervalNonPositiveAllowed w timeout inaccuracy =
  (w, join_v1_enc (calc_interval true timeout (Z.of_N inaccuracy))).
Proof. intros [_ Ht]. now apply join_v1_calc. Qed.

Corollary tie_join_v1_calcInterruptInterval_dec w timeout inaccuracy :
  i_range timeout ->
  fst (J1.gen_calcInterruptIntervalNonPositiveAllowed w timeout inaccuracy) = w /\
  join_v1_dec (snd (J1.gen_calcInterruptIntervalNonPositiveAllowed w timeout inaccuracy)) =
  Some (calc_interval true timeout (Z.of_N inaccuracy)).
Proof. intros Ht. rewrite tie_join_v1_calcInterruptInterval by assumption. cbn [fst snd]. now rewrite join_v1_dec_enc. Qed.

(* the inner calcInterruptInterval (no shortcut for timeout <= 0): the model's function on positive timeouts; on the
   others -- which the model, like New(), never hands to it -- "timeout too small" where the model says "no ticker" *)
Theorem tie_join_v1_calcInterruptInterval_inner w timeout inaccuracy :
  i_range timeout ->
  (0 < timeout)%Z ->
  J1.gen_calcInterruptInterval w timeout inaccuracy = (w, join_v1_enc (calc_interval true timeout (Z.of_N inaccuracy))).
Proof. intros [_ Ht] Hpos. apply join_v1_calc_strict_pos. lia. Qed.
Theorem tie_join_v1_calcInterruptInterval_inner_nonpositive w timeout inaccuracy :
  i_range timeout ->
  (timeout <= 0)%Z -> (1 <= inaccuracy <= 100)%N ->
  J1.gen_calcInterruptInterval w timeout inaccuracy = (w, (0%Z, Some J1.ErrTimeoutTooSmall)) /\
  calc_interval true timeout (Z.of_N inaccuracy) = inl 0%Z.
Proof.
  intros [Hlo _] Hle Hi. split.
  - apply join_v1_calc_strict_nonpos; [lia|assumption].
  - unfold calc_interval. now apply Z.leb_le in Hle as ->.
Qed.

Theorem tie_join_v1_normalize w opts :
  J1.gen_normalize w opts =
  (w, J1.mk_Opts (if is_nil (J1.Opts_Ctx opts) then opaque_some else J1.Opts_Ctx opts)
        (J1.Opts_Input opts) (J1.Opts_JoinSize opts) (J1.Opts_Released opts) (J1.Opts_Timeout opts)
        (Z.to_N (normalize_inaccuracy (Z.of_N (J1.Opts_TimeoutInaccuracy opts))))).
Proof. apply join_v1_normalize. Qed.

(* the normalized context is never nil *)
Corollary tie_join_v1_normalize_ctx w opts : J1.Opts_Ctx (snd (J1.gen_normalize w opts)) <> None.
Proof. rewrite tie_join_v1_normalize. cbn. destruct (J1.Opts_Ctx opts); cbn; discriminate. Qed.

Theorem tie_join_v1_calcInterruptInterval_normalized w opts :
  i_range (J1.Opts_Timeout opts) ->
  (let '(w1, o) := J1.gen_normalize w opts in
   J1.gen_calcInterruptIntervalNonPositiveAllowed w1 (J1.Opts_Timeout o) (J1.Opts_TimeoutInaccuracy o)) =
  (w, join_v1_enc (calc_interval true (J1.Opts_Timeout opts)
                     (normalize_inaccuracy (Z.of_N (J1.Opts_TimeoutInaccuracy opts))))).
Proof.
  intros Ht. rewrite tie_join_v1_normalize. cbn [J1.Opts_Timeout J1.Opts_TimeoutInaccuracy].
  rewrite tie_join_v1_calcInterruptInterval by assumption. now rewrite normalize_inaccuracy_of_N.
Qed.

Theorem tie_join_v1_isValid w opts :
  fst (J1.gen_isValid w opts) = w /\
  (snd (J1.gen_isValid w opts) = None <-> J1.Opts_Input opts <> None /\ J1.Opts_JoinSize opts <> 0%N) /\
  (snd (J1.gen_isValid w opts) = Some J1.ErrEmptyInput <-> J1.Opts_Input opts = None) /\
  (snd (J1.gen_isValid w opts) = Some J1.ErrInvalidJoinSize <-> J1.Opts_Input opts <> None /\ J1.Opts_JoinSize opts = 0%N).
Proof.
  rewrite join_v1_isValid_raw. cbn [fst snd].
  destruct (J1.Opts_Input opts) as [u|]; cbn [is_nil];
    destruct (N.eqb_spec (J1.Opts_JoinSize opts) 0) as [Hz|Hnz];
    repeat split; try congruence; try discriminate; intros; tauto.
Qed.

Corollary tie_join_v1_isValid_jsize w opts :
  snd (J1.gen_isValid w opts) = None -> (1 <= N.to_nat (J1.Opts_JoinSize opts))%nat.
Proof. intros H. apply (proj1 (proj2 (tie_join_v1_isValid w opts))) in H. lia. Qed.

(* v1: the no-copy mode is `Released != nil` (jcfg.nocopy) *)

(* v1 resetJoin: the accumulation becomes empty unless the last slice was never released (then nothing changes:
   the model's AwaitRel/Abort step keeps buf and sets unrel, GenTieMiscBase.model_unreleased_keeps_buffer) *)

(* ---------------------------------------------------------------- examples: no theorem is vacuous --------------- *)

(* v1 join: 40 ms with 25 % gives exactly the reliably measurable 10 ms; one nanosecond less is too small *)
Example ex_join_v1_calc :
  J1.gen_calcInterruptIntervalNonPositiveAllowed 7 39999999%Z 25%N = (7%nat, join_v1_enc (calc_interval true 39999999%Z 25%Z)).
Proof. exact (tie_join_v1_calcInterruptInterval 7 39999999%Z 25%N i_range_ex3). Qed.
Example ex_join_v1_calc_values :
  J1.gen_calcInterruptIntervalNonPositiveAllowed 7 40000000%Z 25%N = (7%nat, (10000000%Z, None)) /\
  J1.gen_calcInterruptIntervalNonPositiveAllowed 7 39999999%Z 25%N = (7%nat, (0%Z, Some J1.ErrTimeoutTooSmall)) /\
  J1.gen_calcInterruptIntervalNonPositiveAllowed 7 40000000%Z 0%N = (7%nat, (0%Z, Some J1.ErrTimeoutInaccuracyZero)) /\
  J1.gen_calcInterruptIntervalNonPositiveAllowed 7 40000000%Z 101%N = (7%nat, (0%Z, Some J1.ErrTimeoutInaccuracyTooBig)) /\
  J1.gen_calcInterruptIntervalNonPositiveAllowed 7 (-5)%Z 0%N = (7%nat, (0%Z, None)) /\
  calc_interval true 40000000 25 = inl 10000000%Z /\ calc_interval true 39999999 25 = inr 3%Z.
Proof. vm_compute. repeat split. Qed.
Example ex_join_v1_calc_dec :
  join_v1_dec (snd (J1.gen_calcInterruptIntervalNonPositiveAllowed 7 39999999%Z 25%N)) = Some (inr 3%Z).
Proof. exact (proj2 (tie_join_v1_calcInterruptInterval_dec 7 39999999%Z 25%N i_range_ex3)). Qed.
Example ex_join_v1_calc_inner :
  J1.gen_calcInterruptInterval 7 1000000000%Z 25%N = (7%nat, (250000000%Z, None)).
Proof. rewrite tie_join_v1_calcInterruptInterval_inner by (try exact i_range_ex1; lia). reflexivity. Qed.
Example ex_join_v1_calc_inner_nonpositive :
  J1.gen_calcInterruptInterval 7 (-5)%Z 25%N = (7%nat, (0%Z, Some J1.ErrTimeoutTooSmall)) /\
  calc_interval true (-5) 25 = inl 0%Z.
Proof. apply tie_join_v1_calcInterruptInterval_inner_nonpositive; [exact i_range_ex4|lia|lia]. Qed.
Example ex_join_v1_normalize :
  J1.gen_normalize 7 (J1.mk_Opts None (Some tt) 4 None 40000000 0) = (7%nat, J1.mk_Opts (Some tt) (Some tt) 4 None 40000000 25).
Proof. now rewrite tie_join_v1_normalize. Qed.
Example ex_join_v1_normalized :
  (let '(w1, o) := J1.gen_normalize 7 (J1.mk_Opts None (Some tt) 4 None 39999999 0) in
   J1.gen_calcInterruptIntervalNonPositiveAllowed w1 (J1.Opts_Timeout o) (J1.Opts_TimeoutInaccuracy o)) =
  (7%nat, (0%Z, Some J1.ErrTimeoutTooSmall)).
Proof. rewrite tie_join_v1_calcInterruptInterval_normalized by exact i_range_ex3. reflexivity. Qed.
Example ex_join_v1_isValid :
  snd (J1.gen_isValid 7 (J1.mk_Opts None (Some tt) 4 None 0 0)) = None /\
  snd (J1.gen_isValid 7 (J1.mk_Opts None None 0 None 0 0)) = Some J1.ErrEmptyInput /\
  snd (J1.gen_isValid 7 (J1.mk_Opts None (Some tt) 0 None 0 0)) = Some J1.ErrInvalidJoinSize.
Proof.
  split; [|split].
  - apply (tie_join_v1_isValid 7 (J1.mk_Opts None (Some tt) 4 None 0 0)). cbn. split; discriminate.
  - now apply (tie_join_v1_isValid 7 (J1.mk_Opts None None 0 None 0 0)).
  - apply (tie_join_v1_isValid 7 (J1.mk_Opts None (Some tt) 0 None 0 0)). cbn. split; [discriminate|reflexivity].
Qed.

(* ---------------------------------------------------------------- assumptions ------------------------------------ *)
Print Assumptions tie_join_v1_calcInterruptInterval.
Print Assumptions tie_join_v1_calcInterruptInterval_dec.
Print Assumptions tie_join_v1_calcInterruptInterval_inner.
Print Assumptions tie_join_v1_calcInterruptInterval_inner_nonpositive.
Print Assumptions tie_join_v1_normalize.
Print Assumptions tie_join_v1_normalize_ctx.
Print Assumptions tie_join_v1_calcInterruptInterval_normalized.
Print Assumptions tie_join_v1_isValid.
Print Assumptions tie_join_v1_isValid_jsize.
