(* Tie lemmas, part 4 of 4: the input commands of the generated v1 priority discipline (GenV1Prio.v) versus
   Prio1.do_cmd / Prio1.init_state: addInput, removeInput, updateInputs (as New calls it), with their callees
   addPriority, removePriority, common.SortPriorities (the intrinsic sort_desc) and the divider call that recomputes
   the strategic distribution; isInputExists.  Abstraction: GenTiePrio1Base.v. *)

From Coq Require Import List NArith ZArith Bool Lia Sorted.
From Cqos Require Import Base Divider DividerP Sched Prio1 GoSem GenV1Prio GenTiePrio1Base.
Import ListNotations.
Open Scope N_scope.

(* ------------------------------------------------------------------ removePriority, addPriority, isInputExists *)

Lemma lset_app_mid {T} (a : list T) y b x : lset (a ++ y :: b) (length a) x = a ++ x :: b.
Proof. induction a; cbn; congruence. Qed.

Lemma removePriority_loop rm l2 : forall fl rest p0 w,
  (length l2 <= length rest)%nat -> (Z.of_nat (length fl + length l2) < i_half)%Z ->
  exists rest' p',
    range_loop gen_removePriority_loop1 l2 (mk_removePriority_vars (fl ++ rest) rm (Z.of_nat (length fl)) p0 w) =
    Next (mk_removePriority_vars ((fl ++ filter (fun q => negb (N.eqb q rm)) l2) ++ rest') rm
            (Z.of_nat (length (fl ++ filter (fun q => negb (N.eqb q rm)) l2))) p' w).
Proof.
  induction l2 as [|x r IH]; intros fl rest p0 w Hlen Hb.
  - exists rest, p0. cbn. now rewrite !app_nil_r.
  - cbn. destruct (N.eqb_spec x rm) as [->|Hne]; cbn.
    + apply IH; cbn in *; lia.
    + destruct rest as [|y rest0]; [cbn in Hlen; lia|].
      rewrite Nat2Z.id, lset_app_mid.
      rewrite i_add_small by (unfold i_range, i_half in *; cbn [length] in Hb; lia).
      replace (Z.of_nat (length fl) + 1)%Z with (Z.of_nat (length (fl ++ [x]))) by (rewrite app_length; cbn; lia).
      replace (fl ++ x :: rest0) with ((fl ++ [x]) ++ rest0) by (now rewrite <- app_assoc).
      destruct (IH (fl ++ [x]) rest0 x w) as (rest' & p' & E).
      * cbn in Hlen; lia.
      * rewrite app_length. cbn [length] in *. lia.
      * exists rest', p'. rewrite E. rewrite <- !app_assoc. reflexivity.
Qed.

Lemma tie_removePriority w l p :
  (Z.of_nat (length l) < i_half)%Z ->
  gen_removePriority w l p = (w, filter (fun q => negb (N.eqb q p)) l).
Proof.
  intros Hb. unfold gen_removePriority. cbn.
  destruct (removePriority_loop p l [] l 0 w (le_n _) Hb) as (rest' & p' & E).
  cbn in E. rewrite E. cbn. unfold lslice. cbn. rewrite Nat2Z.id, Nat.sub_0_r.
  rewrite firstn_app, firstn_all, Nat.sub_diag. cbn. now rewrite app_nil_r.
Qed.

Lemma tie_addPriority w d ch p inp :
  Discipline_inputs d = Some inp ->
  gen_addPriority w d ch p =
  (w,
   (if ahas inp p then (fun d => d) else set_Discipline_priorities (Discipline_priorities d ++ [p]))
     (set_Discipline_inputs (Some (aset inp p (mk_Input ch false))) d),
   tt).
Proof.
  intros Hi. destruct d; cbn in Hi; subst. unfold gen_addPriority. cbn.
  destruct (ahas inp p); reflexivity.
Qed.

Lemma existsb_eqb_in p l : existsb (N.eqb p) l = true <-> In p l.
Proof.
  rewrite existsb_exists. split.
  - intros [x [Hin E]]. apply N.eqb_eq in E. now subst.
  - intros Hin. exists p. split; [assumption|apply N.eqb_refl].
Qed.

Lemma tie_isInputExists w d p : gen_isInputExists w d p = (w, d, mhas (Discipline_inputs d) p).
Proof. reflexivity. Qed.

(* ------------------------------------------------------------------ addInput, removeInput *)

Section Cmds.
Variable dv : nat -> Divider.
Variable g : divider_fn.
Hypothesis Hok : div_ok g dv.

Lemma strategic_of_tie k ps h : mitems (g k ps h None) = strategic_of dv k ps h.
Proof.
  destruct Hok as [Hg Hnil]. rewrite Hg. unfold v1_call, strategic_of.
  destruct ps; cbn; [now rewrite Hnil|reflexivity].
Qed.

Lemma v1_addInput_tie fr inp strat unc us s chn ch p rest :
  inputs_rel s inp -> (forall q, In q (prios s) <-> chan_of s q <> None) -> desc (prios s) ->
  let s' := do_cmd dv s (CAdd ch p) rest in
  let inp' := aset inp p (mk_Input chn false) in
  let strat' := g (ncalls s) (prios s') (Prio1.H s) None in
  gen_addInput (ncalls s) (absd fr g (Some inp) strat unc us s) chn p = (ncalls s', absd fr g (Some inp') strat' unc us s', tt)
  /\ inputs_rel s' inp' /\ mitems strat' = strategic s'.
Proof.
  intros Hrel Hc Hd s' inp' strat'.
  assert (Hex : ahas inp p = existsb (N.eqb p) (prios s)).
  { apply eq_true_iff_eq. rewrite existsb_eqb_in, Hc. apply (proj2 Hrel p). }
  split; [|split].
  - unfold gen_addInput, absd. cbn.
    rewrite (tie_addPriority _ _ _ _ inp) by reflexivity. cbn.
    subst s' strat'. unfold do_cmd. cbn. rewrite Hex.
    destruct (existsb (N.eqb p) (prios s)); cbn; rewrite sort_desc_eq.
    + rewrite (sort_desc_sorted _ Hd). reflexivity.
    + reflexivity.
  - destruct Hrel as [ND Hr]. split; [now apply nodup_aset|].
    intros q. subst s' inp'. unfold do_cmd. cbn. unfold upd. rewrite ahas_aset.
    destruct (N.eqb_spec q p) as [->|Hne]; cbn.
    + rewrite aget_aset_same. cbn. split; [split; [discriminate|reflexivity]|reflexivity].
    + rewrite aget_aset_other by congruence. apply Hr.
  - subst strat' s'. rewrite strategic_of_tie. reflexivity.
Qed.

Lemma v1_removeInput_tie fr inp strat unc us s p rest :
  inputs_rel s inp -> (Z.of_nat (length (prios s)) < i_half)%Z ->
  let s' := do_cmd dv s (CRmv p) rest in
  let inp' := adel inp p in
  let strat' := g (ncalls s) (prios s') (Prio1.H s) None in
  gen_removeInput (ncalls s) (absd fr g (Some inp) strat unc us s) p = (ncalls s', absd fr g (Some inp') strat' unc us s', tt)
  /\ inputs_rel s' inp' /\ mitems strat' = strategic s' /\ actual s' = actual s.
Proof.
  intros Hrel Hb s' inp' strat'. split; [|split; [|split]].
  - unfold gen_removeInput, absd. cbn. rewrite (tie_removePriority _ _ _ Hb). cbn. reflexivity.
  - destruct Hrel as [ND Hr]. split; [now apply nodup_adel|].
    intros q. subst s' inp'. unfold do_cmd. cbn. unfold upd. rewrite ahas_adel.
    destruct (N.eqb_spec q p) as [->|Hne]; cbn.
    + split; [split; [discriminate|congruence]|discriminate].
    + rewrite aget_adel_other by assumption. apply Hr.
  - subst strat' s'. rewrite strategic_of_tie. reflexivity.
  - reflexivity.
Qed.

End Cmds.

(* ------------------------------------------------------------------ updateInputs (called by New) *)

Lemma updateInputs_loop (cfg : list (N * opaque)) : forall d oi p0 c0 w inp,
  Discipline_inputs d = Some inp -> NoDup (map fst inp ++ map fst cfg) ->
  exists p' c', range_loop gen_updateInputs_loop1 cfg (mk_updateInputs_vars d oi p0 c0 w) =
    Next (mk_updateInputs_vars
            (set_Discipline_priorities (Discipline_priorities d ++ map fst cfg)
               (set_Discipline_inputs (Some (inp ++ map (fun kc => (fst kc, mk_Input (snd kc) false)) cfg)) d))
            oi p' c' w).
Proof.
  induction cfg as [|[p ch] r IH]; intros d oi p0 c0 w inp Hi ND.
  - exists p0, c0. destruct d; cbn in *; subst. now rewrite !app_nil_r.
  - destruct d; cbn in Hi; subst. cbn.
    assert (Hn : ~ In p (map fst inp)).
    { cbn in ND. apply NoDup_remove_2 in ND. intros Hin. apply ND, in_or_app. now left. }
    rewrite (tie_addPriority _ _ _ _ inp) by reflexivity. cbn.
    assert (Hh : ahas inp p = false).
    { destruct (ahas inp p) eqn:E; [|reflexivity]. apply ahas_in in E. contradiction. }
    rewrite Hh. cbn.
    assert (Has : aset inp p (mk_Input ch false) = inp ++ [(p, mk_Input ch false)]).
    { clear -Hn. induction inp as [|[k v] t IH]; cbn in *; [reflexivity|].
      destruct (N.eqb_spec p k) as [->|Hne]; [tauto|]. rewrite IH; tauto. }
    rewrite Has.
    match goal with |- exists p' c', range_loop _ _ (mk_updateInputs_vars ?d' ?oi' ?p1 ?c1 ?w') = _ =>
      destruct (IH d' oi' p1 c1 w' (inp ++ [(p, mk_Input ch false)]) eq_refl) as (p' & c' & E) end.
    { rewrite map_app. cbn. rewrite <- app_assoc. exact ND. }
    exists p', c'. rewrite E. cbn. rewrite <- !app_assoc. reflexivity.
Qed.

Lemma init_chans_spec cfg : forall co p, init_chans cfg co p <> None <-> In p (map fst cfg) \/ co p <> None.
Proof.
  induction cfg as [|[q ch] r IH]; intros co p; cbn [init_chans map fst In]; [tauto|].
  rewrite IH. unfold upd. destruct (N.eqb_spec p q) as [->|Hne].
  - split; [tauto|]. intros _. right. discriminate.
  - intuition congruence.
Qed.

Lemma aget_map_undrained (ocfg : list (N * opaque)) p :
  Input_Drained (aget zero_Input (map (fun kc => (fst kc, mk_Input (snd kc) false)) ocfg) p) = false.
Proof. induction ocfg as [|[k c] r IH]; cbn; [reflexivity|]. destruct (N.eqb p k); [reflexivity|exact IH]. Qed.

Lemma map_fst_inputs (ocfg : list (N * opaque)) :
  map fst (map (fun kc => (fst kc, mk_Input (snd kc) false)) ocfg) = map fst ocfg.
Proof. induction ocfg as [|[k c] r IH]; cbn; congruence. Qed.

(* ==== main tie theorems ==== *)
Section Main.
Variable dv : nat -> Divider.                 (* the model divider, indexed by the number of the call *)
Variable g : divider_fn.                      (* the function value stored in dsc.opts.Divider *)
Hypothesis Hok : div_ok g dv.

(* addInput = Prio1.do_cmd (CAdd ch p) *)
Theorem tie_v1_addInput fr inp strat unc us s chn ch p rest :
  inputs_rel s inp -> (forall q, In q (prios s) <-> chan_of s q <> None) -> desc (prios s) ->
  let s' := do_cmd dv s (CAdd ch p) rest in
  let inp' := aset inp p (mk_Input chn false) in
  let strat' := g (ncalls s) (prios s') (Prio1.H s) None in
  gen_addInput (ncalls s) (absd fr g (Some inp) strat unc us s) chn p = (ncalls s', absd fr g (Some inp') strat' unc us s', tt)
  /\ inputs_rel s' inp' /\ mitems strat' = strategic s'.
Proof. apply (v1_addInput_tie dv g Hok). Qed.

(* removeInput = Prio1.do_cmd (CRmv p) *)
Theorem tie_v1_removeInput fr inp strat unc us s p rest :
  inputs_rel s inp -> (Z.of_nat (length (prios s)) < i_half)%Z ->
  let s' := do_cmd dv s (CRmv p) rest in
  let inp' := adel inp p in
  let strat' := g (ncalls s) (prios s') (Prio1.H s) None in
  gen_removeInput (ncalls s) (absd fr g (Some inp) strat unc us s) p = (ncalls s', absd fr g (Some inp') strat' unc us s', tt)
  /\ inputs_rel s' inp' /\ mitems strat' = strategic s' /\ actual s' = actual s.
Proof. apply (v1_removeInput_tie dv g Hok). Qed.

(* updateInputs as New calls it (no input registered yet, w = 0) = Prio1.init_state *)
Theorem tie_v1_updateInputs fr strat0 unc us (cfg : list (N * nat)) (ocfg : list (N * opaque)) h bufs ocap :
  map fst ocfg = map fst cfg -> NoDup (map fst cfg) ->
  let s0 := init_state dv [] h bufs ocap in
  let s1 := init_state dv cfg h bufs ocap in
  let inp' := map (fun kc => (fst kc, mk_Input (snd kc) false)) ocfg in
  let strat' := g 0%nat (prios s1) h None in
  gen_updateInputs 0 (absd fr g (Some []) strat0 unc us s0) (Some ocfg) =
    (ncalls s1, absd fr g (Some inp') strat' unc us s1, Some ocfg, tt)
  /\ inputs_rel s1 inp' /\ mitems strat' = strategic s1.
Proof.
  intros Hk ND s0 s1 inp' strat'. split; [|split].
  - unfold gen_updateInputs, absd. cbn.
    match goal with |- context [range_loop _ _ (mk_updateInputs_vars ?d' ?oi' ?p1 ?c1 ?w')] =>
      destruct (updateInputs_loop ocfg d' oi' p1 c1 w' [] eq_refl) as (p' & c' & E) end.
    { cbn. now rewrite Hk. }
    rewrite E. cbn. rewrite sort_desc_eq. subst strat' inp' s1. cbn. rewrite <- Hk. reflexivity.
  - split.
    + subst inp'. now rewrite map_fst_inputs, Hk.
    + intros p. subst inp' s1. cbn. rewrite ahas_in, map_fst_inputs, Hk, init_chans_spec.
      split; [intuition congruence|]. intros _. apply aget_map_undrained.
  - subst strat' s1. rewrite (strategic_of_tie dv g Hok). reflexivity.
Qed.

(* isInputExists = "the priority is registered" (chan_of s p <> None) *)
Theorem tie_v1_isInputExists fr inp strat unc us s p w :
  inputs_rel s inp ->
  gen_isInputExists w (absd fr g (Some inp) strat unc us s) p = (w, absd fr g (Some inp) strat unc us s, ahas inp p)
  /\ (ahas inp p = true <-> chan_of s p <> None).
Proof. intros [_ Hr]. split; [reflexivity|apply (Hr p)]. Qed.

End Main.

(* ------------------------------------------------------------------ examples: no theorem is vacuous (state ex_st of GenTiePrio1Base) *)

(* AddInput of a new priority 5 (channel 9) and of the existing priority 2 (channel replaced, Drained reset) *)
Example ex_addInput_new :
  let s' := do_cmd ex_dv ex_s1 (CAdd 9 5) [] in
  gen_addInput 1 (ex_abs ex_s1) (Some tt) 5 =
    (2%nat, absd ex_frame ex_g (Some (ex_inp ++ [(5, mk_Input (Some tt) false)])) (Some (strategic s')) [] [] s', tt)
  /\ prios s' = [5; 3; 2; 1] /\ strategic s' = [(5, 2); (3, 2); (2, 1); (1, 1)] /\ ncalls s' = 2%nat.
Proof. vm_compute. repeat split. Qed.

Example ex_addInput_thm :
  let s' := do_cmd ex_dv ex_s1 (CAdd 9 2) [] in
  gen_addInput (ncalls ex_s1) (ex_abs ex_s1) None 2 =
    (ncalls s', absd ex_frame ex_g (Some (aset ex_inp 2 (mk_Input None false)))
                     (ex_g (ncalls ex_s1) (prios s') (Prio1.H ex_s1) None) [] [] s', tt).
Proof. apply (tie_v1_addInput ex_dv ex_g div_ok_fair); [apply ex_inputs_rel|apply ex_chan_inv|apply ex_desc]. Qed.

(* RemoveInput 2 while an item of priority 2 is in flight: the actual entry stays *)
Example ex_removeInput :
  let s' := do_cmd ex_dv ex_s1 (CRmv 2) [] in
  gen_removeInput 1 (ex_abs ex_s1) 2 =
    (2%nat, absd ex_frame ex_g (Some [(1, mk_Input (Some tt) false); (3, mk_Input (Some tt) false)]) (Some (strategic s')) [] [] s', tt)
  /\ prios s' = [3; 1] /\ actual s' = [(2, 1)] /\ tactic s' = [(3, 0); (1, 0)] /\ strategic s' = [(3, 3); (1, 3)].
Proof. vm_compute. repeat split. Qed.

Example ex_removeInput_thm :
  let s' := do_cmd ex_dv ex_s1 (CRmv 2) [] in
  gen_removeInput (ncalls ex_s1) (ex_abs ex_s1) 2 =
    (ncalls s', absd ex_frame ex_g (Some (adel ex_inp 2)) (ex_g (ncalls ex_s1) (prios s') (Prio1.H ex_s1) None) [] [] s', tt).
Proof. apply (tie_v1_removeInput ex_dv ex_g div_ok_fair); [apply ex_inputs_rel|reflexivity]. Qed.

Example ex_updateInputs :
  gen_updateInputs 0 (absd ex_frame ex_g (Some []) (Some []) [] [] (init_state ex_dv [] 6 (fun _ => true) 4))
                   (Some [(1, Some tt); (3, Some tt); (2, Some tt)]) =
  (1%nat, absd ex_frame ex_g (Some ex_inp) (Some [(3, 2); (2, 2); (1, 2)]) [] []
            (init_state ex_dv [(1, 1%nat); (3, 3%nat); (2, 2%nat)] 6 (fun _ => true) 4),
   Some [(1, Some tt); (3, Some tt); (2, Some tt)], tt).
Proof. vm_compute. reflexivity. Qed.

Example ex_updateInputs_thm :
  let cfg := [(1, 1%nat); (3, 3%nat); (2, 2%nat)] in
  let ocfg := [(1, Some tt); (3, Some tt); (2, Some tt)] in
  gen_updateInputs 0 (absd ex_frame ex_g (Some []) (Some []) [] [] (init_state ex_dv [] 6 (fun _ => true) 4)) (Some ocfg) =
  (ncalls (init_state ex_dv cfg 6 (fun _ => true) 4),
   absd ex_frame ex_g (Some (map (fun kc => (fst kc, mk_Input (snd kc) false)) ocfg))
        (ex_g 0%nat (prios (init_state ex_dv cfg 6 (fun _ => true) 4)) 6 None) [] []
        (init_state ex_dv cfg 6 (fun _ => true) 4),
   Some ocfg, tt).
Proof. apply (tie_v1_updateInputs ex_dv ex_g div_ok_fair); [reflexivity|nodup_tac]. Qed.

Example ex_isInputExists :
  gen_isInputExists 4 (ex_abs ex_s1) 2 = (4%nat, ex_abs ex_s1, true) /\ gen_isInputExists 4 (ex_abs ex_s1) 7 = (4%nat, ex_abs ex_s1, false).
Proof. split; apply (tie_v1_isInputExists ex_g); apply ex_inputs_rel. Qed.

Print Assumptions tie_v1_addInput.
Print Assumptions tie_v1_removeInput.
Print Assumptions tie_v1_updateInputs.
Print Assumptions tie_v1_isInputExists.
