(* Tie lemmas for the buffer helpers prepareItem / resetJoin of the same generated unit as GenTieUnite.v (kept apart so that a change of these helpers does not break the interval / validation ties). *)
From Coq Require Import List NArith ZArith Bool Lia.
From Cqos Require Import GoSem Join GenTieMiscBase.
From Cqos Require GenJoinUniteV2.
Import ListNotations.
Module JU := GenJoinUniteV2.

Theorem tie_unite_v2_prepareItem w dsc item : JU.gen_prepareItem w dsc item = (w, dsc, item).
Proof. unfold JU.gen_prepareItem. cbn. destruct (JU.Opts_NoCopy (JU.Discipline_opts dsc)); reflexivity. Qed.

Theorem tie_unite_v2_resetJoin w dsc :
  JU.gen_resetJoin w dsc =
  (w, JU.mk_Discipline (JU.Discipline_opts dsc) (JU.Discipline_interruptInterval dsc) [] (JU.Discipline_output dsc)
        (JU.Discipline_passAt dsc) (JU.Discipline_release dsc), tt).
Proof. reflexivity. Qed.

Example ex_unite_v2_prepareItem :
  JU.gen_prepareItem 7 (JU.mk_Discipline (JU.mk_Opts (Some tt) 4 false 0 25) 0 [1;2;3]%N (Some tt) tt (Some tt)) [1;2;3]%N =
  (7%nat, JU.mk_Discipline (JU.mk_Opts (Some tt) 4 false 0 25) 0 [1;2;3]%N (Some tt) tt (Some tt), [1;2;3]%N).
Proof. apply tie_unite_v2_prepareItem. Qed.

Example ex_unite_v2_resetJoin :
  JU.gen_resetJoin 7 (JU.mk_Discipline (JU.mk_Opts (Some tt) 4 true 0 25) 0 [1;2;3]%N (Some tt) tt (Some tt)) =
  (7%nat, JU.mk_Discipline (JU.mk_Opts (Some tt) 4 true 0 25) 0 [] (Some tt) tt (Some tt), tt).
Proof. now rewrite tie_unite_v2_resetJoin. Qed.

Print Assumptions tie_unite_v2_prepareItem.
Print Assumptions tie_unite_v2_resetJoin.
