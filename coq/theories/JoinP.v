(* Untimed properties of the join / unite pc-machine (Join.v): C03 (integrity: nothing lost, duplicated or reordered; slice sizes),
   C11 (unite never splits an input slice), C09 (without timeout the batching is the unique greedy one), ghost causes.
   All statements are about traces without the v1 stop events (StopCall / TakeStop / Abort).
   NB: the constructor [In] of [jev] shadows [List.In]; list membership is always written [List.In] here. *)
From Coq Require Import List ZArith Bool Lia Arith.
From Cqos Require Import Join.
Import ListNotations.
Open Scope Z_scope.

(* ------------------------------------------------------------------------------------------------------------ *)
(** * Vocabulary of the statements *)

Definition nonstop (e : jev) : Prop :=
  match e with StopCall _ | TakeStop _ | Abort _ => False | _ => True end.

Definition no_stop (evs : list jev) : Prop :=
  forall e, List.In e evs -> match e with StopCall _ | TakeStop _ | Abort _ => False | _ => True end.

Fixpoint in_items (evs : list jev) : list (list elem) :=
  match evs with [] => [] | In _ xs :: r => xs :: in_items r | _ :: r => in_items r end.

Definition out_slices (o : list emission) : list (list elem) := map (fun e => snd (fst (fst e))) o.

(* join variants receive one element per In event *)
Definition wf_inputs (c : jcfg) (evs : list jev) : Prop :=
  is_unite c = false -> forall t xs, List.In (In t xs) evs -> length xs = 1%nat.

Definition wf_cfg (c : jcfg) : Prop := (1 <= jsize c)%nat.

(* ------------------------------------------------------------------------------------------------------------ *)
(** * List helpers *)

Lemma concat_snoc {B} (l : list (list B)) (x : list B) : concat (l ++ [x]) = concat l ++ x.
Proof. rewrite concat_app. simpl. now rewrite app_nil_r. Qed.

Lemma in_items_cons e r : in_items (e :: r) = in_items [e] ++ in_items r.
Proof. destruct e; reflexivity. Qed.

Lemma in_items_app a b : in_items (a ++ b) = in_items a ++ in_items b.
Proof.
  induction a as [|e r IH]; [reflexivity|].
  change ((e :: r) ++ b) with (e :: (r ++ b)).
  rewrite (in_items_cons e (r ++ b)), (in_items_cons e r), IH. now rewrite app_assoc.
Qed.

Lemma out_slices_app a b : out_slices (a ++ b) = out_slices a ++ out_slices b.
Proof. apply map_app. Qed.

Lemma length_nil_iff {B} (l : list B) : l = [] <-> length l = 0%nat.
Proof. destruct l; simpl; split; intros H; auto; discriminate. Qed.

(* ------------------------------------------------------------------------------------------------------------ *)
(** * The steps of the machine, decomposed
    Every step result is one of: [resume s k t], [mk_send s b why k] (the two outcomes of [do_pass]),
    [set_buf s b], [s] itself, [set_pc s (AwaitRel k)]. *)

Definition set_buf (s : jst) (b : list elem) : jst :=
  {| buf := b; passAt := passAt s; pc := Loop; unrel := unrel s; stopped := stopped s |}.

Definition mk_send (s : jst) (b : list elem) (why : cause) (k : kont) : jst :=
  {| buf := b; passAt := passAt s; pc := Sending b true why k; unrel := unrel s; stopped := stopped s |}.

Lemma do_pass_cases s b why k t :
  (b = [] /\ do_pass s b why k t = resume s k t) \/ (b <> [] /\ do_pass s b why k t = mk_send s b why k).
Proof. destruct b; [left|right]; split; auto; discriminate. Qed.

Inductive process_spec (c : jcfg) (s : jst) (t : Z) (xs : list elem) : jst -> Prop :=
| PForward : is_unite c = true -> (jsize c <= length xs)%nat ->
    process_spec c s t xs (do_pass s (buf s) Overflow (KForward xs) t)
| PAppend : is_unite c = true -> (length xs < jsize c)%nat -> (jsize c < length xs + length (buf s))%nat ->
    process_spec c s t xs (do_pass s (buf s) Overflow (KAppend xs) t)
| PFull : (is_unite c = true -> (length xs < jsize c)%nat /\ (length xs + length (buf s) <= jsize c)%nat) ->
    (jsize c <= length (buf s ++ xs))%nat ->
    process_spec c s t xs (do_pass s (buf s ++ xs) Full KLoop t)
| PAcc : (is_unite c = true -> (length xs < jsize c)%nat) -> (length (buf s ++ xs) < jsize c)%nat ->
    process_spec c s t xs (set_buf s (buf s ++ xs)).

Lemma process_ok c s t xs : process_spec c s t xs (process c s t xs).
Proof.
  unfold process. destruct (is_unite c) eqn:U.
  - destruct (jsize c <=? length xs)%nat eqn:E1.
    + apply Nat.leb_le in E1. now apply PForward.
    + apply Nat.leb_gt in E1. destruct (jsize c <? length xs + length (buf s))%nat eqn:E2.
      * apply Nat.ltb_lt in E2. now apply PAppend.
      * apply Nat.ltb_ge in E2. cbv zeta. destruct (jsize c <=? length (buf s ++ xs))%nat eqn:E3.
        -- apply Nat.leb_le in E3. apply PFull; auto.
        -- apply Nat.leb_gt in E3. apply (PAcc c s t xs); auto.
  - cbv zeta. destruct (jsize c <=? length (buf s ++ xs))%nat eqn:E3.
    + apply Nat.leb_le in E3. apply PFull; auto. intros HU; rewrite U in HU; discriminate.
    + apply Nat.leb_gt in E3. apply (PAcc c s t xs); auto. intros HU; rewrite U in HU; discriminate.
Qed.

Inductive jstep_spec (c : jcfg) (s : jst) : jev -> jst -> list emission -> Prop :=
| SIn t xs : pc s = Loop -> jstep_spec c s (In t xs) (process c s t xs) []
| STickPass t : pc s = Loop -> 0 < interval c -> jstep_spec c s (Tick t) (do_pass s (buf s) Timeout KLoop t) []
| STickIdle t : pc s = Loop -> 0 < interval c -> jstep_spec c s (Tick t) s []
| SClose t : pc s = Loop -> jstep_spec c s (CloseIn t) (do_pass s (buf s) Final KClose t) []
| SOutNC b own why k t : pc s = Sending b own why k -> nocopy c = true ->
    jstep_spec c s (Out t) (set_pc s (AwaitRel k)) [(t, b, own, why)]
| SOutC b own why k t : pc s = Sending b own why k -> nocopy c = false ->
    jstep_spec c s (Out t) (resume s k t) [(t, b, own, why)]
| SRel k t : pc s = AwaitRel k -> jstep_spec c s (Rel t) (resume s k t) [].

Lemma jstep_ok c s e s1 o1 :
  unrel s = false -> nonstop e -> jstep c s e = Some (s1, o1) -> jstep_spec c s e s1 o1.
Proof.
  intros Hu Hn Hs. unfold jstep in Hs.
  destruct (pc s) as [|b own why k|k|] eqn:Epc; destruct e as [t xs|t|t|t|t|t|t|t];
    cbn in Hn; try contradiction; try discriminate.
  - rewrite Hu in Hs. injection Hs as <- <-. now apply SIn.
  - destruct (interval c <=? 0) eqn:Ei; [discriminate|]. apply Z.leb_gt in Ei.
    rewrite Hu in Hs. destruct (timeout c <=? t - passAt s).
    + injection Hs as <- <-. now apply STickPass.
    + injection Hs as <- <-. now apply STickIdle.
  - rewrite Hu in Hs. injection Hs as <- <-. now apply SClose.
  - destruct (nocopy c) eqn:En; injection Hs as <- <-.
    + now apply SOutNC.
    + now apply SOutC.
  - injection Hs as <- <-. now apply SRel.
Qed.

Lemma unrel_resume s k t : unrel (resume s k t) = unrel s.
Proof. destruct k; reflexivity. Qed.

Lemma unrel_do_pass s b why k t : unrel (do_pass s b why k t) = unrel s.
Proof. destruct b; [apply unrel_resume|reflexivity]. Qed.

Lemma unrel_step c s e s1 o1 : jstep_spec c s e s1 o1 -> unrel s1 = unrel s.
Proof.
  intros H. destruct H; auto using unrel_resume, unrel_do_pass.
  destruct (process_ok c s t xs); auto using unrel_do_pass.
Qed.

(* ------------------------------------------------------------------------------------------------------------ *)
(** * Forward induction along a run: a predicate on (state, inputs so far, emissions so far) *)

Section Fwd.
Variable c : jcfg.
Variable Q : jev -> Prop.
Variable P : jst -> list (list elem) -> list emission -> Prop.
Hypothesis Hstep : forall s e s1 o1 ins outs,
  P s ins outs -> Q e -> jstep c s e = Some (s1, o1) -> P s1 (ins ++ in_items [e]) (outs ++ o1).

Lemma jrun_fwd : forall evs s now s' o ins outs,
  (forall e, List.In e evs -> Q e) ->
  jrun c s now evs = Some (s', o) -> P s ins outs -> P s' (ins ++ in_items evs) (outs ++ o).
Proof.
  induction evs as [|e r IH]; intros s now s' o ins outs HQ Hr HP.
  - cbn in Hr. injection Hr as <- <-. cbn. now rewrite !app_nil_r.
  - cbn [jrun] in Hr. destruct (now <=? ev_time e); [|discriminate].
    destruct (jstep c s e) as [[s1 o1]|] eqn:Es; [|discriminate].
    destruct (jrun c s1 (ev_time e) r) as [[s2 o2]|] eqn:Er; [|discriminate].
    injection Hr as <- <-.
    rewrite (in_items_cons e r), !app_assoc.
    eapply IH; [|exact Er|].
    + intros e' He'. apply HQ. now right.
    + eapply Hstep; eauto. apply HQ. now left.
Qed.
End Fwd.

Lemma no_stop_cons e r : no_stop (e :: r) -> nonstop e /\ no_stop r.
Proof.
  intros H. split.
  - apply (H e). now left.
  - intros e' He'. apply H. now right.
Qed.

(* ------------------------------------------------------------------------------------------------------------ *)
(** * C03, part 1: concatenation of the outputs ++ what is still held = concatenation of the inputs *)

Definition kitems (k : kont) : list elem :=
  match k with KForward xs | KAppend xs => xs | _ => [] end.

(* what the machine still holds *)
Definition pending (s : jst) : list elem :=
  match pc s with
  | Loop => buf s
  | Sending b _ _ k => b ++ kitems k
  | AwaitRel k => kitems k
  | Closed => []
  end.

Lemma pending_resume s k t : pending (resume s k t) = kitems k.
Proof. destruct k; cbn; auto using app_nil_r. Qed.

Lemma pending_do_pass s b why k t : pending (do_pass s b why k t) = b ++ kitems k.
Proof. destruct b; [apply pending_resume|reflexivity]. Qed.

Lemma pending_step c s e s1 o1 :
  jstep_spec c s e s1 o1 -> concat (out_slices o1) ++ pending s1 = pending s ++ concat (in_items [e]).
Proof.
  intros H. destruct H as [t xs Epc|t Epc Hi|t Epc Hi|t Epc|b own why k t Epc Hn|b own why k t Epc Hn|k t Epc];
    unfold pending at 2; rewrite Epc; cbn [in_items out_slices map concat app fst snd]; rewrite ?app_nil_r.
  - destruct (process_ok c s t xs) as [U H1|U H1 H2|H1 H2|H1 H2].
    + now rewrite pending_do_pass.
    + now rewrite pending_do_pass.
    + rewrite pending_do_pass. cbn. now rewrite app_nil_r.
    + reflexivity.
  - rewrite pending_do_pass. cbn. now rewrite app_nil_r.
  - unfold pending. now rewrite Epc.
  - rewrite pending_do_pass. cbn. now rewrite app_nil_r.
  - reflexivity.
  - now rewrite pending_resume.
  - now rewrite pending_resume.
Qed.

Definition P_concat (s : jst) (ins : list (list elem)) (outs : list emission) : Prop :=
  unrel s = false /\ concat (out_slices outs) ++ pending s = concat ins.

Lemma P_concat_step c s e s1 o1 ins outs :
  P_concat s ins outs -> nonstop e -> jstep c s e = Some (s1, o1) ->
  P_concat s1 (ins ++ in_items [e]) (outs ++ o1).
Proof.
  intros [Hu Hc] Hn Hs. apply jstep_ok in Hs; auto. split.
  - now rewrite (unrel_step _ _ _ _ _ Hs).
  - rewrite out_slices_app, !concat_app, <- app_assoc, (pending_step _ _ _ _ _ Hs), app_assoc, Hc. reflexivity.
Qed.

Theorem join_concat_prefix : forall c t0 evs s o, wf_cfg c -> no_stop evs ->
  jrun c (jinit t0) t0 evs = Some (s, o) -> concat (out_slices o) ++ pending s = concat (in_items evs).
Proof.
  intros c t0 evs s o _ Hns Hr.
  assert (H0 : P_concat (jinit t0) [] []) by (split; reflexivity).
  pose proof (jrun_fwd c nonstop P_concat (P_concat_step c) evs _ _ _ _ _ _ Hns Hr H0) as [_ H].
  exact H.
Qed.
Print Assumptions join_concat_prefix.

Theorem join_concat : forall c t0 evs s o, wf_cfg c -> no_stop evs ->
  jrun c (jinit t0) t0 evs = Some (s, o) -> pc s = Closed -> concat (out_slices o) = concat (in_items evs).
Proof.
  intros c t0 evs s o Hc Hns Hr Hpc.
  rewrite <- (join_concat_prefix c t0 evs s o Hc Hns Hr). unfold pending. rewrite Hpc. now rewrite app_nil_r.
Qed.
Print Assumptions join_concat.

(* ------------------------------------------------------------------------------------------------------------ *)
(** * C03, part 2 (slice sizes) and the ghost causes *)

(* input slices the machine is committed to forward as they are *)
Definition kfw (k : kont) : list (list elem) := match k with KForward xs => [xs] | _ => [] end.

Definition fwds (s : jst) : list (list elem) :=
  match pc s with
  | Sending b own _ k => (if own then [] else [b]) ++ kfw k
  | AwaitRel k => kfw k
  | _ => []
  end.

Definition good_k (c : jcfg) (k : kont) : Prop :=
  match k with
  | KForward xs => is_unite c = true /\ (jsize c <= length xs)%nat
  | KAppend xs => is_unite c = true /\ (length xs < jsize c)%nat
  | _ => True
  end.

Definition why_ok (c : jcfg) (b : list elem) (own : bool) (why : cause) : Prop :=
  match why with
  | Full => (jsize c <= length b)%nat
  | Forwarded => own = false /\ (jsize c <= length b)%nat /\ is_unite c = true
  | Overflow => is_unite c = true
  | Timeout => 0 < interval c
  | Final => True
  end.

Definition em_ok (c : jcfg) (b : list elem) (own : bool) (why : cause) : Prop :=
  b <> [] /\ (own = true -> (length b <= jsize c)%nat) /\ (own = false -> why = Forwarded) /\ why_ok c b own why.

Definition st_ok (c : jcfg) (s : jst) : Prop :=
  unrel s = false /\
  match pc s with
  | Loop => (length (buf s) < jsize c)%nat
  | Sending b own why k => em_ok c b own why /\ good_k c k
  | AwaitRel k => good_k c k
  | Closed => True
  end.

Lemma st_ok_resume c s k t : wf_cfg c -> unrel s = false -> good_k c k -> st_ok c (resume s k t).
Proof.
  unfold wf_cfg. intros Hc Hu Hk. destruct k as [|xs|xs|]; split; cbn; auto.
  - destruct Hk as [U Hl]. split; [|exact I]. repeat split; auto.
    + intros ->. cbn in Hl. lia.
    + intros H; discriminate.
  - destruct Hk as [U Hl]. exact Hl.
Qed.

Lemma fwds_resume s k t : fwds (resume s k t) = kfw k.
Proof. destruct k; reflexivity. Qed.

Lemma st_ok_do_pass c s b why k t :
  wf_cfg c -> unrel s = false -> good_k c k -> (b <> [] -> em_ok c b true why) -> st_ok c (do_pass s b why k t).
Proof.
  intros Hc Hu Hk Hb. destruct (do_pass_cases s b why k t) as [[-> ->]|[Hne ->]].
  - now apply st_ok_resume.
  - split; cbn; auto.
Qed.

Lemma fwds_do_pass s b why k t : fwds (do_pass s b why k t) = kfw k.
Proof. destruct b; [apply fwds_resume|reflexivity]. Qed.

Definition P_sz (c : jcfg) (s : jst) (ins : list (list elem)) (outs : list emission) : Prop :=
  st_ok c s /\
  (forall t b own why, List.In (t, b, own, why) outs -> em_ok c b own why /\ (own = false -> List.In b ins)) /\
  incl (fwds s) ins.

Definition Q_sz (c : jcfg) (e : jev) : Prop :=
  nonstop e /\ (is_unite c = false -> forall t xs, e = In t xs -> length xs = 1%nat).

Lemma em_ok_own c b why : b <> [] -> (length b <= jsize c)%nat -> why_ok c b true why -> em_ok c b true why.
Proof. intros H1 H2 H3. repeat split; auto. intros H; discriminate. Qed.

Lemma P_sz_step c : wf_cfg c -> forall s e s1 o1 ins outs,
  P_sz c s ins outs -> Q_sz c e -> jstep c s e = Some (s1, o1) -> P_sz c s1 (ins ++ in_items [e]) (outs ++ o1).
Proof.
  intros Hc s e s1 o1 ins outs ([Hu Hst] & Hem & Hfw) [Hn Hwf] Hs.
  apply jstep_ok in Hs; auto.
  (* emissions already made stay fine when the inputs grow *)
  assert (Hem' : forall t b own why, List.In (t, b, own, why) outs ->
            em_ok c b own why /\ (own = false -> List.In b (ins ++ in_items [e]))).
  { intros t b own why Hin. destruct (Hem t b own why Hin) as [H1 H2]. split; auto.
    intros Ho. apply in_or_app. left. auto. }
  destruct Hs as [t xs Epc|t Epc Hi|t Epc Hi|t Epc|b own why k t Epc Hnc|b own why k t Epc Hnc|k t Epc];
    rewrite Epc in Hst; rewrite ?app_nil_r; cbn [in_items].
  - (* In *)
    destruct (process_ok c s t xs) as [U H1|U H1 H2|H1 H2|H1 H2]; (split; [|split; [exact Hem'|]]).
    + apply st_ok_do_pass; [exact Hc|exact Hu|split; auto|].
      intros Hne. apply em_ok_own; auto. lia.
    + rewrite fwds_do_pass. cbn. apply incl_appr, incl_refl.
    + apply st_ok_do_pass; [exact Hc|exact Hu|split; auto|].
      intros Hne. apply em_ok_own; auto. lia.
    + rewrite fwds_do_pass. cbn. intros x [].
    + apply st_ok_do_pass; [exact Hc|exact Hu|exact I|].
      intros Hne. apply em_ok_own; auto. rewrite app_length.
      destruct (is_unite c) eqn:U.
      * destruct (H1 eq_refl). lia.
      * rewrite (Hwf eq_refl t xs eq_refl). lia.
    + rewrite fwds_do_pass. cbn. intros x [].
    + split; cbn; auto.
    + cbn. unfold fwds. cbn. intros x [].
  - (* Tick, pass *)
    split; [|split; [exact Hem|]].
    + apply st_ok_do_pass; [exact Hc|exact Hu|exact I|]. intros Hne. apply em_ok_own; auto. lia.
    + rewrite fwds_do_pass. cbn. intros x [].
  - (* Tick, idle *)
    split; [|split; [exact Hem|exact Hfw]]. split; auto. now rewrite Epc.
  - (* CloseIn *)
    split; [|split; [exact Hem|]].
    + apply st_ok_do_pass; [exact Hc|exact Hu|exact I|]. intros Hne. apply em_ok_own; [exact Hne|lia|exact I].
    + rewrite fwds_do_pass. cbn. intros x [].
  - (* Out, no-copy *)
    destruct Hst as [Hb Hk]. unfold fwds in Hfw. rewrite Epc in Hfw.
    split; [|split].
    + split; cbn; auto.
    + intros t' b' own' why' Hin. apply in_app_or in Hin. destruct Hin as [Hin|[Heq|[]]]; [exact (Hem _ _ _ _ Hin)|].
      injection Heq as <- <- <- <-. split; auto. intros ->. apply Hfw. cbn. now left.
    + unfold fwds. cbn. intros x Hx. apply Hfw. apply in_or_app. now right.
  - (* Out, copy *)
    destruct Hst as [Hb Hk]. unfold fwds in Hfw. rewrite Epc in Hfw.
    split; [|split].
    + now apply st_ok_resume.
    + intros t' b' own' why' Hin. apply in_app_or in Hin. destruct Hin as [Hin|[Heq|[]]]; [exact (Hem _ _ _ _ Hin)|].
      injection Heq as <- <- <- <-. split; auto. intros ->. apply Hfw. cbn. now left.
    + rewrite fwds_resume. intros x Hx. apply Hfw. apply in_or_app. now right.
  - (* Rel *)
    unfold fwds in Hfw. rewrite Epc in Hfw.
    split; [|split; [exact Hem|]].
    + now apply st_ok_resume.
    + now rewrite fwds_resume.
Qed.

Lemma P_sz_run c t0 evs s o : wf_cfg c -> no_stop evs -> wf_inputs c evs ->
  jrun c (jinit t0) t0 evs = Some (s, o) -> P_sz c s (in_items evs) o.
Proof.
  intros Hc Hns Hwf Hr.
  assert (H0 : P_sz c (jinit t0) [] []).
  { split; [split; cbn; auto|split]. - intros t b own why []. - intros x []. }
  assert (HQ : forall e, List.In e evs -> Q_sz c e).
  { intros e He. split; [exact (Hns e He)|]. intros U t xs ->. exact (Hwf U t xs He). }
  exact (jrun_fwd c (Q_sz c) (P_sz c) (P_sz_step c Hc) evs _ _ _ _ _ _ HQ Hr H0).
Qed.

Theorem join_sizes : forall c t0 evs s o, wf_cfg c -> no_stop evs -> wf_inputs c evs ->
  jrun c (jinit t0) t0 evs = Some (s, o) ->
  forall b, List.In b (out_slices o) ->
    b <> [] /\
    (is_unite c = false -> (length b <= jsize c)%nat) /\
    (is_unite c = true -> (jsize c < length b)%nat -> List.In b (in_items evs) /\ (jsize c <= length b)%nat).
Proof.
  intros c t0 evs s o Hc Hns Hwf Hr b Hb.
  destruct (P_sz_run c t0 evs s o Hc Hns Hwf Hr) as (_ & Hem & _).
  unfold out_slices in Hb. apply in_map_iff in Hb. destruct Hb as ([[[t b'] own] why] & Heq & Hin). cbn in Heq. subst b'.
  destruct (Hem t b own why Hin) as [(Hne & Hown & Hfw & Hwhy) Hins].
  split; [exact Hne|split].
  - intros U. destruct own; [auto|]. rewrite (Hfw eq_refl) in Hwhy. destruct Hwhy as (_ & _ & U'). rewrite U in U'. discriminate.
  - intros U Hbig. destruct own; [specialize (Hown eq_refl); lia|]. split; [auto|lia].
Qed.
Print Assumptions join_sizes.

Theorem cause_sound : forall c t0 evs s o, wf_cfg c -> no_stop evs -> wf_inputs c evs ->
  jrun c (jinit t0) t0 evs = Some (s, o) ->
  forall t b own why, List.In (t, b, own, why) o ->
    match why with
    | Full => (jsize c <= length b)%nat            (* reached JoinSize (join: exactly JoinSize) *)
    | Forwarded => own = false /\ (jsize c <= length b)%nat /\ List.In b (in_items evs)
    | Overflow => is_unite c = true                 (* flushed because the next input slice would not have fitted / was oversize *)
    | Timeout => 0 < interval c
    | Final => True
    end.
Proof.
  intros c t0 evs s o Hc Hns Hwf Hr t b own why Hin.
  destruct (P_sz_run c t0 evs s o Hc Hns Hwf Hr) as (_ & Hem & _).
  destruct (Hem t b own why Hin) as [(Hne & Hown & Hfw & Hwhy) Hins].
  destruct why; cbn in Hwhy; auto.
  destruct Hwhy as (Ho & Hl & _). auto.
Qed.
Print Assumptions cause_sound.

(* join: a Full slice has exactly JoinSize elements; every slice but those cut by timeout / end of input is Full *)
Corollary join_full_exact : forall c t0 evs s o, wf_cfg c -> is_unite c = false -> no_stop evs -> wf_inputs c evs ->
  jrun c (jinit t0) t0 evs = Some (s, o) ->
  forall t b own why, List.In (t, b, own, why) o ->
    own = true /\ (why = Full /\ length b = jsize c \/ why = Timeout /\ 0 < interval c \/ why = Final).
Proof.
  intros c t0 evs s o Hc U Hns Hwf Hr t b own why Hin.
  destruct (P_sz_run c t0 evs s o Hc Hns Hwf Hr) as (_ & Hem & _).
  destruct (Hem t b own why Hin) as [(Hne & Hown & Hfw & Hwhy) Hins].
  assert (Ho : own = true).
  { destruct own; auto. rewrite (Hfw eq_refl) in Hwhy. destruct Hwhy as (_ & _ & U'). rewrite U in U'. discriminate. }
  split; [exact Ho|]. specialize (Hown Ho).
  destruct why; cbn in Hwhy.
  - left. split; auto. lia.
  - rewrite U in Hwhy. discriminate.
  - right. left. auto.
  - right. right. auto.
  - destruct Hwhy as (Ho' & _). rewrite Ho in Ho'. discriminate.
Qed.

(* all variants: an own slice (the accumulation buffer) never exceeds JoinSize; a forwarded slice is an input slice of
   at least JoinSize elements, passed on untouched (this is stronger than the third clause of join_sizes) *)
Corollary emission_sizes : forall c t0 evs s o, wf_cfg c -> no_stop evs -> wf_inputs c evs ->
  jrun c (jinit t0) t0 evs = Some (s, o) ->
  forall t b own why, List.In (t, b, own, why) o ->
    b <> [] /\
    (own = true -> (length b <= jsize c)%nat) /\
    (own = false -> is_unite c = true /\ why = Forwarded /\ (jsize c <= length b)%nat /\ List.In b (in_items evs)).
Proof.
  intros c t0 evs s o Hc Hns Hwf Hr t b own why Hin.
  destruct (P_sz_run c t0 evs s o Hc Hns Hwf Hr) as (_ & Hem & _).
  destruct (Hem t b own why Hin) as [(Hne & Hown & Hfw & Hwhy) Hins].
  split; [exact Hne|split; [exact Hown|]].
  intros Ho. specialize (Hfw Ho). rewrite Hfw in Hwhy. destruct Hwhy as (_ & Hl & U). auto.
Qed.

(* ------------------------------------------------------------------------------------------------------------ *)
(** * C11: the outputs are concatenations of consecutive groups of WHOLE input slices
    (the grouping invariant of Unite_calibration.v transported to the pc-machine: a pass may be in flight) *)

(* the input slice a continuation still has to deal with *)
Definition kgroup (k : kont) : list (list elem) := match k with KForward xs | KAppend xs => [xs] | _ => [] end.
Definition kok (k : kont) : Prop := match k with KForward xs => xs <> [] | _ => True end.

(* gs: the closed groups, one per emission *)
Definition GC (gs : list (list (list elem))) (outs : list emission) : Prop :=
  out_slices outs = map (@concat elem) gs /\ (forall g, List.In g gs -> concat g <> []).

(* cur: the open group (the input slices making up the accumulation buffer / the slice being sent) *)
Definition GI (s : jst) (ins : list (list elem)) (outs : list emission) : Prop :=
  unrel s = false /\
  exists gs cur, GC gs outs /\
    match pc s with
    | Loop => concat gs ++ cur = ins /\ concat cur = buf s
    | Sending b _ _ k => concat gs ++ cur ++ kgroup k = ins /\ concat cur = b /\ b <> [] /\ kok k
    | AwaitRel k => concat gs ++ cur ++ kgroup k = ins /\ concat cur = [] /\ kok k
    | Closed => concat gs ++ cur = ins /\ concat cur = []
    end.

Lemma GI_resume s k t ins outs gs cur :
  unrel s = false -> GC gs outs -> concat gs ++ cur ++ kgroup k = ins -> concat cur = [] -> kok k ->
  GI (resume s k t) ins outs.
Proof.
  intros Hu Hg Hi Hc Hk. split; [now rewrite unrel_resume|].
  destruct k as [|xs|xs|]; cbn [kgroup] in Hi; cbn [resume pc buf].
  - exists gs, cur. rewrite app_nil_r in Hi. auto.
  - exists gs, (cur ++ [xs]). split; [exact Hg|]. cbn [kgroup]. rewrite app_nil_r, concat_snoc, Hc. cbn. auto.
  - exists gs, (cur ++ [xs]). split; [exact Hg|]. rewrite concat_snoc, Hc. cbn. auto.
  - exists gs, cur. rewrite app_nil_r in Hi. auto.
Qed.

Lemma GI_do_pass s b why k t ins outs gs cur :
  unrel s = false -> GC gs outs -> concat gs ++ cur ++ kgroup k = ins -> concat cur = b -> kok k ->
  GI (do_pass s b why k t) ins outs.
Proof.
  intros Hu Hg Hi Hc Hk. destruct (do_pass_cases s b why k t) as [[-> ->]|[Hne ->]].
  - eapply GI_resume; eauto.
  - split; [exact Hu|]. exists gs, cur. cbn. auto.
Qed.

Lemma GC_snoc gs outs cur t b own why :
  GC gs outs -> concat cur = b -> b <> [] -> GC (gs ++ [cur]) (outs ++ [(t, b, own, why)]).
Proof.
  intros [Ho Hne] Hc Hb. split.
  - rewrite out_slices_app, map_app, Ho. cbn. now rewrite Hc.
  - intros g Hin. apply in_app_or in Hin. destruct Hin as [Hin|[<-|[]]]; [auto|]. now rewrite Hc.
Qed.

Lemma GI_step c : wf_cfg c -> forall s e s1 o1 ins outs,
  GI s ins outs -> nonstop e -> jstep c s e = Some (s1, o1) -> GI s1 (ins ++ in_items [e]) (outs ++ o1).
Proof.
  unfold wf_cfg. intros Hc s e s1 o1 ins outs (Hu & gs & cur & Hg & Hst) Hn Hs.
  apply jstep_ok in Hs; auto.
  destruct Hs as [t xs Epc|t Epc Hi|t Epc Hi|t Epc|b own why k t Epc Hnc|b own why k t Epc Hnc|k t Epc];
    rewrite Epc in Hst; cbn [in_items]; rewrite ?app_nil_r.
  - (* In *)
    destruct Hst as [Hins Hcur].
    destruct (process_ok c s t xs) as [U H1|U H1 H2|H1 H2|H1 H2].
    + apply (GI_do_pass _ _ _ _ _ _ _ gs cur); [exact Hu|exact Hg| |exact Hcur| ].
      * cbn. now rewrite <- Hins, <- app_assoc.
      * cbn. intros ->. cbn in H1. lia.
    + apply (GI_do_pass _ _ _ _ _ _ _ gs cur); [exact Hu|exact Hg| |exact Hcur|exact I].
      cbn. now rewrite <- Hins, <- app_assoc.
    + apply (GI_do_pass _ _ _ _ _ _ _ gs (cur ++ [xs])); [exact Hu|exact Hg| | |exact I].
      * cbn. now rewrite <- Hins, app_nil_r, <- app_assoc.
      * now rewrite concat_snoc, Hcur.
    + split; [exact Hu|]. exists gs, (cur ++ [xs]). split; [exact Hg|]. cbn. split.
      * now rewrite <- Hins, <- app_assoc.
      * now rewrite concat_snoc, Hcur.
  - (* Tick, pass *)
    destruct Hst as [Hins Hcur].
    apply (GI_do_pass _ _ _ _ _ _ _ gs cur); [exact Hu|exact Hg|cbn; now rewrite app_nil_r|exact Hcur|exact I].
  - (* Tick, idle *)
    split; [exact Hu|]. exists gs, cur. rewrite Epc. auto.
  - (* CloseIn *)
    destruct Hst as [Hins Hcur].
    apply (GI_do_pass _ _ _ _ _ _ _ gs cur); [exact Hu|exact Hg|cbn; now rewrite app_nil_r|exact Hcur|exact I].
  - (* Out, no-copy *)
    destruct Hst as (Hins & Hcur & Hb & Hk).
    split; [exact Hu|]. exists (gs ++ [cur]), []. split; [now apply GC_snoc|]. cbn.
    rewrite concat_snoc, <- app_assoc. auto.
  - (* Out, copy *)
    destruct Hst as (Hins & Hcur & Hb & Hk).
    apply (GI_resume _ _ _ _ _ (gs ++ [cur]) []); [exact Hu| | |reflexivity|exact Hk].
    + now apply GC_snoc.
    + cbn. now rewrite concat_snoc, <- app_assoc.
  - (* Rel *)
    destruct Hst as (Hins & Hcur & Hk).
    apply (GI_resume _ _ _ _ _ gs cur); [exact Hu|exact Hg|exact Hins|exact Hcur|exact Hk].
Qed.

Lemma filter_all {B} (f : B -> bool) (l : list B) : (forall x, List.In x l -> f x = true) -> filter f l = l.
Proof.
  induction l as [|x r IH]; intros H; cbn; auto.
  rewrite (H x (or_introl eq_refl)). f_equal. apply IH. intros y Hy. apply H. now right.
Qed.

Theorem unite_grouping : forall c t0 evs s o, wf_cfg c -> is_unite c = true -> no_stop evs ->
  jrun c (jinit t0) t0 evs = Some (s, o) -> pc s = Closed ->
  exists groups : list (list (list elem)),
    concat groups = in_items evs   (* consecutive groups of WHOLE input slices, covering the input in order *)
    /\ out_slices o = map (@concat elem) (filter (fun g => negb (match concat g with [] => true | _ => false end)) groups).
Proof.
  intros c t0 evs s o Hc _ Hns Hr Hpc.
  assert (H0 : GI (jinit t0) [] []).
  { split; [reflexivity|]. exists [], []. split; [split; [reflexivity|intros g []]|]. cbn. auto. }
  pose proof (jrun_fwd c nonstop GI (GI_step c Hc) evs _ _ _ _ _ _ Hns Hr H0) as (_ & gs & cur & [Ho Hne] & Hst).
  rewrite Hpc in Hst. destruct Hst as [Hins Hcur]. cbn in Hins, Ho.
  exists (gs ++ [cur]). split.
  - now rewrite concat_snoc.
  - rewrite filter_app, filter_all.
    + cbn. rewrite Hcur. cbn. now rewrite app_nil_r.
    + intros g Hg. specialize (Hne g Hg). destruct (concat g); [contradiction|reflexivity].
Qed.
Print Assumptions unite_grouping.

(* the same in the calibration's formulation, for every variant: one group per output, no group is empty,
   the leftover group [rest] holds only empty slices *)
Theorem grouping_calibration_form : forall c t0 evs s o, wf_cfg c -> no_stop evs ->
  jrun c (jinit t0) t0 evs = Some (s, o) -> pc s = Closed ->
  exists gs rest, out_slices o = map (@concat elem) gs /\ concat gs ++ rest = in_items evs /\ concat rest = [] /\
                  (forall g, List.In g gs -> concat g <> []).
Proof.
  intros c t0 evs s o Hc Hns Hr Hpc.
  assert (H0 : GI (jinit t0) [] []).
  { split; [reflexivity|]. exists [], []. split; [split; [reflexivity|intros g []]|]. cbn. auto. }
  pose proof (jrun_fwd c nonstop GI (GI_step c Hc) evs _ _ _ _ _ _ Hns Hr H0) as (_ & gs & cur & [Ho Hne] & Hst).
  rewrite Hpc in Hst. destruct Hst as [Hins Hcur]. cbn in Hins, Ho.
  exists gs, cur. auto.
Qed.

(* an input slice of at least JoinSize elements is emitted as it is *)
Definition P_ov (c : jcfg) (s : jst) (ins : list (list elem)) (outs : list emission) : Prop :=
  unrel s = false /\
  forall ys, List.In ys ins -> (jsize c <= length ys)%nat -> List.In ys (out_slices outs) \/ List.In ys (fwds s).

Lemma P_ov_step c : is_unite c = true -> forall s e s1 o1 ins outs,
  P_ov c s ins outs -> nonstop e -> jstep c s e = Some (s1, o1) -> P_ov c s1 (ins ++ in_items [e]) (outs ++ o1).
Proof.
  intros U s e s1 o1 ins outs [Hu H] Hn Hs. apply jstep_ok in Hs; auto.
  split; [now rewrite (unrel_step _ _ _ _ _ Hs)|].
  intros ys Hin Hbig. rewrite out_slices_app. apply in_app_or in Hin. destruct Hin as [Hin|Hin].
  - destruct (H ys Hin Hbig) as [Ho|Hf]; [left; apply in_or_app; now left|].
    unfold fwds in Hf.
    destruct Hs as [t xs Epc|t Epc Hi|t Epc Hi|t Epc|b own why k t Epc Hnc|b own why k t Epc Hnc|k t Epc];
      rewrite Epc in Hf.
    + destruct Hf.
    + destruct Hf.
    + destruct Hf.
    + destruct Hf.
    + apply in_app_or in Hf. destruct Hf as [Hf|Hf].
      * destruct own; [destruct Hf|]. destruct Hf as [<-|[]]. left. apply in_or_app. right. cbn. now left.
      * right. unfold fwds. cbn. exact Hf.
    + apply in_app_or in Hf. destruct Hf as [Hf|Hf].
      * destruct own; [destruct Hf|]. destruct Hf as [<-|[]]. left. apply in_or_app. right. cbn. now left.
      * right. now rewrite fwds_resume.
    + right. now rewrite fwds_resume.
  - destruct Hs as [t xs Epc|t Epc Hi|t Epc Hi|t Epc|b own why k t Epc Hnc|b own why k t Epc Hnc|k t Epc];
      cbn in Hin; try contradiction.
    destruct Hin as [<-|[]]. right.
    destruct (process_ok c s t xs) as [U' H1|U' H1 H2|H1 H2|H1 H2].
    + rewrite fwds_do_pass. cbn. now left.
    + lia.
    + destruct (H1 U). lia.
    + specialize (H1 U). lia.
Qed.

Theorem unite_oversize_alone : forall c t0 evs s o, wf_cfg c -> is_unite c = true -> no_stop evs ->
  jrun c (jinit t0) t0 evs = Some (s, o) -> pc s = Closed ->
  forall xs, List.In xs (in_items evs) -> (jsize c <= length xs)%nat -> List.In xs (out_slices o).
Proof.
  intros c t0 evs s o _ U Hns Hr Hpc xs Hin Hbig.
  assert (H0 : P_ov c (jinit t0) [] []) by (split; [reflexivity|intros ys []]).
  pose proof (jrun_fwd c nonstop (P_ov c) (P_ov_step c U) evs _ _ _ _ _ _ Hns Hr H0) as [_ H].
  destruct (H xs Hin Hbig) as [Ho|Hf]; [exact Ho|].
  unfold fwds in Hf. rewrite Hpc in Hf. destruct Hf.
Qed.
Print Assumptions unite_oversize_alone.

(* ------------------------------------------------------------------------------------------------------------ *)
(** * C09: without timeout the batching is the unique greedy one *)

(** ** The specification for join: consecutive chunks of J elements, the last one possibly shorter *)

Fixpoint chunks (fuel J : nat) (l : list elem) : list (list elem) :=
  match fuel with
  | O => []
  | S f => match l with [] => [] | _ => firstn J l :: chunks f J (skipn J l) end
  end.

Definition chunks_of (J : nat) (l : list elem) : list (list elem) := chunks (length l) J l.

(* every chunk but the last has exactly J elements, the last has 1..J *)
Fixpoint chunked (J : nat) (cs : list (list elem)) : Prop :=
  match cs with
  | [] => True
  | c :: rest => match rest with
                 | [] => (1 <= length c <= J)%nat
                 | _ => length c = J /\ chunked J rest
                 end
  end.

Lemma chunks_nil f J : chunks f J [] = [].
Proof. destruct f; reflexivity. Qed.

Lemma chunks_S f J x l : chunks (S f) J (x :: l) = firstn J (x :: l) :: chunks f J (skipn J (x :: l)).
Proof. reflexivity. Qed.

Lemma chunks_fuel J : (1 <= J)%nat -> forall f1 f2 l,
  (length l <= f1)%nat -> (length l <= f2)%nat -> chunks f1 J l = chunks f2 J l.
Proof.
  intros HJ. induction f1 as [|f1 IH]; intros f2 l H1 H2.
  - destruct l; [|cbn in H1; lia]. now rewrite !chunks_nil.
  - destruct l as [|x l']; [now rewrite !chunks_nil|].
    destruct f2 as [|f2]; [cbn in H2; lia|].
    rewrite !chunks_S. f_equal. apply IH; rewrite skipn_length; cbn [length] in *; lia.
Qed.

Lemma firstn_app_exact {B} (b r : list B) : firstn (length b) (b ++ r) = b.
Proof. induction b as [|x b IH]; cbn; [reflexivity|now f_equal]. Qed.

Lemma skipn_app_exact {B} (b r : list B) : skipn (length b) (b ++ r) = r.
Proof. induction b as [|x b IH]; cbn; auto. Qed.

Lemma chunks_of_nil J : chunks_of J [] = [].
Proof. reflexivity. Qed.

Lemma chunks_of_app_full J b rest :
  (1 <= J)%nat -> length b = J -> chunks_of J (b ++ rest) = b :: chunks_of J rest.
Proof.
  intros HJ Hb. unfold chunks_of.
  assert (Hf : firstn J (b ++ rest) = b) by (rewrite <- Hb; apply firstn_app_exact).
  assert (Hs : skipn J (b ++ rest) = rest) by (rewrite <- Hb; apply skipn_app_exact).
  assert (Hl : length (b ++ rest) = S (length rest + (J - 1))) by (rewrite app_length; lia).
  rewrite Hl. destruct (b ++ rest) as [|y l] eqn:E; [cbn in Hl; discriminate|].
  rewrite chunks_S, Hf, Hs. f_equal. apply chunks_fuel; lia.
Qed.

Lemma chunks_of_short J b : (1 <= length b <= J)%nat -> chunks_of J b = [b].
Proof.
  intros H. unfold chunks_of. destruct b as [|x b']; [cbn in H; lia|].
  cbn [length]. rewrite chunks_S. rewrite firstn_all2 by lia. rewrite skipn_all2 by lia.
  now rewrite chunks_nil.
Qed.

(* characterisation: the chunks concatenate to the list and have the right sizes ... *)
Lemma chunks_spec J : (1 <= J)%nat -> forall f l, (length l <= f)%nat ->
  concat (chunks f J l) = l /\ chunked J (chunks f J l).
Proof.
  intros HJ. induction f as [|f IH]; intros l Hl.
  - destruct l; [|cbn in Hl; lia]. cbn. auto.
  - destruct l as [|x l']; [cbn; auto|].
    rewrite chunks_S.
    assert (Hpos : (1 <= length (x :: l'))%nat) by (cbn [length]; lia).
    remember (x :: l') as l eqn:El. clear El x l'.
    assert (Hsk : (length (skipn J l) <= f)%nat) by (rewrite skipn_length; lia).
    destruct (IH (skipn J l) Hsk) as [Hc Hk].
    split.
    + cbn [concat]. rewrite Hc. apply firstn_skipn.
    + destruct (chunks f J (skipn J l)) as [|c2 rest] eqn:E.
      * assert (Hle : (length l <= J)%nat).
        { apply (f_equal (@length elem)) in Hc. rewrite skipn_length in Hc. cbn [concat length] in Hc. lia. }
        cbn [chunked]. rewrite firstn_all2 by lia. lia.
      * assert (Hne : (1 <= length (skipn J l))%nat).
        { rewrite <- Hc. cbn [concat]. rewrite app_length.
          destruct rest; cbn [chunked] in Hk; lia. }
        rewrite skipn_length in Hne.
        change (length (firstn J l) = J /\ chunked J (c2 :: rest)).
        split; [apply firstn_length_le; lia|exact Hk].
Qed.

Theorem chunks_of_spec J l : (1 <= J)%nat -> concat (chunks_of J l) = l /\ chunked J (chunks_of J l).
Proof. intros HJ. apply chunks_spec; auto. Qed.

(* ... and this determines them *)
Theorem chunks_of_unique J cs : (1 <= J)%nat -> chunked J cs -> chunks_of J (concat cs) = cs.
Proof.
  intros HJ. induction cs as [|c rest IH]; intros H; [reflexivity|].
  destruct rest as [|c2 rest'].
  - cbn in H. cbn [concat]. rewrite app_nil_r. now apply chunks_of_short.
  - change (length c = J /\ chunked J (c2 :: rest')) in H. destruct H as [H1 H2].
    cbn [concat]. rewrite chunks_of_app_full by auto. f_equal. apply IH. exact H2.
Qed.

(** ** The specification for unite: the greedy packing of whole slices *)

Definition flush (b : list elem) : list (list elem) := match b with [] => [] | _ => [b] end.

Fixpoint greedy_unite (J : nat) (buf : list elem) (ins : list (list elem)) : list (list elem) :=
  match ins with
  | [] => flush buf
  | xs :: r =>
      if (J <=? length xs)%nat then flush buf ++ xs :: greedy_unite J [] r          (* oversize: alone *)
      else if (J <? length xs + length buf)%nat then flush buf ++ greedy_unite J xs r  (* does not fit *)
      else let b := buf ++ xs in
           if (J <=? length b)%nat then flush b ++ greedy_unite J [] r              (* fits and fills *)
           else greedy_unite J b r                                                  (* fits *)
  end.

(** ** States from which the run can only terminate *)

Definition closing (s : jst) : Prop :=
  match pc s with
  | Closed | Sending _ _ _ KClose | AwaitRel KClose => True
  | _ => False
  end.

Lemma closing_do_pass s b why t : closing (do_pass s b why KClose t).
Proof. destruct b; exact I. Qed.

Lemma closing_no_inputs c : forall evs s now s' o,
  no_stop evs -> unrel s = false -> closing s -> jrun c s now evs = Some (s', o) -> in_items evs = [].
Proof.
  induction evs as [|e r IH]; intros s now s' o Hns Hu Hcl Hr; [reflexivity|].
  apply no_stop_cons in Hns. destruct Hns as [Hn Hns].
  cbn [jrun] in Hr. destruct (now <=? ev_time e); [|discriminate].
  destruct (jstep c s e) as [[s1 o1]|] eqn:Es; [|discriminate].
  destruct (jrun c s1 (ev_time e) r) as [[s2 o2]|] eqn:Er; [|discriminate].
  apply jstep_ok in Es; auto.
  assert (Hu1 : unrel s1 = false) by now rewrite (unrel_step _ _ _ _ _ Es).
  rewrite in_items_cons. unfold closing in Hcl.
  destruct Es as [t xs Epc|t Epc Hi|t Epc Hi|t Epc|b own why k t Epc Hnc|b own why k t Epc Hnc|k t Epc];
    rewrite Epc in Hcl; try contradiction; destruct k; try contradiction; cbn [in_items app].
  - eapply IH; [exact Hns|exact Hu1| |exact Er]. exact I.
  - eapply IH; [exact Hns|exact Hu1| |exact Er]. exact I.
  - eapply IH; [exact Hns|exact Hu1| |exact Er]. exact I.
Qed.

(** ** unite *)

Definition Gk (J : nat) (k : kont) (ins : list (list elem)) : list (list elem) :=
  match k with
  | KLoop => greedy_unite J [] ins
  | KForward xs => xs :: greedy_unite J [] ins
  | KAppend xs => greedy_unite J xs ins
  | KClose => []
  end.

(* what the greedy specification says the machine will still emit, given the remaining inputs *)
Definition G (J : nat) (s : jst) (ins : list (list elem)) : list (list elem) :=
  match pc s with
  | Loop => greedy_unite J (buf s) ins
  | Sending b _ _ k => b :: Gk J k ins
  | AwaitRel k => Gk J k ins
  | Closed => []
  end.

Lemma G_resume J s k t ins : G J (resume s k t) ins = Gk J k ins.
Proof. destruct k; reflexivity. Qed.

Lemma G_do_pass J s b why k t ins : G J (do_pass s b why k t) ins = flush b ++ Gk J k ins.
Proof. destruct b; [apply G_resume|reflexivity]. Qed.

Lemma G_step c s e s1 o1 rest :
  is_unite c = true -> interval c = 0 -> jstep_spec c s e s1 o1 -> (closing s1 -> rest = []) ->
  out_slices o1 ++ G (jsize c) s1 rest = G (jsize c) s (in_items [e] ++ rest).
Proof.
  intros U Hi0 Hs Hcl.
  destruct Hs as [t xs Epc|t Epc Hi|t Epc Hi|t Epc|b own why k t Epc Hnc|b own why k t Epc Hnc|k t Epc];
    unfold G at 2; rewrite Epc; cbn [in_items out_slices map app fst snd].
  - cbn [greedy_unite].
    destruct (process_ok c s t xs) as [U' H1|U' H1 H2|H1 H2|H1 H2].
    + apply Nat.leb_le in H1. rewrite H1. now rewrite G_do_pass.
    + apply Nat.leb_gt in H1. apply Nat.ltb_lt in H2. rewrite H1, H2. now rewrite G_do_pass.
    + destruct (H1 U) as [H3 H4]. apply Nat.leb_gt in H3. apply Nat.ltb_ge in H4. apply Nat.leb_le in H2.
      rewrite H3, H4. cbv zeta. rewrite H2. now rewrite G_do_pass.
    + specialize (H1 U). assert (H4 : (length xs + length (buf s) <= jsize c)%nat) by (rewrite app_length in H2; lia).
      apply Nat.leb_gt in H1. apply Nat.ltb_ge in H4. apply Nat.leb_gt in H2.
      rewrite H1, H4. cbv zeta. rewrite H2. unfold G. reflexivity.
  - lia.
  - lia.
  - rewrite (Hcl (closing_do_pass _ _ _ _)). rewrite G_do_pass. cbn. now rewrite app_nil_r.
  - unfold G. reflexivity.
  - now rewrite G_resume.
  - now rewrite G_resume.
Qed.

Lemma unite_greedy_gen c : is_unite c = true -> interval c = 0 -> forall evs s now s' o,
  no_stop evs -> unrel s = false -> jrun c s now evs = Some (s', o) -> pc s' = Closed ->
  out_slices o = G (jsize c) s (in_items evs).
Proof.
  intros U Hi0. induction evs as [|e r IH]; intros s now s' o Hns Hu Hr Hpc.
  - cbn in Hr. injection Hr as <- <-. unfold G. now rewrite Hpc.
  - apply no_stop_cons in Hns. destruct Hns as [Hn Hns].
    cbn [jrun] in Hr. destruct (now <=? ev_time e); [|discriminate].
    destruct (jstep c s e) as [[s1 o1]|] eqn:Es; [|discriminate].
    destruct (jrun c s1 (ev_time e) r) as [[s2 o2]|] eqn:Er; [|discriminate].
    injection Hr as -> <-.
    apply jstep_ok in Es; auto.
    assert (Hu1 : unrel s1 = false) by now rewrite (unrel_step _ _ _ _ _ Es).
    rewrite out_slices_app, (IH _ _ _ _ Hns Hu1 Er Hpc), in_items_cons.
    apply G_step; auto.
    intros Hcl. exact (closing_no_inputs c r s1 _ _ _ Hns Hu1 Hcl Er).
Qed.

Theorem unite_greedy_untimed : forall c t0 evs s o, wf_cfg c -> is_unite c = true -> interval c = 0 -> no_stop evs ->
  jrun c (jinit t0) t0 evs = Some (s, o) -> pc s = Closed ->
  out_slices o = greedy_unite (jsize c) [] (in_items evs).
Proof.
  intros c t0 evs s o _ U Hi0 Hns Hr Hpc.
  exact (unite_greedy_gen c U Hi0 evs (jinit t0) t0 s o Hns eq_refl Hr Hpc).
Qed.
Print Assumptions unite_greedy_untimed.

(** ** join *)

Definition JI (c : jcfg) (s : jst) : Prop :=
  unrel s = false /\
  match pc s with
  | Loop => (length (buf s) < jsize c)%nat
  | Sending b _ _ k => (k = KLoop /\ length b = jsize c) \/ (k = KClose /\ (1 <= length b <= jsize c)%nat)
  | AwaitRel k => k = KLoop \/ k = KClose
  | Closed => True
  end.

Lemma JI_resume c s k t : wf_cfg c -> unrel s = false -> k = KLoop \/ k = KClose -> JI c (resume s k t).
Proof. unfold wf_cfg. intros Hc Hu [->| ->]; split; cbn; auto. Qed.

Lemma JI_do_pass c s b why k t : wf_cfg c -> unrel s = false ->
  (k = KLoop /\ length b = jsize c) \/ (k = KClose /\ (length b <= jsize c)%nat) -> JI c (do_pass s b why k t).
Proof.
  intros Hc Hu Hk. destruct (do_pass_cases s b why k t) as [[-> ->]|[Hne ->]].
  - apply JI_resume; auto. destruct Hk as [[-> _]|[-> _]]; auto.
  - split; [exact Hu|]. cbn. destruct Hk as [[-> H]|[-> H]]; [left; auto|right; split; auto].
    destruct b; [contradiction|cbn in *; lia].
Qed.

Lemma pending_closing_k s k t : k = KClose -> pending (resume s k t) = [] /\ closing (resume s k t).
Proof. intros ->. split; [reflexivity|exact I]. Qed.

Lemma JI_step c s e s1 o1 :
  wf_cfg c -> is_unite c = false -> interval c = 0 -> JI c s -> jstep_spec c s e s1 o1 ->
  (forall t xs, e = In t xs -> length xs = 1%nat) ->
  JI c s1 /\
  (o1 = [] \/ exists t b own why, o1 = [(t, b, own, why)] /\
     (length b = jsize c \/ ((1 <= length b <= jsize c)%nat /\ closing s1 /\ pending s1 = []))).
Proof.
  intros Hc U Hi0 [Hu Hst] Hs Hwf.
  destruct Hs as [t xs Epc|t Epc Hi|t Epc Hi|t Epc|b own why k t Epc Hnc|b own why k t Epc Hnc|k t Epc];
    rewrite Epc in Hst.
  - split; [|now left].
    specialize (Hwf t xs eq_refl).
    destruct (process_ok c s t xs) as [U' H1|U' H1 H2|H1 H2|H1 H2].
    + rewrite U in U'. discriminate.
    + rewrite U in U'. discriminate.
    + apply JI_do_pass; auto. left. split; auto. rewrite app_length in *. lia.
    + split; cbn; auto.
  - lia.
  - lia.
  - split; [|now left]. apply JI_do_pass; auto. right. split; auto. lia.
  - split.
    + split; [exact Hu|]. cbn. destruct Hst as [[-> _]|[-> _]]; auto.
    + right. exists t, b, own, why. split; [reflexivity|].
      destruct Hst as [[-> H]|[-> H]]; [left; exact H|right]. split; [exact H|]. split; [exact I|reflexivity].
  - split.
    + apply JI_resume; auto. destruct Hst as [[-> _]|[-> _]]; auto.
    + right. exists t, b, own, why. split; [reflexivity|].
      destruct Hst as [[-> H]|[-> H]]; [left; exact H|right]. split; [exact H|]. split; [exact I|reflexivity].
  - split; [|now left]. apply JI_resume; auto.
Qed.

Lemma join_greedy_gen c : wf_cfg c -> is_unite c = false -> interval c = 0 -> forall evs s now s' o,
  no_stop evs -> wf_inputs c evs -> JI c s -> jrun c s now evs = Some (s', o) -> pc s' = Closed ->
  out_slices o = chunks_of (jsize c) (pending s ++ concat (in_items evs)).
Proof.
  intros Hc U Hi0. induction evs as [|e r IH]; intros s now s' o Hns Hwf HJ Hr Hpc.
  - cbn in Hr. injection Hr as <- <-. unfold pending. now rewrite Hpc.
  - apply no_stop_cons in Hns. destruct Hns as [Hn Hns].
    cbn [jrun] in Hr. destruct (now <=? ev_time e); [|discriminate].
    destruct (jstep c s e) as [[s1 o1]|] eqn:Es; [|discriminate].
    destruct (jrun c s1 (ev_time e) r) as [[s2 o2]|] eqn:Er; [|discriminate].
    injection Hr as -> <-.
    apply jstep_ok in Es; [|exact (proj1 HJ)|exact Hn].
    assert (Hwf1 : wf_inputs c r).
    { intros U' t xs Hin. apply (Hwf U' t xs). now right. }
    assert (Hwfe : forall t xs, e = In t xs -> length xs = 1%nat).
    { intros t xs ->. apply (Hwf U t xs). now left. }
    destruct (JI_step c s e s1 o1 Hc U Hi0 HJ Es Hwfe) as [HJ1 Ho1].
    pose proof (pending_step _ _ _ _ _ Es) as Hp.
    rewrite out_slices_app, (IH _ _ _ _ Hns Hwf1 HJ1 Er Hpc), in_items_cons, concat_app, app_assoc, <- Hp.
    destruct Ho1 as [->|(t & b & own & why & -> & [Hb|(Hb & Hcl & Hpe)])]; cbn [out_slices map concat app fst snd].
    + reflexivity.
    + rewrite app_nil_r, <- app_assoc. rewrite (chunks_of_app_full _ _ _ Hc Hb). reflexivity.
    + rewrite (closing_no_inputs c r s1 _ _ _ Hns (proj1 HJ1) Hcl Er), Hpe. cbn [concat]. rewrite !app_nil_r.
      rewrite (chunks_of_short _ _ Hb). reflexivity.
Qed.

Theorem join_greedy_untimed : forall c t0 evs s o, wf_cfg c -> is_unite c = false -> interval c = 0 -> no_stop evs -> wf_inputs c evs ->
  jrun c (jinit t0) t0 evs = Some (s, o) -> pc s = Closed ->
  out_slices o = chunks_of (jsize c) (concat (in_items evs)).
Proof.
  intros c t0 evs s o Hc U Hi0 Hns Hwf Hr Hpc.
  assert (H0 : JI c (jinit t0)) by (split; [reflexivity|exact Hc]).
  exact (join_greedy_gen c Hc U Hi0 evs (jinit t0) t0 s o Hns Hwf H0 Hr Hpc).
Qed.
Print Assumptions join_greedy_untimed.

(* ------------------------------------------------------------------------------------------------------------ *)
(** * Examples: the hypotheses are satisfiable (concrete traces, outputs computed) *)

Module Examples.
Definition cu (nc : bool) (iv : Z) : jcfg :=
  {| variant_of := UniteV2; jsize := 3; timeout := 100; interval := iv; nocopy := nc |}.
Definition a := (1, 1). Definition b := (2, 1).
Definition c := (3, 2). Definition d := (4, 2). Definition e := (5, 2). Definition f := (6, 2).
Definition g := (7, 6).

(* unite, JoinSize 3, copy mode, no timeout: inputs [a;b] [c;d;e;f] [] [g], then close *)
Definition tr1 : list jev :=
  [In 1 [a; b]; In 2 [c; d; e; f]; Out 3; Out 4; In 5 []; In 6 [g]; CloseIn 7; Out 8].

Ltac solve_no_stop :=
  let x := fresh "x" in let H := fresh "H" in
  intros x H; cbn in H; repeat (destruct H as [<-|H]; [exact I|]); destruct H.

Example tr1_no_stop : no_stop tr1.
Proof. solve_no_stop. Qed.

Example tr1_run :
  jrun (cu false 0) (jinit 0) 0 tr1 =
  Some ({| buf := []; passAt := 8; pc := Closed; unrel := false; stopped := false |},
        [(3, [a; b], true, Overflow); (4, [c; d; e; f], false, Forwarded); (8, [g], true, Final)]).
Proof. vm_compute. reflexivity. Qed.

Example tr1_inputs : in_items tr1 = [[a; b]; [c; d; e; f]; []; [g]].
Proof. reflexivity. Qed.

Example tr1_greedy : greedy_unite 3 [] (in_items tr1) = [[a; b]; [c; d; e; f]; [g]].
Proof. vm_compute. reflexivity. Qed.

(* the instance of unite_greedy_untimed / unite_grouping / unite_oversize_alone *)
Example tr1_greedy_thm :
  out_slices [(3, [a; b], true, Overflow); (4, [c; d; e; f], false, Forwarded); (8, [g], true, Final)]
  = greedy_unite 3 [] (in_items tr1).
Proof.
  exact (unite_greedy_untimed (cu false 0) 0 tr1 _ _ (le_S _ _ (le_S _ _ (le_n 1))) eq_refl eq_refl
           tr1_no_stop tr1_run eq_refl).
Qed.

Example tr1_groups :
  let groups := [[[a; b]]; [[c; d; e; f]]; [[]; [g]]] in
  concat groups = in_items tr1 /\
  [[a; b]; [c; d; e; f]; [g]] =
    map (@concat elem) (filter (fun g => negb (match concat g with [] => true | _ => false end)) groups).
Proof. split; reflexivity. Qed.

(* the same inputs in no-copy mode with a ticker: the last slice goes out by timeout, before the input is closed *)
Definition tr2 : list jev :=
  [In 1 [a; b]; In 2 [c; d; e; f]; Out 3; Rel 3; Out 4; Rel 5; In 5 []; Tick 50; In 60 [g]; Tick 100; Tick 170;
   Out 171; Rel 172; CloseIn 180].

Example tr2_no_stop : no_stop tr2.
Proof. solve_no_stop. Qed.

Example tr2_run :
  jrun (cu true 25) (jinit 0) 0 tr2 =
  Some ({| buf := []; passAt := 180; pc := Closed; unrel := false; stopped := false |},
        [(3, [a; b], true, Overflow); (4, [c; d; e; f], false, Forwarded); (171, [g], true, Timeout)]).
Proof. vm_compute. reflexivity. Qed.

(* join, JoinSize 2, no timeout *)
Definition cj : jcfg := {| variant_of := JoinV2; jsize := 2; timeout := 0; interval := 0; nocopy := false |}.
Definition tr3 : list jev := [In 1 [a]; In 2 [b]; Out 3; In 4 [c]; In 5 [d]; Out 5; In 6 [e]; CloseIn 7; Out 8].

Example tr3_no_stop : no_stop tr3.
Proof. solve_no_stop. Qed.

Example tr3_wf : wf_inputs cj tr3.
Proof.
  intros _ t xs H. cbn in H.
  repeat (destruct H as [H|H]; [try discriminate H; injection H as <- <-; reflexivity|]). destruct H.
Qed.

Example tr3_run :
  jrun cj (jinit 0) 0 tr3 =
  Some ({| buf := []; passAt := 8; pc := Closed; unrel := false; stopped := false |},
        [(3, [a; b], true, Full); (5, [c; d], true, Full); (8, [e], true, Final)]).
Proof. vm_compute. reflexivity. Qed.

Example tr3_chunks : chunks_of 2 (concat (in_items tr3)) = [[a; b]; [c; d]; [e]].
Proof. vm_compute. reflexivity. Qed.

Example tr3_greedy_thm :
  out_slices [(3, [a; b], true, Full); (5, [c; d], true, Full); (8, [e], true, Final)]
  = chunks_of 2 (concat (in_items tr3)).
Proof.
  exact (join_greedy_untimed cj 0 tr3 _ _ (le_S _ _ (le_n 1)) eq_refl eq_refl tr3_no_stop tr3_wf tr3_run eq_refl).
Qed.
End Examples.
