(* Property theorems: exactly-once, in-order delivery at graceful termination of the v1 priority discipline (C02). *)
From Coq Require Import List NArith Bool. From Cqos Require Import Base Divider Sched Prio1 Prio1P Prio1E. Import ListNotations. Open Scope N_scope.
Theorem C02_v1_exactly_once :
  forall (fixed : bool) (dv : nat -> Divider),
         (forall (k : nat) (ps : list N) (n : N) (d : dist), NoDup (keys d) -> NoDup (keys (dv k ps n d))) ->
         forall s0 s : st,
         Init1 s0 ->
         reachable fixed dv s0 s ->
         pcs s = Done None ->
         stopped s = false ->
         delivered s = rev (map (fun r : nat * N * N => (snd (fst r), snd r)) (reads s)) /\
         (forall (p : N) (ch : nat),
          In p (prios s) -> chan_of s p = Some ch -> read_items s ch = written s ch /\ inq s ch = []).
Proof. exact @prio1_exactly_once. Qed.
Print Assumptions C02_v1_exactly_once.

Theorem C02_v1_exactly_once_per_channel :
  forall (fixed : bool) (dv : nat -> Divider),
         (forall (k : nat) (ps : list N) (n : N) (d : dist), NoDup (keys d) -> NoDup (keys (dv k ps n d))) ->
         forall s0 s : st,
         Init1 s0 ->
         reachable fixed dv s0 s ->
         pcs s = Done None ->
         stopped s = false ->
         forall (p : N) (ch : nat),
         In p (prios s) -> chan_of s p = Some ch -> delivered_from s ch = written s ch.
Proof. exact @prio1_exactly_once_per_channel_gen. Qed.
Print Assumptions C02_v1_exactly_once_per_channel.

Theorem C02_v1_delivered_all_reads :
  forall (fixed : bool) (dv : nat -> Divider) (s0 s : st),
         Init1 s0 ->
         reachable fixed dv s0 s ->
         stopped s = false ->
         (forall (ph : phase) (p x : N) (r : list N) (n : N), pcs s <> Send ph p x r n) ->
         delivered s = rev (map (fun r : nat * N * N => (snd (fst r), snd r)) (reads s)).
Proof. exact @prio1_delivered_all_reads. Qed.
Print Assumptions C02_v1_delivered_all_reads.

Theorem C02_v1_by_priority_refuted :
  forall fixed : bool,
         exists (s0 s : st) (p : N) (ch : nat),
           Init1 s0 /\
           reachable fixed dv_example s0 s /\
           pcs s = Done None /\
           stopped s = false /\
           In p (prios s) /\
           chan_of s p = Some ch /\
           (forall q : N, q <> p -> chan_of s q <> Some ch) /\ delivered_under s p <> written s ch.
Proof. exact @prio1_exactly_once_by_priority_false. Qed.
Print Assumptions C02_v1_by_priority_refuted.

Theorem C02_v1_by_priority_partial :
  forall (fixed : bool) (dv : nat -> Divider),
         (forall (k : nat) (ps : list N) (n : N) (d : dist), NoDup (keys d) -> NoDup (keys (dv k ps n d))) ->
         forall s0 s : st,
         Init1 s0 ->
         reachable fixed dv s0 s ->
         pcs s = Done None ->
         stopped s = false ->
         forall (p : N) (ch : nat),
         In p (prios s) ->
         chan_of s p = Some ch ->
         (forall (c : nat) (q x : N), In (c, q, x) (reads s) -> c = ch <-> q = p) ->
         delivered_under s p = written s ch.
Proof. exact @prio1_exactly_once_by_priority_partial. Qed.
Print Assumptions C02_v1_by_priority_partial.

