(* Property theorems: the goroutine body of v2 unite, translated from the CURRENT Go sources (GenConcUnite.v) and run by GoConc.v, simulates the hand-written timed machine Join.jstep (variant UniteV2, timed and untimed loop): same request at every pc, same successor after every event -- an arriving slice that fits, that does not fit (flush, then append) or that is oversize (flush, then forward uncopied in no-copy mode), tick, close of the input, completed send, release --, same initial state. *)
From Coq Require Import List NArith ZArith Bool. From Cqos Require Import GoSem GoConc Join GenJoinUniteV2 GenConcUnite GenTieConcUnite. Import ListNotations. Open Scope Z_scope.
Theorem C11_gen_conc_unite_request :
  forall (c : jcfg) (s : jst) (dsc : Discipline) (g : G) (n : nat) (st : site),
         step1 table (dsc, g, n, stack (md c) (pc s) st) = Block (jrequest c s g).
Proof. exact @blocked. Qed.
Print Assumptions C11_gen_conc_unite_request.

Theorem C11_gen_conc_unite_init :
  forall (c : jcfg) (t0 : Z) (dsc : Discipline) (g : G) (n : nat),
         N.to_nat (Opts_JoinSize (Discipline_opts dsc)) = jsize c ->
         Opts_NoCopy (Discipline_opts dsc) = nocopy c ->
         Opts_Timeout (Discipline_opts dsc) = timeout c ->
         Discipline_interruptInterval dsc = interval c ->
         Discipline_join dsc = [] ->
         G_dsc_passAt g = t0 ->
         exists cf' : config cstate payload chan_id fname,
           movesJ (init_answers c) (start table (dsc, g, n) F_main) cf' /\ R c (jinit t0) cf'.
Proof. exact @conc_init. Qed.
Print Assumptions C11_gen_conc_unite_init.

Theorem C11_gen_conc_unite_in :
  forall c : jcfg,
         variant_of c = UniteV2 ->
         forall (s : jst) (t : Z) (l : list N) (xs : list elem) (cf : cfgT),
         R c s cf ->
         pc s = Loop ->
         nvals l xs ->
         (N.of_nat (length xs + length (buf s)) < u_modulus)%N ->
         exists cf' : config cstate payload chan_id fname,
           movesJ (in_answers c s xs t) (GoConc.resume cf (ans_in c l)) cf' /\ R c (process c s t xs) cf'.
Proof. exact @sim_in. Qed.
Print Assumptions C11_gen_conc_unite_in.

Theorem C11_gen_conc_unite_simulates :
  forall c : jcfg,
         variant_of c = UniteV2 ->
         forall (s : jst) (e : jev) (s' : jst) (out : list emission) (cf : cfgT),
         R c s cf ->
         jstep c s e = Some (s', out) ->
         (forall (t : Z) (xs : list elem),
          e = In t xs ->
          Forall (fun x : Z * Z => 0 <= fst x) xs /\ (N.of_nat (length xs + length (buf s)) < u_modulus)%N) ->
         (forall t : Z, e = Tick t -> i_range (t - passAt s)) ->
         exists cf' : config cstate payload chan_id fname, movesJ (janswers c s e) cf cf' /\ R c s' cf'.
Proof. exact @conc_simulates_jstep. Qed.
Print Assumptions C11_gen_conc_unite_simulates.

