(* Deterministic environment for the correspondence check of the limit model (see JoinSim.v for the idea). *)
From Coq Require Import List ZArith Bool Lia.
From RecordUpdate Require Import RecordSet.
From Cqos Require Import Limit.
Import ListNotations RecordSetNotations.
Open Scope Z_scope.

Record lsim := mkLsim {
  lnow : Z;
  ld : lpc;
  libuf : list Z;
  licap : nat;
  liclosed : bool;
  lprod : list Z;              (* remaining delays; values are consecutive from lnext *)
  lnext : Z;
  lprod_at : Z;
  lclose_after : Z;
  lprod_done : bool;
  lobuf : list Z;
  locap : nat;
  lcons_at : Z;
  lcons_n : Z;
  lcons_script : list (Z * Z); (* (index, pause after receiving that element), ascending *)
  lcons_done : bool;
  loutlog : list (Z * Z);
  lputlog : list Z;
  ltclose : Z
}.
#[export] Instance etaLsim : Settable _ := settable! mkLsim
  <lnow; ld; libuf; licap; liclosed; lprod; lnext; lprod_at; lclose_after; lprod_done; lobuf; locap; lcons_at; lcons_n;
   lcons_script; lcons_done; loutlog; lputlog; ltclose>.

Definition lfire (c : lcfg) (s : lsim) (e : lev) : option lsim :=
  match lstep c (ld s) e with Some (p, _) => Some (s <| ld := p |>) | None => None end.

Definition lnext_prod_at (s : lsim) (rest : list Z) : Z :=
  match rest with [] => lnow s + lclose_after s | dl :: _ => lnow s + dl end.

Definition lstep_consumer (s : lsim) : option lsim :=
  let t := lnow s in
  if lcons_done s || negb (lcons_at s <=? t) then None else
  match lobuf s with
  | x :: rest =>
      let '(pause, script') :=
        match lcons_script s with
        | (i, p) :: r => if i =? lcons_n s then (p, r) else (0, lcons_script s)
        | [] => (0, [])
        end in
      Some (s <| lobuf := rest |> <| lcons_n := lcons_n s + 1 |> <| lcons_script := script' |> <| lcons_at := t + pause |>
              <| loutlog := (t, x) :: loutlog s |>)
  | [] => match ld s with LClosed => Some (s <| lcons_done := true |> <| ltclose := t |>) | _ => None end
  end.

Definition lstep_disc (c : lcfg) (s : lsim) : option lsim :=
  let t := lnow s in
  match ld s with
  | LRecv _ _ =>
      match libuf s with
      | x :: rest => option_map (fun s1 => s1 <| libuf := rest |>) (lfire c s (LIn t x))
      | [] =>
          if (licap s =? 0)%nat && negb (lprod_done s) && (lprod_at s <=? t) && match lprod s with [] => false | _ => true end then
            option_map (fun s1 => s1 <| lprod := tl (lprod s) |> <| lnext := lnext s + 1 |> <| lprod_at := lnext_prod_at s (tl (lprod s)) |>
                                     <| lputlog := t :: lputlog s |>)
                       (lfire c s (LIn t (lnext s)))
          else if liclosed s then lfire c s (LCloseIn t) else None
      end
  | LSend _ _ x =>
      if (length (lobuf s) <? locap s)%nat then option_map (fun s1 => s1 <| lobuf := lobuf s ++ [x] |>) (lfire c s (LOut t)) else None
  | LSleep u => if u <=? t then lfire c s (LWake t) else None
  | LClosed => None
  end.

Definition lstep_producer (s : lsim) : option lsim :=
  let t := lnow s in
  if negb (lprod_done s) && (lprod_at s <=? t) then
    match lprod s with
    | _ :: rest =>
        if (length (libuf s) <? licap s)%nat then
          Some (s <| libuf := libuf s ++ [lnext s] |> <| lnext := lnext s + 1 |> <| lprod := rest |> <| lprod_at := lnext_prod_at s rest |>
                  <| lputlog := t :: lputlog s |>)
        else None
    | [] => Some (s <| liclosed := true |> <| lprod_done := true |>)
    end
  else None.

Definition lzmin (a b : option Z) : option Z :=
  match a, b with Some x, Some y => Some (Z.min x y) | Some x, None => Some x | None, y => y end.
Definition llater (s : lsim) (t : Z) (en : bool) : option Z := if en && (lnow s <? t) then Some t else None.

Definition ladvance (s : lsim) : option lsim :=
  match lzmin (llater s (lprod_at s) (negb (lprod_done s)))
       (lzmin (llater s (lcons_at s) (negb (lcons_done s)))
              (match ld s with LSleep u => llater s u true | _ => None end)) with
  | Some t => Some (s <| lnow := t |>)
  | None => None
  end.

Definition lorelse {A} (x : option A) (y : unit -> option A) : option A := match x with Some v => Some v | None => y tt end.
Definition lsim_step (c : lcfg) (s : lsim) : option lsim :=
  lorelse (lstep_consumer s) (fun _ => lorelse (lstep_disc c s) (fun _ => lorelse (lstep_producer s) (fun _ => ladvance s))).

Fixpoint lsim_run (c : lcfg) (fuel : nat) (s : lsim) : lsim * bool :=
  match fuel with
  | O => (s, false)
  | S f => match lsim_step c s with Some s' => lsim_run c f s' | None => (s, true) end
  end.
