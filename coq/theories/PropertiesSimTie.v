(* Property theorems: every discipline state visited by the simulators the correspondence check runs (Prio2Sim, Prio1Sim, JoinSim, LimitSim) is a state of the transition systems the theorems quantify over. *)
From Coq Require Import List NArith ZArith Bool. From Cqos Require Import Base Divider Sched SimTie. Import ListNotations.
Theorem C01_sim_v2_tied :
  forall (base : Divider) (fuel : nat) (sc : list TieP2.op) (sm : Prio2Sim.psim) (s0 : Prio2.st),
         TieP2.tied base s0 sm -> TieP2.tied base s0 (TieP2.run_script base fuel sm sc).
Proof. exact @TieP2.prio2_script_tied. Qed.
Print Assumptions C01_sim_v2_tied.

Theorem C01_sim_v2_reachable :
  forall (base : Divider) (fuel : nat) (sc : list TieP2.op) (sm : Prio2Sim.psim),
         exists dv : nat -> Divider,
           Prio2.reachable dv (Prio2Sim.ps_st sm) (Prio2Sim.ps_st (TieP2.run_script base fuel sm sc)) /\
           TieP2.fam_ok base dv /\
           (forall k : nat,
            (Prio2.ncalls (Prio2Sim.ps_st (TieP2.run_script base fuel sm sc)) <= k)%nat ->
            dv k =
            Prio2Sim.sim_dv base (Prio2.prios (Prio2Sim.ps_st sm))
              (Prio2Sim.ps_fault (TieP2.run_script base fuel sm sc)) k).
Proof. exact @TieP2.prio2_script_reachable. Qed.
Print Assumptions C01_sim_v2_reachable.

Theorem C01_sim_v1_tied :
  forall (fixed : bool) (base : Divider) (fuel : nat) (sc : list TieP1.op) (sm : Prio1Sim.psim)
           (s0 : Prio1.st),
         TieP1.tied fixed base s0 sm -> TieP1.tied fixed base s0 (TieP1.run_script fixed base fuel sm sc).
Proof. exact @TieP1.prio1_script_tied. Qed.
Print Assumptions C01_sim_v1_tied.

Theorem C01_sim_v1_reachable :
  forall (fixed : bool) (base : Divider) (fuel : nat) (sc : list TieP1.op) (sm : Prio1Sim.psim),
         exists dv : nat -> Divider,
           Prio1.reachable fixed dv (Prio1Sim.ps_st sm)
             (Prio1Sim.ps_st (TieP1.run_script fixed base fuel sm sc)) /\
           TieP1.fam_ok base dv /\
           (forall k : nat,
            (Prio1.ncalls (Prio1Sim.ps_st (TieP1.run_script fixed base fuel sm sc)) <= k)%nat ->
            dv k =
            Prio1Sim.sim_dv base (sort_desc (Prio1Sim.ps_reg (TieP1.run_script fixed base fuel sm sc)))
              (Prio1Sim.ps_fault (TieP1.run_script fixed base fuel sm sc)) k).
Proof. exact @TieP1.prio1_script_reachable. Qed.
Print Assumptions C01_sim_v1_reachable.

Theorem C03_sim_join_tied :
  forall (c : Join.jcfg) (t0 : Z) (fuel : nat) (s0 : JoinSim.jsim),
         JoinSim.d s0 = Join.jinit t0 ->
         JoinSim.now s0 = t0 -> TieJ.jtied c t0 (fst (JoinSim.sim_run c fuel s0)).
Proof. exact @TieJ.joinsim_run_tied. Qed.
Print Assumptions C03_sim_join_tied.

Theorem C04_sim_limit_tied :
  forall (c : Limit.lcfg) (t0 : Z) (fuel : nat) (s0 : LimitSim.lsim),
         LimitSim.ld s0 = Limit.linit t0 ->
         LimitSim.lnow s0 = t0 -> TieL.ltied c t0 (fst (LimitSim.lsim_run c fuel s0)).
Proof. exact @TieL.limitsim_run_tied. Qed.
Print Assumptions C04_sim_limit_tied.

