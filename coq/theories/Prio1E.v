(* C02 for v1: exactly-once, in-order delivery at graceful termination (pc Done None, nobody called Stop). *)
From Coq Require Import List NArith Lia Bool Arith.
From Cqos Require Import Base Divider DividerP Sched Prio1 Prio1P.
Import ListNotations.
Open Scope N_scope.

(* ---------- list facts ---------- *)
Lemma sublist_same_length {A} (a b : list A) : sublist a b -> length a = length b -> a = b.
Proof.
  intros Hs. induction Hs as [|x l1 l2 Hs IH|x l1 l2 Hs IH]; cbn [length]; intros Hl.
  - reflexivity.
  - apply sublist_length in Hs. lia.
  - f_equal. apply IH. lia.
Qed.

Lemma filter_rev_comm {A} (f : A -> bool) (l : list A) : filter f (rev l) = rev (filter f l).
Proof.
  induction l as [|a r IH]; cbn [rev filter]; [reflexivity|].
  rewrite filter_app, IH. cbn [filter]. destruct (f a); cbn [rev]; [reflexivity|apply app_nil_r].
Qed.

(* the channel a read came from *)
Definition chan (r : nat * N * N) : nat := fst (fst r).
Definition from_chan (ch : nat) (r : nat * N * N) : bool := Nat.eqb (chan r) ch.

Lemma read_items_alt s ch : read_items s ch = map snd (filter (from_chan ch) (rev (reads s))).
Proof. unfold read_items. rewrite filter_rev_comm, map_rev. reflexivity. Qed.

(* the delivered items labelled with the channel of the read of the same rank (delivery number k <-> read number k, oldest first) *)
Definition delivered_with_chan (s : st) : list (nat * (N * N)) := combine (map chan (rev (reads s))) (delivered s).
(* the items of `delivered s` whose read came from channel ch, in the order of delivery *)
Definition delivered_from (s : st) (ch : nat) : list N :=
  map (fun e => snd (snd e)) (filter (fun e => Nat.eqb (fst e) ch) (delivered_with_chan s)).
(* the items of `delivered s` delivered under priority p, in the order of delivery *)
Definition delivered_under (s : st) (p : N) : list N := map snd (filter (fun d => N.eqb (fst d) p) (delivered s)).

Lemma from_chan_combine (L : list (nat * N * N)) ch :
  map (fun e : nat * (N * N) => snd (snd e)) (filter (fun e => Nat.eqb (fst e) ch) (combine (map chan L) (map tag L))) =
  map snd (filter (from_chan ch) L).
Proof.
  induction L as [|r L IH]; cbn [map combine filter fst]; [reflexivity|].
  unfold from_chan at 1. destruct (Nat.eqb (chan r) ch); cbn [map snd]; rewrite IH; reflexivity.
Qed.

Lemma under_prio_filter (L : list (nat * N * N)) ch p :
  (forall r, In r L -> (chan r = ch <-> snd (fst r) = p)) ->
  map snd (filter (fun d : N * N => N.eqb (fst d) p) (map tag L)) = map snd (filter (from_chan ch) L).
Proof.
  induction L as [|r L IH]; intros Hh; cbn [map filter]; [reflexivity|].
  assert (Hr := Hh r (or_introl eq_refl)).
  assert (IH' := IH (fun r' Hin => Hh r' (or_intror Hin))).
  unfold from_chan at 1. unfold tag at 1. cbn [fst].
  destruct (Nat.eqb_spec (chan r) ch) as [E|Hne]; destruct (N.eqb_spec (snd (fst r)) p) as [E'|Hne']; cbn [map snd].
  - rewrite IH'. reflexivity.
  - exfalso. apply Hne'. apply Hr. exact E.
  - exfalso. apply Hne. apply Hr. exact E'.
  - exact IH'.
Qed.

Section Exactly.
Variable fixed : bool.
Variable dv : nat -> Divider.
(* typing fact of Go maps: a distribution returned by any divider is a map, i.e. has unique keys *)
Hypothesis dv_wf : forall k ps n d, NoDup (keys d) -> NoDup (keys (dv k ps n d)).

(* without a Stop and outside the send, every read has been delivered, in the order of the reads (any pc, not only Done) *)
Lemma prio1_delivered_all_reads : forall s0 s, Init1 s0 -> reachable fixed dv s0 s -> stopped s = false ->
  (forall ph p x r n, pcs s <> Send ph p x r n) ->
  delivered s = rev (map (fun r => (snd (fst r), snd r)) (reads s)).
Proof.
  intros s0 s I Hr Hst Hns.
  apply sublist_same_length.
  - eapply prio1_delivered_subsequence; eauto.
  - rewrite rev_length, map_length.
    rewrite (prio1_read_accounting _ _ _ _ I Hr).
    rewrite (prio1_nothing_lost_without_stop _ _ _ _ I Hr Hst). cbn [length].
    destruct (pcs s) eqn:Epc; try lia. exfalso. eapply Hns. reflexivity.
Qed.

Theorem prio1_exactly_once : forall s0 s, Init1 s0 -> reachable fixed dv s0 s -> pcs s = Done None -> stopped s = false ->
  delivered s = rev (map (fun r => (snd (fst r), snd r)) (reads s)) /\
  (forall p ch, In p (prios s) -> chan_of s p = Some ch -> read_items s ch = written s ch /\ inq s ch = []).
Proof.
  intros s0 s I Hr Hpc Hst. split.
  - apply (prio1_delivered_all_reads s0); auto. intros ph p x r n E. rewrite Hpc in E. discriminate.
  - intros p ch Hp Hch.
    destruct (prio1_done_graceful_exactly fixed dv dv_wf _ _ I Hr Hpc Hst p Hp) as [ch' (Hch' & _ & Hq)].
    assert (E : ch' = ch) by congruence. subst ch'.
    split; [|exact Hq].
    pose proof (prio1_consumed_prefix _ _ _ _ I Hr ch) as Hpre. rewrite Hq, app_nil_r in Hpre. exact Hpre.
Qed.

(* per channel; the hypothesis on the registration of the channel is not needed when the delivered items are attributed to
   channels through the read log *)
Theorem prio1_exactly_once_per_channel_gen : forall s0 s, Init1 s0 -> reachable fixed dv s0 s -> pcs s = Done None -> stopped s = false ->
  forall p ch, In p (prios s) -> chan_of s p = Some ch -> delivered_from s ch = written s ch.
Proof.
  intros s0 s I Hr Hpc Hst p ch Hp Hch.
  destruct (prio1_exactly_once _ _ I Hr Hpc Hst) as [Hd Hall]. destruct (Hall p ch Hp Hch) as [Hri _].
  rewrite <- Hri, read_items_alt. unfold delivered_from, delivered_with_chan. rewrite Hd.
  change (fun r : nat * N * N => (snd (fst r), snd r)) with tag. rewrite <- map_rev.
  apply from_chan_combine.
Qed.

Corollary prio1_exactly_once_per_channel : forall s0 s, Init1 s0 -> reachable fixed dv s0 s -> pcs s = Done None -> stopped s = false ->
  forall p ch, In p (prios s) -> chan_of s p = Some ch ->
  (forall q, q <> p -> chan_of s q <> Some ch) ->      (* the channel is registered under p only *)
  delivered_from s ch = written s ch.
Proof. intros s0 s I Hr Hpc Hst p ch Hp Hch _. eapply prio1_exactly_once_per_channel_gen; eauto. Qed.

(* the projection by priority needs the history: channel ch was only ever read under p and p only ever served ch *)
Theorem prio1_exactly_once_by_priority_partial : forall s0 s, Init1 s0 -> reachable fixed dv s0 s -> pcs s = Done None -> stopped s = false ->
  forall p ch, In p (prios s) -> chan_of s p = Some ch ->
  (forall c q x, In (c, q, x) (reads s) -> (c = ch <-> q = p)) ->
  delivered_under s p = written s ch.
Proof.
  intros s0 s I Hr Hpc Hst p ch Hp Hch Hh.
  destruct (prio1_exactly_once _ _ I Hr Hpc Hst) as [Hd Hall]. destruct (Hall p ch Hp Hch) as [Hri _].
  rewrite <- Hri, read_items_alt. unfold delivered_under. rewrite Hd.
  change (fun r : nat * N * N => (snd (fst r), snd r)) with tag. rewrite <- map_rev.
  apply under_prio_filter. intros [[c q] x] Hin. apply in_rev in Hin. cbn [chan fst snd]. apply (Hh c q x Hin).
Qed.

End Exactly.

Print Assumptions prio1_delivered_all_reads.
Print Assumptions prio1_exactly_once.
Print Assumptions prio1_exactly_once_per_channel_gen.
Print Assumptions prio1_exactly_once_per_channel.
Print Assumptions prio1_exactly_once_by_priority_partial.

(* ---------- non-vacuity, and why the projection by priority needs the history ----------
   New() without inputs; AddInput(channel 5, priority 3); 42 is written to channel 5, delivered, handled;
   AddInput(channel 6, priority 3) replaces the channel of priority 3; channel 6 is closed; GracefulStop(); the discipline
   ends normally.  Everything read was delivered, channel 6 (registered under 3 only) was read completely (nothing), but the
   items delivered under priority 3 are those of the forgotten channel 5. *)
Definition eo_s0 : st := init_state dv_example [] 2 (fun _ => true) 2.
Definition eo_script : list act :=
  [Env (AddCall 5 3 true); Sch 0; Env (Put 5 42); Sch 0; Sch 0; Sch 0; Sch 0; Env Take; Env (Release 3)] ++ repeat (Sch 0) 8 ++
  [Env (AddCall 6 3 true); Sch 0; Sch 0; Sch 0; Env (Close 6); Env GracefulCall] ++ repeat (Sch 0) 8.
Definition eo_s : st := Eval vm_compute in match run true dv_example eo_script eo_s0 with Some s => s | None => eo_s0 end.
Lemma eo_run fixed : run fixed dv_example eo_script eo_s0 = Some eo_s.
Proof. destruct fixed; vm_compute; reflexivity. Qed.
Lemma eo_init : Init1 eo_s0.
Proof. apply init_state_Init1; [apply dv_example_wf|]. cbn. constructor. Qed.
Lemma eo_reach fixed : reachable fixed dv_example eo_s0 eo_s.
Proof. exact (run_reachable fixed dv_example eo_script eo_s0 eo_s0 eo_s (r_init _ _ _) (eo_run fixed)). Qed.

Example eo_facts : pcs eo_s = Done None /\ stopped eo_s = false /\ prios eo_s = [3] /\ chan_of eo_s 3 = Some 6%nat /\
  reads eo_s = [(5%nat, 3, 42)] /\ delivered eo_s = [(3, 42)] /\
  written eo_s 5%nat = [42] /\ written eo_s 6%nat = [] /\
  delivered_from eo_s 5 = [42] /\ delivered_from eo_s 6 = [] /\ delivered_under eo_s 3 = [42].
Proof. vm_compute. repeat split; reflexivity. Qed.

Lemma eo_chan_only : forall q, q <> 3 -> chan_of eo_s q <> Some 6%nat.
Proof.
  intros q Hq. cbn [chan_of eo_s].
  destruct q as [|[[r|r|]|r|]]; cbn; try discriminate. exfalso. apply Hq. reflexivity.
Qed.

(* the per-channel corollary with the projection by priority and the hypothesis on the final registration only is FALSE *)
Theorem prio1_exactly_once_by_priority_false : forall fixed, exists s0 s p ch,
  Init1 s0 /\ reachable fixed dv_example s0 s /\ pcs s = Done None /\ stopped s = false /\
  In p (prios s) /\ chan_of s p = Some ch /\ (forall q, q <> p -> chan_of s q <> Some ch) /\
  delivered_under s p <> written s ch.
Proof.
  intros fixed. exists eo_s0, eo_s, 3, 6%nat.
  split; [exact eo_init|]. split; [apply eo_reach|].
  split; [reflexivity|]. split; [reflexivity|]. split; [left; reflexivity|]. split; [reflexivity|]. split.
  - exact eo_chan_only.
  - vm_compute. discriminate.
Qed.

(* the theorems apply to this execution *)
Example eo_exactly_once : delivered eo_s = rev (map (fun r => (snd (fst r), snd r)) (reads eo_s)) /\
  delivered_from eo_s 6 = written eo_s 6%nat.
Proof.
  split.
  - exact (proj1 (prio1_exactly_once true dv_example dv_example_wf eo_s0 eo_s eo_init (eo_reach true) eq_refl eq_refl)).
  - exact (prio1_exactly_once_per_channel true dv_example dv_example_wf eo_s0 eo_s eo_init (eo_reach true) eq_refl eq_refl
             3 6%nat (or_introl eq_refl) eq_refl
             eo_chan_only).
Qed.

Print Assumptions prio1_exactly_once_by_priority_false.
Print Assumptions eo_exactly_once.
