(* Properties of the limit discipline model (Limit.v): C04 (rate bounds) and C12 (pass-through, no throttling below the
   rate, up-front timing).  All theorems are about lcfg / lpc / lev / lstep / linit / lrun of Limit.v, unchanged. *)
From Coq Require Import List ZArith Bool Lia Sorted.
From Cqos Require Import Limit.
Import ListNotations.
Open Scope Z_scope.

Definition count_le (tau : Z) (l : list Z) : Z := Z.of_nat (length (filter (fun t => t <=? tau) l)).
Definition count_in (a b : Z) (l : list Z) : Z := Z.of_nat (length (filter (fun t => (a <=? t) && (t <=? b)) l)).
Definition out_times (o : list (Z * Z)) : list Z := map fst o.
Definition out_vals (o : list (Z * Z)) : list Z := map snd o.
Fixpoint in_vals (evs : list lev) : list Z :=
  match evs with [] => [] | LIn _ x :: r => x :: in_vals r | _ :: r => in_vals r end.

(* helper: number of elements at or after a *)
Definition count_ge (a : Z) (l : list Z) : Z := Z.of_nat (length (filter (fun t => a <=? t) l)).

(* ------------------------------------------------------------------------------------------------------------------ *)
(* counting lemmas *)

Lemma count_le_app tau a b : count_le tau (a ++ b) = count_le tau a + count_le tau b.
Proof. unfold count_le. rewrite filter_app, app_length. lia. Qed.
Lemma count_ge_app x a b : count_ge x (a ++ b) = count_ge x a + count_ge x b.
Proof. unfold count_ge. rewrite filter_app, app_length. lia. Qed.
Lemma count_in_app x y a b : count_in x y (a ++ b) = count_in x y a + count_in x y b.
Proof. unfold count_in. rewrite filter_app, app_length. lia. Qed.

Lemma count_le_one tau t : count_le tau [t] = if t <=? tau then 1 else 0.
Proof. unfold count_le. cbn [filter]. destruct (t <=? tau); reflexivity. Qed.
Lemma count_ge_one a t : count_ge a [t] = if a <=? t then 1 else 0.
Proof. unfold count_ge. cbn [filter]. destruct (a <=? t); reflexivity. Qed.
Lemma count_in_one a b t : count_in a b [t] = if (a <=? t) && (t <=? b) then 1 else 0.
Proof. unfold count_in. cbn [filter]. destruct ((a <=? t) && (t <=? b)); reflexivity. Qed.

Lemma count_le_len tau l : 0 <= count_le tau l <= Z.of_nat (length l).
Proof.
  induction l as [|x l IH]; [unfold count_le; simpl; lia|].
  change (x :: l) with ([x] ++ l). rewrite count_le_app, count_le_one, app_length.
  cbn [length app]. destruct (x <=? tau); lia.
Qed.
Lemma count_ge_nonneg a l : 0 <= count_ge a l.
Proof. unfold count_ge. lia. Qed.
Lemma count_in_le_ge a b l : 0 <= count_in a b l <= count_ge a l.
Proof.
  induction l as [|x l IH]; [unfold count_in, count_ge; simpl; lia|].
  change (x :: l) with ([x] ++ l). rewrite count_in_app, count_ge_app, count_in_one, count_ge_one.
  destruct (a <=? x); destruct (x <=? b); cbn [andb]; lia.
Qed.
Lemma count_ge_zero a l : (forall t, In t l -> t < a) -> count_ge a l = 0.
Proof.
  induction l as [|x l IH]; intros H; [reflexivity|].
  change (x :: l) with ([x] ++ l). rewrite count_ge_app, count_ge_one.
  rewrite IH by (intros t Ht; apply H; right; exact Ht).
  destruct (a <=? x) eqn:E; [|reflexivity].
  apply Z.leb_le in E. specialize (H x (or_introl eq_refl)). lia.
Qed.

Lemma out_times_app a b : out_times (a ++ b) = out_times a ++ out_times b.
Proof. unfold out_times. apply map_app. Qed.
Lemma out_vals_app a b : out_vals (a ++ b) = out_vals a ++ out_vals b.
Proof. unfold out_vals. apply map_app. Qed.
Lemma out_times_length o : length (out_times o) = length o.
Proof. unfold out_times. apply map_length. Qed.
Lemma in_vals_app a b : in_vals (a ++ b) = in_vals a ++ in_vals b.
Proof.
  induction a as [|e a IH]; [reflexivity|].
  destruct e as [t x|t|t|t]; cbn [app in_vals]; rewrite IH; reflexivity.
Qed.

(* ------------------------------------------------------------------------------------------------------------------ *)
(* generic invariant principle for lrun: P relates the current pc, the time of the last event, the events consumed so
   far and the outputs written so far *)

Section Generic.
Variable c : lcfg.
Variable P : lpc -> Z -> list lev -> list (Z * Z) -> Prop.
Hypothesis Pstep : forall p now pre outs e p' o,
  P p now pre outs -> now <= lev_time e -> lstep c p e = Some (p', o) ->
  P p' (lev_time e) (pre ++ [e]) (outs ++ o).

Lemma lrun_inv : forall evs p now pre outs p' o,
  P p now pre outs -> lrun c p now evs = Some (p', o) ->
  exists now', now <= now' /\ P p' now' (pre ++ evs) (outs ++ o).
Proof.
  induction evs as [|e r IH]; intros p now pre outs p' o HP Hrun; cbn [lrun] in Hrun.
  - inversion Hrun; subst p' o. exists now. rewrite !app_nil_r. split; [lia|exact HP].
  - destruct (now <=? lev_time e) eqn:En; [|discriminate]. apply Z.leb_le in En.
    destruct (lstep c p e) as [[p1 o1]|] eqn:Es; [|discriminate].
    destruct (lrun c p1 (lev_time e) r) as [[p2 o2]|] eqn:Er; [|discriminate].
    inversion Hrun; subst p' o.
    destruct (IH p1 (lev_time e) (pre ++ [e]) (outs ++ o1) p2 o2 (Pstep _ _ _ _ _ _ _ HP En Es) Er)
      as (now' & Hle & HP').
    exists now'. split; [lia|].
    rewrite <- app_assoc in HP'. cbn [app] in HP'. rewrite app_assoc. exact HP'.
Qed.
End Generic.

(* ------------------------------------------------------------------------------------------------------------------ *)
(* C04 *)

Section Bounds.
Variables (c : lcfg) (t0 : Z).
Local Notation Q := (quantity c).
Local Notation I := (linterval c).
Hypothesis HQ : 1 <= Q.
Hypothesis HI : 1 <= I.

Lemma div_mono a b : a <= b -> a / I <= b / I.
Proof. intros H. apply Z.div_le_mono; lia. Qed.
Lemma div_shift a : (a + I) / I = a / I + 1.
Proof. replace (a + I) with (a + 1 * I) by lia. rewrite Z.div_add; lia. Qed.

(* ghost batch state: k = writes of the batch currently open, s = its start.  LSleep: the batch is full and the sleep
   ends at s + I; LClosed: keeps whatever batch was open when the input was found closed *)
Definition ghost (p : lpc) (k s : Z) : Prop :=
  match p with
  | LRecv k' s' | LSend k' s' _ => k' = k /\ s' = s /\ k < Q
  | LSleep u => u = s + I /\ k = Q
  | LClosed => True
  end.

Record CI (k s : Z) (p : lpc) (now : Z) (outs : list (Z * Z)) : Prop := {
  ci_ghost : ghost p k s;
  ci_k : 0 <= k <= Q;
  ci_s : t0 <= s <= now;
  ci_total : Z.of_nat (length outs) <= Q * ((s - t0) / I) + k;
  ci_before : forall tau, t0 <= tau < s -> count_le tau (out_times outs) <= Q * ((tau - t0) / I + 1);
  ci_future : forall t, In t (out_times outs) -> t0 <= t <= now }.
Definition CInv (p : lpc) (now : Z) (outs : list (Z * Z)) : Prop := exists k s, CI k s p now outs.

Lemma cinv_bound p now outs :
  CInv p now outs -> forall tau, t0 <= tau -> count_le tau (out_times outs) <= Q * ((tau - t0) / I + 1).
Proof.
  intros (k & s & [Hg Hk Hs Htot Hbef Hfut]) tau Htau.
  destruct (Z_lt_le_dec tau s) as [Hlt|Hge]; [apply Hbef; lia|].
  pose proof (count_le_len tau (out_times outs)) as Hlen. rewrite out_times_length in Hlen.
  pose proof (div_mono (s - t0) (tau - t0) ltac:(lia)) as Hm.
  assert (H0 : 0 <= (s - t0) / I) by (apply Z.div_pos; lia).
  nia.
Qed.

Lemma cinv_step p now outs e p' o :
  CInv p now outs -> now <= lev_time e -> lstep c p e = Some (p', o) -> CInv p' (lev_time e) (outs ++ o).
Proof.
  intros Hinv Hnow Hstep. pose proof (cinv_bound _ _ _ Hinv) as Hb.
  destruct Hinv as (k & s & [Hg Hk Hs Htot Hbef Hfut]).
  assert (Hfut' : forall t, In t (out_times outs) -> t0 <= t <= lev_time e)
    by (intros t1 Hin; specialize (Hfut t1 Hin); lia).
  destruct p as [k1 s1|k1 s1 x|u|]; destruct e as [t y|t|t|t]; cbn [lstep] in Hstep; try discriminate;
    cbn [lev_time] in *; cbn [ghost] in Hg.
  - (* LRecv, LIn *)
    inversion Hstep; subst p' o. rewrite app_nil_r. destruct Hg as (-> & -> & Hlt).
    exists k, s. constructor; cbn [ghost]; [lia|lia|lia|exact Htot|exact Hbef|exact Hfut'].
  - (* LRecv, LCloseIn *)
    inversion Hstep; subst p' o. rewrite app_nil_r.
    exists k, s. constructor; cbn [ghost]; [exact Logic.I|lia|lia|exact Htot|exact Hbef|exact Hfut'].
  - (* LSend, LOut *)
    destruct Hg as (-> & -> & Hlt).
    assert (Hbef' : forall tau, t0 <= tau < s ->
              count_le tau (out_times (outs ++ [(t, x)])) <= Q * ((tau - t0) / I + 1)).
    { intros tau Htau. rewrite out_times_app, count_le_app. cbn [out_times map fst]. rewrite count_le_one.
      destruct (t <=? tau) eqn:Et; [apply Z.leb_le in Et; lia|]. specialize (Hbef tau Htau). lia. }
    assert (Hfut2 : forall t1, In t1 (out_times (outs ++ [(t, x)])) -> t0 <= t1 <= t).
    { intros t1 Hin. rewrite out_times_app in Hin. apply in_app_or in Hin.
      destruct Hin as [Hin|[<-|[]]]; [auto|cbn [fst]; lia]. }
    destruct (k + 1 <? Q) eqn:Ek; inversion Hstep; subst p' o.
    + apply Z.ltb_lt in Ek. exists (k + 1), s.
      constructor; cbn [ghost]; [lia|lia|lia| |exact Hbef'|exact Hfut2].
      rewrite app_length. cbn [length]. lia.
    + apply Z.ltb_ge in Ek. exists Q, s.
      constructor; cbn [ghost]; [lia|lia|lia| |exact Hbef'|exact Hfut2].
      rewrite app_length. cbn [length]. lia.
  - (* LSleep, LWake *)
    destruct Hg as (-> & ->).
    destruct (s + I <=? t) eqn:Eu; inversion Hstep; subst p' o. apply Z.leb_le in Eu.
    rewrite app_nil_r.
    assert (Hdiv : (s - t0) / I + 1 <= (t - t0) / I).
    { rewrite <- div_shift. apply div_mono. lia. }
    exists 0, t. constructor; cbn [ghost]; [lia|lia|lia| | |exact Hfut'].
    + nia.
    + intros tau Htau. apply Hb. lia.
Qed.

Lemma cinv_init : CInv (linit t0) t0 [].
Proof.
  exists 0, t0. constructor; cbn [linit ghost length out_times map].
  - lia.
  - lia.
  - lia.
  - rewrite Z.sub_diag, Zdiv_0_l. lia.
  - intros tau Htau. lia.
  - intros t [].
Qed.

Lemma cumulative_sec evs p o :
  lrun c (linit t0) t0 evs = Some (p, o) ->
  forall tau, t0 <= tau -> count_le tau (out_times o) <= Q * ((tau - t0) / I + 1).
Proof.
  intros Hrun tau Htau.
  destruct (lrun_inv c (fun p now _ outs => CInv p now outs)
              (fun p now pre outs e p' o H1 H2 H3 => cinv_step p now outs e p' o H1 H2 H3)
              evs (linit t0) t0 [] [] p o cinv_init Hrun) as (now' & _ & Hinv).
  cbn [app] in Hinv. eapply cinv_bound; eauto.
Qed.

(* --- window bound: for a fixed left end a --- *)

Section Window.
Variable a : Z.

Record WI (k s : Z) (p : lpc) (now : Z) (outs : list (Z * Z)) : Prop := {
  wi_ghost : ghost p k s;
  wi_k : 0 <= k <= Q;
  wi_s : s <= now;
  wi_lo : s < a -> count_ge a (out_times outs) <= k;
  wi_hi : a <= s -> count_ge a (out_times outs) <= Q * ((s - a) / I + 1) + k;
  wi_before : forall tau, a <= tau < s -> count_in a tau (out_times outs) <= Q * ((tau - a) / I + 2);
  wi_future : forall t, In t (out_times outs) -> t <= now }.
Definition WInv (p : lpc) (now : Z) (outs : list (Z * Z)) : Prop := exists k s, WI k s p now outs.

Lemma winv_bound p now outs :
  WInv p now outs -> forall tau, a <= tau -> count_in a tau (out_times outs) <= Q * ((tau - a) / I + 2).
Proof.
  intros (k & s & [Hg Hk Hs Hlo Hhi Hbef Hfut]) tau Htau.
  destruct (Z_lt_le_dec tau s) as [Hlt|Hge]; [apply Hbef; lia|].
  pose proof (count_in_le_ge a tau (out_times outs)) as Hle.
  assert (H0 : 0 <= (tau - a) / I) by (apply Z.div_pos; lia).
  destruct (Z_lt_le_dec s a) as [Hsa|Hsa].
  - specialize (Hlo Hsa). nia.
  - specialize (Hhi Hsa).
    pose proof (div_mono (s - a) (tau - a) ltac:(lia)) as Hm.
    assert (H1 : 0 <= (s - a) / I) by (apply Z.div_pos; lia).
    nia.
Qed.

Lemma winv_step p now outs e p' o :
  WInv p now outs -> now <= lev_time e -> lstep c p e = Some (p', o) -> WInv p' (lev_time e) (outs ++ o).
Proof.
  intros Hinv Hnow Hstep. pose proof (winv_bound _ _ _ Hinv) as Hb.
  destruct Hinv as (k & s & [Hg Hk Hs Hlo Hhi Hbef Hfut]).
  assert (Hfut' : forall t, In t (out_times outs) -> t <= lev_time e)
    by (intros t1 Hin; specialize (Hfut t1 Hin); lia).
  destruct p as [k1 s1|k1 s1 x|u|]; destruct e as [t y|t|t|t]; cbn [lstep] in Hstep; try discriminate;
    cbn [lev_time] in *; cbn [ghost] in Hg.
  - (* LRecv, LIn *)
    inversion Hstep; subst p' o. rewrite app_nil_r. destruct Hg as (-> & -> & Hlt).
    exists k, s. constructor; cbn [ghost]; [lia|lia|lia|exact Hlo|exact Hhi|exact Hbef|exact Hfut'].
  - (* LRecv, LCloseIn *)
    inversion Hstep; subst p' o. rewrite app_nil_r.
    exists k, s. constructor; cbn [ghost]; [exact Logic.I|lia|lia|exact Hlo|exact Hhi|exact Hbef|exact Hfut'].
  - (* LSend, LOut *)
    destruct Hg as (-> & -> & Hlt).
    assert (Hge : count_ge a (out_times (outs ++ [(t, x)])) <= count_ge a (out_times outs) + 1).
    { rewrite out_times_app, count_ge_app. cbn [out_times map fst]. rewrite count_ge_one.
      destruct (a <=? t); lia. }
    assert (Hbef' : forall tau, a <= tau < s ->
              count_in a tau (out_times (outs ++ [(t, x)])) <= Q * ((tau - a) / I + 2)).
    { intros tau Htau. rewrite out_times_app, count_in_app. cbn [out_times map fst]. rewrite count_in_one.
      specialize (Hbef tau Htau).
      destruct (t <=? tau) eqn:Et; [apply Z.leb_le in Et; lia|].
      rewrite andb_false_r. lia. }
    assert (Hfut2 : forall t1, In t1 (out_times (outs ++ [(t, x)])) -> t1 <= t).
    { intros t1 Hin. rewrite out_times_app in Hin. apply in_app_or in Hin.
      destruct Hin as [Hin|[<-|[]]]; [auto|cbn [fst]; lia]. }
    destruct (k + 1 <? Q) eqn:Ek; inversion Hstep; subst p' o.
    + apply Z.ltb_lt in Ek. exists (k + 1), s.
      constructor; cbn [ghost]; [lia|lia|lia| | |exact Hbef'|exact Hfut2].
      * intros Hsa. specialize (Hlo Hsa). lia.
      * intros Hsa. specialize (Hhi Hsa). lia.
    + apply Z.ltb_ge in Ek. exists Q, s.
      constructor; cbn [ghost]; [lia|lia|lia| | |exact Hbef'|exact Hfut2].
      * intros Hsa. specialize (Hlo Hsa). lia.
      * intros Hsa. specialize (Hhi Hsa). lia.
  - (* LSleep, LWake *)
    destruct Hg as (-> & ->).
    destruct (s + I <=? t) eqn:Eu; inversion Hstep; subst p' o. apply Z.leb_le in Eu.
    rewrite app_nil_r.
    exists 0, t. constructor; cbn [ghost]; [lia|lia|lia| | | |exact Hfut'].
    + intros Hta. rewrite count_ge_zero; [lia|].
      intros t1 Hin. specialize (Hfut t1 Hin). lia.
    + intros Hta.
      assert (H0 : 0 <= (t - a) / I) by (apply Z.div_pos; lia).
      destruct (Z_lt_le_dec s a) as [Hsa|Hsa].
      * specialize (Hlo Hsa). nia.
      * specialize (Hhi Hsa).
        assert (Hdiv : (s - a) / I + 1 <= (t - a) / I).
        { rewrite <- div_shift. apply div_mono. lia. }
        nia.
    + intros tau Htau. apply Hb. lia.
Qed.

Lemma winv_init : WInv (linit t0) t0 [].
Proof.
  exists 0, t0. constructor; cbn [linit ghost length out_times map].
  - lia.
  - lia.
  - lia.
  - intros _. unfold count_ge. cbn. lia.
  - intros Hs. assert (0 <= (t0 - a) / I) by (apply Z.div_pos; lia). unfold count_ge. cbn [filter length]. nia.
  - intros tau Htau. assert (0 <= (tau - a) / I) by (apply Z.div_pos; lia). unfold count_in. cbn [filter length]. nia.
  - intros t [].
Qed.

Lemma window_sec evs p o :
  lrun c (linit t0) t0 evs = Some (p, o) ->
  forall W, 0 <= W -> count_in a (a + W) (out_times o) <= Q * (W / I + 2).
Proof.
  intros Hrun W HW.
  destruct (lrun_inv c (fun p now _ outs => WInv p now outs)
              (fun p now pre outs e p' o H1 H2 H3 => winv_step p now outs e p' o H1 H2 H3)
              evs (linit t0) t0 [] [] p o winv_init Hrun) as (now' & _ & Hinv).
  cbn [app] in Hinv. pose proof (winv_bound _ _ _ Hinv (a + W) ltac:(lia)) as Hb.
  replace (a + W - a) with W in Hb by lia. exact Hb.
Qed.
End Window.
End Bounds.

(* C04: at most Quantity*(floor((tau-t0)/Interval)+1) writes by time tau, for EVERY accepted timed trace from creation *)
Theorem limit_cumulative : forall c t0 evs p o,
  1 <= quantity c -> 1 <= linterval c ->
  lrun c (linit t0) t0 evs = Some (p, o) ->
  forall tau, t0 <= tau -> count_le tau (out_times o) <= quantity c * ((tau - t0) / linterval c + 1).
Proof. intros c t0 evs p o HQ HI Hrun. exact (cumulative_sec c t0 HQ HI evs p o Hrun). Qed.
Print Assumptions limit_cumulative.

(* C04: any window [a, a+W] contains at most Quantity*(floor(W/Interval)+2) writes *)
Theorem limit_window : forall c t0 evs p o,
  1 <= quantity c -> 1 <= linterval c ->
  lrun c (linit t0) t0 evs = Some (p, o) ->
  forall a W, 0 <= W -> count_in a (a + W) (out_times o) <= quantity c * (W / linterval c + 2).
Proof. intros c t0 evs p o HQ HI Hrun a W HW. exact (window_sec c t0 HQ HI a evs p o Hrun W HW). Qed.
Print Assumptions limit_window.

(* ------------------------------------------------------------------------------------------------------------------ *)
(* C12: pass-through *)

Definition pending (p : lpc) : list Z := match p with LSend _ _ x => [x] | _ => [] end.

Definition PInv (p : lpc) (now : Z) (pre : list lev) (outs : list (Z * Z)) : Prop :=
  in_vals pre = out_vals outs ++ pending p /\
  (p = LClosed -> exists pre' t, pre = pre' ++ [LCloseIn t] /\ in_vals pre' = out_vals outs).

Lemma pinv_step c p now pre outs e p' o :
  PInv p now pre outs -> now <= lev_time e -> lstep c p e = Some (p', o) ->
  PInv p' (lev_time e) (pre ++ [e]) (outs ++ o).
Proof.
  intros [Hv Hc] _ Hstep. unfold PInv. rewrite in_vals_app, out_vals_app.
  destruct p as [k s|k s x|u|]; destruct e as [t y|t|t|t]; cbn [lstep] in Hstep; try discriminate;
    cbn [pending] in Hv.
  - inversion Hstep; subst p' o. cbn [in_vals out_vals map pending]. rewrite app_nil_r in *.
    split; [rewrite Hv; reflexivity|intros H; discriminate].
  - inversion Hstep; subst p' o. cbn [in_vals out_vals map pending]. rewrite !app_nil_r in *.
    split; [exact Hv|]. intros _. exists pre, t. split; [reflexivity|exact Hv].
  - destruct (k + 1 <? quantity c); inversion Hstep; subst p' o;
      cbn [in_vals out_vals map snd pending]; rewrite !app_nil_r;
      (split; [exact Hv|intros H; discriminate]).
  - destruct (u <=? t); inversion Hstep; subst p' o.
    cbn [in_vals out_vals map pending]. rewrite !app_nil_r in *.
    split; [exact Hv|intros H; discriminate].
Qed.

Lemma pinv_run c t0 evs p o :
  lrun c (linit t0) t0 evs = Some (p, o) -> PInv p t0 evs o.
Proof.
  intros Hrun.
  destruct (lrun_inv c (fun p _ pre outs => PInv p t0 pre outs)
              (fun p now pre outs e p' o H1 H2 H3 => pinv_step c p now pre outs e p' o H1 H2 H3)
              evs (linit t0) t0 [] [] p o) as (now' & _ & Hinv); [|exact Hrun|exact Hinv].
  split; [reflexivity|intros H; discriminate].
Qed.

Theorem limit_passthrough : forall c t0 evs p o,
  lrun c (linit t0) t0 evs = Some (p, o) ->
  in_vals evs = out_vals o ++ match p with LSend _ _ x => [x] | _ => [] end.
Proof. intros c t0 evs p o Hrun. exact (proj1 (pinv_run c t0 evs p o Hrun)). Qed.
Print Assumptions limit_passthrough.

Theorem limit_closed_only_after_close : forall c t0 evs p o,
  lrun c (linit t0) t0 evs = Some (p, o) -> p = LClosed ->
  exists pre t, evs = pre ++ [LCloseIn t] /\ in_vals pre = out_vals o.
Proof. intros c t0 evs p o Hrun Hp. exact (proj2 (pinv_run c t0 evs p o Hrun) Hp). Qed.
Print Assumptions limit_closed_only_after_close.

(* LClosed enables no further event *)
Lemma limit_closed_final : forall c e, lstep c LClosed e = None.
Proof. intros c e. destruct e; reflexivity. Qed.

(* bonus: output times are non-decreasing (and never before t0) *)
Lemma StronglySorted_snoc (l : list Z) (t : Z) :
  StronglySorted Z.le l -> (forall x, In x l -> x <= t) -> StronglySorted Z.le (l ++ [t]).
Proof.
  induction 1 as [|x l Hs IH Hall]; intros Hle; cbn [app].
  - constructor; constructor.
  - constructor.
    + apply IH. intros y Hy. apply Hle. right. exact Hy.
    + apply Forall_app. split; [exact Hall|]. constructor; [|constructor]. apply Hle. left. reflexivity.
Qed.

Definition SInv (t0 : Z) (p : lpc) (now : Z) (pre : list lev) (outs : list (Z * Z)) : Prop :=
  t0 <= now /\ StronglySorted Z.le (out_times outs) /\ (forall t, In t (out_times outs) -> t0 <= t <= now).

Lemma sinv_step c t0 p now pre outs e p' o :
  SInv t0 p now pre outs -> now <= lev_time e -> lstep c p e = Some (p', o) ->
  SInv t0 p' (lev_time e) (pre ++ [e]) (outs ++ o).
Proof.
  intros (Hn & Hs & Hf) Hnow Hstep.
  assert (Hf' : forall t, In t (out_times outs) -> t0 <= t <= lev_time e)
    by (intros t1 Hin; specialize (Hf t1 Hin); lia).
  destruct p as [k s|k s x|u|]; destruct e as [t y|t|t|t]; cbn [lstep] in Hstep; try discriminate;
    cbn [lev_time] in *.
  - inversion Hstep; subst p' o. rewrite app_nil_r. split; [lia|split; [exact Hs|exact Hf']].
  - inversion Hstep; subst p' o. rewrite app_nil_r. split; [lia|split; [exact Hs|exact Hf']].
  - assert (Ho : o = [(t, x)]) by (destruct (k + 1 <? quantity c); inversion Hstep; reflexivity).
    subst o. unfold SInv. rewrite out_times_app. cbn [out_times map fst]. split; [lia|split].
    + apply StronglySorted_snoc; [exact Hs|]. intros y Hy. specialize (Hf y Hy). lia.
    + intros t1 Hin. apply in_app_or in Hin. destruct Hin as [Hin|[<-|[]]]; [auto|lia].
  - destruct (u <=? t); inversion Hstep; subst p' o. rewrite app_nil_r.
    split; [lia|split; [exact Hs|exact Hf']].
Qed.

Theorem limit_out_times_sorted : forall c t0 evs p o,
  lrun c (linit t0) t0 evs = Some (p, o) ->
  StronglySorted Z.le (out_times o) /\ (forall t, In t (out_times o) -> t0 <= t).
Proof.
  intros c t0 evs p o Hrun.
  destruct (lrun_inv c (SInv t0)
              (fun p now pre outs e p' o H1 H2 H3 => sinv_step c t0 p now pre outs e p' o H1 H2 H3)
              evs (linit t0) t0 [] [] p o) as (now' & _ & (Hn & Hs & Hf)); [|exact Hrun|].
  - split; [lia|split; [constructor|intros t []]].
  - cbn [app] in *. split; [exact Hs|]. intros t Ht. specialize (Hf t Ht). lia.
Qed.
Print Assumptions limit_out_times_sorted.

(* ------------------------------------------------------------------------------------------------------------------ *)
(* C12: no throttling below the rate *)

Definition KInv (c : lcfg) (t0 : Z) (p : lpc) (now : Z) (pre : list lev) (outs : list (Z * Z)) : Prop :=
  t0 <= now /\
  match p with
  | LRecv k s | LSend k s _ => 0 <= k < quantity c /\ t0 <= s
  | _ => True
  end.

Lemma kinv_step c t0 p now pre outs e p' o :
  1 <= quantity c ->
  KInv c t0 p now pre outs -> now <= lev_time e -> lstep c p e = Some (p', o) ->
  KInv c t0 p' (lev_time e) (pre ++ [e]) (outs ++ o).
Proof.
  intros HQ [Hn Hp] Hnow Hstep. unfold KInv.
  destruct p as [k s|k s x|u|]; destruct e as [t y|t|t|t]; cbn [lstep] in Hstep; try discriminate;
    cbn [lev_time] in *.
  - inversion Hstep; subst p' o. split; [lia|exact Hp].
  - inversion Hstep; subst p' o. split; [lia|exact Logic.I].
  - destruct (k + 1 <? quantity c) eqn:Ek; inversion Hstep; subst p' o.
    + apply Z.ltb_lt in Ek. split; lia.
    + split; [lia|exact Logic.I].
  - destruct (u <=? t); inversion Hstep; subst p' o. split; lia.
Qed.

Theorem limit_sleep_only_after_quantity : forall c t0 evs p o,
  1 <= quantity c ->
  lrun c (linit t0) t0 evs = Some (p, o) ->
  match p with
  | LRecv k s | LSend k s _ => 0 <= k < quantity c /\ t0 <= s
  | _ => True
  end.
Proof.
  intros c t0 evs p o HQ Hrun.
  destruct (lrun_inv c (KInv c t0)
              (fun p now pre outs e p' o H1 H2 H3 => kinv_step c t0 p now pre outs e p' o HQ H1 H2 H3)
              evs (linit t0) t0 [] [] p o) as (now' & _ & (_ & Hp)); [|exact Hrun|exact Hp].
  unfold KInv, linit. lia.
Qed.
Print Assumptions limit_sleep_only_after_quantity.

Theorem limit_sleep_deadline : forall c k s x t u o,
  lstep c (LSend k s x) (LOut t) = Some (LSleep u, o) -> u = s + linterval c /\ k + 1 >= quantity c.
Proof.
  intros c k s x t u o Hstep. cbn [lstep] in Hstep.
  destruct (k + 1 <? quantity c) eqn:Ek; inversion Hstep; subst.
  apply Z.ltb_ge in Ek. lia.
Qed.
Print Assumptions limit_sleep_deadline.

(* ------------------------------------------------------------------------------------------------------------------ *)
(* C12: up-front timing *)

(* the only admissible time of the next event in an eager execution: the environment never makes the machine wait, and
   the sleep is ideal *)
Definition next_time (p : lpc) (now : Z) : Z :=
  match p with LSleep u => Z.max now u | _ => now end.

Fixpoint eager_from (c : lcfg) (p : lpc) (now : Z) (evs : list lev) : Prop :=
  match evs with
  | [] => True
  | e :: r =>
      lev_time e = next_time p now /\
      match lstep c p e with
      | Some (p1, _) => eager_from c p1 (lev_time e) r
      | None => True
      end
  end.

Definition eager (c : lcfg) (t0 : Z) (evs : list lev) : Prop := eager_from c (linit t0) t0 evs.

Section Upfront.
Variables (c : lcfg) (t0 : Z).
Local Notation Q := (quantity c).
Local Notation I := (linterval c).
Hypothesis HQ : 1 <= Q.
Hypothesis HI : 1 <= I.

Record UI (m k s : Z) (p : lpc) (now : Z) (outs : list (Z * Z)) : Prop := {
  ui_ghost : ghost c p k s;
  ui_k : 0 <= k;
  ui_m : 0 <= m;
  ui_s : s = t0 + m * I;
  ui_now : now = s;
  ui_len : Z.of_nat (length outs) = Q * m + k }.

Definition UInv (p : lpc) (now : Z) (outs : list (Z * Z)) : Prop :=
  (forall j, (j < length outs)%nat -> nth j (out_times outs) 0 = t0 + (Z.of_nat j / Q) * I) /\
  (p = LClosed \/ exists m k s, UI m k s p now outs).

Lemma uinv_step p now outs e p' o :
  UInv p now outs -> lev_time e = next_time p now -> lstep c p e = Some (p', o) ->
  UInv p' (lev_time e) (outs ++ o).
Proof.
  intros [Hnth [Hcl|(m & k & s & [Hg Hk Hm Hs Hnow Hlen])]] Hnext Hstep.
  { subst p. destruct e; cbn [lstep] in Hstep; discriminate. }
  destruct p as [k1 s1|k1 s1 x|u|]; destruct e as [t y|t|t|t]; cbn [lstep] in Hstep; try discriminate;
    cbn [lev_time next_time] in *; cbn [ghost] in Hg.
  - (* LRecv, LIn *)
    inversion Hstep; subst p' o. rewrite app_nil_r. destruct Hg as (-> & -> & Hlt).
    split; [exact Hnth|]. right. exists m, k, s. constructor; cbn [ghost]; [lia|lia|lia|exact Hs|lia|exact Hlen].
  - (* LRecv, LCloseIn *)
    inversion Hstep; subst p' o. rewrite app_nil_r. split; [exact Hnth|]. left. reflexivity.
  - (* LSend, LOut *)
    destruct Hg as (-> & -> & Hlt).
    assert (Hnth' : forall j, (j < length (outs ++ [(t, x)]))%nat ->
              nth j (out_times (outs ++ [(t, x)])) 0 = t0 + (Z.of_nat j / Q) * I).
    { intros j Hj. rewrite app_length in Hj. cbn [length] in Hj. rewrite out_times_app.
      destruct (Nat.eq_dec j (length outs)) as [->|Hne].
      - rewrite app_nth2 by (rewrite out_times_length; lia). rewrite out_times_length, Nat.sub_diag.
        cbn [out_times map fst nth].
        assert (Hd : (Q * m + k) / Q = m) by (symmetry; apply Z.div_unique with k; lia).
        rewrite Hlen, Hd. lia.
      - rewrite app_nth1 by (rewrite out_times_length; lia). apply Hnth. lia. }
    destruct (k + 1 <? Q) eqn:Ek; inversion Hstep; subst p' o.
    + apply Z.ltb_lt in Ek. split; [exact Hnth'|]. right. exists m, (k + 1), s.
      constructor; cbn [ghost]; [lia|lia|lia|exact Hs|lia|].
      rewrite app_length. cbn [length]. lia.
    + apply Z.ltb_ge in Ek. split; [exact Hnth'|]. right. exists m, Q, s.
      constructor; cbn [ghost]; [lia|lia|lia|exact Hs|lia|].
      rewrite app_length. cbn [length]. lia.
  - (* LSleep, LWake *)
    destruct Hg as (-> & ->).
    destruct (s + I <=? t) eqn:Eu; inversion Hstep; subst p' o.
    rewrite app_nil_r. split; [exact Hnth|]. right. exists (m + 1), 0, t.
    constructor; cbn [ghost]; [lia|lia|lia|lia|lia|lia].
Qed.

Lemma uinv_run : forall evs p now outs p' o,
  UInv p now outs -> eager_from c p now evs -> lrun c p now evs = Some (p', o) ->
  exists now', UInv p' now' (outs ++ o).
Proof.
  induction evs as [|e r IH]; intros p now outs p' o Hinv Heag Hrun; cbn [lrun] in Hrun; cbn [eager_from] in Heag.
  - inversion Hrun; subst p' o. exists now. rewrite app_nil_r. exact Hinv.
  - destruct Heag as [Ht Heag].
    destruct (now <=? lev_time e); [|discriminate].
    destruct (lstep c p e) as [[p1 o1]|] eqn:Es; [|discriminate].
    destruct (lrun c p1 (lev_time e) r) as [[p2 o2]|] eqn:Er; [|discriminate].
    inversion Hrun; subst p' o.
    destruct (IH p1 (lev_time e) (outs ++ o1) p2 o2 (uinv_step _ _ _ _ _ _ Hinv Ht Es) Heag Er) as (now' & H).
    exists now'. rewrite app_assoc. exact H.
Qed.

Lemma upfront_sec evs p o :
  eager c t0 evs -> lrun c (linit t0) t0 evs = Some (p, o) ->
  forall j, (j < length o)%nat -> nth j (out_times o) 0 = t0 + (Z.of_nat j / Q) * I.
Proof.
  intros Heag Hrun.
  destruct (uinv_run evs (linit t0) t0 [] p o) as (now' & Hnth & _); [|exact Heag|exact Hrun|exact Hnth].
  split; [intros j Hj; cbn [length] in Hj; lia|].
  right. exists 0, 0, t0. constructor; cbn [linit ghost length]; lia.
Qed.
End Upfront.

Theorem limit_upfront_timing : forall c t0 evs p o,
  1 <= quantity c -> 1 <= linterval c ->
  eager c t0 evs ->
  lrun c (linit t0) t0 evs = Some (p, o) ->
  forall j, (j < length o)%nat -> nth j (out_times o) 0 = t0 + (Z.of_nat j / quantity c) * linterval c.
Proof. intros c t0 evs p o HQ HI Heag Hrun. exact (upfront_sec c t0 HQ HI evs p o Heag Hrun). Qed.
Print Assumptions limit_upfront_timing.

(* ------------------------------------------------------------------------------------------------------------------ *)
(* the hypotheses are satisfiable: concrete accepted traces *)

Definition ex_cfg : lcfg := {| quantity := 2; linterval := 10 |}.

(* five elements, a real sleep after the first batch (wake with latency 2), a slow consumer in the second batch (so the
   second sleep is Sleep(negative) and returns at once), close after the fifth *)
Definition ex_trace : list lev :=
  [LIn 0 100; LOut 1; LIn 3 101; LOut 4; LWake 12;
   LIn 12 102; LOut 30; LIn 30 103; LOut 31; LWake 31;
   LIn 35 104; LOut 36; LCloseIn 40].

Example ex_trace_accepted :
  lrun ex_cfg (linit 0) 0 ex_trace = Some (LClosed, [(1, 100); (4, 101); (30, 102); (31, 103); (36, 104)]).
Proof. vm_compute. reflexivity. Qed.

(* waking before the deadline s + Interval = 10 is not a trace *)
Example ex_early_wake_rejected :
  lrun ex_cfg (linit 0) 0 [LIn 0 100; LOut 1; LIn 3 101; LOut 4; LWake 9] = None.
Proof. vm_compute. reflexivity. Qed.

Definition ex_eager_trace : list lev :=
  [LIn 0 100; LOut 0; LIn 0 101; LOut 0; LWake 10;
   LIn 10 102; LOut 10; LIn 10 103; LOut 10; LWake 20;
   LIn 20 104; LOut 20; LCloseIn 20].

Example ex_eager_accepted :
  lrun ex_cfg (linit 0) 0 ex_eager_trace = Some (LClosed, [(0, 100); (0, 101); (10, 102); (10, 103); (20, 104)]).
Proof. vm_compute. reflexivity. Qed.

Example ex_eager_is_eager : eager ex_cfg 0 ex_eager_trace.
Proof. vm_compute. repeat split. Qed.

(* the non-eager trace above is indeed not eager (its second event is late) *)
Example ex_trace_not_eager : ~ eager ex_cfg 0 ex_trace.
Proof. vm_compute. intros (_ & H & _). discriminate H. Qed.
