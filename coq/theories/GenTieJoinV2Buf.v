(* Tie lemmas for the buffer helpers prepareItem / resetJoin of the same generated unit as GenTieJoinV2.v (kept apart so that a change of these helpers does not break the interval / validation ties). *)
From Coq Require Import List NArith ZArith Bool Lia.
From Cqos Require Import GoSem Join GenTieMiscBase.
From Cqos Require GenJoinV2.
Import ListNotations.
Module J2 := GenJoinV2.

Theorem tie_join_v2_prepareItem w dsc item : J2.gen_prepareItem w dsc item = (w, dsc, item).
Proof. unfold J2.gen_prepareItem. cbn. destruct (J2.Opts_NoCopy (J2.Discipline_opts dsc)); reflexivity. Qed.

Theorem tie_join_v2_resetJoin w dsc :
  J2.gen_resetJoin w dsc =
  (w, J2.mk_Discipline (J2.Discipline_opts dsc) (J2.Discipline_interruptInterval dsc) [] (J2.Discipline_output dsc)
        (J2.Discipline_passAt dsc) (J2.Discipline_release dsc), tt).
Proof. reflexivity. Qed.

Example ex_join_v2_prepareItem :
  J2.gen_prepareItem 7 (J2.mk_Discipline (J2.mk_Opts (Some tt) 4 true 0 25) 0 [1;2;3]%N (Some tt) tt (Some tt)) [1;2;3]%N =
  (7%nat, J2.mk_Discipline (J2.mk_Opts (Some tt) 4 true 0 25) 0 [1;2;3]%N (Some tt) tt (Some tt), [1;2;3]%N) /\
  J2.gen_prepareItem 7 (J2.mk_Discipline (J2.mk_Opts (Some tt) 4 false 0 25) 0 [1;2;3]%N (Some tt) tt (Some tt)) [1;2;3]%N =
  (7%nat, J2.mk_Discipline (J2.mk_Opts (Some tt) 4 false 0 25) 0 [1;2;3]%N (Some tt) tt (Some tt), [1;2;3]%N).
Proof. split; apply tie_join_v2_prepareItem. Qed.

Example ex_join_v2_resetJoin :
  J2.gen_resetJoin 7 (J2.mk_Discipline (J2.mk_Opts (Some tt) 4 true 0 25) 0 [1;2;3]%N (Some tt) tt (Some tt)) =
  (7%nat, J2.mk_Discipline (J2.mk_Opts (Some tt) 4 true 0 25) 0 [] (Some tt) tt (Some tt), tt).
Proof. now rewrite tie_join_v2_resetJoin. Qed.

Print Assumptions tie_join_v2_prepareItem.
Print Assumptions tie_join_v2_resetJoin.
