(* Tie between the generated program of the v1 priority goroutine (GenConcV1Prio.v, run by GoConc.v) and the hand-written
   program-counter machine Prio1.sched_step.
   Part A (complete): the blocking points.  Every blocking statement of the goroutine, with what is offered to the
   environment there: every select that can block contains the two stop alternatives (the breaker's IsBreaked() channel and
   Ctx.Done()), for any state and any continuation.
   Part B: the program points of the model pcs (continuation stacks read off the generated bodies) and the requests at the
   blocking pcs; the steps that involve only the control skeleton. *)
From Coq Require Import List NArith ZArith Bool Lia.
From Cqos Require Import Base Divider Sched Prio1 GoSem GoConc GenV1Prio GenConcV1Prio.
Import ListNotations.
Open Scope N_scope.

Definition stmtT := stmt cstate payload chan_id fname.
Definition frameT := frame cstate payload chan_id fname.
Definition cfgT := config cstate payload chan_id fname.

Definition wbody (s : stmtT) : list stmtT := match s with While _ b => b | _ => [] end.
Definition wcond (s : stmtT) : cstate -> bool := match s with While c _ => c | _ => fun _ => false end.
Definition if_then (s : stmtT) : list stmtT := match s with If _ t _ => t | _ => [] end.
Definition if_else (s : stmtT) : list stmtT := match s with If _ _ e => e | _ => [] end.
Definition dbody (s : stmtT) : list stmtT := match s with Defer b => b | _ => [] end.
Definition sel_alt (n : nat) (s : stmtT) : list stmtT :=
  match s with Select alts _ => match nth_error alts n with Some (_, b) => b | None => [] end | _ => [] end.
Definition at_ (n : nat) (l : list stmtT) : stmtT := nth n l Return.

Section Points.
Variable cap : chan_id -> Z.
Notation prog := (table cap).

Definition stopAlts : list (chan_id * option payload) := [(CBreakerIsBreaked, None); (CCtxDone, None)].

(* ==== Part A: what every blocking statement offers (for every state v and every continuation k) *)
Definition loopW := at_ 1 body_loop.
Definition wzW := at_ 0 body_waitZeroActual.
Definition ioW := at_ 1 body_io.
Definition iouW := at_ 2 body_iou.
Definition glfW := at_ 1 body_getLimitedFeedback.
Definition ifZero := at_ 5 (wbody loopW).

(* loop(): the select at the head of every round -- stop, the two command channels, a feedback; never blocks (default) *)
Theorem blocked_top v k :
  step1 prog (v, KSeq (wbody loopW) :: k) =
  Block (RqSelect (stopAlts ++ [(CInputAdds, None); (CInputRmvs, None); (CFeedback, None)]) true).
Proof. reflexivity. Qed.

(* getOneFeedback(): stop or a feedback *)
Theorem blocked_waitfb v k :
  step1 prog (v, KSeq body_getOneFeedback :: k) = Block (RqSelect (stopAlts ++ [(CFeedback, None)]) false).
Proof. reflexivity. Qed.

(* io(): stop or the input of the priority; never blocks (default) *)
Theorem blocked_io v k :
  step1 prog (v, KSeq (wbody ioW) :: k) = Block (RqSelect (stopAlts ++ [(CInput (io_priority v), None)]) true).
Proof. reflexivity. Qed.

(* iou(): stop, the input of the priority, the interrupter *)
Theorem blocked_iou v k :
  step1 prog (v, KSeq (wbody iouW) :: k) = Block (RqSelect (stopAlts ++ [(CInput (iou_priority v), None); (CTick, None)]) false).
Proof. reflexivity. Qed.

(* send(): stop or the write to the output *)
Theorem blocked_send v k :
  step1 prog (v, KSeq (skipn 1 body_send) :: k) =
  Block (RqSelect (stopAlts ++ [(COutput, Some (PPrioritized (send_prioritized v)))]) false).
Proof. reflexivity. Qed.

(* loop() after an unproductive round: is a graceful stop requested? (never blocks), then the idle sleep *)
Theorem blocked_graceful v k :
  step1 prog (v, KSeq (if_then ifZero) :: k) = Block (RqSelect [(CGracefulIsBreaked, None)] true).
Proof. reflexivity. Qed.
Theorem blocked_idle v k :
  step1 prog (v, KSeq (skipn 1 (if_then ifZero)) :: k) = Block (RqSleep 1%Z).
Proof. reflexivity. Qed.

(* getLimitedFeedback(): stop or a feedback; never blocks (default) *)
Theorem blocked_limfb v k :
  step1 prog (v, KSeq (skipn 1 (wbody glfW)) :: k) = Block (RqSelect (stopAlts ++ [(CFeedback, None)]) true).
Proof. reflexivity. Qed.

(* waitZeroActual(): stop or a feedback *)
Theorem blocked_drain v k :
  step1 prog (v, KSeq (skipn 2 (wbody wzW)) :: k) = Block (RqSelect (stopAlts ++ [(CFeedback, None)]) false).
Proof. reflexivity. Qed.

(* these are all the requests of the goroutine apart from the final sequence of main(): no other statement of the eleven
   bodies is a Recv / Send / Select / Sleep.  Checked by computation: the blocking statements of each body, by position *)
Fixpoint nblock (s : stmtT) : nat :=
  let gs := fix gs (b : list stmtT) : nat := match b with [] => 0%nat | x :: y => (nblock x + gs y)%nat end in
  match s with
  | Recv _ _ | GoConc.Send _ _ | Sleep _ | Now _ | NewTicker _ => 1%nat
  | Select alts d =>
      (1 + (fix go (l : list (comm cstate payload chan_id * list stmtT)) : nat :=
              match l with [] => 0 | a :: r => gs (snd a) + go r end) alts
         + match d with Some b => gs b | None => 0 end)%nat
  | If _ t e => (gs t + gs e)%nat
  | While _ b => gs b
  | Defer b => gs b
  | _ => 0%nat
  end.
Definition nblocks (l : list stmtT) : nat := fold_right (fun x n => (nblock x + n)%nat) 0%nat l.
Definition all_fnames : list fname :=
  [F_waitZeroActual; F_getOneFeedback; F_waitCalcTactic; F_send; F_io; F_iou; F_prioritize; F_base; F_getLimitedFeedback; F_loop; F_main].
(* per function: waitZeroActual 1, getOneFeedback 1, send 1, io 1, iou 1, getLimitedFeedback 1, loop 3 (head select, graceful
   select, sleep), main 1 (the send of the error on err); the others none: ten in all -- the nine above and `dsc.err <- err` *)
Theorem blocking_statements : map (fun f => nblocks (prog f)) all_fnames = [1; 1; 0; 1; 1; 1; 0; 0; 1; 3; 1]%nat.
Proof. reflexivity. Qed.

(* ==== Part B: program points of the pcs Top, Idle, LimFb and the steps between them (control skeleton only) *)
Definition mainK : list frameT :=
  [KSeq (skipn 7 body_main);
   KCall [dbody (at_ 5 body_main); dbody (at_ 4 body_main); dbody (at_ 3 body_main); dbody (at_ 2 body_main);
          dbody (at_ 1 body_main); dbody (at_ 0 body_main)]].
Definition loopK (r : list stmtT) : list frameT :=
  KSeq r :: KLoop (wcond loopW) (wbody loopW) :: KSeq [] :: KCall [dbody (at_ 0 body_loop)] :: mainK.
Definition stackB (c : pc) : list frameT :=
  match c with
  | Top => loopK (wbody loopW)
  | Idle => KSeq (skipn 1 (if_then ifZero)) :: loopK (skipn 6 (wbody loopW))
  | LimFb _ => KLoop (wcond glfW) (wbody glfW) :: KSeq [] :: KCall [] :: loopK []
  | _ => []
  end.
Definition liveB (c : pc) (g : G) : Prop :=
  match c with
  | LimFb k => G_getLimitedFeedback_i1 g + N.of_nat k = G_getLimitedFeedback_n2 g /\ G_getLimitedFeedback_n2 g < u_modulus
  | _ => True
  end.
Definition RB (s : st) (cf : cfgT) : Prop :=
  exists dsc g w, cf = ((dsc, g, w), stackB (pcs s)) /\ Discipline_feedbackLimit dsc = N.of_nat (fblimit s) /\ liveB (pcs s) g.

Ltac step tac := eapply r_step; [cbn; try tac; reflexivity|].
Ltac runto tac := first [apply r_refl | step tac; runto tac].

(* Idle, the sleep is over (the model's Tick): on to getLimitedFeedback() *)
Lemma sim_idle s cf :
  RB s cf -> pcs s = Idle -> N.of_nat (fblimit s) < u_modulus ->
  exists cf', reaches prog (resume cf AnsOk) cf' /\ RB (with_pc s (LimFb (fblimit s))) cf'.
Proof.
  intros (dsc & g & w & -> & HF & _) Epc Hl. rewrite Epc.
  eexists (_, stackB (LimFb (fblimit s))). split.
  - unfold stackB. cbn [resume ifZero if_then loopW wbody at_ nth body_loop skipn]. runto idtac.
  - eexists _, _, _. split; [reflexivity|]. split; [exact HF|]. cbn. rewrite HF. split; [reflexivity|exact Hl].
Qed.

(* LimFb 0: getLimitedFeedback() returns, the next round of loop() begins: Top *)
Lemma sim_limfb_zero s cf :
  RB s cf -> pcs s = LimFb 0 ->
  exists cf', reaches prog cf cf' /\ RB (with_pc s Top) cf'.
Proof.
  intros (dsc & g & w & -> & HF & L) Epc. rewrite Epc in *. cbn in L. destruct L as (L1 & L2). rewrite N.add_0_r in L1.
  eexists (_, stackB Top). split.
  - unfold stackB. runto ltac:(rewrite ?L1, ?N.ltb_irrefl).
  - eexists _, _, _. split; [reflexivity|]. split; [exact HF|exact I].
Qed.

(* LimFb (S k): the select of getLimitedFeedback(); a stop alternative (i = 0: breaker, i = 1: context) or the default
   end it: Top.  (The feedback alternative needs decreaseActual: GenTiePrio1Term.) *)
Lemma sim_limfb_end s cf k a :
  RB s cf -> pcs s = LimFb (S k) -> a = AnsSel 0 None \/ a = AnsSel 1 None \/ a = AnsDefault ->
  exists cb cf', reaches prog cf cb /\ step1 prog cb = Block (RqSelect (stopAlts ++ [(CFeedback, None)]) true) /\
                 reaches prog (resume cb a) cf' /\ RB (with_pc s Top) cf'.
Proof.
  intros (dsc & g & w & -> & HF & L) Epc Ha. rewrite Epc in *. cbn in L. destruct L as (L1 & L2).
  assert (Hlt : (G_getLimitedFeedback_i1 g <? G_getLimitedFeedback_n2 g) = true) by (apply N.ltb_lt; lia).
  eexists (_, KSeq (skipn 1 (wbody glfW)) :: stackB (LimFb 0)), (_, stackB Top). split; [|split; [|split]].
  - unfold stackB. step ltac:(rewrite ?Hlt). step idtac. apply r_refl.
  - reflexivity.
  - unfold stackB. destruct Ha as [-> | [-> | ->]]; cbn [resume glfW wbody at_ nth body_getLimitedFeedback skipn nth_error]; runto idtac.
  - eexists _, _, _. split; [reflexivity|]. split; [exact HF|exact I].
Qed.
End Points.

Print Assumptions blocked_top.
Print Assumptions blocked_send.
Print Assumptions blocking_statements.
Print Assumptions sim_idle.
Print Assumptions sim_limfb_zero.
Print Assumptions sim_limfb_end.
