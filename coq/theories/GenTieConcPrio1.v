(* Tie between the generated program of the v1 priority goroutine (GenConcV1Prio.v, run by GoConc.v) and the hand-written
   program-counter machine Prio1.sched_step.
   Part A (complete): the blocking points.  Every blocking statement of the goroutine, with what is offered to the
   environment there: every select that can block contains the two stop alternatives (the breaker's IsBreaked() channel and
   Ctx.Done()), for any state and any continuation.
   Part B: the program points of the model pcs (continuation stacks read off the generated bodies) and the requests at the
   blocking pcs; the steps that involve only the control skeleton. *)
From Coq Require Import List NArith ZArith Bool Lia.
From Cqos Require Import Base Divider Sched Prio1 GoSem GoConc GenV1Prio GenConcV1Prio
                         GenTiePrio1Base GenTiePrio1Calc GenTiePrio1Term GenTiePrio1Inputs.
Import ListNotations.
Open Scope N_scope.

Definition stmtT := stmt cstate payload chan_id fname.
Definition frameT := GoConc.frame cstate payload chan_id fname.
Definition cfgT := config cstate payload chan_id fname.

Definition wbody (s : stmtT) : list stmtT := match s with While _ b => b | _ => [] end.
Definition wcond (s : stmtT) : cstate -> bool := match s with While c _ => c | _ => fun _ => false end.
Definition if_then (s : stmtT) : list stmtT := match s with If _ t _ => t | _ => [] end.
Definition if_else (s : stmtT) : list stmtT := match s with If _ _ e => e | _ => [] end.
Definition dbody (s : stmtT) : list stmtT := match s with Defer b => b | _ => [] end.
Definition sel_alt (n : nat) (s : stmtT) : list stmtT :=
  match s with Select alts _ => match nth_error alts n with Some (_, b) => b | None => [] end | _ => [] end.
Definition at_ (n : nat) (l : list stmtT) : stmtT := nth n l Return.

Section Points.
Variable cap : chan_id -> Z.
Notation prog := (table cap).

Definition stopAlts : list (chan_id * option payload) := [(CBreakerIsBreaked, None); (CCtxDone, None)].

(* ==== Part A: what every blocking statement offers (for every state v and every continuation k) *)
Definition loopW := at_ 1 body_loop.
Definition wzW := at_ 0 body_waitZeroActual.
Definition ioW := at_ 1 body_io.
Definition iouW := at_ 2 body_iou.
Definition glfW := at_ 1 body_getLimitedFeedback.
Definition ifZero := at_ 5 (wbody loopW).

(* loop(): the select at the head of every round -- stop, the two command channels, a feedback; never blocks (default) *)
Theorem blocked_top v k :
  step1 prog (v, KSeq (wbody loopW) :: k) =
  Block (RqSelect (stopAlts ++ [(CInputAdds, None); (CInputRmvs, None); (CFeedback, None)]) true).
Proof. reflexivity. Qed.

(* getOneFeedback(): stop or a feedback *)
Theorem blocked_waitfb v k :
  step1 prog (v, KSeq body_getOneFeedback :: k) = Block (RqSelect (stopAlts ++ [(CFeedback, None)]) false).
Proof. reflexivity. Qed.

(* io(): stop or the input of the priority; never blocks (default) *)
Theorem blocked_io v k :
  step1 prog (v, KSeq (wbody ioW) :: k) = Block (RqSelect (stopAlts ++ [(CInput (io_priority v), None)]) true).
Proof. reflexivity. Qed.

(* iou(): stop, the input of the priority, the interrupter *)
Theorem blocked_iou v k :
  step1 prog (v, KSeq (wbody iouW) :: k) = Block (RqSelect (stopAlts ++ [(CInput (iou_priority v), None); (CTick, None)]) false).
Proof. reflexivity. Qed.

(* send(): stop or the write to the output *)
Theorem blocked_send v k :
  step1 prog (v, KSeq (skipn 1 body_send) :: k) =
  Block (RqSelect (stopAlts ++ [(COutput, Some (PPrioritized (send_prioritized v)))]) false).
Proof. reflexivity. Qed.

(* loop() after an unproductive round: is a graceful stop requested? (never blocks), then the idle sleep *)
Theorem blocked_graceful v k :
  step1 prog (v, KSeq (if_then ifZero) :: k) = Block (RqSelect [(CGracefulIsBreaked, None)] true).
Proof. reflexivity. Qed.
Theorem blocked_idle v k :
  step1 prog (v, KSeq (skipn 1 (if_then ifZero)) :: k) = Block (RqSleep 1%Z).
Proof. reflexivity. Qed.

(* getLimitedFeedback(): stop or a feedback; never blocks (default) *)
Theorem blocked_limfb v k :
  step1 prog (v, KSeq (skipn 1 (wbody glfW)) :: k) = Block (RqSelect (stopAlts ++ [(CFeedback, None)]) true).
Proof. reflexivity. Qed.

(* waitZeroActual(): stop or a feedback *)
Theorem blocked_drain v k :
  step1 prog (v, KSeq (skipn 2 (wbody wzW)) :: k) = Block (RqSelect (stopAlts ++ [(CFeedback, None)]) false).
Proof. reflexivity. Qed.

(* these are all the requests of the goroutine apart from the final sequence of main(): no other statement of the eleven
   bodies is a Recv / Send / Select / Sleep.  Checked by computation: the blocking statements of each body, by position *)
Fixpoint nblock (s : stmtT) : nat :=
  let gs := fix gs (b : list stmtT) : nat := match b with [] => 0%nat | x :: y => (nblock x + gs y)%nat end in
  match s with
  | Recv _ _ | GoConc.Send _ _ | Sleep _ | Now _ | NewTicker _ => 1%nat
  | Select alts d =>
      (1 + (fix go (l : list (comm cstate payload chan_id * list stmtT)) : nat :=
              match l with [] => 0 | a :: r => gs (snd a) + go r end) alts
         + match d with Some b => gs b | None => 0 end)%nat
  | If _ t e => (gs t + gs e)%nat
  | While _ b => gs b
  | Defer b => gs b
  | _ => 0%nat
  end.
Definition nblocks (l : list stmtT) : nat := fold_right (fun x n => (nblock x + n)%nat) 0%nat l.
Definition all_fnames : list fname :=
  [F_waitZeroActual; F_getOneFeedback; F_waitCalcTactic; F_send; F_io; F_iou; F_prioritize; F_base; F_getLimitedFeedback; F_loop; F_main].
(* per function: waitZeroActual 1, getOneFeedback 1, send 1, io 1, iou 1, getLimitedFeedback 1, loop 3 (head select, graceful
   select, sleep), main 1 (the send of the error on err); the others none: ten in all -- the nine above and `dsc.err <- err` *)
Theorem blocking_statements : map (fun f => nblocks (prog f)) all_fnames = [1; 1; 0; 1; 1; 1; 0; 0; 1; 3; 1]%nat.
Proof. reflexivity. Qed.

(* ==== Part B: program points of the pcs Top, Idle, LimFb and the steps between them (control skeleton only) *)
Definition mainK : list frameT :=
  [KSeq (skipn 7 body_main);
   KCall [dbody (at_ 5 body_main); dbody (at_ 4 body_main); dbody (at_ 3 body_main); dbody (at_ 2 body_main);
          dbody (at_ 1 body_main); dbody (at_ 0 body_main)]].
Definition loopK (r : list stmtT) : list frameT :=
  KSeq r :: KLoop (wcond loopW) (wbody loopW) :: KSeq [] :: KCall [dbody (at_ 0 body_loop)] :: mainK.
Definition stackB (c : pc) : list frameT :=
  match c with
  | Top => loopK (wbody loopW)
  | Idle => KSeq (skipn 1 (if_then ifZero)) :: loopK (skipn 6 (wbody loopW))
  | LimFb _ => KLoop (wcond glfW) (wbody glfW) :: KSeq [] :: KCall [] :: loopK []
  | _ => []
  end.
Definition liveB (c : pc) (g : G) : Prop :=
  match c with
  | LimFb k => G_getLimitedFeedback_i1 g + N.of_nat k = G_getLimitedFeedback_n2 g /\ G_getLimitedFeedback_n2 g < u_modulus
  | _ => True
  end.
Definition RB (s : st) (cf : cfgT) : Prop :=
  exists dsc g w, cf = ((dsc, g, w), stackB (pcs s)) /\ Discipline_feedbackLimit dsc = N.of_nat (fblimit s) /\ liveB (pcs s) g.

Ltac step tac := eapply r_step; [cbn; try tac; reflexivity|].
Ltac runto tac := first [apply r_refl | step tac; runto tac].

(* Idle, the sleep is over (the model's Tick): on to getLimitedFeedback() *)
Lemma sim_idle s cf :
  RB s cf -> pcs s = Idle -> N.of_nat (fblimit s) < u_modulus ->
  exists cf', reaches prog (resume cf AnsOk) cf' /\ RB (with_pc s (LimFb (fblimit s))) cf'.
Proof.
  intros (dsc & g & w & -> & HF & _) Epc Hl. rewrite Epc.
  eexists (_, stackB (LimFb (fblimit s))). split.
  - unfold stackB. cbn [resume ifZero if_then loopW wbody at_ nth body_loop skipn]. runto idtac.
  - eexists _, _, _. split; [reflexivity|]. split; [exact HF|]. cbn. rewrite HF. split; [reflexivity|exact Hl].
Qed.

(* LimFb 0: getLimitedFeedback() returns, the next round of loop() begins: Top *)
Lemma sim_limfb_zero s cf :
  RB s cf -> pcs s = LimFb 0 ->
  exists cf', reaches prog cf cf' /\ RB (with_pc s Top) cf'.
Proof.
  intros (dsc & g & w & -> & HF & L) Epc. rewrite Epc in *. cbn in L. destruct L as (L1 & L2). rewrite N.add_0_r in L1.
  eexists (_, stackB Top). split.
  - unfold stackB. runto ltac:(rewrite ?L1, ?N.ltb_irrefl).
  - eexists _, _, _. split; [reflexivity|]. split; [exact HF|exact I].
Qed.

(* LimFb (S k): the select of getLimitedFeedback(); a stop alternative (i = 0: breaker, i = 1: context) or the default
   end it: Top.  (The feedback alternative needs decreaseActual: GenTiePrio1Term.) *)
Lemma sim_limfb_end s cf k a :
  RB s cf -> pcs s = LimFb (S k) -> a = AnsSel 0 None \/ a = AnsSel 1 None \/ a = AnsDefault ->
  exists cb cf', reaches prog cf cb /\ step1 prog cb = Block (RqSelect (stopAlts ++ [(CFeedback, None)]) true) /\
                 reaches prog (resume cb a) cf' /\ RB (with_pc s Top) cf'.
Proof.
  intros (dsc & g & w & -> & HF & L) Epc Ha. rewrite Epc in *. cbn in L. destruct L as (L1 & L2).
  assert (Hlt : (G_getLimitedFeedback_i1 g <? G_getLimitedFeedback_n2 g) = true) by (apply N.ltb_lt; lia).
  eexists (_, KSeq (skipn 1 (wbody glfW)) :: stackB (LimFb 0)), (_, stackB Top). split; [|split; [|split]].
  - unfold stackB. step ltac:(rewrite ?Hlt). step idtac. apply r_refl.
  - reflexivity.
  - unfold stackB. destruct Ha as [-> | [-> | ->]]; cbn [resume glfW wbody at_ nth body_getLimitedFeedback skipn nth_error]; runto idtac.
  - eexists _, _, _. split; [reflexivity|]. split; [exact HF|exact I].
Qed.
End Points.


(* ==== Part C: the simulation with the sequential state (GenTiePrio1Base.absd, inputs_rel, st_deq) *)
Section Full.
Variable dv : nat -> Divider.
Variable g : divider_fn.
Hypothesis Hok : div_ok g dv.
Hypothesis dv_wf : forall k ps n d, NoDup (keys d) -> NoDup (keys (dv k ps n d)).
Hypothesis dv_ext : forall k ps n a b, NoDup (keys a) -> NoDup (keys b) -> deq a b -> deq (dv k ps n a) (dv k ps n b).
Variable buf : N -> bool.                       (* which priorities have a buffered input (a constant of the program) *)
Definition cap_of : chan_id -> Z := fun c => match c with CInput p => if buf p then 1%Z else 0%Z | _ => 0%Z end.
Notation prog := (table cap_of).
Notation movesP := (moves prog).
Notation reachesP := (reaches prog).

Definition baseK (r : list stmtT) : list frameT := KSeq r :: KCall [] :: loopK (skipn 3 (wbody loopW)).
Definition wctW := at_ 0 body_waitCalcTactic.
Definition wctLoopK : list frameT := KLoop (wcond wctW) (wbody wctW) :: KSeq [] :: KCall [] :: baseK (skipn 2 body_base).
Definition prW := at_ 2 (body_prioritize cap_of).
Definition after_prio (ph : phase) : list stmtT := match ph with P1 => skipn 5 body_base | P2 => skipn 10 body_base end.
Definition prioLoopK (ph : phase) : list frameT :=
  KLoop (wcond prW) (wbody prW) :: KSeq (skipn 3 (body_prioritize cap_of)) :: KCall [] :: baseK (after_prio ph).
Definition ifIO := at_ 2 (wbody prW).
Definition ioLoopK (ph : phase) : list frameT :=
  KLoop (wcond ioW) (wbody ioW) :: KSeq (skipn 2 body_io) :: KCall [] :: KSeq (skipn 2 (if_then ifIO)) :: KSeq [] :: prioLoopK ph.
Definition iouLoopK (ph : phase) : list frameT :=
  KLoop (wcond iouW) (wbody iouW) :: KSeq (skipn 3 body_iou) :: KCall [] :: KSeq (skipn 2 (if_else ifIO)) :: KSeq [] :: prioLoopK ph.
Definition readK (ph : phase) (p : N) : list frameT := if buf p then ioLoopK ph else iouLoopK ph.
Definition sendK (ph : phase) (p : N) : list frameT :=
  KSeq (skipn 1 body_send) :: KCall [] ::
  (if buf p then KSeq (skipn 3 (sel_alt 2 (at_ 0 (wbody ioW)))) :: KSeq [] :: ioLoopK ph
   else KSeq (skipn 4 (sel_alt 2 (at_ 0 (wbody iouW)))) :: KSeq [] :: iouLoopK ph).

Definition stackC (c : pc) : list frameT :=
  match c with
  | Top => loopK (wbody loopW)
  | Calc => wctLoopK
  | WaitFb => KSeq body_getOneFeedback :: KCall [] :: KSeq (skipn 4 (wbody wctW)) :: wctLoopK
  | Prio ph _ _ => prioLoopK ph
  | Read ph p _ _ _ => readK ph p
  | Prio1.Send ph p _ _ _ => sendK ph p
  | Recalc _ => baseK (after_prio P1)
  | EndBase _ => loopK (skipn 3 (wbody loopW))
  | Idle => KSeq (skipn 1 (if_then ifZero)) :: loopK (skipn 6 (wbody loopW))
  | LimFb _ => KLoop (wcond glfW) (wbody glfW) :: KSeq [] :: KCall [] :: loopK []
  | Drain _ => KLoop (wcond wzW) (wbody wzW) :: KSeq [] :: KCall [] :: KSeq [] :: KCall [] :: mainK
  | Done _ => []
  end.

Definition liveC (c : pc) (gl : G) : Prop :=
  match c with
  | Calc | WaitFb => G_base_processed gl = 0
  | Prio ph r proc => G_prioritize_rest1 gl = r /\ G_base_processed gl + G_prioritize_processed gl = proc /\ proc < u_modulus
  | Read ph p r proc intr =>
      G_prioritize_rest1 gl = r /\ G_prioritize_priority gl = p /\ proc < u_modulus /\
      if buf p then G_io_priority gl = p /\ G_base_processed gl + G_prioritize_processed gl + G_io_processed gl = proc
      else G_iou_priority gl = p /\ G_iou_interrupt gl = intr /\
           G_base_processed gl + G_prioritize_processed gl + G_iou_processed gl = proc
  | Prio1.Send ph p x r proc =>
      G_prioritize_rest1 gl = r /\ G_prioritize_priority gl = p /\ proc < u_modulus /\
      G_send_priority gl = p /\ G_send_item gl = x /\ G_send_prioritized gl = mk_Prioritized x p /\
      if buf p then G_io_priority gl = p /\ G_base_processed gl + G_prioritize_processed gl + G_io_processed gl = proc
      else G_iou_priority gl = p /\ G_iou_interrupt gl = false /\
           G_base_processed gl + G_prioritize_processed gl + G_iou_processed gl = proc
  | Recalc proc => G_base_processed gl + G_prioritize_ret0 gl = proc /\ proc < u_modulus
  | EndBase proc => G_base_ret0 gl = proc /\ G_base_ret1 gl = None
  | LimFb k => G_getLimitedFeedback_i1 gl + N.of_nat k = G_getLimitedFeedback_n2 gl /\ G_getLimitedFeedback_n2 gl < u_modulus
  | _ => True
  end.

(* the simulation relation: the receiver value is the abstraction of a code state s1 that agrees with the model state up to
   the representation of the maps actual / tactic (st_deq) *)
Definition RC (s : st) (cf : cfgT) : Prop :=
  exists fr inp strat unc us s1 gl,
    cf = ((absd fr g (Some inp) strat unc us s1, gl, ncalls s), stackC (pcs s)) /\
    st_deq s1 s /\ inputs_rel s inp /\ mitems strat = strategic s /\ liveC (pcs s) gl.

Ltac step tac := eapply r_step; [cbn; try tac; reflexivity|].
Ltac runto tac := first [apply r_refl | step tac; runto tac].
Ltac runblock tac := first [eapply r_step; [cbn; try tac; reflexivity|]; runblock tac | apply r_refl].

(* ---- Calc: the head of the loop of waitCalcTactic(); the exits without an error *)
Lemma step_calc_frame s :
  let s' := step_calc dv s in
  prios s' = prios s /\ chan_of s' = chan_of s /\ drained s' = drained s /\ strategic s' = strategic s /\
  (pcs s' = WaitFb \/ pcs s' = Prio P1 (prios s) 0 \/ exists e, pcs s' = Drain (Some e)).
Proof.
  assert (B : forall v, let s' := calc_base dv s v in
    prios s' = prios s /\ chan_of s' = chan_of s /\ drained s' = drained s /\ strategic s' = strategic s /\
    (pcs s' = WaitFb \/ pcs s' = Prio P1 (prios s) 0 \/ exists e, pcs s' = Drain (Some e))).
  { intros v. unfold calc_base. cbv zeta. destruct (safe_divide _ _ _ _); [destruct (filled _ _)|]; cbn; repeat split; eauto. }
  unfold step_calc.
  destruct (Prio1.H s <? sum (actual s)); [cbn; repeat split; eauto|]. cbv zeta.
  destruct (Prio1.H s - sum (actual s) =? 0); [cbn; repeat split; eauto|].
  destruct (add_up _ _ _ _ _) as [[t pk]|]; [|apply B].
  destruct (pk =? _); [cbn; repeat split; eauto|apply B].
Qed.

Lemma sim_calc s cf :
  RC s cf -> pcs s = Calc ->
  NoDup (keys (actual s)) -> NoDup (keys (tactic s)) ->
  sum (actual s) < u_modulus -> Prio1.H s < u_modulus -> sum_list (map (get (strategic s)) (prios s)) < u_modulus ->
  (forall e, pcs (step_calc dv s) <> Drain (Some e)) ->
  exists cf', reachesP cf cf' /\ RC (step_calc dv s) cf'.
Proof.
  intros (fr & inp & strat & unc & us & s1 & gl & -> & Hd & Hin & Hst & L) Epc N1 N2 Hsa Hh Hb Hne.
  destruct (tie_v1_calcTactic_sim dv g Hok dv_wf dv_ext fr (Some inp) strat unc us s1 s Hd N1 N2 Hst Hsa Hh Hb) as (s1' & unc' & T & Hd').
  cbn zeta in T. destruct (step_calc_frame s) as (Ep & Ec & Edr & Es & Hpc).
  assert (Hin' : inputs_rel (step_calc dv s) inp) by (unfold inputs_rel in *; rewrite Ec, Edr; exact Hin).
  assert (Hnd : is_div_err (pcs (step_calc dv s)) = false).
  { destruct (pcs (step_calc dv s)) eqn:E; try reflexivity. destruct e as [e|]; [destruct (Hne e); reflexivity|reflexivity]. }
  rewrite Epc in *. cbn in L.
  destruct Hpc as [E|[E|[e E]]]; [| |now destruct (Hne e)].
  - eexists (_, stackC WaitFb). split.
    + unfold stackC, wctLoopK. eapply r_step; [cbn; reflexivity|]. runto ltac:(rewrite ?T, ?E; cbn).
    + eexists fr, inp, strat, unc', us, s1', _. rewrite E. split; [reflexivity|].
      split; [apply Hd'; rewrite E; reflexivity|]. split; [exact Hin'|]. split; [now rewrite Es|exact L].
  - eexists (_, stackC (Prio P1 (prios s) 0)). split.
    + unfold stackC, wctLoopK. eapply r_step; [cbn; reflexivity|]. runto ltac:(rewrite ?T, ?E; cbn; rewrite ?L).
    + eexists fr, inp, strat, unc', us, s1', _. rewrite E. split; [reflexivity|].
      split; [apply Hd'; rewrite E; reflexivity|]. split; [exact Hin'|]. split; [now rewrite Es|].
      cbn. rewrite ?L. destruct (st_deq_proj _ _ (Hd' ltac:(rewrite E; reflexivity))) as (_ & EP & _).
      repeat split; try reflexivity. rewrite EP, Ep. reflexivity.
Qed.

(* ---- WaitFb: the select of getOneFeedback() *)
Lemma st_deq_reset s1 s c :
  st_deq s1 s -> st_deq (with_tac s1 (reset (tactic s1)) c) (with_tac s (reset (tactic s)) c).
Proof.
  intros (a & t & -> & Ha & Ht & Na & Nt). exists a, (reset t). cbn.
  split; [reflexivity|]. split; [exact Ha|]. split; [apply deq_reset|]. split; [exact Na|now apply nodup_keys_reset].
Qed.

Definition fbAlts : list (chan_id * option payload) := stopAlts ++ [(CFeedback, None)].

(* a feedback answer (alternative 2): decreaseActual, getOneFeedback returns true, the loop of waitCalcTactic goes on: Calc *)
Lemma sim_waitfb_fb s cf p q :
  RC s cf -> pcs s = WaitFb -> fbq s = p :: q ->
  1 <= get (actual s) p -> get (actual s) p < u_modulus ->
  exists cb cf', reachesP cf cb /\ step1 prog cb = Block (RqSelect fbAlts false) /\
    reachesP (GoConc.resume cb (AnsSel 2 (Some (PN p)))) cf' /\ RC (pop_fb s p q Calc) cf'.
Proof.
  intros (fr & inp & strat & unc & us & s1 & gl & -> & Hd & Hin & Hst & L) Epc Efb H1 H2.
  destruct (st_deq_proj _ _ Hd) as (_ & _ & _ & _ & _ & Ha & _).
  rewrite <- (Ha p) in H1, H2.
  pose proof (tie_v1_decreaseActual g fr (Some inp) strat unc us s1 p q Calc (ncalls s) H1 H2) as T.
  rewrite Epc in *. cbn in L.
  eexists _, (_, stackC Calc). split; [unfold stackC; runblock idtac|]. split; [reflexivity|]. split.
  - cbn [GoConc.resume]. unfold stackC, wctLoopK. runto ltac:(rewrite ?T; cbn).
  - eexists fr, inp, strat, unc, us, _, _. split; [reflexivity|]. split; [apply pop_fb_deq; exact Hd|].
    split; [exact Hin|]. split; [exact Hst|]. exact L.
Qed.

(* a stop answer (alternative 0: breaker, 1: context): getOneFeedback returns false, waitCalcTactic resets the tactic
   and returns nil, base() goes on to the first prioritize(): the step of the model with fixed = true *)
Lemma sim_waitfb_stop s cf i :
  RC s cf -> pcs s = WaitFb -> i = 0%nat \/ i = 1%nat ->
  exists cb cf', reachesP cf cb /\ step1 prog cb = Block (RqSelect fbAlts false) /\
    reachesP (GoConc.resume cb (AnsSel i None)) cf' /\ RC (with_tac s (reset (tactic s)) (Prio P1 (prios s) 0)) cf'.
Proof.
  intros (fr & inp & strat & unc & us & s1 & gl & -> & Hd & Hin & Hst & L) Epc Hi.
  destruct (st_deq_proj _ _ Hd) as (_ & EP & _ & _ & _ & _ & _ & _ & Nt).
  assert (T : forall w, gen_resetTactic w (absd fr g (Some inp) strat unc us s1) =
                        (w, absd fr g (Some inp) strat unc us (with_tac s1 (reset (tactic s1)) (Prio P1 (prios s) 0)), tt)).
  { intros w. rewrite (tie_resetTactic w (absd fr g (Some inp) strat unc us s1) (tactic s1) eq_refl Nt). reflexivity. }
  rewrite Epc in *. cbn in L.
  eexists _, (_, stackC (Prio P1 (prios s) 0)). split; [unfold stackC; runblock idtac|]. split; [reflexivity|].
  split.
  - cbn [GoConc.resume]. unfold stackC, wctLoopK.
    destruct Hi as [-> | ->]; runto ltac:(rewrite ?T; cbn; rewrite ?L).
  - eexists fr, inp, strat, unc, us, _, _. split; [reflexivity|]. split; [apply st_deq_reset; exact Hd|].
    split; [exact Hin|]. split; [exact Hst|]. cbn. rewrite ?L, EP. repeat split; reflexivity.
Qed.

(* ---- Send: the select of send() *)
Definition outAlts (p x : N) : list (chan_id * option payload) :=
  stopAlts ++ [(COutput, Some (PPrioritized (mk_Prioritized x p)))].

(* the output answer (alternative 2): decreaseTactic, increaseActual, send returns 1, the caller counts it: Read *)
Lemma sim_send_out s cf ph p x r proc :
  RC s cf -> pcs s = Prio1.Send ph p x r proc ->
  1 <= get (tactic s) p -> get (tactic s) p < u_modulus -> get (actual s) p + 1 < u_modulus -> proc + 1 < u_modulus ->
  exists cb cf', reachesP cf cb /\ step1 prog cb = Block (RqSelect (outAlts p x) false) /\
    reachesP (GoConc.resume cb (AnsSel 2 None)) cf' /\ RC (push_out s p x (Read ph p r (proc + 1) false)) cf'.
Proof.
  intros (fr & inp & strat & unc & us & s1 & gl & -> & Hd & Hin & Hst & L) Epc H1 H2 H3 H4.
  destruct (st_deq_proj _ _ Hd) as (_ & _ & _ & _ & _ & Ha & Ht & _).
  rewrite <- (Ht p) in H1, H2. rewrite <- (Ha p) in H3.
  pose proof (tie_v1_send_updates g fr (Some inp) strat unc us s1 p x (Read ph p r (proc + 1) false) (ncalls s) H1 H2 H3) as T.
  destruct (gen_decreaseTactic (ncalls s) (absd fr g (Some inp) strat unc us s1) p) as [[w1 d1] u1] eqn:T1.
  rewrite Epc in *. cbn in L. destruct L as (L1 & L2 & L3 & L4 & L5 & L6 & L7).
  unfold stackC, sendK, readK in *. destruct (buf p) eqn:B.
  - destruct L7 as (L7 & L8).
    eexists _, (_, ioLoopK ph). split; [runblock idtac|]. split; [cbn; rewrite L6; reflexivity|]. split.
    + cbn [GoConc.resume]. unfold ioLoopK. runto ltac:(rewrite ?L4, ?T1; cbn; rewrite ?T; cbn).
    + unfold RC. cbn [pcs push_out stackC]. unfold readK. rewrite B.
      eexists fr, inp, strat, unc, us, _, _. split; [reflexivity|]. split; [apply push_out_deq; exact Hd|].
      split; [exact Hin|]. split; [exact Hst|]. cbn. rewrite B. repeat split; try assumption.
      rewrite u_add_small by lia. lia.
  - destruct L7 as (L7 & L8 & L9).
    eexists _, (_, iouLoopK ph). split; [runblock idtac|]. split; [cbn; rewrite L6; reflexivity|]. split.
    + cbn [GoConc.resume]. unfold iouLoopK. runto ltac:(rewrite ?L4, ?T1; cbn; rewrite ?T; cbn).
    + unfold RC. cbn [pcs push_out stackC]. unfold readK. rewrite B.
      eexists fr, inp, strat, unc, us, _, _. split; [reflexivity|]. split; [apply push_out_deq; exact Hd|].
      split; [exact Hin|]. split; [exact Hst|]. cbn. rewrite B. repeat split; try assumption.
      rewrite u_add_small by lia. lia.
Qed.

Lemma drop_item_deq s1 s p x c : st_deq s1 s -> st_deq (drop_item s1 p x c) (drop_item s p x c).
Proof. intros (a & t & -> & H). exists a, t. split; [reflexivity|exact H]. Qed.

(* a stop answer (alternative 0 / 1): send returns 0, the item is dropped (drop_item), the caller's loop goes on: Read *)
Lemma sim_send_stop s cf ph p x r proc i :
  RC s cf -> pcs s = Prio1.Send ph p x r proc -> i = 0%nat \/ i = 1%nat ->
  exists cb cf', reachesP cf cb /\ step1 prog cb = Block (RqSelect (outAlts p x) false) /\
    reachesP (GoConc.resume cb (AnsSel i None)) cf' /\ RC (drop_item s p x (Read ph p r proc false)) cf'.
Proof.
  intros (fr & inp & strat & unc & us & s1 & gl & -> & Hd & Hin & Hst & L) Epc Hi.
  rewrite Epc in *. cbn in L. destruct L as (L1 & L2 & L3 & L4 & L5 & L6 & L7).
  unfold stackC, sendK, readK in *. destruct (buf p) eqn:B.
  - destruct L7 as (L7 & L8).
    eexists _, (_, ioLoopK ph). split; [runblock idtac|]. split; [cbn; rewrite L6; reflexivity|]. split.
    + cbn [GoConc.resume]. unfold ioLoopK. destruct Hi as [-> | ->]; runto idtac.
    + unfold RC. cbn [pcs drop_item stackC]. unfold readK. rewrite B.
      eexists fr, inp, strat, unc, us, (drop_item s1 p x (Read ph p r proc false)), _. split; [reflexivity|].
      split; [apply drop_item_deq; exact Hd|].
      split; [exact Hin|]. split; [exact Hst|]. cbn. rewrite B. repeat split; try assumption.
      rewrite u_add_0_r by lia. assumption.
  - destruct L7 as (L7 & L8 & L9).
    eexists _, (_, iouLoopK ph). split; [runblock idtac|]. split; [cbn; rewrite L6; reflexivity|]. split.
    + cbn [GoConc.resume]. unfold iouLoopK. destruct Hi as [-> | ->]; runto idtac.
    + unfold RC. cbn [pcs drop_item stackC]. unfold readK. rewrite B.
      eexists fr, inp, strat, unc, us, (drop_item s1 p x (Read ph p r proc false)), _. split; [reflexivity|].
      split; [apply drop_item_deq; exact Hd|].
      split; [exact Hin|]. split; [exact Hst|]. cbn. rewrite B. repeat split; try assumption.
      rewrite u_add_0_r by lia. assumption.
Qed.

(* ---- Read: the loop of io() (buffered input) / iou() (unbuffered input) *)
Definition readAlts (p : N) : list (chan_id * option payload) :=
  stopAlts ++ (CInput p, None) :: (if buf p then [] else [(CTick, None)]).

Lemma pop_in_deq s1 s ch p x q c : st_deq s1 s -> st_deq (pop_in s1 ch p x q c) (pop_in s ch p x q c).
Proof. intros (a & t & -> & H). exists a, t. split; [reflexivity|exact H]. Qed.
Lemma with_pc_deq s1 s c : st_deq s1 s -> st_deq (with_pc s1 c) (with_pc s c).
Proof. intros (a & t & -> & H). exists a, t. split; [reflexivity|exact H]. Qed.

(* the quota of the priority is used up: the loop ends, io / iou return, prioritize() counts: Prio *)
Lemma sim_read_exit s cf ph p r proc intr :
  RC s cf -> pcs s = Read ph p r proc intr -> get (tactic s) p = 0 ->
  exists cf', reachesP cf cf' /\ RC (with_pc s (Prio ph r proc)) cf'.
Proof.
  intros (fr & inp & strat & unc & us & s1 & gl & -> & Hd & Hin & Hst & L) Epc H0.
  destruct (st_deq_proj _ _ Hd) as (_ & _ & _ & _ & _ & _ & Ht & _). rewrite <- (Ht p) in H0.
  rewrite Epc in *. cbn in L. destruct L as (L1 & L2 & L3 & L7).
  unfold stackC, readK in *. destruct (buf p) eqn:B.
  - destruct L7 as (L7 & L8). eexists (_, prioLoopK ph). split.
    + unfold ioLoopK. runto ltac:(rewrite ?L7, ?aget_get, ?H0; cbn).
    + eexists fr, inp, strat, unc, us, (with_pc s1 (Prio ph r proc)), _. split; [reflexivity|].
      split; [apply with_pc_deq; exact Hd|]. split; [exact Hin|]. split; [exact Hst|]. cbn.
      repeat split; try assumption. rewrite u_add_small by lia. lia.
  - destruct L7 as (L7 & L8 & L9). eexists (_, prioLoopK ph). split.
    + unfold iouLoopK. runto ltac:(rewrite ?L7, ?aget_get, ?H0; cbn).
    + eexists fr, inp, strat, unc, us, (with_pc s1 (Prio ph r proc)), _. split; [reflexivity|].
      split; [apply with_pc_deq; exact Hd|]. split; [exact Hin|]. split; [exact Hst|]. cbn.
      repeat split; try assumption. rewrite u_add_small by lia. lia.
Qed.

(* a stop answer (alternative 0 / 1), or the default of io(): io / iou return, prioritize() counts: Prio *)
Lemma sim_read_stop s cf ph p r proc intr a :
  RC s cf -> pcs s = Read ph p r proc intr -> get (tactic s) p <> 0 ->
  a = AnsSel 0 None \/ a = AnsSel 1 None \/ (a = AnsDefault /\ buf p = true) ->
  exists cb cf', reachesP cf cb /\ step1 prog cb = Block (RqSelect (readAlts p) (buf p)) /\
    reachesP (GoConc.resume cb a) cf' /\ RC (with_pc s (Prio ph r proc)) cf'.
Proof.
  intros (fr & inp & strat & unc & us & s1 & gl & -> & Hd & Hin & Hst & L) Epc H0 Ha.
  destruct (st_deq_proj _ _ Hd) as (_ & _ & _ & _ & _ & _ & Ht & _). rewrite <- (Ht p) in H0.
  apply N.eqb_neq in H0.
  rewrite Epc in *. cbn in L. destruct L as (L1 & L2 & L3 & L7).
  unfold stackC, readK, readAlts in *. destruct (buf p) eqn:B.
  - destruct L7 as (L7 & L8). eexists _, (_, prioLoopK ph).
    split; [unfold ioLoopK; runblock ltac:(rewrite ?L7, ?aget_get, ?H0; cbn)|].
    split; [cbn; rewrite L7; reflexivity|]. split.
    + cbn [GoConc.resume]. destruct Ha as [-> | [-> | [-> _]]]; runto idtac.
    + eexists fr, inp, strat, unc, us, (with_pc s1 (Prio ph r proc)), _. split; [reflexivity|].
      split; [apply with_pc_deq; exact Hd|]. split; [exact Hin|]. split; [exact Hst|]. cbn.
      repeat split; try assumption. rewrite u_add_small by lia. lia.
  - destruct L7 as (L7 & L8 & L9). eexists _, (_, prioLoopK ph).
    split; [unfold iouLoopK; runblock ltac:(rewrite ?L7, ?aget_get, ?H0; cbn)|].
    split; [cbn; rewrite L7; reflexivity|]. split.
    + cbn [GoConc.resume]. destruct Ha as [-> | [-> | [_ Hx]]]; [| |discriminate Hx]; runto idtac.
    + eexists fr, inp, strat, unc, us, (with_pc s1 (Prio ph r proc)), _. split; [reflexivity|].
      split; [apply with_pc_deq; exact Hd|]. split; [exact Hin|]. split; [exact Hst|]. cbn.
      repeat split; try assumption. rewrite u_add_small by lia. lia.
Qed.

(* an item (alternative 2 with a value): the call of send() up to its select: Send *)
Lemma sim_read_item s cf ph p r proc intr ch x q :
  RC s cf -> pcs s = Read ph p r proc intr -> get (tactic s) p <> 0 ->
  exists cb cf', reachesP cf cb /\ step1 prog cb = Block (RqSelect (readAlts p) (buf p)) /\
    reachesP (GoConc.resume cb (AnsSel 2 (Some (PN x)))) cf' /\ RC (pop_in s ch p x q (Prio1.Send ph p x r proc)) cf'.
Proof.
  intros (fr & inp & strat & unc & us & s1 & gl & -> & Hd & Hin & Hst & L) Epc H0.
  destruct (st_deq_proj _ _ Hd) as (_ & _ & _ & _ & _ & _ & Ht & _). rewrite <- (Ht p) in H0.
  apply N.eqb_neq in H0.
  rewrite Epc in *. cbn in L. destruct L as (L1 & L2 & L3 & L7).
  unfold RC. cbn [pcs pop_in stackC]. unfold stackC, readK, sendK, readAlts in *. destruct (buf p) eqn:B.
  - destruct L7 as (L7 & L8).
    eexists _, (_, KSeq (skipn 1 body_send) :: KCall [] :: KSeq (skipn 3 (sel_alt 2 (at_ 0 (wbody ioW)))) :: KSeq [] :: ioLoopK ph).
    split; [unfold ioLoopK; runblock ltac:(rewrite ?L7, ?aget_get, ?H0; cbn)|].
    split; [cbn; rewrite L7; reflexivity|]. split.
    + cbn [GoConc.resume]. runto idtac.
    + eexists fr, inp, strat, unc, us, (pop_in s1 ch p x q (Prio1.Send ph p x r proc)), _. split; [reflexivity|].
      split; [apply pop_in_deq; exact Hd|]. split; [exact Hin|]. split; [exact Hst|]. cbn. rewrite B, ?L7.
      repeat split; try assumption; try reflexivity.
  - destruct L7 as (L7 & L8 & L9).
    eexists _, (_, KSeq (skipn 1 body_send) :: KCall [] :: KSeq (skipn 4 (sel_alt 2 (at_ 0 (wbody iouW)))) :: KSeq [] :: iouLoopK ph).
    split; [unfold iouLoopK; runblock ltac:(rewrite ?L7, ?aget_get, ?H0; cbn)|].
    split; [cbn; rewrite L7; reflexivity|]. split.
    + cbn [GoConc.resume]. runto idtac.
    + eexists fr, inp, strat, unc, us, (pop_in s1 ch p x q (Prio1.Send ph p x r proc)), _. split; [reflexivity|].
      split; [apply pop_in_deq; exact Hd|]. split; [exact Hin|]. split; [exact Hst|]. cbn. rewrite B, ?L7.
      repeat split; try assumption; try reflexivity.
Qed.

(* ---- Prio: the head of the loop of prioritize() *)
(* no priority left: prioritize() returns; after the first pass base() is at recalcTactic (Recalc), after the second it
   returns to loop() (EndBase) *)
Lemma sim_prio_nil s cf ph proc :
  RC s cf -> pcs s = Prio ph [] proc ->
  exists cf', reachesP cf cf' /\ RC (with_pc s (match ph with P1 => Recalc proc | P2 => EndBase proc end)) cf'.
Proof.
  intros (fr & inp & strat & unc & us & s1 & gl & -> & Hd & Hin & Hst & L) Epc.
  rewrite Epc in *. cbn in L. destruct L as (L1 & L2 & L3).
  destruct ph.
  - eexists (_, stackC (Recalc proc)). split.
    + unfold stackC, prioLoopK. runto ltac:(rewrite ?L1; cbn).
    + eexists fr, inp, strat, unc, us, (with_pc s1 (Recalc proc)), _. split; [reflexivity|].
      split; [apply with_pc_deq; exact Hd|]. split; [exact Hin|]. split; [exact Hst|]. cbn. split; assumption.
  - eexists (_, stackC (EndBase proc)). split.
    + unfold stackC, prioLoopK. runto ltac:(rewrite ?L1; cbn).
    + eexists fr, inp, strat, unc, us, (with_pc s1 (EndBase proc)), _. split; [reflexivity|].
      split; [apply with_pc_deq; exact Hd|]. split; [exact Hin|]. split; [exact Hst|]. cbn.
      split; [|reflexivity]. rewrite u_add_small by lia. assumption.
Qed.

(* ---- Recalc: base() after the first prioritize(); the exits without an error *)
Lemma step_recalc_frame s proc :
  let s' := step_recalc dv s proc in
  prios s' = prios s /\ chan_of s' = chan_of s /\ drained s' = drained s /\ strategic s' = strategic s /\
  (pcs s' = Prio P2 (prios s) proc \/ pcs s' = EndBase proc \/ exists e, pcs s' = Drain (Some e)).
Proof.
  unfold step_recalc. cbv zeta.
  destruct (safe_divide _ _ _ _); [|cbn; repeat split; eauto].
  destruct (safe_divide _ _ _ _); [destruct (filled _ _)|]; cbn; repeat split; eauto.
Qed.

Lemma sim_recalc s cf proc :
  RC s cf -> pcs s = Recalc proc ->
  NoDup (keys (actual s)) -> NoDup (keys (tactic s)) -> sum (tactic s) < u_modulus ->
  (forall e, pcs (step_recalc dv s proc) <> Drain (Some e)) ->
  exists cf', reachesP cf cf' /\ RC (step_recalc dv s proc) cf'.
Proof.
  intros (fr & inp & strat & unc & us & s1 & gl & -> & Hd & Hin & Hst & L) Epc N1 N2 Hs Hne.
  destruct (tie_v1_recalcTactic_sim dv g Hok dv_wf dv_ext fr (Some inp) strat unc us s1 s proc Hd N1 N2 Hs) as (s1' & us' & T & Hd').
  cbn zeta in T. destruct (step_recalc_frame s proc) as (Ep & Ec & Edr & Es & Hpc).
  assert (Hin' : inputs_rel (step_recalc dv s proc) inp) by (unfold inputs_rel in *; rewrite Ec, Edr; exact Hin).
  rewrite Epc in *. cbn in L. destruct L as (L1 & L2).
  assert (U : u_add (G_base_processed gl) (G_prioritize_ret0 gl) = proc) by (rewrite u_add_small by lia; exact L1).
  destruct Hpc as [E|[E|[e E]]]; [| |now destruct (Hne e)].
  - eexists (_, stackC (Prio P2 (prios s) proc)). split.
    + unfold stackC, baseK. runto ltac:(rewrite ?U, ?T, ?E; cbn).
    + eexists fr, inp, strat, unc, us', s1', _. rewrite E. split; [reflexivity|].
      split; [apply Hd'; rewrite E; reflexivity|]. split; [exact Hin'|]. split; [now rewrite Es|].
      cbn. destruct (st_deq_proj _ _ (Hd' ltac:(rewrite E; reflexivity))) as (_ & EP & _).
      repeat split; try assumption. rewrite EP, Ep. reflexivity. lia.
  - eexists (_, stackC (EndBase proc)). split.
    + unfold stackC, baseK. runto ltac:(rewrite ?U, ?T, ?E; cbn).
    + eexists fr, inp, strat, unc, us', s1', _. rewrite E. split; [reflexivity|].
      split; [apply Hd'; rewrite E; reflexivity|]. split; [exact Hin'|]. split; [now rewrite Es|].
      cbn. split; reflexivity.
Qed.

(* ---- round 2 of Part C *)
Lemma st_deq_io s1 s : st_deq s1 s -> chan_of s1 = chan_of s /\ drained s1 = drained s /\ fblimit s1 = fblimit s /\ graceful s1 = graceful s.
Proof. intros (a & t & -> & _). cbn. auto. Qed.
Lemma mark_drained_deq s1 s p c : st_deq s1 s -> st_deq (mark_drained s1 p c) (mark_drained s p c).
Proof. intros (a & t & -> & H). exists a, t. split; [reflexivity|exact H]. Qed.
Lemma inputs_rel_deq s1 s inp : st_deq s1 s -> inputs_rel s inp -> inputs_rel s1 inp.
Proof. intros Hd. destruct (st_deq_io _ _ Hd) as (E1 & E2 & _). unfold inputs_rel. now rewrite E1, E2. Qed.

(* Read, the input is closed (alternative 2 without a value): markInputAsDrained, io / iou return: Prio *)
Lemma sim_read_closed s cf ph p r proc intr :
  RC s cf -> pcs s = Read ph p r proc intr -> get (tactic s) p <> 0 -> chan_of s p <> None ->
  exists cb cf', reachesP cf cb /\ step1 prog cb = Block (RqSelect (readAlts p) (buf p)) /\
    reachesP (GoConc.resume cb (AnsSel 2 None)) cf' /\ RC (mark_drained s p (Prio ph r proc)) cf'.
Proof.
  intros (fr & inp & strat & unc & us & s1 & gl & -> & Hd & Hin & Hst & L) Epc H0 Hch.
  destruct (st_deq_proj _ _ Hd) as (_ & _ & _ & _ & _ & _ & Ht & _). rewrite <- (Ht p) in H0.
  apply N.eqb_neq in H0.
  destruct (st_deq_io _ _ Hd) as (Ec & Edr & _).
  assert (Hch1 : chan_of s1 p <> None) by (rewrite Ec; exact Hch).
  destruct (tie_v1_markInputAsDrained g fr inp strat unc us s1 p (Prio ph r proc) (ncalls s) (inputs_rel_deq _ _ _ Hd Hin) Hch1)
    as (T & Hin1). cbv zeta in T, Hin1.
  assert (Hin' : inputs_rel (mark_drained s p (Prio ph r proc))
                   (aset inp p (mk_Input (Input_Channel (aget zero_Input inp p)) true))).
  { unfold inputs_rel in *. cbn [chan_of drained mark_drained] in *. rewrite Ec, Edr in Hin1. exact Hin1. }
  rewrite Epc in *. cbn in L. destruct L as (L1 & L2 & L3 & L7).
  unfold RC. cbn [pcs mark_drained stackC]. unfold stackC, readK, readAlts in *. destruct (buf p) eqn:B.
  - destruct L7 as (L7 & L8). eexists _, (_, prioLoopK ph).
    split; [unfold ioLoopK; runblock ltac:(rewrite ?L7, ?aget_get, ?H0; cbn)|].
    split; [cbn; rewrite L7; reflexivity|]. split.
    + cbn [GoConc.resume]. runto ltac:(rewrite ?L7, ?T; cbn).
    + eexists fr, _, strat, unc, us, (mark_drained s1 p (Prio ph r proc)), _. split; [reflexivity|].
      split; [apply mark_drained_deq; exact Hd|]. split; [exact Hin'|]. split; [exact Hst|]. cbn.
      repeat split; try assumption. rewrite u_add_small by lia. lia.
  - destruct L7 as (L7 & L8 & L9). eexists _, (_, prioLoopK ph).
    split; [unfold iouLoopK; runblock ltac:(rewrite ?L7, ?aget_get, ?H0; cbn)|].
    split; [cbn; rewrite L7; reflexivity|]. split.
    + cbn [GoConc.resume]. runto ltac:(rewrite ?L7, ?T; cbn).
    + eexists fr, _, strat, unc, us, (mark_drained s1 p (Prio ph r proc)), _. split; [reflexivity|].
      split; [apply mark_drained_deq; exact Hd|]. split; [exact Hin'|]. split; [exact Hst|]. cbn.
      repeat split; try assumption. rewrite u_add_small by lia. lia.
Qed.

(* Read of an unbuffered input, the tick of the interrupter (alternative 3): the second tick in a row ends iou (Prio),
   the first one is remembered: the step of Prio1.env_step Tick *)
Lemma sim_read_tick s cf ph p r proc intr :
  RC s cf -> pcs s = Read ph p r proc intr -> get (tactic s) p <> 0 -> buf p = false ->
  exists cb cf', reachesP cf cb /\ step1 prog cb = Block (RqSelect (readAlts p) false) /\
    reachesP (GoConc.resume cb (AnsSel 3 None)) cf' /\
    RC (with_pc s (if intr then Prio ph r proc else Read ph p r proc true)) cf'.
Proof.
  intros (fr & inp & strat & unc & us & s1 & gl & -> & Hd & Hin & Hst & L) Epc H0 B.
  destruct (st_deq_proj _ _ Hd) as (_ & _ & _ & _ & _ & _ & Ht & _). rewrite <- (Ht p) in H0.
  apply N.eqb_neq in H0.
  rewrite Epc in *. cbn in L. destruct L as (L1 & L2 & L3 & L7).
  unfold RC. cbn [pcs with_pc stackC]. unfold stackC, readK, readAlts in *. rewrite B in *.
  destruct L7 as (L7 & L8 & L9). destruct intr.
  - eexists _, (_, prioLoopK ph).
    split; [unfold iouLoopK; runblock ltac:(rewrite ?L7, ?aget_get, ?H0; cbn)|].
    split; [cbn; rewrite L7; reflexivity|]. split.
    + cbn [GoConc.resume]. runto ltac:(rewrite ?L8; cbn).
    + eexists fr, inp, strat, unc, us, (with_pc s1 (Prio ph r proc)), _. split; [reflexivity|].
      split; [apply with_pc_deq; exact Hd|]. split; [exact Hin|]. split; [exact Hst|]. cbn.
      repeat split; try assumption. rewrite u_add_small by lia. lia.
  - cbn [stackC]. unfold readK. rewrite B. eexists _, (_, iouLoopK ph).
    split; [unfold iouLoopK; runblock ltac:(rewrite ?L7, ?aget_get, ?H0; cbn)|].
    split; [cbn; rewrite L7; reflexivity|]. split.
    + cbn [GoConc.resume]. unfold iouLoopK. runto ltac:(rewrite ?L8; cbn).
    + eexists fr, inp, strat, unc, us, (with_pc s1 (Read ph p r proc true)), _. split; [reflexivity|].
      split; [apply with_pc_deq; exact Hd|]. split; [exact Hin|]. split; [exact Hst|]. cbn. rewrite B.
      repeat split; assumption.
Qed.

(* Prio with a priority: a drained input is skipped (continue), otherwise io / iou start: Read *)
Lemma sim_prio_cons s cf ph p r proc :
  RC s cf -> pcs s = Prio ph (p :: r) proc -> chan_of s p <> None ->
  exists cf', reachesP cf cf' /\ RC (with_pc s (if drained s p then Prio ph r proc else Read ph p r proc false)) cf'.
Proof.
  intros (fr & inp & strat & unc & us & s1 & gl & -> & Hd & Hin & Hst & L) Epc Hch.
  assert (HD : Input_Drained (aget zero_Input inp p) = drained s p).
  { destruct Hin as (_ & Hp). destruct (Hp p) as (Hp1 & Hp2). apply Hp2, Hp1, Hch. }
  rewrite Epc in *. cbn in L. destruct L as (L1 & L2 & L3).
  unfold RC. cbn [pcs with_pc]. destruct (drained s p) eqn:D.
  - eexists (_, prioLoopK ph). split.
    + unfold stackC, prioLoopK. step ltac:(rewrite ?L1; cbn). runto ltac:(rewrite ?L1; cbn; rewrite ?HD; cbn).
    + eexists fr, inp, strat, unc, us, (with_pc s1 (Prio ph r proc)), _. split; [reflexivity|].
      split; [apply with_pc_deq; exact Hd|]. split; [exact Hin|]. split; [exact Hst|]. cbn. rewrite ?L1. cbn.
      repeat split; try assumption; try reflexivity.
  - cbn [stackC]. unfold readK. destruct (buf p) eqn:B.
    + eexists (_, ioLoopK ph). split.
      * unfold stackC, prioLoopK, ioLoopK. step ltac:(rewrite ?L1; cbn). runto ltac:(rewrite ?L1; cbn; rewrite ?HD, ?B; cbn).
      * eexists fr, inp, strat, unc, us, (with_pc s1 (Read ph p r proc false)), _. split; [reflexivity|].
        split; [apply with_pc_deq; exact Hd|]. split; [exact Hin|]. split; [exact Hst|]. cbn. rewrite ?L1, ?B. cbn. rewrite ?B.
        repeat split; try assumption; try reflexivity. rewrite N.add_0_r. assumption.
    + eexists (_, iouLoopK ph). split.
      * unfold stackC, prioLoopK, iouLoopK. step ltac:(rewrite ?L1; cbn). runto ltac:(rewrite ?L1; cbn; rewrite ?HD, ?B; cbn).
      * eexists fr, inp, strat, unc, us, (with_pc s1 (Read ph p r proc false)), _. split; [reflexivity|].
        split; [apply with_pc_deq; exact Hd|]. split; [exact Hin|]. split; [exact Hst|]. cbn. rewrite ?L1, ?B. cbn. rewrite ?B.
        repeat split; try assumption; try reflexivity. rewrite N.add_0_r. assumption.
Qed.

(* ---- EndBase: loop() after base() *)
Ltac rc_with_pc fr inp strat unc us s1 c Hd Hin Hst :=
  eexists fr, inp, strat, unc, us, (with_pc s1 c), _; split; [reflexivity|];
  split; [apply with_pc_deq; exact Hd|]; split; [exact Hin|]; split; [exact Hst|]; cbn.

(* something was processed: getLimitedFeedback() starts *)
Lemma sim_endbase_limfb s cf proc :
  RC s cf -> pcs s = EndBase proc -> proc <> 0 -> N.of_nat (fblimit s) < u_modulus ->
  exists cf', reachesP cf cf' /\ RC (with_pc s (LimFb (fblimit s))) cf'.
Proof.
  intros (fr & inp & strat & unc & us & s1 & gl & -> & Hd & Hin & Hst & L) Epc Hp Hl.
  destruct (st_deq_io _ _ Hd) as (_ & _ & Ef & _). apply N.eqb_neq in Hp.
  rewrite Epc in *. cbn in L. destruct L as (L1 & L2).
  eexists (_, stackC (LimFb (fblimit s))). split.
  - unfold stackC, loopK. runto ltac:(rewrite ?L1, ?L2, ?Hp; cbn).
  - rc_with_pc fr inp strat unc us s1 (LimFb (fblimit s)) Hd Hin Hst. rewrite Ef. split; [reflexivity|exact Hl].
Qed.

(* nothing was processed, graceful stop not requested (the default of the select): the sleep of loop(): Idle *)
Lemma sim_endbase_idle s cf :
  RC s cf -> pcs s = EndBase 0 ->
  exists cb cf', reachesP cf cb /\ step1 prog cb = Block (RqSelect [(CGracefulIsBreaked, None)] true) /\
    reachesP (GoConc.resume cb AnsDefault) cf' /\ RC (with_pc s Idle) cf'.
Proof.
  intros (fr & inp & strat & unc & us & s1 & gl & -> & Hd & Hin & Hst & L) Epc.
  rewrite Epc in *. cbn in L. destruct L as (L1 & L2).
  eexists _, (_, stackC Idle). split; [unfold stackC, loopK; runblock ltac:(rewrite ?L1, ?L2; cbn)|].
  split; [reflexivity|]. split.
  - cbn [GoConc.resume]. unfold stackC, loopK. runto idtac.
  - rc_with_pc fr inp strat unc us s1 Idle Hd Hin Hst. exact Logic.I.
Qed.

(* nothing was processed, graceful stop requested (alternative 0): isDrainedInputs decides between the end of loop()
   (the deferred waitZeroActual: Drain None) and the sleep (Idle) *)
Lemma sim_endbase_graceful s cf :
  RC s cf -> pcs s = EndBase 0 -> (forall p, In p (prios s) <-> chan_of s p <> None) ->
  exists cb cf', reachesP cf cb /\ step1 prog cb = Block (RqSelect [(CGracefulIsBreaked, None)] true) /\
    reachesP (GoConc.resume cb (AnsSel 0 None)) cf' /\
    RC (with_pc s (if forallb (drained s) (prios s) then Drain None else Idle)) cf'.
Proof.
  intros (fr & inp & strat & unc & us & s1 & gl & -> & Hd & Hin & Hst & L) Epc Hpr.
  destruct (st_deq_io _ _ Hd) as (Ec & Edr & _). destruct (st_deq_proj _ _ Hd) as (_ & EP & _).
  assert (T : gen_isDrainedInputs (ncalls s) (absd fr g (Some inp) strat unc us s1) =
              (ncalls s, absd fr g (Some inp) strat unc us s1, forallb (drained s) (prios s))).
  { rewrite <- Edr, <- EP. apply tie_v1_isDrainedInputs; [exact (inputs_rel_deq _ _ _ Hd Hin)|].
    intros p. rewrite EP, Ec. apply Hpr. }
  rewrite Epc in *. cbn in L. destruct L as (L1 & L2).
  unfold RC. cbn [pcs with_pc]. destruct (forallb (drained s) (prios s)) eqn:D.
  - eexists _, (_, stackC (Drain None)). split; [unfold stackC, loopK; runblock ltac:(rewrite ?L1, ?L2; cbn)|].
    split; [reflexivity|]. split.
    + cbn [GoConc.resume]. unfold stackC, loopK, mainK. runto ltac:(rewrite ?T; cbn).
    + rc_with_pc fr inp strat unc us s1 (Drain None) Hd Hin Hst. exact Logic.I.
  - eexists _, (_, stackC Idle). split; [unfold stackC, loopK; runblock ltac:(rewrite ?L1, ?L2; cbn)|].
    split; [reflexivity|]. split.
    + cbn [GoConc.resume]. unfold stackC, loopK. runto ltac:(rewrite ?T; cbn).
    + rc_with_pc fr inp strat unc us s1 Idle Hd Hin Hst. exact Logic.I.
Qed.

(* ---- Idle / LimFb under RC *)
Lemma simc_idle s cf :
  RC s cf -> pcs s = Idle -> N.of_nat (fblimit s) < u_modulus ->
  exists cf', reachesP (GoConc.resume cf AnsOk) cf' /\ RC (with_pc s (LimFb (fblimit s))) cf'.
Proof.
  intros (fr & inp & strat & unc & us & s1 & gl & -> & Hd & Hin & Hst & L) Epc Hl.
  destruct (st_deq_io _ _ Hd) as (_ & _ & Ef & _). rewrite Epc.
  eexists (_, stackC (LimFb (fblimit s))). split.
  - unfold stackC. cbn [GoConc.resume ifZero if_then loopW wbody at_ nth body_loop skipn]. runto idtac.
  - rc_with_pc fr inp strat unc us s1 (LimFb (fblimit s)) Hd Hin Hst. rewrite Ef. split; [reflexivity|exact Hl].
Qed.

Lemma simc_limfb_zero s cf :
  RC s cf -> pcs s = LimFb 0 ->
  exists cf', reachesP cf cf' /\ RC (with_pc s Top) cf'.
Proof.
  intros (fr & inp & strat & unc & us & s1 & gl & -> & Hd & Hin & Hst & L) Epc.
  rewrite Epc in *. cbn in L. destruct L as (L1 & L2). rewrite N.add_0_r in L1.
  eexists (_, stackC Top). split.
  - unfold stackC. runto ltac:(rewrite ?L1, ?N.ltb_irrefl).
  - rc_with_pc fr inp strat unc us s1 Top Hd Hin Hst. exact Logic.I.
Qed.

Lemma simc_limfb_end s cf k a :
  RC s cf -> pcs s = LimFb (S k) -> a = AnsSel 0 None \/ a = AnsSel 1 None \/ a = AnsDefault ->
  exists cb cf', reachesP cf cb /\ step1 prog cb = Block (RqSelect fbAlts true) /\
    reachesP (GoConc.resume cb a) cf' /\ RC (with_pc s Top) cf'.
Proof.
  intros (fr & inp & strat & unc & us & s1 & gl & -> & Hd & Hin & Hst & L) Epc Ha.
  rewrite Epc in *. cbn in L. destruct L as (L1 & L2).
  assert (Hlt : (G_getLimitedFeedback_i1 gl <? G_getLimitedFeedback_n2 gl) = true) by (apply N.ltb_lt; lia).
  eexists (_, KSeq (skipn 1 (wbody glfW)) :: stackC (LimFb 0)), (_, stackC Top). split; [|split; [|split]].
  - unfold stackC. step ltac:(rewrite ?Hlt). step idtac. apply r_refl.
  - reflexivity.
  - unfold stackC. destruct Ha as [-> | [-> | ->]];
      cbn [GoConc.resume glfW wbody at_ nth body_getLimitedFeedback skipn nth_error]; runto idtac.
  - rc_with_pc fr inp strat unc us s1 Top Hd Hin Hst. exact Logic.I.
Qed.

(* LimFb (S k), a feedback answer (alternative 2): decreaseActual, the next round of the loop: LimFb k *)
Lemma simc_limfb_fb s cf k p q :
  RC s cf -> pcs s = LimFb (S k) -> fbq s = p :: q -> 1 <= get (actual s) p -> get (actual s) p < u_modulus ->
  exists cb cf', reachesP cf cb /\ step1 prog cb = Block (RqSelect fbAlts true) /\
    reachesP (GoConc.resume cb (AnsSel 2 (Some (PN p)))) cf' /\ RC (pop_fb s p q (LimFb k)) cf'.
Proof.
  intros (fr & inp & strat & unc & us & s1 & gl & -> & Hd & Hin & Hst & L) Epc Efb H1 H2.
  destruct (st_deq_proj _ _ Hd) as (_ & _ & _ & _ & _ & Ha & _). rewrite <- (Ha p) in H1, H2.
  pose proof (tie_v1_decreaseActual g fr (Some inp) strat unc us s1 p q (LimFb k) (ncalls s) H1 H2) as T.
  rewrite Epc in *. cbn in L. destruct L as (L1 & L2).
  assert (Hlt : (G_getLimitedFeedback_i1 gl <? G_getLimitedFeedback_n2 gl) = true) by (apply N.ltb_lt; lia).
  eexists (_, KSeq (skipn 1 (wbody glfW)) :: stackC (LimFb 0)), (_, stackC (LimFb k)). split; [|split; [|split]].
  - unfold stackC. step ltac:(rewrite ?Hlt). step idtac. apply r_refl.
  - reflexivity.
  - unfold stackC. cbn [GoConc.resume glfW wbody at_ nth body_getLimitedFeedback skipn nth_error].
    step idtac. runto ltac:(rewrite ?T; cbn).
  - eexists fr, inp, strat, unc, us, _, _. split; [reflexivity|]. split; [apply pop_fb_deq; exact Hd|].
    split; [exact Hin|]. split; [exact Hst|]. cbn. rewrite u_add_small by lia. split; [lia|exact L2].
Qed.

(* ---- Drain: the deferred waitZeroActual() *)
Definition RCat (k : list frameT) (s : st) (cf : cfgT) : Prop :=
  exists fr inp strat unc us s1 gl,
    cf = ((absd fr g (Some inp) strat unc us s1, gl, ncalls s), k) /\
    st_deq s1 s /\ inputs_rel s inp /\ mitems strat = strategic s.

Lemma zero_actual_tie fr inp strat unc us s1 s :
  st_deq s1 s -> NoDup (keys (actual s)) ->
  gen_isZeroActual (ncalls s) (absd fr g (Some inp) strat unc us s1) =
  (ncalls s, absd fr g (Some inp) strat unc us s1, sum (actual s) =? 0).
Proof.
  intros Hd N1. destruct (st_deq_proj _ _ Hd) as (_ & _ & _ & _ & _ & Ha & _ & Na & _).
  rewrite tie_v1_isZeroActual. now rewrite (sum_deq _ _ Na N1 Ha).
Qed.

(* nothing is outstanding: waitZeroActual() and loop() return; main() is at `err := dsc.loop()` done (continuation mainK).
   The rest of main() (the send of the error, the deferred closes) is not covered. *)
Lemma sim_drain_end s cf e :
  RC s cf -> pcs s = Drain e -> NoDup (keys (actual s)) -> sum (actual s) = 0 ->
  exists cf', reachesP cf cf' /\ RCat mainK (with_pc s (Done e)) cf'.
Proof.
  intros (fr & inp & strat & unc & us & s1 & gl & -> & Hd & Hin & Hst & L) Epc N1 Hz.
  pose proof (zero_actual_tie fr inp strat unc us s1 s Hd N1) as T. rewrite Hz in T. cbn in T.
  rewrite Epc in *.
  eexists (_, mainK). split.
  - unfold stackC. runto ltac:(rewrite ?T; cbn).
  - eexists fr, inp, strat, unc, us, (with_pc s1 (Done e)), _. split; [reflexivity|].
    split; [apply with_pc_deq; exact Hd|]. split; [exact Hin|exact Hst].
Qed.

Lemma sim_drain_stop s cf e i :
  RC s cf -> pcs s = Drain e -> NoDup (keys (actual s)) -> sum (actual s) <> 0 -> i = 0%nat \/ i = 1%nat ->
  exists cb cf', reachesP cf cb /\ step1 prog cb = Block (RqSelect fbAlts false) /\
    reachesP (GoConc.resume cb (AnsSel i None)) cf' /\ RCat mainK (with_pc s (Done e)) cf'.
Proof.
  intros (fr & inp & strat & unc & us & s1 & gl & -> & Hd & Hin & Hst & L) Epc N1 Hz Hi.
  pose proof (zero_actual_tie fr inp strat unc us s1 s Hd N1) as T. apply N.eqb_neq in Hz. rewrite Hz in T.
  rewrite Epc in *.
  eexists _, (_, mainK). split; [unfold stackC; runblock ltac:(rewrite ?T; cbn)|]. split; [reflexivity|]. split.
  - cbn [GoConc.resume]. destruct Hi as [-> | ->]; runto idtac.
  - eexists fr, inp, strat, unc, us, (with_pc s1 (Done e)), _. split; [reflexivity|].
    split; [apply with_pc_deq; exact Hd|]. split; [exact Hin|exact Hst].
Qed.

Lemma sim_drain_fb s cf e p q :
  RC s cf -> pcs s = Drain e -> NoDup (keys (actual s)) -> sum (actual s) <> 0 ->
  fbq s = p :: q -> 1 <= get (actual s) p -> get (actual s) p < u_modulus ->
  exists cb cf', reachesP cf cb /\ step1 prog cb = Block (RqSelect fbAlts false) /\
    reachesP (GoConc.resume cb (AnsSel 2 (Some (PN p)))) cf' /\ RC (pop_fb s p q (Drain e)) cf'.
Proof.
  intros (fr & inp & strat & unc & us & s1 & gl & -> & Hd & Hin & Hst & L) Epc N1 Hz Efb H1 H2.
  pose proof (zero_actual_tie fr inp strat unc us s1 s Hd N1) as T. apply N.eqb_neq in Hz. rewrite Hz in T.
  destruct (st_deq_proj _ _ Hd) as (_ & _ & _ & _ & _ & Ha & _). rewrite <- (Ha p) in H1, H2.
  pose proof (tie_v1_decreaseActual g fr (Some inp) strat unc us s1 p q (Drain e) (ncalls s) H1 H2) as T2.
  rewrite Epc in *.
  eexists _, (_, stackC (Drain e)). split; [unfold stackC; runblock ltac:(rewrite ?T; cbn)|]. split; [reflexivity|]. split.
  - cbn [GoConc.resume]. unfold stackC. runto ltac:(rewrite ?T2; cbn).
  - eexists fr, inp, strat, unc, us, _, _. split; [reflexivity|]. split; [apply pop_fb_deq; exact Hd|].
    split; [exact Hin|]. split; [exact Hst|exact Logic.I].
Qed.

(* ---- Calc, the exit with ErrQuantityExceeded: the error travels up to loop(), the deferred waitZeroActual: Drain.
   (The exits with a divider error are open: GenTiePrio1Calc does not relate the states after a failed divider call.) *)
Lemma sim_calc_err s cf :
  RC s cf -> pcs s = Calc ->
  NoDup (keys (actual s)) -> NoDup (keys (tactic s)) ->
  sum (actual s) < u_modulus -> Prio1.H s < u_modulus -> sum_list (map (get (strategic s)) (prios s)) < u_modulus ->
  pcs (step_calc dv s) = Drain (Some EQuantityExceeded) ->
  exists cf', reachesP cf cf' /\ RC (step_calc dv s) cf'.
Proof.
  intros (fr & inp & strat & unc & us & s1 & gl & -> & Hd & Hin & Hst & L) Epc N1 N2 Hsa Hh Hb E.
  destruct (tie_v1_calcTactic_sim dv g Hok dv_wf dv_ext fr (Some inp) strat unc us s1 s Hd N1 N2 Hst Hsa Hh Hb) as (s1' & unc' & T & Hd').
  cbn zeta in T. destruct (step_calc_frame s) as (Ep & Ec & Edr & Es & _).
  assert (Hin' : inputs_rel (step_calc dv s) inp) by (unfold inputs_rel in *; rewrite Ec, Edr; exact Hin).
  rewrite Epc in *. cbn in L.
  eexists (_, stackC (Drain (Some EQuantityExceeded))). split.
  - unfold stackC, wctLoopK. eapply r_step; [cbn; reflexivity|]. runto ltac:(rewrite ?T, ?E; cbn).
  - eexists fr, inp, strat, unc', us, s1', _. rewrite E. split; [reflexivity|].
    split; [apply Hd'; rewrite E; reflexivity|]. split; [exact Hin'|]. split; [now rewrite Es|exact Logic.I].
Qed.

(* ---- Top: the select of loop() *)
Definition topAlts : list (chan_id * option payload) :=
  stopAlts ++ [(CInputAdds, None); (CInputRmvs, None); (CFeedback, None)].

Lemma with_actual_deq s1 s a' c :
  st_deq s1 s -> deq a' (actual s1) -> NoDup (keys a') -> st_deq (with_pc (with_actual s1 a') c) (with_pc s c).
Proof.
  intros (a & t & -> & Ha & Ht & Na & Nt) Ha' Na'. exists a', t. split; [reflexivity|].
  split; [eapply deq_trans; [exact Ha'|exact Ha]|]. split; [exact Ht|]. split; [exact Na'|exact Nt].
Qed.
Lemma inputs_rel_deq' s1 s inp : st_deq s1 s -> inputs_rel s1 inp -> inputs_rel s inp.
Proof. intros Hd. destruct (st_deq_io _ _ Hd) as (E1 & E2 & _). unfold inputs_rel. now rewrite E1, E2. Qed.

(* after the select: clearActual, base() begins, waitCalcTactic() begins: Calc *)
Lemma top_tail fr inp strat unc us s1 s gl :
  st_deq s1 s -> inputs_rel s inp -> mitems strat = strategic s ->
  exists cf', reachesP ((absd fr g (Some inp) strat unc us s1, gl, ncalls s), loopK (skipn 1 (wbody loopW))) cf' /\
              RC (with_pc s Calc) cf'.
Proof.
  intros Hd Hin Hst. destruct (st_deq_proj _ _ Hd) as (_ & _ & _ & _ & _ & _ & _ & Na & _).
  destruct (tie_v1_clearActual g fr (Some inp) strat unc us s1 (ncalls s) Na) as (T & Ha' & Na' & _). cbv zeta in T.
  eexists (_, stackC Calc). split.
  - unfold stackC, loopK. runto ltac:(rewrite ?T; cbn).
  - eexists fr, inp, strat, unc, us, (with_pc (with_actual s1 _) Calc), _. split; [reflexivity|].
    split; [apply with_actual_deq; [exact Hd|exact Ha'|exact Na']|]. split; [exact Hin|]. split; [exact Hst|]. reflexivity.
Qed.

(* the default: nothing to do before the round *)
Lemma sim_top_default s cf :
  RC s cf -> pcs s = Top ->
  exists cb cf', reachesP cf cb /\ step1 prog cb = Block (RqSelect topAlts true) /\
    reachesP (GoConc.resume cb AnsDefault) cf' /\ RC (with_pc s Calc) cf'.
Proof.
  intros (fr & inp & strat & unc & us & s1 & gl & -> & Hd & Hin & Hst & L) Epc. rewrite Epc in *.
  destruct (top_tail fr inp strat unc us s1 s gl Hd Hin Hst) as (cf' & Hr & HR).
  eexists _, cf'. split; [unfold stackC, loopK; runblock idtac|]. split; [reflexivity|]. split; [|exact HR].
  cbn [GoConc.resume]. eapply reaches_trans; [|exact Hr]. unfold loopK. runto idtac.
Qed.

(* a stop answer: loop() returns nil, the deferred waitZeroActual: Drain None *)
Lemma sim_top_stop s cf i :
  RC s cf -> pcs s = Top -> i = 0%nat \/ i = 1%nat ->
  exists cb cf', reachesP cf cb /\ step1 prog cb = Block (RqSelect topAlts true) /\
    reachesP (GoConc.resume cb (AnsSel i None)) cf' /\ RC (with_pc s (Drain None)) cf'.
Proof.
  intros (fr & inp & strat & unc & us & s1 & gl & -> & Hd & Hin & Hst & L) Epc Hi. rewrite Epc in *.
  eexists _, (_, stackC (Drain None)). split; [unfold stackC, loopK; runblock idtac|]. split; [reflexivity|]. split.
  - cbn [GoConc.resume]. unfold stackC, loopK, mainK. destruct Hi as [-> | ->]; runto idtac.
  - eexists fr, inp, strat, unc, us, (with_pc s1 (Drain None)), _. split; [reflexivity|].
    split; [apply with_pc_deq; exact Hd|]. split; [exact Hin|]. split; [exact Hst|exact Logic.I].
Qed.

(* a feedback answer (alternative 4): decreaseActual, then the round: Calc *)
Lemma sim_top_fb s cf p q :
  RC s cf -> pcs s = Top -> fbq s = p :: q -> 1 <= get (actual s) p -> get (actual s) p < u_modulus ->
  exists cb cf', reachesP cf cb /\ step1 prog cb = Block (RqSelect topAlts true) /\
    reachesP (GoConc.resume cb (AnsSel 4 (Some (PN p)))) cf' /\ RC (pop_fb s p q Calc) cf'.
Proof.
  intros (fr & inp & strat & unc & us & s1 & gl & -> & Hd & Hin & Hst & L) Epc Efb H1 H2. rewrite Epc in *.
  destruct (st_deq_proj _ _ Hd) as (_ & _ & _ & _ & _ & Ha & _). rewrite <- (Ha p) in H1, H2.
  pose proof (tie_v1_decreaseActual g fr (Some inp) strat unc us s1 p q Calc (ncalls s) H1 H2) as T.
  destruct (top_tail fr inp strat unc us (pop_fb s1 p q Calc) (pop_fb s p q Calc)
              (snd (fst (set_loop_priority_1 p (absd fr g (Some inp) strat unc us s1, gl, ncalls s))))
              (pop_fb_deq _ _ p q Calc Hd) Hin Hst) as (cf' & Hr & HR).
  eexists _, cf'. split; [unfold stackC, loopK; runblock idtac|]. split; [reflexivity|]. split; [|exact HR].
  cbn [GoConc.resume]. eapply reaches_trans; [|exact Hr]. unfold loopK. runto ltac:(rewrite ?T; cbn).
Qed.

(* an AddInput command (alternative 2): addInput, then the round: the model's do_cmd (CAdd ch p) *)
Lemma sim_top_add s cf ia ch rest :
  RC s cf -> pcs s = Top ->
  (forall q, In q (prios s) <-> chan_of s q <> None) -> desc (prios s) ->
  exists cb cf', reachesP cf cb /\ step1 prog cb = Block (RqSelect topAlts true) /\
    reachesP (GoConc.resume cb (AnsSel 2 (Some (PinputAdd ia)))) cf' /\
    RC (do_cmd dv s (CAdd ch (inputAdd_priority ia)) rest) cf'.
Proof.
  intros (fr & inp & strat & unc & us & s1 & gl & -> & Hd & Hin & Hst & L) Epc Hpr Hds. rewrite Epc in *.
  destruct (st_deq_proj _ _ Hd) as (_ & EP & _ & EN & _). destruct (st_deq_io _ _ Hd) as (Ec & _).
  pose proof (do_cmd_deq dv _ _ (CAdd ch (inputAdd_priority ia)) rest Hd) as Hd'.
  destruct (st_deq_proj _ _ Hd') as (_ & _ & ES' & EN' & _).
  destruct (tie_v1_addInput dv g Hok fr inp strat unc us s1 (inputAdd_channel ia) ch (inputAdd_priority ia) rest
              (inputs_rel_deq _ _ _ Hd Hin)) as (T & Hin1 & Hst1).
  { intros q. rewrite EP, Ec. apply Hpr. } { rewrite EP. exact Hds. }
  cbv zeta in T, Hin1, Hst1. rewrite EN, EN' in T. rewrite ?EN in Hst1. rewrite ES' in Hst1.
  edestruct (top_tail fr _ _ unc us _ _
              (snd (fst (set_loop_add ia (absd fr g (Some inp) strat unc us s1, gl, ncalls s))))
              Hd' (inputs_rel_deq' _ _ _ Hd' Hin1) Hst1) as (cf' & Hr & HR).
  eexists _, cf'. split; [unfold stackC, loopK; runblock idtac|]. split; [reflexivity|]. split; [|exact HR].
  cbn [GoConc.resume]. eapply reaches_trans; [|exact Hr]. unfold loopK. runto ltac:(rewrite ?T; cbn).
Qed.

(* a RemoveInput command (alternative 3): removeInput, then the round: the model's do_cmd (CRmv p) *)
Lemma sim_top_rmv s cf p rest :
  RC s cf -> pcs s = Top -> (Z.of_nat (length (prios s)) < i_half)%Z ->
  exists cb cf', reachesP cf cb /\ step1 prog cb = Block (RqSelect topAlts true) /\
    reachesP (GoConc.resume cb (AnsSel 3 (Some (PN p)))) cf' /\ RC (do_cmd dv s (CRmv p) rest) cf'.
Proof.
  intros (fr & inp & strat & unc & us & s1 & gl & -> & Hd & Hin & Hst & L) Epc Hlen. rewrite Epc in *.
  destruct (st_deq_proj _ _ Hd) as (_ & EP & _ & EN & _).
  pose proof (do_cmd_deq dv _ _ (CRmv p) rest Hd) as Hd'.
  destruct (st_deq_proj _ _ Hd') as (_ & _ & ES' & EN' & _).
  destruct (tie_v1_removeInput dv g Hok fr inp strat unc us s1 p rest (inputs_rel_deq _ _ _ Hd Hin))
    as (T & Hin1 & Hst1 & _).
  { rewrite EP. exact Hlen. }
  cbv zeta in T, Hin1, Hst1. rewrite EN, EN' in T. rewrite ?EN in Hst1. rewrite ES' in Hst1.
  edestruct (top_tail fr _ _ unc us _ _
              (snd (fst (set_loop_priority p (absd fr g (Some inp) strat unc us s1, gl, ncalls s))))
              Hd' (inputs_rel_deq' _ _ _ Hd' Hin1) Hst1) as (cf' & Hr & HR).
  eexists _, cf'. split; [unfold stackC, loopK; runblock idtac|]. split; [reflexivity|]. split; [|exact HR].
  cbn [GoConc.resume]. eapply reaches_trans; [|exact Hr]. unfold loopK. runto ltac:(rewrite ?T; cbn).
Qed.
End Full.

Print Assumptions blocked_top.
Print Assumptions blocked_send.
Print Assumptions blocking_statements.
Print Assumptions sim_idle.
Print Assumptions sim_limfb_zero.
Print Assumptions sim_limfb_end.
Print Assumptions sim_calc.
Print Assumptions sim_waitfb_fb.
Print Assumptions sim_waitfb_stop.
Print Assumptions sim_send_out.
Print Assumptions sim_send_stop.
Print Assumptions sim_read_exit.
Print Assumptions sim_read_stop.
Print Assumptions sim_read_item.
Print Assumptions sim_prio_nil.
Print Assumptions sim_recalc.
Print Assumptions sim_read_closed.
Print Assumptions sim_read_tick.
Print Assumptions sim_prio_cons.
Print Assumptions sim_endbase_limfb.
Print Assumptions sim_endbase_idle.
Print Assumptions sim_endbase_graceful.
Print Assumptions simc_idle.
Print Assumptions simc_limfb_zero.
Print Assumptions simc_limfb_end.
Print Assumptions simc_limfb_fb.
Print Assumptions sim_drain_end.
Print Assumptions sim_drain_stop.
Print Assumptions sim_drain_fb.
Print Assumptions sim_calc_err.
Print Assumptions sim_top_default.
Print Assumptions sim_top_stop.
Print Assumptions sim_top_fb.
Print Assumptions sim_top_add.
Print Assumptions sim_top_rmv.
