(* Property theorem for C19 over the facts regenerated from the Go source (Facts.v): the goroutines the disciplines start are exactly
   the ones of the models -- one main goroutine per discipline started once by its constructor, the handler goroutines of the
   simplified disciplines (started in a loop by a library goroutine), and the one helper of v1 Simple that awaits the inner graceful
   stop.  Stated by shape (who starts it, whether in a loop), not by the names of internal functions: renaming `main` must not
   raise an alarm, a new `go` statement must. *)
From Coq Require Import List String Bool.
From Cqos Require Import Conf Facts.
Import ListNotations.
Open Scope string_scope.

Definition is_ctor (n : string) : bool := String.eqb n "New" || String.eqb n "NewSimple".
(* per package: (started by a constructor once, by a constructor in a loop, by an internal function once, by an internal function in a loop) *)
Definition count_if {A} (f : A -> bool) (l : list A) : nat := List.length (List.filter f l).
Definition go_shape (gs : list (string * string * bool)) : nat * nat * nat * nat :=
  (count_if (fun g => is_ctor (fst (fst g)) && negb (snd g)) gs, count_if (fun g => is_ctor (fst (fst g)) && snd g) gs,
   count_if (fun g => negb (is_ctor (fst (fst g))) && negb (snd g)) gs, count_if (fun g => negb (is_ctor (fst (fst g))) && snd g) gs).
Definition shapes (t : list package) : list (string * (nat * nat * nat * nat)) := map (fun pg => (fst pg, go_shape (snd pg))) (all_go_statements t).

Theorem C19_goroutines :
  shapes facts =
  [("priority", (2, 0, 1, 1)%nat);             (* New -> main; NewSimple -> main; the graceful-stop helper; handlers in a loop *)
   ("v2/priority", (1, 0, 0, 0)%nat);
   ("v2/priority/simple", (0, 0, 0, 1)%nat);   (* handlers in a loop, started by the discipline's own goroutine *)
   ("join", (1, 0, 0, 0)%nat);
   ("v2/join", (1, 0, 0, 0)%nat);
   ("v2/join/unite", (1, 0, 0, 0)%nat);
   ("v2/limit", (1, 0, 0, 0)%nat)].
Proof. vm_compute. reflexivity. Qed.
Print Assumptions C19_goroutines.
