(* Pure parts of the priority scheduler shared by v1 and v2 (v2/priority/assist.go, priority.go):
   safeDivide with its before/after check, the constructor's `prepare`, sorting of priorities. *)
From Coq Require Import List NArith Bool.
From Cqos Require Import Base Divider.
Import ListNotations.
Open Scope N_scope.

Definition two64 : N := 18446744073709551616.

(* common.SortPriorities: stable sort, highest first (stability is irrelevant for numbers) *)
Fixpoint insert_desc (x : N) (l : list N) : list N :=
  match l with
  | [] => [x]
  | y :: r => if y <? x then x :: y :: r else y :: insert_desc x r
  end.
Fixpoint sort_desc (l : list N) : list N :=
  match l with [] => [] | x :: r => insert_desc x (sort_desc r) end.

Inductive derr := DividerBad | SumOverflow.

(* safeCalcDistributionQuantity: safe.SumInt fails as soon as a partial sum leaves uint64; the entries
   are non-negative, so that happens iff the total does *)
Definition safe_sum (d : dist) : option N := if sum d <? two64 then Some (sum d) else None.

(* safeDivide.  `after - before` is a uint subtraction (wraps). *)
Definition safe_divide (dv : Divider) (ps : list N) (dividend : N) (t : dist) : dist + derr :=
  match safe_sum t with
  | None => inr SumOverflow
  | Some before =>
      let r := dv ps dividend t in
      match safe_sum r with
      | None => inr SumOverflow
      | Some after =>
          if after =? 0 then inl r
          else if (after + two64 - before) mod two64 =? dividend then inl r else inr DividerBad
      end
  end.

(* v2 New: isValid + prepare.  The Inputs map gives distinct priorities in arbitrary order. *)
Inductive new_err := EHandlersZero | EInputEmpty | ETooSmall | EDivider (e : derr).

Definition prepare_with (filled : list N -> dist -> bool) (dv : Divider) (ps : list N) (H : N)
  : (list N * dist) + new_err :=
  if H =? 0 then inr EHandlersZero else
  match ps with
  | [] => inr EInputEmpty
  | _ =>
      let sorted := sort_desc ps in
      match safe_divide dv sorted H [] with
      | inr e => inr (EDivider e)
      | inl st => if filled sorted st then inl (sorted, st) else inr ETooSmall
      end
  end.
(* current code (after the fix): every listed priority must have a non-zero share *)
Definition prepare_v2 := prepare_with is_filled_for.
(* pinned code: only the entries present in the map were inspected *)
Definition prepare_v2_old := prepare_with (fun _ d => is_filled d).

(* general.DivideWithMin(H, 10, n) -- capacity of output/feedback and the feedback limit *)
Definition divide_with_min (base divider min : N) : N :=
  if divider =? 0 then base else let b := base / divider in if b <? min then min else b.
