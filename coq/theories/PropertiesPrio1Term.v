(* Property theorems: termination of the v1 priority discipline over infinite executions: GracefulStop (C07) and Stop / cancel (C16). *)
From Coq Require Import List NArith Bool. From Cqos Require Import Base Divider Sched Prio1 Prio1P Prio1L Prio1E Prio1Live Prio1Term. Import ListNotations. Open Scope N_scope.
Theorem C07_v1_graceful_eventually_done :
  forall (fixed : bool) (dv : nat -> Divider) (s0 : st) (tr : nat -> st) (lb : nat -> label),
         dv_ok dv ->
         InitL1 s0 ->
         H s0 < two64 ->
         execution' fixed dv s0 tr lb ->
         F_sched fixed dv tr lb ->
         F_take tr lb ->
         F_rel tr lb ->
         F_tick_w tr lb ->
         (exists i : nat, graceful (tr i) = true) ->
         (forall (p : N) (ch : nat),
          In p (prios s0) -> chan_of s0 p = Some ch -> exists i : nat, closed (tr i) ch = true) ->
         exists j : nat,
           pcs (tr j) = Done None /\
           outq (tr j) = [] /\
           held (tr j) = [] /\
           fbq (tr j) = [] /\
           (forall (p : N) (ch : nat),
            In p (prios s0) ->
            chan_of s0 p = Some ch ->
            delivered_from (tr j) ch = written (tr j) ch /\ inq (tr j) ch = [] /\ closed (tr j) ch = true).
Proof. exact @prio1_graceful_eventually_done_w. Qed.
Print Assumptions C07_v1_graceful_eventually_done.

Theorem C07_v1_graceful_done_iff :
  forall (fixed : bool) (dv : nat -> Divider) (s0 : st) (tr : nat -> st) (lb : nat -> label),
         dv_ok dv ->
         InitL1 s0 ->
         H s0 < two64 ->
         execution' fixed dv s0 tr lb ->
         F_sched fixed dv tr lb ->
         F_take tr lb ->
         F_rel tr lb ->
         F_tick_w tr lb ->
         (exists j : nat, pcs (tr j) = Done None) <->
         (exists i : nat, graceful (tr i) = true) /\
         (forall (p : N) (ch : nat),
          In p (prios s0) -> chan_of s0 p = Some ch -> exists i : nat, closed (tr i) ch = true).
Proof. exact @prio1_graceful_done_iff. Qed.
Print Assumptions C07_v1_graceful_done_iff.

Theorem C07_v1_graceful_eventually_finished :
  forall (fixed : bool) (dv : nat -> Divider) (s0 : st) (tr : nat -> st) (lb : nat -> label),
         dv_ok dv ->
         InitL1 s0 ->
         H s0 < two64 ->
         execution' fixed dv s0 tr lb ->
         F_sched fixed dv tr lb ->
         F_take tr lb ->
         F_rel tr lb ->
         F_tick_w tr lb ->
         (exists i : nat, graceful (tr i) = true) ->
         (forall (p : N) (ch : nat),
          In p (prios s0) -> chan_of s0 p = Some ch -> exists i : nat, closed (tr i) ch = true) ->
         exists j : nat,
           forall k : nat,
           (j <= k)%nat ->
           Finished s0 (tr k) /\
           delivered (tr k) = delivered (tr j) /\
           ~ is_sched (lb k) /\
           (forall (p : N) (ch : nat),
            In p (prios s0) -> chan_of s0 p = Some ch -> written (tr k) ch = written (tr j) ch).
Proof. exact @prio1_graceful_eventually_finished. Qed.
Print Assumptions C07_v1_graceful_eventually_finished.

Theorem C07_v1_graceful_eventually_done_new_fair :
  forall (fixed : bool) (cfg : list (N * nat)) (h : N) (bufs : nat -> bool) 
           (ocap : N) (tr : nat -> st) (lb : nat -> label),
         NoDup (map fst cfg) ->
         cfg <> [] ->
         N.of_nat (length cfg) <= h ->
         h < two64 ->
         1 <= ocap ->
         execution' fixed dv_example (init_state dv_example cfg h bufs ocap) tr lb ->
         F_sched fixed dv_example tr lb ->
         F_take tr lb ->
         F_rel tr lb ->
         F_tick lb ->
         (exists i : nat, graceful (tr i) = true) ->
         (forall (p : N) (ch : nat), In (p, ch) cfg -> exists i : nat, closed (tr i) ch = true) ->
         exists j : nat,
           pcs (tr j) = Done None /\
           outq (tr j) = [] /\
           held (tr j) = [] /\
           fbq (tr j) = [] /\
           (forall (p : N) (ch : nat),
            In (p, ch) cfg ->
            delivered_from (tr j) ch = written (tr j) ch /\ inq (tr j) ch = [] /\ closed (tr j) ch = true).
Proof. exact @prio1_graceful_eventually_done_new_fair. Qed.
Print Assumptions C07_v1_graceful_eventually_done_new_fair.

Theorem C07_v1_done_stable :
  forall (fixed : bool) (dv : nat -> Divider) (s0 : st) (tr : nat -> st) (lb : nat -> label),
         execution_any fixed dv s0 tr lb ->
         forall (j k : nat) (e : option perr),
         (j <= k)%nat ->
         pcs (tr j) = Done e ->
         pcs (tr k) = Done e /\
         delivered (tr k) = delivered (tr j) /\ reads (tr k) = reads (tr j) /\ ~ is_sched (lb k).
Proof. exact @prio1_done_stable_any. Qed.
Print Assumptions C07_v1_done_stable.

Theorem C07_v1_graceful_needs_positive_shares :
  exists (dv : nat -> Divider) (s0 : st) (tr : nat -> st) (lb : nat -> label),
           dv_ok dv /\
           Init1 s0 /\
           1 <= H s0 /\
           H s0 < two64 /\
           sum_list (map (get (strategic s0)) (prios s0)) = H s0 /\
           1 <= outcap s0 /\
           execution' true dv s0 tr lb /\
           F_sched true dv tr lb /\
           F_take tr lb /\
           F_rel tr lb /\
           F_tick lb /\
           (exists i : nat, graceful (tr i) = true) /\
           (forall (p : N) (ch : nat),
            In p (prios s0) -> chan_of s0 p = Some ch -> exists i : nat, closed (tr i) ch = true) /\
           (forall (j : nat) (e : option perr), pcs (tr j) <> Done e).
Proof. exact @prio1_graceful_needs_positive_shares. Qed.
Print Assumptions C07_v1_graceful_needs_positive_shares.

Theorem C07_v1_graceful_nonvacuous :
  exists j : nat,
           pcs (gt_tr j) = Done None /\
           outq (gt_tr j) = [] /\
           held (gt_tr j) = [] /\
           fbq (gt_tr j) = [] /\
           (forall (p : N) (ch : nat),
            In p (prios pos_s0) ->
            chan_of pos_s0 p = Some ch ->
            delivered_from (gt_tr j) ch = written (gt_tr j) ch /\
            inq (gt_tr j) ch = [] /\ closed (gt_tr j) ch = true).
Proof. exact @gt_eventually_done. Qed.
Print Assumptions C07_v1_graceful_nonvacuous.

Theorem C16_v1_stop_eventually_done :
  forall (dv : nat -> Divider) (s0 : st) (tr : nat -> st) (lb : nat -> label),
         execution_any true dv s0 tr lb ->
         F_sched true dv tr lb ->
         F_tick_w tr lb ->
         F_stop_in tr lb ->
         (exists i : nat, stopped (tr i) = true) -> exists (j : nat) (e : option perr), pcs (tr j) = Done e.
Proof. exact @prio1_stop_eventually_done_strong. Qed.
Print Assumptions C16_v1_stop_eventually_done.

Theorem C16_v1_stop_done_iff :
  forall (dv : nat -> Divider) (s0 : st) (tr : nat -> st) (lb : nat -> label),
         execution_any true dv s0 tr lb ->
         F_sched true dv tr lb ->
         F_tick_w tr lb ->
         (exists i : nat, stopped (tr i) = true) ->
         (exists (j : nat) (e : option perr), pcs (tr j) = Done e) <-> F_stop_in tr lb.
Proof. exact @prio1_stop_done_iff_strong. Qed.
Print Assumptions C16_v1_stop_done_iff.

Theorem C16_v1_stop_needs_oracle_fairness :
  exists (dv : nat -> Divider) (s0 : st) (tr : nat -> st) (lb : nat -> label),
           Init1 s0 /\
           execution_any true dv s0 tr lb /\
           F_sched true dv tr lb /\
           F_tick lb /\
           (exists i : nat, stopped (tr i) = true) /\
           (forall (j : nat) (e : option perr), pcs (tr j) <> Done e) /\ ~ F_stop_in tr lb /\ ~ F_stop tr lb.
Proof. exact @prio1_stop_needs_oracle_fairness. Qed.
Print Assumptions C16_v1_stop_needs_oracle_fairness.

Theorem C16_v1_stop_nonvacuous :
  exists (j : nat) (e : option perr), pcs (st_tr j) = Done e.
Proof. exact @st_eventually_done. Qed.
Print Assumptions C16_v1_stop_nonvacuous.

