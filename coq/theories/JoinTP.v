(* Timed properties of the join / unite pc-machine (Join.v), for traces without v1 stop events.
   A. short_not_early   (C09, timed)
   B. residence_bound   (C10), interval_bound, calc_interval_errors
   C. non-vacuity examples (boolean checkers for the hypotheses, proved sound).
   NOTE: the jev constructor [In] shadows List.In, so list membership is written [List.In]. *)
From Coq Require Import List ZArith Bool Lia Arith.
From Cqos Require Import Join.
Import ListNotations.
Open Scope Z_scope.

Definition no_stop (evs : list jev) : Prop :=
  forall e, List.In e evs -> match e with StopCall _ | TakeStop _ | Abort _ => False | _ => True end.
Definition stamped (evs : list jev) : Prop :=
  forall t xs x a, List.In (In t xs) evs -> List.In (x, a) xs -> a = t.
Definition wf_cfg (c : jcfg) : Prop := (1 <= jsize c)%nat.

Lemma no_stop_cons e r : no_stop (e :: r) ->
  match e with StopCall _ | TakeStop _ | Abort _ => False | _ => True end /\ no_stop r.
Proof.
  intros H. split.
  - apply H. now left.
  - intros e' Hin. apply H. now right.
Qed.

Lemma stamped_cons e r : stamped (e :: r) ->
  (forall t xs x a, e = In t xs -> List.In (x, a) xs -> a = t) /\ stamped r.
Proof.
  intros H. split.
  - intros t xs x a -> Hin. apply (H t xs x a); [now left|exact Hin].
  - intros t xs x a Hin Hx. apply (H t xs x a); [now right|exact Hx].
Qed.

(* ------------------------------------------------------------------------------------------------ *)
(* A. C09 (timed)                                                                                    *)
(* ------------------------------------------------------------------------------------------------ *)
Section ShortNotEarly.
Variable c : jcfg.

(* L: a lower bound (t0, or the time of the last emission) for the next value of passAt *)
Definition invA (L now : Z) (s : jst) : Prop :=
  passAt s <= now /\
  match pc s with
  | AwaitRel _ => L <= now
  | Sending _ _ Timeout _ => L <= passAt s /\ passAt s + timeout c <= now
  | _ => L <= passAt s
  end.

Lemma invA_mono L L' now s : L' <= L -> invA L now s -> invA L' now s.
Proof.
  intros HL [H1 H2]. split; [exact H1|].
  destruct (pc s) as [|b own why k|k|]; try lia.
  destruct why; lia.
Qed.

Lemma invA_resume L s k t : L <= t -> invA L t (resume s k t).
Proof.
  intros HL. destruct k; unfold invA; cbn; lia.
Qed.

Lemma invA_do_pass L s b why k t :
  L <= passAt s -> passAt s <= t -> (why = Timeout -> passAt s + timeout c <= t) ->
  invA L t (do_pass s b why k t).
Proof.
  intros HL Hp Hw. destruct b as [|y ys]; cbn [do_pass].
  - apply invA_resume. lia.
  - unfold invA; cbn. split; [lia|]. destruct why; try lia. split; [lia|]. now apply Hw.
Qed.

Lemma invA_process L s t xs :
  L <= passAt s -> passAt s <= t -> invA L t (process c s t xs).
Proof.
  intros HL Hp. unfold process.
  assert (Hplain : forall b, invA L t {| buf := b; passAt := passAt s; pc := Loop; unrel := unrel s; stopped := stopped s |}).
  { intros b. unfold invA; cbn. lia. }
  destruct (is_unite c).
  - destruct (jsize c <=? length xs)%nat; [apply invA_do_pass; try lia; discriminate|].
    destruct (jsize c <? length xs + length (buf s))%nat; [apply invA_do_pass; try lia; discriminate|].
    destruct (jsize c <=? length (buf s ++ xs))%nat; [apply invA_do_pass; try lia; discriminate|].
    apply Hplain.
  - destruct (jsize c <=? length (buf s ++ xs))%nat; [apply invA_do_pass; try lia; discriminate|].
    apply Hplain.
Qed.

Definition okA (L : Z) (o : list emission) : Prop :=
  forall pre t b own post, o = pre ++ (t, b, own, Timeout) :: post ->
    L + timeout c <= t /\
    forall t' b' own' why', List.In (t', b', own', why') pre -> t' + timeout c <= t.

Lemma runA : forall evs L now s s' o,
  no_stop evs -> invA L now s -> jrun c s now evs = Some (s', o) -> okA L o.
Proof.
  induction evs as [|e r IH]; intros L now s s' o Hns Hinv Hrun.
  - cbn in Hrun. inversion Hrun; subst. intros pre t b own post Heq. destruct pre; discriminate.
  - apply no_stop_cons in Hns. destruct Hns as [Hne Hns].
    cbn [jrun] in Hrun.
    destruct (now <=? ev_time e) eqn:Enow; [|discriminate]. apply Z.leb_le in Enow.
    destruct (jstep c s e) as [[s1 o1]|] eqn:Est; [|discriminate].
    destruct (jrun c s1 (ev_time e) r) as [[s2 o2]|] eqn:Er; [|discriminate].
    inversion Hrun; subst s' o. clear Hrun.
    destruct Hinv as [Hp Hpc].
    (* the silent steps: invariant preserved with the same L *)
    assert (Hsilent : o1 = [] -> invA L (ev_time e) s1 -> okA L ([] ++ o2)).
    { intros _ Hi. cbn. eapply IH; eauto. }
    unfold jstep in Est.
    destruct (pc s) as [|b own why k|k|] eqn:Epc; destruct e as [t xs|t|t|t|t|t|t|t];
      try discriminate; try contradiction; cbn [ev_time] in *.
    + (* Loop, In *)
      destruct (unrel s).
      * inversion Est; subst. apply Hsilent; [reflexivity|]. unfold invA. rewrite Epc. lia.
      * inversion Est; subst. apply Hsilent; [reflexivity|]. apply invA_process; lia.
    + (* Loop, Tick *)
      destruct (interval c <=? 0); [discriminate|].
      destruct (unrel s).
      * inversion Est; subst. apply Hsilent; [reflexivity|]. unfold invA. rewrite Epc. lia.
      * destruct (timeout c <=? t - passAt s) eqn:ET.
        -- apply Z.leb_le in ET. inversion Est; subst. apply Hsilent; [reflexivity|].
           apply invA_do_pass; lia.
        -- inversion Est; subst. apply Hsilent; [reflexivity|]. unfold invA. rewrite Epc. lia.
    + (* Loop, CloseIn *)
      destruct (unrel s).
      * inversion Est; subst. apply Hsilent; [reflexivity|]. unfold invA; cbn. lia.
      * inversion Est; subst. apply Hsilent; [reflexivity|]. apply invA_do_pass; try lia; discriminate.
    + (* Sending, Out *)
      assert (HL : L <= passAt s) by (destruct why; lia).
      assert (Hnext : invA t t s1 /\ o1 = [(t, b, own, why)]).
      { destruct (nocopy c); inversion Est; subst.
        - split; [|reflexivity]. unfold invA; cbn. lia.
        - split; [|reflexivity]. apply invA_resume. lia. }
      destruct Hnext as [Hi1 ->].
      pose proof (IH t t s1 s2 o2 Hns Hi1 Er) as Hok2.
      intros pre t1 b1 own1 post Heq.
      destruct pre as [|p pre'].
      * cbn in Heq. inversion Heq; subst. split; [lia|]. intros ? ? ? ? [].
      * cbn in Heq. inversion Heq; subst p.
        destruct (Hok2 pre' t1 b1 own1 post H1) as [H2 H3].
        split; [lia|].
        intros t' b' own' why' [Hin|Hin].
        -- inversion Hin; subst. exact H2.
        -- eapply H3; eauto.
    + (* AwaitRel, Rel *)
      inversion Est; subst. apply Hsilent; [reflexivity|]. apply invA_resume. lia.
Qed.

End ShortNotEarly.

Theorem short_not_early : forall c t0 evs s o, wf_cfg c -> 0 < timeout c -> no_stop evs ->
  jrun c (jinit t0) t0 evs = Some (s, o) ->
  forall pre t b own post, o = pre ++ (t, b, own, Timeout) :: post ->
    t0 + timeout c <= t /\
    forall t' b' own' why', List.In (t', b', own', why') pre -> t' + timeout c <= t.
Proof.
  intros c t0 evs s o _ _ Hns Hrun.
  apply (runA c evs t0 t0 (jinit t0) s o Hns); [|exact Hrun].
  unfold invA; cbn. lia.
Qed.
Print Assumptions short_not_early.

(* ------------------------------------------------------------------------------------------------ *)
(* interval arithmetic                                                                               *)
(* ------------------------------------------------------------------------------------------------ *)
Theorem interval_bound : forall tmo inacc i, calc_interval false tmo inacc = inl i -> 0 < tmo -> 1 <= inacc <= 100 ->
  0 < i /\ i * (100 / inacc) <= tmo /\ 1 <= 100 / inacc.
Proof.
  intros tmo inacc i H Ht Hi. unfold calc_interval in H.
  destruct (tmo <=? 0) eqn:E0; [apply Z.leb_le in E0; lia|].
  destruct (inacc =? 0) eqn:E1; [discriminate|].
  assert (Hd : 1 <= 100 / inacc) by (apply Z.div_le_lower_bound; lia).
  destruct (100 / inacc =? 0) eqn:E2; [discriminate|].
  destruct (tmo / (100 / inacc) =? 0) eqn:E3; [discriminate|].
  inversion H; subst i. apply Z.eqb_neq in E3.
  pose proof (Z.div_pos tmo (100 / inacc) ltac:(lia) ltac:(lia)) as Hnn.
  pose proof (Z.mul_div_le tmo (100 / inacc) ltac:(lia)) as Hm.
  repeat split; lia.
Qed.
Print Assumptions interval_bound.

(* hence Timeout + interval <= Timeout * (1 + 1/floor(100/inacc)), stated without division of the sum: *)
Corollary interval_bound_sum : forall tmo inacc i, calc_interval false tmo inacc = inl i -> 0 < tmo -> 1 <= inacc <= 100 ->
  (tmo + i) * (100 / inacc) <= tmo * (100 / inacc + 1).
Proof.
  intros tmo inacc i H Ht Hi. destruct (interval_bound tmo inacc i H Ht Hi) as [H1 [H2 H3]]. nia.
Qed.

(* the v1 variant: the same, and the interval is at least 10ms *)
Lemma interval_bound_v1 : forall tmo inacc i, calc_interval true tmo inacc = inl i -> 0 < tmo -> 1 <= inacc <= 100 ->
  reliably_measurable <= i /\ i * (100 / inacc) <= tmo /\ 1 <= 100 / inacc.
Proof.
  intros tmo inacc i H Ht Hi. unfold calc_interval in H.
  destruct (tmo <=? 0) eqn:E0; [apply Z.leb_le in E0; lia|].
  destruct (inacc =? 0) eqn:E1; [discriminate|].
  assert (Hd : 1 <= 100 / inacc) by (apply Z.div_le_lower_bound; lia).
  destruct (100 / inacc =? 0) eqn:E2; [discriminate|].
  destruct (tmo / (100 / inacc) <? reliably_measurable) eqn:E3; [discriminate|].
  inversion H; subst i. apply Z.ltb_ge in E3.
  pose proof (Z.mul_div_le tmo (100 / inacc) ltac:(lia)) as Hm.
  repeat split; lia.
Qed.

Lemma div100_zero_iff inacc : 100 / inacc = 0 /\ inacc <> 0 <-> 100 < inacc.
Proof.
  split.
  - intros [H Hn]. destruct (Z_lt_le_dec 0 inacc) as [Hpos|Hneg].
    + apply Z.div_small_iff in H; lia.
    + exfalso. assert (Hlt : inacc < 0) by lia.
      pose proof (Z.div_mod 100 inacc ltac:(lia)) as Hd.
      pose proof (Z.mod_neg_bound 100 inacc Hlt) as Hm.
      rewrite H in Hd. lia.
  - intros H. split; [|lia]. apply Z.div_small. lia.
Qed.

(* code 1 iff inaccuracy = 0 *)
Lemma calc_interval_error1 : forall v1 tmo inacc, 0 < tmo ->
  (calc_interval v1 tmo inacc = inr 1 <-> inacc = 0).
Proof.
  intros v1 tmo inacc Ht. unfold calc_interval.
  destruct (tmo <=? 0) eqn:E0; [apply Z.leb_le in E0; lia|].
  destruct (inacc =? 0) eqn:E1.
  - apply Z.eqb_eq in E1. tauto.
  - apply Z.eqb_neq in E1. split; [|tauto]. intros H. exfalso.
    destruct (100 / inacc =? 0); [discriminate|].
    destruct v1.
    + destruct (tmo / (100 / inacc) <? reliably_measurable); discriminate.
    + destruct (tmo / (100 / inacc) =? 0); discriminate.
Qed.

(* code 2 iff inaccuracy > 100 *)
Lemma calc_interval_error2 : forall v1 tmo inacc, 0 < tmo ->
  (calc_interval v1 tmo inacc = inr 2 <-> 100 < inacc).
Proof.
  intros v1 tmo inacc Ht. unfold calc_interval.
  destruct (tmo <=? 0) eqn:E0; [apply Z.leb_le in E0; lia|].
  rewrite <- div100_zero_iff.
  destruct (inacc =? 0) eqn:E1.
  - apply Z.eqb_eq in E1. split; [discriminate|]. intros [_ H]. contradiction.
  - apply Z.eqb_neq in E1.
    destruct (100 / inacc =? 0) eqn:E2.
    + apply Z.eqb_eq in E2. tauto.
    + apply Z.eqb_neq in E2. split; [|tauto]. intros H. exfalso.
      destruct v1.
      * destruct (tmo / (100 / inacc) <? reliably_measurable); discriminate.
      * destruct (tmo / (100 / inacc) =? 0); discriminate.
Qed.

(* code 3 iff the interval is 0 (v2) / below 10ms (v1), for an inaccuracy in range *)
Lemma calc_interval_error3_v2 : forall tmo inacc, 0 < tmo -> 1 <= inacc <= 100 ->
  (calc_interval false tmo inacc = inr 3 <-> tmo / (100 / inacc) = 0).
Proof.
  intros tmo inacc Ht Hi. unfold calc_interval.
  destruct (tmo <=? 0) eqn:E0; [apply Z.leb_le in E0; lia|].
  destruct (inacc =? 0) eqn:E1; [apply Z.eqb_eq in E1; lia|].
  assert (Hd : 1 <= 100 / inacc) by (apply Z.div_le_lower_bound; lia).
  destruct (100 / inacc =? 0) eqn:E2; [apply Z.eqb_eq in E2; lia|].
  destruct (tmo / (100 / inacc) =? 0) eqn:E3.
  - apply Z.eqb_eq in E3. tauto.
  - apply Z.eqb_neq in E3. split; [discriminate|tauto].
Qed.

Lemma calc_interval_error3_v1 : forall tmo inacc, 0 < tmo -> 1 <= inacc <= 100 ->
  (calc_interval true tmo inacc = inr 3 <-> tmo / (100 / inacc) < reliably_measurable).
Proof.
  intros tmo inacc Ht Hi. unfold calc_interval.
  destruct (tmo <=? 0) eqn:E0; [apply Z.leb_le in E0; lia|].
  destruct (inacc =? 0) eqn:E1; [apply Z.eqb_eq in E1; lia|].
  assert (Hd : 1 <= 100 / inacc) by (apply Z.div_le_lower_bound; lia).
  destruct (100 / inacc =? 0) eqn:E2; [apply Z.eqb_eq in E2; lia|].
  destruct (tmo / (100 / inacc) <? reliably_measurable) eqn:E3.
  - apply Z.ltb_lt in E3. tauto.
  - apply Z.ltb_ge in E3. split; [discriminate|lia].
Qed.

(* v2: the interval is 0 exactly when the timeout is smaller than the divider *)
Lemma calc_interval_error3_v2' : forall tmo inacc, 0 < tmo -> 1 <= inacc <= 100 ->
  (calc_interval false tmo inacc = inr 3 <-> tmo < 100 / inacc).
Proof.
  intros tmo inacc Ht Hi. rewrite calc_interval_error3_v2 by assumption.
  assert (Hd : 1 <= 100 / inacc) by (apply Z.div_le_lower_bound; lia).
  rewrite Z.div_small_iff by lia. lia.
Qed.

(* a non-positive timeout: no ticker, never an error *)
Lemma calc_interval_no_timeout : forall v1 tmo inacc, tmo <= 0 -> calc_interval v1 tmo inacc = inl 0.
Proof.
  intros v1 tmo inacc Ht. unfold calc_interval.
  destruct (tmo <=? 0) eqn:E0; [reflexivity|apply Z.leb_gt in E0; lia].
Qed.

(* ------------------------------------------------------------------------------------------------ *)
(* B. C10: residence bound                                                                           *)
(* ------------------------------------------------------------------------------------------------ *)
Definition is_outrel (e : jev) : Prop := match e with Out _ | Rel _ => True | _ => False end.

(* prompt consumer / releaser: an Out or Rel event happens at the same time as the event before it *)
Definition prompt (evs : list jev) : Prop :=
  forall pre e1 e2 post, evs = pre ++ e1 :: e2 :: post -> is_outrel e2 -> ev_time e2 = ev_time e1.

Definition grid (c : jcfg) (t0 g : Z) : Prop := exists k, 1 <= k /\ g = t0 + k * interval c.

(* ideal ticker: before an event later than a grid time is processed, the tick of that grid time was processed *)
Definition ideal (c : jcfg) (t0 : Z) (evs : list jev) : Prop :=
  forall pre e post g, evs = pre ++ e :: post -> grid c t0 g -> g < ev_time e -> List.In (Tick g) pre.

Fixpoint prompt_from (now : Z) (evs : list jev) : Prop :=
  match evs with
  | [] => True
  | e :: r => (is_outrel e -> ev_time e = now) /\ prompt_from (ev_time e) r
  end.

Lemma prompt_tail e r : prompt (e :: r) -> prompt r.
Proof.
  intros H pre e1 e2 post Heq Ho. apply (H (e :: pre) e1 e2 post); [|exact Ho]. rewrite Heq. reflexivity.
Qed.

Lemma prompt_prompt_from : forall r e, prompt (e :: r) -> prompt_from (ev_time e) r.
Proof.
  induction r as [|e2 r IH]; intros e H; cbn [prompt_from]; [exact I|].
  split.
  - intros Ho. apply (H [] e e2 r eq_refl Ho).
  - apply IH. eapply prompt_tail; eauto.
Qed.

Section Residence.
Variable c : jcfg.
Variable t0 : Z.
Hypothesis HI : 0 < interval c.
Hypothesis HIT : interval c <= timeout c.

Let T := timeout c.
Let I := interval c.

Lemma grid_exists b : t0 + I <= b -> exists g, grid c t0 g /\ b <= g < b + I.
Proof.
  intros Hb. unfold I in *. exists (t0 + ((b - t0 + interval c - 1) / interval c) * interval c).
  pose proof (Z.div_mod (b - t0 + interval c - 1) (interval c) ltac:(lia)) as Hd.
  pose proof (Z.mod_pos_bound (b - t0 + interval c - 1) (interval c) HI) as Hm.
  split.
  - exists ((b - t0 + interval c - 1) / interval c). split; [|reflexivity]. apply Z.div_le_lower_bound; lia.
  - nia.
Qed.

Definition kont_ok (now : Z) (k : kont) : Prop :=
  match k with
  | KForward xs | KAppend xs => forall x a, List.In (x, a) xs -> a = now
  | _ => True
  end.

(* invariant over a processed prefix [pre] ending at time [now] *)
Record Inv (pre : list jev) (now : Z) (s : jst) : Prop := {
  inv_unrel : unrel s = false;
  inv_t0 : t0 <= now;
  inv_times : forall e, List.In e pre -> ev_time e <= now;
  inv_pc : match pc s with
           | Loop => (forall x a, List.In (x, a) (buf s) -> passAt s <= a <= now) /\
                     t0 <= passAt s <= now /\
                     (forall g, grid c t0 g -> passAt s + T <= g -> ~ List.In (Tick g) pre)
           | Sending b _ _ k => (forall x a, List.In (x, a) b -> now - a <= T + I) /\ kont_ok now k
           | AwaitRel k => kont_ok now k
           | Closed => True
           end }.

Definition bound_ok (o : list emission) : Prop :=
  forall te b own why x a, List.In (te, b, own, why) o -> List.In (x, a) b -> te - a <= T + I.

Lemma bound_ok_nil : bound_ok [].
Proof. intros ? ? ? ? ? ? []. Qed.

Lemma Inv_resume pre t s k :
  unrel s = false -> t0 <= t -> (forall e, List.In e pre -> ev_time e <= t) -> kont_ok t k ->
  Inv pre t (resume s k t).
Proof.
  intros Hu Ht Htimes Hk. unfold T, I in *.
  destruct k as [|xs|xs|]; constructor; cbn; auto.
  - split; [intros ? ? []|]. split; [lia|]. intros g Hg Hge Hin. specialize (Htimes _ Hin). cbn in Htimes. lia.
  - split; [|exact Logic.I]. intros x a Hin. rewrite (Hk x a Hin). lia.
  - split; [|split; [lia|]].
    + intros x a Hin. rewrite (Hk x a Hin). lia.
    + intros g Hg Hge Hin. specialize (Htimes _ Hin). cbn in Htimes. lia.
Qed.

Lemma Inv_do_pass pre t s b why k :
  unrel s = false -> t0 <= t -> (forall e, List.In e pre -> ev_time e <= t) -> kont_ok t k ->
  (forall x a, List.In (x, a) b -> t - a <= T + I) ->
  Inv pre t (do_pass s b why k t).
Proof.
  intros Hu Ht Htimes Hk Hb.
  destruct b as [|y ys]; cbn [do_pass].
  - now apply Inv_resume.
  - constructor; cbn; auto.
Qed.

Definition not_stop (e : jev) : Prop := match e with StopCall _ | TakeStop _ | Abort _ => False | _ => True end.

Lemma step_ok pre now s e s' o :
  Inv pre now s -> now <= ev_time e ->
  not_stop e ->
  (forall t xs x a, e = In t xs -> List.In (x, a) xs -> a = t) ->
  (is_outrel e -> ev_time e = now) ->
  (forall g, grid c t0 g -> g < ev_time e -> List.In (Tick g) pre) ->
  jstep c s e = Some (s', o) ->
  Inv (pre ++ [e]) (ev_time e) s' /\ bound_ok o.
Proof.
  intros [Hu Ht0 Htimes Hpc] Hnow Hns Hst Hpr Hideal Hstep.
  assert (Htimes' : forall e', List.In e' (pre ++ [e]) -> ev_time e' <= ev_time e).
  { intros e' Hin. apply in_app_or in Hin. destruct Hin as [Hin|[<-|[]]]; [|lia]. specialize (Htimes _ Hin). lia. }
  assert (Ht0' : t0 <= ev_time e) by lia.
  unfold jstep in Hstep.
  destruct (pc s) as [|b own why k|k|] eqn:Epc.
  - (* Loop *)
    destruct Hpc as [Hacc [Hpass Hgrid]].
    assert (Hkey : forall x a, List.In (x, a) (buf s) -> ev_time e - a <= T + I).
    { intros x a Hin. destruct (Hacc x a Hin) as [Hpa _].
      destruct (grid_exists (passAt s + T)) as [g [Hg Hgb]]; [unfold T, I; lia|].
      destruct (Z_lt_le_dec g (ev_time e)) as [Hlt|Hle]; [|lia].
      exfalso. apply (Hgrid g Hg); [lia|]. now apply Hideal. }
    assert (Hplain : forall b, (forall x a, List.In (x, a) b -> passAt s <= a <= ev_time e) ->
               (forall g, grid c t0 g -> passAt s + T <= g -> e <> Tick g) ->
               Inv (pre ++ [e]) (ev_time e)
                 {| buf := b; passAt := passAt s; pc := Loop; unrel := unrel s; stopped := stopped s |}).
    { intros b Hb Hne. constructor; cbn; auto. split; [exact Hb|]. split; [lia|].
      intros g Hg Hge Hin. apply in_app_or in Hin. destruct Hin as [Hin|[Heq|[]]].
      - eapply Hgrid; eauto.
      - eapply Hne; eauto. }
    destruct e as [t xs|t|t|t|t|t|t|t]; try discriminate; try contradiction; cbn [ev_time] in *.
    + (* In *)
      rewrite Hu in Hstep. inversion Hstep; subst s' o. clear Hstep. split; [|apply bound_ok_nil].
      assert (Hxs : forall x a, List.In (x, a) xs -> a = t) by (intros x a; apply (Hst t xs x a eq_refl)).
      assert (Hfull : forall x a, List.In (x, a) (buf s ++ xs) -> t - a <= T + I).
      { intros x a Hin. apply in_app_or in Hin. destruct Hin as [Hin|Hin]; [eapply Hkey; eauto|].
        rewrite (Hxs x a Hin). unfold T, I. lia. }
      assert (Hnf : Inv (pre ++ [In t xs]) t
                {| buf := buf s ++ xs; passAt := passAt s; pc := Loop; unrel := unrel s; stopped := stopped s |}).
      { apply (Hplain (buf s ++ xs)).
        - intros x a Hin. apply in_app_or in Hin. destruct Hin as [Hin|Hin].
          + specialize (Hacc _ _ Hin). lia.
          + rewrite (Hxs x a Hin). lia.
        - intros; discriminate. }
      unfold process. destruct (is_unite c).
      * destruct (jsize c <=? length xs)%nat; [apply Inv_do_pass; auto|].
        destruct (jsize c <? length xs + length (buf s))%nat; [apply Inv_do_pass; auto|].
        destruct (jsize c <=? length (buf s ++ xs))%nat; [apply Inv_do_pass; cbn; auto|].
        exact Hnf.
      * destruct (jsize c <=? length (buf s ++ xs))%nat; [apply Inv_do_pass; cbn; auto|].
        exact Hnf.
    + (* Tick *)
      destruct (interval c <=? 0); [discriminate|]. rewrite Hu in Hstep.
      destruct (timeout c <=? t - passAt s) eqn:ET.
      * inversion Hstep; subst s' o. split; [|apply bound_ok_nil]. apply Inv_do_pass; cbn; auto.
      * apply Z.leb_gt in ET. inversion Hstep; subst s' o. split; [|apply bound_ok_nil].
        destruct s as [sb sp spc su sst]; cbn in *. subst spc.
        apply (Hplain sb).
        -- intros x a Hin. specialize (Hacc _ _ Hin). lia.
        -- intros g Hg Hge Heq. inversion Heq; subst. unfold T in Hge. lia.
    + (* CloseIn *)
      rewrite Hu in Hstep. inversion Hstep; subst s' o. split; [|apply bound_ok_nil].
      apply Inv_do_pass; cbn; auto.
  - (* Sending *)
    destruct Hpc as [Hb Hk].
    destruct e as [t xs|t|t|t|t|t|t|t]; try discriminate; try contradiction; cbn [ev_time] in *.
    assert (Heq : t = now) by (apply Hpr; exact Logic.I). subst t.
    assert (Hbo : bound_ok [(now, b, own, why)]).
    { intros te b1 own1 why1 x a [Hin|[]] Hx. inversion Hin; subst. eapply Hb; eauto. }
    destruct (nocopy c); inversion Hstep; subst s' o; (split; [|exact Hbo]).
    + constructor; cbn; auto.
    + apply Inv_resume; auto.
  - (* AwaitRel *)
    destruct e as [t xs|t|t|t|t|t|t|t]; try discriminate; try contradiction; cbn [ev_time] in *.
    assert (Heq : t = now) by (apply Hpr; exact Logic.I). subst t.
    inversion Hstep; subst s' o. split; [|apply bound_ok_nil].
    apply Inv_resume; auto.
  - (* Closed *)
    destruct e as [t xs|t|t|t|t|t|t|t]; try discriminate; try contradiction.
Qed.

Lemma run_ok : forall evs pre now s s' o,
  Inv pre now s -> ideal c t0 (pre ++ evs) -> no_stop evs -> stamped evs -> prompt_from now evs ->
  jrun c s now evs = Some (s', o) -> bound_ok o.
Proof.
  induction evs as [|e r IH]; intros pre now s s' o Hinv Hid Hns Hst Hpr Hrun.
  - cbn in Hrun. inversion Hrun; subst. apply bound_ok_nil.
  - apply no_stop_cons in Hns. destruct Hns as [Hne Hns].
    apply stamped_cons in Hst. destruct Hst as [Hste Hst].
    cbn [prompt_from] in Hpr. destruct Hpr as [Hpre Hpr].
    cbn [jrun] in Hrun.
    destruct (now <=? ev_time e) eqn:Enow; [|discriminate]. apply Z.leb_le in Enow.
    destruct (jstep c s e) as [[s1 o1]|] eqn:Est; [|discriminate].
    destruct (jrun c s1 (ev_time e) r) as [[s2 o2]|] eqn:Er; [|discriminate].
    inversion Hrun; subst s' o. clear Hrun.
    assert (Hg : forall g, grid c t0 g -> g < ev_time e -> List.In (Tick g) pre).
    { intros g Hg Hlt. eapply (Hid pre e r g); eauto. }
    destruct (step_ok pre now s e s1 o1 Hinv Enow Hne Hste Hpre Hg Est) as [Hinv1 Hb1].
    assert (Hb2 : bound_ok o2).
    { apply (IH (pre ++ [e]) (ev_time e) s1 s2 o2); auto.
      rewrite <- app_assoc. exact Hid. }
    intros te b own why x a Hin Hx. apply in_app_or in Hin.
    destruct Hin; [eapply Hb1|eapply Hb2]; eauto.
Qed.

End Residence.

Theorem residence_bound : forall c t0 evs s o, wf_cfg c -> 0 < interval c -> interval c <= timeout c ->
  no_stop evs -> stamped evs -> prompt evs -> ideal c t0 evs ->
  jrun c (jinit t0) t0 evs = Some (s, o) ->
  forall t b own why x a, List.In (t, b, own, why) o -> List.In (x, a) b -> t - a <= timeout c + interval c.
Proof.
  intros c t0 evs s o _ HI HIT Hns Hst Hpr Hid Hrun.
  apply (run_ok c t0 HI HIT evs [] t0 (jinit t0) s o); auto.
  - constructor; cbn; try lia; try contradiction.
    split; [intros ? ? []|]. split; [lia|]. intros g _ _ [].
  - destruct evs as [|e r]; [exact Logic.I|].
    cbn [prompt_from]. split; [|now apply prompt_prompt_from].
    intros Ho. exfalso. cbn [jrun] in Hrun.
    destruct (t0 <=? ev_time e); [|discriminate].
    destruct e; try contradiction; cbn in Hrun; discriminate.
Qed.
Print Assumptions residence_bound.

(* ------------------------------------------------------------------------------------------------ *)
(* C. Non-vacuity: boolean checkers for the hypotheses (sound), and concrete traces                  *)
(* ------------------------------------------------------------------------------------------------ *)
Definition not_stop_b (e : jev) : bool := match e with StopCall _ | TakeStop _ | Abort _ => false | _ => true end.
Definition no_stop_b (evs : list jev) : bool := forallb not_stop_b evs.

Lemma no_stop_b_sound evs : no_stop_b evs = true -> no_stop evs.
Proof.
  intros H e Hin. unfold no_stop_b in H. rewrite forallb_forall in H. specialize (H e Hin).
  destruct e; cbn in H; try discriminate; exact Logic.I.
Qed.

Definition stamped_ev_b (e : jev) : bool :=
  match e with In t xs => forallb (fun xa : elem => snd xa =? t) xs | _ => true end.
Definition stamped_b (evs : list jev) : bool := forallb stamped_ev_b evs.

Lemma stamped_b_sound evs : stamped_b evs = true -> stamped evs.
Proof.
  intros H t xs x a Hin Hx. unfold stamped_b in H. rewrite forallb_forall in H. specialize (H _ Hin).
  cbn in H. rewrite forallb_forall in H. specialize (H _ Hx). cbn in H. now apply Z.eqb_eq in H.
Qed.

Definition is_outrel_b (e : jev) : bool := match e with Out _ | Rel _ => true | _ => false end.
Fixpoint prompt_b (evs : list jev) : bool :=
  match evs with
  | e1 :: r => match r with
               | e2 :: _ => (if is_outrel_b e2 then ev_time e2 =? ev_time e1 else true) && prompt_b r
               | [] => true
               end
  | [] => true
  end.

Lemma prompt_b_sound : forall evs, prompt_b evs = true -> prompt evs.
Proof.
  induction evs as [|e r IH]; intros H pre e1 e2 post Heq Ho.
  - destruct pre; discriminate.
  - destruct r as [|e' r'].
    + destruct pre as [|p [|p' pre']]; discriminate.
    + cbn [prompt_b] in H. apply andb_prop in H. destruct H as [H1 H2].
      destruct pre as [|p pre'].
      * cbn in Heq. inversion Heq; subst. destruct e2; try contradiction; cbn in H1; now apply Z.eqb_eq in H1.
      * cbn in Heq. inversion Heq; subst p. apply (IH H2 pre' e1 e2 post); auto.
Qed.

Definition is_tick_b (g : Z) (e : jev) : bool := match e with Tick t => t =? g | _ => false end.

Lemma is_tick_b_In g pre : existsb (is_tick_b g) pre = true -> List.In (Tick g) pre.
Proof.
  intros H. apply existsb_exists in H. destruct H as [e [Hin He]].
  destruct e; cbn in He; try discriminate. apply Z.eqb_eq in He. now subst.
Qed.

(* every grid time before [te] has its tick in [pre] *)
Definition ticks_ok_b (c : jcfg) (t0 : Z) (pre : list jev) (te : Z) : bool :=
  forallb (fun k => let g := t0 + Z.of_nat k * interval c in (te <=? g) || existsb (is_tick_b g) pre)
          (seq 1 (Z.to_nat ((te - t0) / interval c))).

Fixpoint ideal_go (c : jcfg) (t0 : Z) (pre evs : list jev) : bool :=
  match evs with
  | [] => true
  | e :: r => ticks_ok_b c t0 pre (ev_time e) && ideal_go c t0 (pre ++ [e]) r
  end.
Definition ideal_b (c : jcfg) (t0 : Z) (evs : list jev) : bool := ideal_go c t0 [] evs.

Lemma ticks_ok_b_sound c t0 pre te : 0 < interval c -> ticks_ok_b c t0 pre te = true ->
  forall g, grid c t0 g -> g < te -> List.In (Tick g) pre.
Proof.
  intros HI H g [k [Hk Hg]] Hlt. unfold ticks_ok_b in H. rewrite forallb_forall in H.
  assert (Hkb : k <= (te - t0) / interval c) by (apply Z.div_le_lower_bound; nia).
  specialize (H (Z.to_nat k)).
  assert (Hin : List.In (Z.to_nat k) (seq 1 (Z.to_nat ((te - t0) / interval c)))).
  { apply in_seq. lia. }
  specialize (H Hin). cbn beta zeta in H. rewrite Z2Nat.id in H by lia. rewrite <- Hg in H.
  apply orb_prop in H. destruct H as [H|H]; [apply Z.leb_le in H; lia|].
  now apply is_tick_b_In.
Qed.

Lemma ideal_go_sound c t0 : 0 < interval c -> forall evs pre0, ideal_go c t0 pre0 evs = true ->
  forall pre e post g, evs = pre ++ e :: post -> grid c t0 g -> g < ev_time e -> List.In (Tick g) (pre0 ++ pre).
Proof.
  intros HI. induction evs as [|e0 r IH]; intros pre0 H pre e post g Heq Hg Hlt.
  - destruct pre; discriminate.
  - cbn [ideal_go] in H. apply andb_prop in H. destruct H as [H1 H2].
    destruct pre as [|p pre'].
    + cbn in Heq. inversion Heq; subst. rewrite app_nil_r. eapply ticks_ok_b_sound; eauto.
    + cbn in Heq. inversion Heq; subst p.
      pose proof (IH (pre0 ++ [e0]) H2 pre' e post g H3 Hg Hlt) as Hin.
      rewrite <- app_assoc in Hin. exact Hin.
Qed.

Lemma ideal_b_sound c t0 evs : 0 < interval c -> ideal_b c t0 evs = true -> ideal c t0 evs.
Proof.
  intros HI H pre e post g Heq Hg Hlt.
  apply (ideal_go_sound c t0 HI evs [] H pre e post g Heq Hg Hlt).
Qed.

(* all environment hypotheses of residence_bound at once *)
Definition env_ok_b (c : jcfg) (t0 : Z) (evs : list jev) : bool :=
  no_stop_b evs && stamped_b evs && prompt_b evs && ideal_b c t0 evs.

Lemma env_ok_b_sound c t0 evs : 0 < interval c -> env_ok_b c t0 evs = true ->
  no_stop evs /\ stamped evs /\ prompt evs /\ ideal c t0 evs.
Proof.
  intros HI H. unfold env_ok_b in H.
  apply andb_prop in H. destruct H as [H H4]. apply andb_prop in H. destruct H as [H H3].
  apply andb_prop in H. destruct H as [H1 H2].
  repeat split.
  - now apply no_stop_b_sound.
  - now apply stamped_b_sound.
  - now apply prompt_b_sound.
  - now apply ideal_b_sound.
Qed.

(* JoinSize 3, Timeout 100, interval 25 (inaccuracy 25 %), copy mode, created at 0 *)
Definition ex_cfg (v : variant) (nc : bool) : jcfg :=
  {| variant_of := v; jsize := 3; timeout := 100; interval := 25; nocopy := nc |}.

Example ex_interval : calc_interval false 100 25 = inl 25.
Proof. vm_compute. reflexivity. Qed.

(* 1. a single element at t=10: flushed by the tick at 100 (= passAt + Timeout), residence 90 *)
Definition ex1 : list jev :=
  [In 10 [(1, 10)]; Tick 25; Tick 50; Tick 75; Tick 100; Out 100; Tick 125].
Example ex1_env : env_ok_b (ex_cfg JoinV2 false) 0 ex1 = true.
Proof. vm_compute. reflexivity. Qed.
Example ex1_run : option_map snd (jrun (ex_cfg JoinV2 false) (jinit 0) 0 ex1) = Some [(100, [(1, 10)], true, Timeout)].
Proof. vm_compute. reflexivity. Qed.

(* 2. worst case: a full slice is written at 12 (passAt := 12, off the ticker grid), the next element arrives at 13;
      the tick at 100 does not fire (100 - 12 < 100), the tick at 125 does: residence 112 > Timeout, <= Timeout + interval *)
Definition ex2 : list jev :=
  [In 10 [(1, 10)]; In 11 [(2, 11)]; In 12 [(3, 12)]; Out 12; In 13 [(4, 13)];
   Tick 25; Tick 50; Tick 75; Tick 100; Tick 125; Out 125; Tick 150; CloseIn 160].
Example ex2_env : env_ok_b (ex_cfg JoinV2 false) 0 ex2 = true.
Proof. vm_compute. reflexivity. Qed.
Example ex2_run : option_map snd (jrun (ex_cfg JoinV2 false) (jinit 0) 0 ex2) =
  Some [(12, [(1, 10); (2, 11); (3, 12)], true, Full); (125, [(4, 13)], true, Timeout)].
Proof. vm_compute. reflexivity. Qed.

(* the theorems instantiated on ex2 (the hypotheses are satisfiable, the conclusions are not vacuous) *)
Example ex2_residence : forall t b own why x a,
  List.In (t, b, own, why) [(12, [(1, 10); (2, 11); (3, 12)], true, Full); (125, [(4, 13)], true, Timeout)] ->
  List.In (x, a) b -> t - a <= 125.
Proof.
  destruct (jrun (ex_cfg JoinV2 false) (jinit 0) 0 ex2) as [[s o]|] eqn:E; [|vm_compute in E; discriminate].
  assert (Ho : o = [(12, [(1, 10); (2, 11); (3, 12)], true, Full); (125, [(4, 13)], true, Timeout)]).
  { vm_compute in E. inversion E. reflexivity. }
  destruct (env_ok_b_sound (ex_cfg JoinV2 false) 0 ex2 ltac:(cbn; lia) ex2_env) as [H1 [H2 [H3 H4]]].
  pose proof (residence_bound (ex_cfg JoinV2 false) 0 ex2 s o ltac:(unfold wf_cfg; cbn; lia) ltac:(cbn; lia) ltac:(cbn; lia)
                H1 H2 H3 H4 E) as Hb.
  rewrite Ho in Hb. exact Hb.
Qed.

Example ex2_short : 0 + 100 <= 125 /\ 12 + 100 <= 125.
Proof.
  destruct (jrun (ex_cfg JoinV2 false) (jinit 0) 0 ex2) as [[s o]|] eqn:E; [|vm_compute in E; discriminate].
  assert (Ho : o = [(12, [(1, 10); (2, 11); (3, 12)], true, Full)] ++ (125, [(4, 13)], true, Timeout) :: []).
  { vm_compute in E. inversion E. reflexivity. }
  destruct (env_ok_b_sound (ex_cfg JoinV2 false) 0 ex2 ltac:(cbn; lia) ex2_env) as [H1 _].
  destruct (short_not_early (ex_cfg JoinV2 false) 0 ex2 s o ltac:(unfold wf_cfg; cbn; lia) ltac:(cbn; lia) H1 E _ _ _ _ _ Ho)
    as [Ha Hb].
  split; [exact Ha|]. apply (Hb 12 [(1, 10); (2, 11); (3, 12)] true Full). now left.
Qed.

(* 3. steady trickle: elements at 10 and 60, ticks in between: the first element is flushed at 100 <= 10 + 100 + 25 *)
Definition ex3 : list jev :=
  [In 10 [(1, 10)]; Tick 25; Tick 50; In 60 [(2, 60)]; Tick 75; Tick 100; Out 100; Tick 125; In 130 [(3, 130)]].
Example ex3_env : env_ok_b (ex_cfg JoinV2 false) 0 ex3 = true.
Proof. vm_compute. reflexivity. Qed.
Example ex3_run : option_map snd (jrun (ex_cfg JoinV2 false) (jinit 0) 0 ex3) =
  Some [(100, [(1, 10); (2, 60)], true, Timeout)].
Proof. vm_compute. reflexivity. Qed.
Example ex3_flushed_by : 100 <= 110 + 25.
Proof. lia. Qed.

(* 4. unite, no-copy mode, prompt releaser: an oversize slice forces the buffer out (Overflow) and is forwarded *)
Definition ex4 : list jev :=
  [In 10 [(1, 10); (2, 10)]; Tick 25; In 30 [(3, 30); (4, 30); (5, 30)]; Out 30; Rel 30; Out 30; Rel 30;
   Tick 50; In 60 [(6, 60)]; Tick 75; Tick 100; Tick 125; In 128 [(7, 128)]; Tick 150; Out 150; Rel 150; CloseIn 170].
Example ex4_env : env_ok_b (ex_cfg UniteV2 true) 0 ex4 = true.
Proof. vm_compute. reflexivity. Qed.
Example ex4_run : option_map snd (jrun (ex_cfg UniteV2 true) (jinit 0) 0 ex4) =
  Some [(30, [(1, 10); (2, 10)], true, Overflow); (30, [(3, 30); (4, 30); (5, 30)], false, Forwarded);
        (150, [(6, 60); (7, 128)], true, Timeout)].
Proof. vm_compute. reflexivity. Qed.

(* 5. the checkers reject a late consumer and a missed tick (and the bound then fails: residence 140 > 125) *)
Definition ex5_late : list jev := [In 10 [(1, 10)]; Tick 25; Tick 50; Tick 75; Tick 100; Out 150].
Example ex5_late_rejected : prompt_b ex5_late = false.
Proof. vm_compute. reflexivity. Qed.
Example ex5_late_run : option_map snd (jrun (ex_cfg JoinV2 false) (jinit 0) 0 ex5_late) = Some [(150, [(1, 10)], true, Timeout)].
Proof. vm_compute. reflexivity. Qed.
Definition ex5_missed : list jev := [In 10 [(1, 10)]; Tick 25; Tick 50; Tick 75; Tick 125].
Example ex5_missed_rejected : ideal_b (ex_cfg JoinV2 false) 0 ex5_missed = false.
Proof. vm_compute. reflexivity. Qed.
