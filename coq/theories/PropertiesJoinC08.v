(* Property theorems for C08 (ownership of delivered slices). *)
From Coq Require Import List ZArith Bool. From Cqos Require Import Join JoinC08. Import ListNotations. Open Scope Z_scope.
Theorem C08_nocopy_frozen :
  forall (c : jcfg) (s : jst) (e : jev) (s' : jst) (o : list emission) (k : kont),
         pc s = AwaitRel k ->
         jstep c s e = Some (s', o) ->
         o = [] /\
         match e with
         | Rel _ => True
         | StopCall _ => buf s' = buf s /\ pc s' = AwaitRel k
         | Abort _ => buf s' = buf s /\ unrel s' = true /\ (pc s' = Loop \/ pc s' = Closed)
         | _ => False
         end.
Proof. exact @nocopy_frozen. Qed.
Print Assumptions C08_nocopy_frozen.

Theorem C08_unreleased_frozen :
  forall (c : jcfg) (s : jst) (e : jev) (s' : jst) (o : list emission),
         unrel s = true ->
         pc s = Loop \/ pc s = Closed ->
         jstep c s e = Some (s', o) ->
         buf s' = buf s /\ o = [] /\ unrel s' = true /\ (pc s' = Loop \/ pc s' = Closed).
Proof. exact @unreleased_frozen. Qed.
Print Assumptions C08_unreleased_frozen.

Theorem C08_unreleased_forever :
  forall (c : jcfg) (t0 : Z) (pre : list jev) (s : jst) (o : list emission),
         jrun c (jinit t0) t0 pre = Some (s, o) ->
         unrel s = true ->
         forall (post : list jev) (now : Z) (s' : jst) (o' : list emission),
         jrun c s now post = Some (s', o') -> buf s' = buf s /\ o' = [].
Proof. exact @unreleased_forever. Qed.
Print Assumptions C08_unreleased_forever.

Theorem C08_copy_never_awaits :
  forall (c : jcfg) (s : jst) (e : jev) (s' : jst) (o : list emission),
         nocopy c = false ->
         (forall k : kont, pc s <> AwaitRel k) ->
         jstep c s e = Some (s', o) -> forall k : kont, pc s' <> AwaitRel k.
Proof. exact @copy_never_awaits. Qed.
Print Assumptions C08_copy_never_awaits.

