(* Property theorems: the constants of the models are the constants of the current Go sources (SrcConsts.v is generated from /repo on every run). *)
From Coq Require Import List ZArith Bool. From Cqos Require Import Join SrcConsts ConstsTieJoin. Import ListNotations.
Theorem C10_tie_interval :
  forall (v1 : bool) (timeout inaccuracy : Z),
         calc_interval v1 timeout inaccuracy = calc_interval_src v1 timeout inaccuracy.
Proof. exact @tie_join_interval. Qed.
Print Assumptions C10_tie_interval.

Theorem C10_tie_default_inaccuracy :
  normalize_inaccuracy 0 = v2_join_default_timeout_inaccuracy /\
         normalize_inaccuracy 0 = v1_join_default_timeout_inaccuracy.
Proof. exact @tie_join_default_inaccuracy. Qed.
Print Assumptions C10_tie_default_inaccuracy.

Theorem C10_tie_min_timeout :
  (exists i : Z, calc_interval false v2_join_min_timeout (normalize_inaccuracy 0) = inl i) /\
         calc_interval false (v2_join_min_timeout - 1) (normalize_inaccuracy 0) = inr 3 /\
         (exists i : Z, calc_interval true v1_join_default_min_timeout (normalize_inaccuracy 0) = inl i) /\
         calc_interval true (v1_join_default_min_timeout - 1) (normalize_inaccuracy 0) = inr 3.
Proof. exact @tie_join_min_timeout. Qed.
Print Assumptions C10_tie_min_timeout.

