(* Facts shared by the tie files of the small generated units (GenTieJoinV2 GenTieUnite GenTieJoinV1 GenTieLimit
   GenTieSimple1 GenTieSimple2).  Imports NO generated file: only GoSem and the hand-written models, so that a change of
   one Go package cannot break it. *)
From Coq Require Import List NArith ZArith Bool Lia.
From Cqos Require Import GoSem Sched Join RateConv Run.
Import ListNotations.

(* ------------------------------------------------------------------ arithmetic between N (Go uint) and Z (the model) *)

Lemma of_N_eqb0 n : (Z.of_N n =? 0)%Z = (n =? 0)%N.
Proof. destruct n; reflexivity. Qed.

Lemma div100_of_N n : (100 / Z.of_N n)%Z = Z.of_N (100 / n)%N.
Proof. now rewrite N2Z.inj_div. Qed.

Lemma div100_le n : (100 / n <= 100)%N.
Proof.
  destruct (N.eq_dec n 0) as [->|Hn]; [cbv; discriminate|].
  apply N.div_le_upper_bound; [assumption|]. nia.
Qed.

(* time.Duration(divider): the divider is at most 100 *)
Lemma i_of_u_div100 n : i_of_u (100 / n)%N = Z.of_N (100 / n)%N.
Proof. apply i_of_u_small. pose proof (div100_le n). unfold i_half. lia. Qed.

(* timeout / time.Duration(divider) for a positive int64 timeout and a positive divider: no wrap, and Go's truncated
   division is the model's floored division *)
Lemma i_div_timeout timeout d : (0 < timeout < i_half)%Z -> (d <> 0)%N -> i_div timeout (Z.of_N d) = (timeout / Z.of_N d)%Z.
Proof. intros Ht Hd. apply i_div_nonneg; lia. Qed.

(* the model only ever answers with an interval or one of the codes 1 2 3: on those, dec is the inverse of enc *)
Lemma calc_interval_codes v1 timeout inaccuracy :
  match calc_interval v1 timeout inaccuracy with inl _ => True | inr c => c = 1%Z \/ c = 2%Z \/ c = 3%Z end.
Proof.
  unfold calc_interval.
  destruct (timeout <=? 0)%Z; [exact I|].
  destruct (inaccuracy =? 0)%Z; [auto|].
  destruct (100 / inaccuracy =? 0)%Z; [auto|].
  destruct v1.
  - destruct (timeout / (100 / inaccuracy) <? reliably_measurable)%Z; [auto|exact I].
  - destruct (timeout / (100 / inaccuracy) =? 0)%Z; [auto|exact I].
Qed.

(* the model's calc_interval on an inaccuracy that comes from a uint, with the Go operations *)
Lemma calc_interval_of_N v1 timeout inaccuracy :
  (timeout < i_half)%Z ->
  calc_interval v1 timeout (Z.of_N inaccuracy) =
  if (timeout <=? 0)%Z then inl 0%Z
  else if (inaccuracy =? 0)%N then inr 1%Z
  else if (100 / inaccuracy =? 0)%N then inr 2%Z
  else let i := i_div timeout (i_of_u (100 / inaccuracy)%N) in
       if v1 then (if (i <? 10000000)%Z then inr 3%Z else inl i)
       else (if (i =? 0)%Z then inr 3%Z else inl i).
Proof.
  intros Ht. unfold calc_interval, reliably_measurable.
  destruct (Z.leb_spec timeout 0) as [Hle|Hpos]; [reflexivity|].
  rewrite of_N_eqb0. destruct (N.eqb_spec inaccuracy 0) as [Hz|Hnz]; [reflexivity|].
  rewrite div100_of_N, of_N_eqb0.
  destruct (N.eqb_spec (100 / inaccuracy) 0) as [Hd|Hd]; [reflexivity|].
  rewrite i_of_u_div100, i_div_timeout by (auto; lia). reflexivity.
Qed.

Lemma normalize_inaccuracy_of_N n : Z.of_N (Z.to_N (normalize_inaccuracy (Z.of_N n))) = normalize_inaccuracy (Z.of_N n).
Proof. unfold normalize_inaccuracy. destruct (Z.of_N n =? 0)%Z; [reflexivity|]. now rewrite N2Z.id. Qed.

Lemma is_nil_true {A} (o : option A) : is_nil o = true <-> o = None.
Proof. destruct o; cbn; split; congruence. Qed.
Lemma is_nil_false {A} (o : option A) : is_nil o = false <-> o <> None.
Proof. destruct o; cbn; split; congruence. Qed.

Lemma mlen_zero {T} (m : gmap T) : mlen m = 0%N <-> m = None \/ m = Some [].
Proof.
  destruct m as [[|x l]|]; cbn; split; intros H; auto; try discriminate; destruct H as [H|H]; discriminate.
Qed.

(* the model side of prepareItem / resetJoin, for comparison *)
Lemma model_emits_buffer c s b own why k t :
  pc s = Sending b own why k -> exists s', jstep c s (Out t) = Some (s', [(t, b, own, why)]).
Proof. intros H. unfold jstep. rewrite H. destruct (nocopy c); eauto. Qed.
Lemma model_resume_empties_buffer s t : buf (resume s KLoop t) = [] /\ buf (resume s KClose t) = [].
Proof. split; reflexivity. Qed.
Lemma model_unreleased_keeps_buffer c s k t :
  pc s = AwaitRel k -> is_v1 c = true -> stopped s = true ->
  exists s', jstep c s (Abort t) = Some (s', []) /\ buf s' = buf s /\ unrel s' = true.
Proof. intros H H1 H2. unfold jstep. rewrite H, H1, H2. cbn. destruct k; eauto. Qed.

(* ------------------------------------------------------------------ RateConv.is_valid (for GenTieLimit) *)

Lemma to_N_eqb_0 q : (0 <= q)%Z -> (Z.to_N q =? 0)%N = (q =? 0)%Z.
Proof.
  intros H. destruct (Z.eqb_spec q 0) as [->|Hq]; [reflexivity|].
  apply N.eqb_neq. lia.
Qed.
(* is_valid yields nothing but the three validation errors *)
Lemma is_valid_errors r e :
  is_valid r = Some e -> e = IntervalNegative \/ e = IntervalZero \/ e = QuantityZero.
Proof.
  unfold is_valid. destruct (ivl r <? 0)%Z; [intros [= <-]; auto|].
  destruct (ivl r =? 0)%Z; [intros [= <-]; auto|].
  destruct (qty r =? 0)%Z; [intros [= <-]; auto|discriminate].
Qed.

(* ------------------------------------------------------------------ int64 values used in the examples *)
Lemma i_range_ex1 : i_range 1000000000%Z.   Proof. unfold i_range, i_half. lia. Qed.
Lemma i_range_ex2 : i_range 3%Z.            Proof. unfold i_range, i_half. lia. Qed.
Lemma i_range_ex3 : i_range 39999999%Z.     Proof. unfold i_range, i_half. lia. Qed.
Lemma i_range_ex4 : i_range (-5)%Z.         Proof. unfold i_range, i_half. lia. Qed.
