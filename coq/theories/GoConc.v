(* GoConc: a small-step semantics for the goroutine bodies that tools/gotrans generates (part 2; hand-written, generic).

   A goroutine body is DATA: a table `fname -> list stmt` over one state type S per goroutine (receiver value, one record
   with the locals of all its -- non-recursive -- functions, the world counter of part 1).  The leaves are shallow
   (functions S -> S, S -> bool, ... that the generator writes with the part-1 machinery); the control flow and the channel
   operations are constructors.  The machine runs internal steps until the next operation that involves the environment
   (`run_to_request`) and continues when the environment has answered (`resume`).

   Simplifications (all of them):
     - no panics (as in GoSem.v); no goroutine creation inside the body;
     - `select`: the environment answers with the index of an alternative it considers ready (`AnsSel i v`, v = the
       received value for a receive) or with `AnsDefault`; the machine does not know what "ready" means;
     - `close`, `Ticker.Stop` and `time.Sleep` are requests too (the environment sees them), answered `AnsOk`;
     - `time.Now()` is the request RqNow, answered `AnsTime t` (t in nanoseconds; time.Time values are Z, `time.Since(x)` is
       a `Now` followed by the Duration subtraction of part 1);
     - a receive is answered `AnsRecv (Some v)` or `AnsRecv None` (closed channel: the continuation sees None);
     - `defer` takes a statement list (`defer close(c)` = `Defer [Close c]`, `defer f()` = `Defer [Call f]`); the operand
       of a deferred close is evaluated when it runs, not at the defer statement (the generator only accepts operands that
       are fields of the receiver which the goroutine never assigns);
     - the locals of a function are not reset at a call (Go allocates fresh zero values; the generator initialises every
       variable explicitly exactly where Go does);
     - `break` and `continue` refer to the nearest enclosing `While` (the generator rejects a `break` that Go would apply
       to a `select`).
   An answer that does not fit the pending operation leaves the configuration unchanged. *)
From Coq Require Import List ZArith Bool Lia PeanoNat.
Import ListNotations.

Section Lang.
Variables (S V C F : Type).   (* state, channel payloads, channel identifiers, function names *)

Inductive comm : Type :=
| CRecv (ch : S -> C) (k : S -> option V -> S)
| CSend (ch : S -> C) (v : S -> V).

Inductive stmt : Type :=
| Atom (f : S -> S)                                   (* sequential statement(s) *)
| If (c : S -> bool) (t e : list stmt)
| While (c : S -> bool) (body : list stmt)            (* `for cond {}`; `for {}` = While (fun _ => true) *)
| Recv (ch : S -> C) (k : S -> option V -> S)         (* `v, ok := <-ch`; None = closed *)
| Send (ch : S -> C) (v : S -> V)
| Select (alts : list (comm * list stmt)) (dflt : option (list stmt))
| Sleep (d : S -> Z)
| Now (k : S -> Z -> S)                               (* `t := time.Now()`: the clock, in nanoseconds *)
| NewTicker (d : S -> Z)                              (* `time.NewTicker(d)` (one ticker per goroutine: channel CTick) *)
| Close (ch : S -> C)
| TickerStop
| Call (fn : F)                                       (* parameters and results travel in fields of S *)
| Defer (body : list stmt)
| Return | Break | Continue.

Inductive frame : Type :=
| KSeq (l : list stmt)                                (* the rest of a block *)
| KLoop (c : S -> bool) (body : list stmt)            (* a loop whose condition is tested when this frame is reached *)
| KCall (defers : list (list stmt)).                  (* an activation: what is left to run when it returns, LIFO *)

Definition config : Type := S * list frame.

Inductive request : Type :=
| RqRecv (c : C) | RqSend (c : C) (v : V)
| RqSelect (alts : list (C * option V)) (has_default : bool)      (* (c, None) = receive from c, (c, Some v) = send v *)
| RqSleep (d : Z) | RqClose (c : C) | RqTickerStop
| RqNow                                                            (* the current time is asked for *)
| RqNewTicker (d : Z)
| RqDone.                                                          (* the goroutine has ended *)

Inductive answer : Type :=
| AnsRecv (v : option V) | AnsOk | AnsSel (i : nat) (v : option V) | AnsDefault | AnsTime (t : Z).

(* break (keep = false) / continue (keep = true): up to the nearest loop *)
Fixpoint unwind_loop (k : list frame) (keep : bool) : list frame :=
  match k with
  | [] => []
  | KLoop c b :: r => if keep then KLoop c b :: r else r
  | KCall d :: r => KCall d :: r
  | KSeq _ :: r => unwind_loop r keep
  end.
(* return: up to the activation (whose deferred statements run next) *)
Fixpoint unwind_call (k : list frame) : list frame :=
  match k with
  | [] => []
  | KCall d :: r => KCall d :: r
  | _ :: r => unwind_call r
  end.
Fixpoint add_defer (d : list stmt) (k : list frame) : list frame :=
  match k with
  | [] => []
  | KCall ds :: r => KCall (d :: ds) :: r
  | f :: r => f :: add_defer d r
  end.

Definition comm_request (s : S) (a : comm * list stmt) : C * option V :=
  match fst a with CRecv ch _ => (ch s, None) | CSend ch v => (ch s, Some (v s)) end.

Inductive outcome : Type := Step (c : config) | Block (rq : request).

Variable table : F -> list stmt.

Definition step1 (cf : config) : outcome :=
  let '(s, k) := cf in
  match k with
  | [] => Block RqDone
  | KSeq [] :: r => Step (s, r)
  | KLoop c b :: r => if c s then Step (s, KSeq b :: KLoop c b :: r) else Step (s, r)
  | KCall [] :: r => Step (s, r)
  | KCall (d :: ds) :: r => Step (s, KSeq d :: KCall ds :: r)
  | KSeq (i :: l) :: r =>
      match i with
      | Atom f => Step (f s, KSeq l :: r)
      | If c t e => Step (s, KSeq (if c s then t else e) :: KSeq l :: r)
      | While c b => Step (s, KLoop c b :: KSeq l :: r)
      | Call fn => Step (s, KSeq (table fn) :: KCall [] :: KSeq l :: r)
      | Defer d => Step (s, add_defer d (KSeq l :: r))
      | Return => Step (s, unwind_call r)
      | Break => Step (s, unwind_loop r false)
      | Continue => Step (s, unwind_loop r true)
      | Recv ch _ => Block (RqRecv (ch s))
      | Send ch v => Block (RqSend (ch s) (v s))
      | Select alts d => Block (RqSelect (map (comm_request s) alts) (match d with Some _ => true | None => false end))
      | Sleep d => Block (RqSleep (d s))
      | Now _ => Block RqNow
      | NewTicker d => Block (RqNewTicker (d s))
      | Close ch => Block (RqClose (ch s))
      | TickerStop => Block RqTickerStop
      end
  end.

(* internal steps until the next request *)
Fixpoint run_to_request (fuel : nat) (cf : config) : option (config * request) :=
  match fuel with
  | O => None
  | Datatypes.S n =>
      match step1 cf with
      | Step cf' => run_to_request n cf'
      | Block rq => Some (cf, rq)
      end
  end.

(* the environment has answered the pending request *)
Definition resume (cf : config) (a : answer) : config :=
  let '(s, k) := cf in
  match k with
  | KSeq (i :: l) :: r =>
      match i, a with
      | Recv _ kk, AnsRecv v => (kk s v, KSeq l :: r)
      | Send _ _, AnsOk => (s, KSeq l :: r)
      | Sleep _, AnsOk => (s, KSeq l :: r)
      | Now kk, AnsTime t => (kk s t, KSeq l :: r)
      | NewTicker _, AnsOk => (s, KSeq l :: r)
      | Close _, AnsOk => (s, KSeq l :: r)
      | TickerStop, AnsOk => (s, KSeq l :: r)
      | Select alts _, AnsSel n v =>
          match nth_error alts n with
          | Some (CRecv _ kk, b) => (kk s v, KSeq b :: KSeq l :: r)
          | Some (CSend _ _, b) => (s, KSeq b :: KSeq l :: r)
          | None => cf
          end
      | Select _ (Some b), AnsDefault => (s, KSeq b :: KSeq l :: r)
      | _, _ => cf
      end
  | _ => cf
  end.

(* the goroutine `go fn()` at its start *)
Definition start (s : S) (fn : F) : config := (s, [KSeq (table fn); KCall []]).

(* ---- basic facts *)
Lemma run_to_request_S fuel cf :
  run_to_request (Datatypes.S fuel) cf =
  match step1 cf with Step cf' => run_to_request fuel cf' | Block rq => Some (cf, rq) end.
Proof. reflexivity. Qed.

Lemma run_to_request_step fuel cf cf' : step1 cf = Step cf' -> run_to_request (Datatypes.S fuel) cf = run_to_request fuel cf'.
Proof. intros H; simpl; now rewrite H. Qed.
Lemma run_to_request_block fuel cf rq : step1 cf = Block rq -> run_to_request (Datatypes.S fuel) cf = Some (cf, rq).
Proof. intros H; simpl; now rewrite H. Qed.

(* more fuel does not change the result *)
Lemma run_to_request_mono fuel : forall cf r, run_to_request fuel cf = Some r -> forall n, run_to_request (n + fuel) cf = Some r.
Proof.
  induction fuel as [|f IH]; intros cf r H n; [discriminate|].
  rewrite <- plus_n_Sm. simpl in *. destruct (step1 cf); [now apply IH|assumption].
Qed.
Lemma run_to_request_le fuel fuel' cf r : run_to_request fuel cf = Some r -> fuel <= fuel' -> run_to_request fuel' cf = Some r.
Proof.
  intros H L. replace fuel' with ((fuel' - fuel) + fuel) by lia.
  now apply run_to_request_mono.
Qed.

(* n internal steps *)
Fixpoint steps (n : nat) (cf : config) : option config :=
  match n with
  | O => Some cf
  | Datatypes.S m => match step1 cf with Step cf' => steps m cf' | Block _ => None end
  end.
Lemma run_after_steps n : forall cf cf' fuel, steps n cf = Some cf' -> run_to_request (n + fuel) cf = run_to_request fuel cf'.
Proof.
  induction n as [|n IH]; intros cf cf' fuel H; simpl in *; [now injection H as ->|].
  destruct (step1 cf); [now apply IH|discriminate].
Qed.
(* the result of a run is a blocked configuration *)
Lemma run_to_request_blocked fuel : forall cf cf' rq, run_to_request fuel cf = Some (cf', rq) -> step1 cf' = Block rq.
Proof.
  induction fuel as [|f IH]; intros cf cf' rq H; [discriminate|]. simpl in H.
  destruct (step1 cf) eqn:E; [now apply IH in H|]. now injection H as <- <-.
Qed.

(* ---- internal steps, relationally, and moves (internal steps plus requests with given answers) *)
Inductive reaches : config -> config -> Prop :=
| r_refl c : reaches c c
| r_step c c' c'' : step1 c = Step c' -> reaches c' c'' -> reaches c c''.
Lemma reaches_trans a b c : reaches a b -> reaches b c -> reaches a c.
Proof. induction 1; intros; [assumption|]. eapply r_step; eauto. Qed.
(* internal steps followed by a blocking point: that is what run_to_request returns, with any sufficient fuel *)
Lemma reaches_run a b rq : reaches a b -> step1 b = Block rq ->
  exists n, forall fuel, n <= fuel -> run_to_request fuel a = Some (b, rq).
Proof.
  induction 1 as [c|c c' c'' E _ IH]; intros B.
  - exists 1. intros [|f] L; [lia|]. simpl. now rewrite B.
  - destruct (IH B) as [n Hn]. exists (Datatypes.S n). intros [|f] L; [lia|]. simpl. rewrite E. apply Hn. lia.
Qed.
(* the program goes from c to c': internal steps, and for every answer in the list a request that gets this answer *)
Fixpoint moves (l : list answer) (c c' : config) : Prop :=
  match l with
  | [] => reaches c c'
  | a :: r => exists cb rq, reaches c cb /\ step1 cb = Block rq /\ moves r (resume cb a) c'
  end.
End Lang.

Arguments Atom {S V C F} f.
Arguments If {S V C F} c t e.
Arguments While {S V C F} c body.
Arguments Recv {S V C F} ch k.
Arguments Send {S V C F} ch v.
Arguments Select {S V C F} alts dflt.
Arguments Sleep {S V C F} d.
Arguments Now {S V C F} k.
Arguments NewTicker {S V C F} d.
Arguments Close {S V C F} ch.
Arguments TickerStop {S V C F}.
Arguments Call {S V C F} fn.
Arguments Defer {S V C F} body.
Arguments Return {S V C F}.
Arguments Break {S V C F}.
Arguments Continue {S V C F}.
Arguments CRecv {S V C} ch k.
Arguments CSend {S V C} ch v.
Arguments KSeq {S V C F} l.
Arguments KLoop {S V C F} c body.
Arguments KCall {S V C F} defers.
Arguments RqRecv {V C} c.
Arguments RqSend {V C} c v.
Arguments RqSelect {V C} alts has_default.
Arguments RqSleep {V C} d.
Arguments RqClose {V C} c.
Arguments RqTickerStop {V C}.
Arguments RqNow {V C}.
Arguments RqNewTicker {V C} d.
Arguments RqDone {V C}.
Arguments AnsRecv {V} v.
Arguments AnsOk {V}.
Arguments AnsSel {V} i v.
Arguments AnsDefault {V}.
Arguments AnsTime {V} t.
Arguments Step {S V C F} c.
Arguments Block {S V C F} rq.
Arguments step1 {S V C F} table cf.
Arguments run_to_request {S V C F} table fuel cf.
Arguments resume {S V C F} cf a.
Arguments start {S V C F} table s fn.
Arguments steps {S V C F} table n cf.
Arguments unwind_loop {S V C F} k keep.
Arguments unwind_call {S V C F} k.
Arguments add_defer {S V C F} d k.
Arguments comm_request {S V C F} s a.
Arguments reaches {S V C F} table c c'.
Arguments r_refl {S V C F} table c.
Arguments r_step {S V C F} table c c' c''.
Arguments moves {S V C F} table l c c'.
