(* LIVENESS of the v2 priority discipline model (Prio2.v):
     "if handlers eventually release every item they receive, every item written to any input is eventually delivered".
   Infinite executions are functions tr : nat -> st with a label per step; fairness hypotheses F_sched / F_take / F_rel / F_tick
   (and the weaker F_tick_w: the clock only has to tick while the scheduler waits for it).  No classical axiom is used: every
   wait is bounded by a fairness witness, and the arguments are inductions on ranks.
   Sections:
     0  generic tools (first occurrence, invariants along an interval, ranked progress)
     1  moves (scheduler steps and the ticks that change the pc) and quiet steps
     2  an execution: safety facts at every index; the pc always moves again (eventually_moves / next_move)
     3  the cycle rank (every move decreases it until the pc is back at Calc), by_moves, drain_done, Calc infinitely often
     4  one priority p with undelivered data: Pend, in-flight items of p flow back (flow_outq / flow_held / flow_fbq), hence the
        scheduler is eventually at Calc with p under its share (reach_uncrowded_calc)
     5  a round in which p has an allowance delivers an item of p (round_delivers, calc_delivers)
     6  p_count_grows            7  every item (FIFO position)
     8  the closed theorems:  prio2_calc_infinitely_often, prio2_every_item_delivered (+ _partial, _new, _w),
        prio2_head_delivered, prio2_some_item_delivered
     9  prio2_liveness_needs_fblimit: the hypothesis `1 <= fblimit s0` cannot be dropped (a fair lasso execution, fully formal)
    10  non-vacuity: a fair infinite execution with the Fair divider on which the theorem is instantiated
    11  sched_enabled_stable: F_sched is ordinary weak fairness                                                         *)
From Coq Require Import List NArith Lia Bool Arith.
From Cqos Require Import Base Divider DividerP Sched Prio2 Prio2P Prio2L.
Import ListNotations.
Open Scope N_scope.

Inductive label := LSched | LEnv (o : env_op) | LStutter.
Definition is_step (dv : nat -> Divider) (s : st) (l : label) (s' : st) : Prop :=
  match l with LSched => sched_step dv s = Some s' | LEnv o => env_step s o = Some s' | LStutter => s' = s end.
Record execution (dv : nat -> Divider) (s0 : st) (tr : nat -> st) (lb : nat -> label) : Prop := {
  ex_init : tr 0%nat = s0;
  ex_step : forall i, is_step dv (tr i) (lb i) (tr (S i)) }.

(* fairness / environment hypotheses *)
Definition F_sched (dv : nat -> Divider) (tr : nat -> st) (lb : nat -> label) : Prop :=
  forall i, (exists s', sched_step dv (tr i) = Some s') -> exists j, (i <= j)%nat /\ lb j = LSched.
Definition F_take (tr : nat -> st) (lb : nat -> label) : Prop :=
  forall i, outq (tr i) <> [] -> exists j, (i <= j)%nat /\ lb j = LEnv Take.
Definition F_rel (tr : nat -> st) (lb : nat -> label) : Prop :=
  forall i p x, In (p, x) (held (tr i)) -> exists j, (i <= j)%nat /\ lb j = LEnv (Release p).
Definition F_tick (lb : nat -> label) : Prop :=
  forall i, exists j, (i <= j)%nat /\ lb j = LEnv Tick.

(* ================= 0. generic tools ================= *)
Lemma first_such (Q : nat -> Prop) (Qdec : forall m, {Q m} + {~ Q m}) :
  forall d k, Q (k + d)%nat -> exists m, (k <= m <= k + d)%nat /\ Q m /\ forall m', (k <= m' < m)%nat -> ~ Q m'.
Proof.
  induction d as [|d IH]; intros k Hq.
  - exists k. rewrite Nat.add_0_r in *. split; [lia|]. split; [exact Hq|]. intros m' Hm'. lia.
  - destruct (Qdec k) as [Hk|Hk].
    + exists k. split; [lia|]. split; [exact Hk|]. intros m' Hm'. lia.
    + replace (k + S d)%nat with (S k + d)%nat in Hq by lia.
      destruct (IH (S k) Hq) as (m & Hm & HQ & Hmin). exists m. split; [lia|]. split; [exact HQ|].
      intros m' Hm'. destruct (Nat.eq_dec m' k) as [->|Hne]; [exact Hk|]. apply Hmin. lia.
Qed.

Lemma first_from (Q : nat -> Prop) (Qdec : forall m, {Q m} + {~ Q m}) k j :
  (k <= j)%nat -> Q j -> exists m, (k <= m <= j)%nat /\ Q m /\ forall m', (k <= m' < m)%nat -> ~ Q m'.
Proof.
  intros Hle Hq. replace j with (k + (j - k))%nat in Hq by lia.
  destruct (first_such Q Qdec (j - k) k Hq) as (m & Hm & HQ & Hmin). exists m. split; [lia|]. split; assumption.
Qed.

Lemma along (P : nat -> Prop) k : forall j, (k <= j)%nat ->
  (forall m, (k <= m < j)%nat -> P m -> P (S m)) -> P k -> P j.
Proof.
  induction j as [|j IH]; intros Hle Hst Hk.
  - replace 0%nat with k by lia. exact Hk.
  - destruct (Nat.eq_dec k (S j)) as [<-|Hne]; [exact Hk|].
    apply Hst; [lia|]. apply IH; [lia| |exact Hk]. intros m Hm. apply Hst. lia.
Qed.

(* ranked progress: if from every P-state a later state is in the target or in P with a smaller rank, the target is reached *)
Lemma ranked (P : nat -> Prop) (rk : nat -> nat) (T : nat -> Prop) :
  (forall k, P k -> exists k', (k <= k')%nat /\ (T k' \/ (P k' /\ (rk k' < rk k)%nat))) ->
  forall n k, (rk k <= n)%nat -> P k -> exists j, (k <= j)%nat /\ T j.
Proof.
  intros Hprog. induction n as [|n IH]; intros k Hn HP.
  - destruct (Hprog k HP) as (k' & Hle & [HT|[_ Hlt]]); [exists k'; auto|lia].
  - destruct (Hprog k HP) as (k' & Hle & [HT|[HP' Hlt]]); [exists k'; auto|].
    destruct (IH k' ltac:(lia) HP') as (j & Hj & HT). exists j. split; [lia|exact HT].
Qed.

Lemma label_eq_dec (a b : label) : {a = b} + {a <> b}.
Proof. decide equality. decide equality; apply N.eq_dec. Qed.

(* ================= 1. moves and quiet steps ================= *)
(* a clock tick moves the scheduler's pc exactly when it sleeps (Idle) or is blocked in iou on an empty, open, unbuffered input *)
Definition read_blocked (s : st) (p : N) : bool :=
  negb (get (tactic s) p =? 0) && negb (buffered s p) && negb (closed s p) && match inq s p with [] => true | _ => false end.
Definition tick_moves (s : st) : bool :=
  match pcs s with Idle => true | Read _ p _ _ _ => read_blocked s p | _ => false end.
Definition is_move (s : st) (l : label) : Prop := l = LSched \/ (l = LEnv Tick /\ tick_moves s = true).
Lemma is_move_dec s l : {is_move s l} + {~ is_move s l}.
Proof.
  unfold is_move. destruct (label_eq_dec l LSched) as [E|E]; [left; left; exact E|].
  destruct (label_eq_dec l (LEnv Tick)) as [E2|E2].
  - destruct (tick_moves s) eqn:Et; [left; right; split; auto|right; intros [?|[_ ?]]; congruence].
  - right; intros [?|[? _]]; congruence.
Qed.

(* the clock only has to advance when the scheduler actually waits for it *)
Definition F_tick_w (tr : nat -> st) (lb : nat -> label) : Prop :=
  forall i, tick_moves (tr i) = true -> exists j, (i <= j)%nat /\ lb j = LEnv Tick.
Lemma F_tick_weaken tr lb : F_tick lb -> F_tick_w tr lb.
Proof. intros F i _. apply F. Qed.

Record quiet_rel (s s' : st) : Prop := {
  q_static : static s s';
  q_pc : pcs s' = pcs s; q_tactic : tactic s' = tactic s; q_actual : actual s' = actual s;
  q_delivered : delivered s' = delivered s; q_drained : drained s' = drained s;
  q_inq : forall q, exists l, inq s' q = inq s q ++ l;
  q_fbq : exists l, fbq s' = fbq s ++ l;
  q_closed : forall q, closed s q = true -> closed s' q = true;
  q_written : forall q, exists w, written s' q = written s q ++ w }.

Lemma quiet_rel_refl s : quiet_rel s s.
Proof.
  constructor; auto; try reflexivity.
  - apply static_refl.
  - intros q; exists []; rewrite app_nil_r; reflexivity.
  - exists []; rewrite app_nil_r; reflexivity.
  - intros q; exists []; rewrite app_nil_r; reflexivity.
Qed.

Lemma upd_app_nil (f : N -> list N) k v q : exists l, upd f k (f k ++ v) q = f q ++ l.
Proof. unfold upd. destruct (N.eqb_spec q k) as [->|_]; [exists v; reflexivity|exists []; rewrite app_nil_r; reflexivity]. Qed.

Lemma quiet_step dv s l s' : is_step dv s l s' -> ~ is_move s l -> quiet_rel s s'.
Proof.
  intros Hs Hnm. destruct l as [|o|]; cbn [is_step] in Hs.
  - exfalso; apply Hnm; left; reflexivity.
  - destruct o as [p x|p| |p|]; cbn [env_step] in Hs.
    + destruct (closed s p); [discriminate|]. inversion Hs; subst s'; clear Hs.
      constructor; proj; auto; try reflexivity.
      * repeat split; reflexivity.
      * intros q. apply upd_app_nil.
      * exists []; rewrite app_nil_r; reflexivity.
      * intros q. apply upd_app_nil.
    + inversion Hs; subst s'; clear Hs. constructor; proj; auto; try reflexivity.
      * repeat split; reflexivity.
      * intros q; exists []; rewrite app_nil_r; reflexivity.
      * exists []; rewrite app_nil_r; reflexivity.
      * intros q Hq. unfold upd. destruct (N.eqb q p); auto.
      * intros q; exists []; rewrite app_nil_r; reflexivity.
    + destruct (outq s) as [|px q]; [discriminate|]. inversion Hs; subst s'; clear Hs. constructor; proj; auto; try reflexivity.
      * repeat split; reflexivity.
      * intros q0; exists []; rewrite app_nil_r; reflexivity.
      * exists []; rewrite app_nil_r; reflexivity.
      * intros q0; exists []; rewrite app_nil_r; reflexivity.
    + destruct (remove1 p (held s)) as [h|]; [|discriminate]. inversion Hs; subst s'; clear Hs. constructor; proj; auto; try reflexivity.
      * repeat split; reflexivity.
      * intros q0; exists []; rewrite app_nil_r; reflexivity.
      * exists [p]; reflexivity.
      * intros q0; exists []; rewrite app_nil_r; reflexivity.
    + assert (Hnt : tick_moves s = false).
      { destruct (tick_moves s) eqn:E; [|reflexivity]. exfalso; apply Hnm; right; split; auto. }
      unfold tick_moves in Hnt. destruct (pcs s) eqn:Epc; try discriminate; try (inversion Hs; subst s'; apply quiet_rel_refl).
      unfold read_blocked in Hnt. rewrite Hnt in Hs. inversion Hs; subst s'; apply quiet_rel_refl.
  - subst s'. apply quiet_rel_refl.
Qed.

(* what a moving tick does *)
Lemma tick_move_step s s' : env_step s Tick = Some s' -> tick_moves s = true ->
  (pcs s = Idle /\ s' = with_pc s (LimFb (fblimit s))) \/
  (exists ph p r proc intr, pcs s = Read ph p r proc intr /\ read_blocked s p = true /\
     s' = with_pc s (if intr then Prio ph r proc else Read ph p r proc true)).
Proof.
  intros Hs Ht. cbn [env_step] in Hs. unfold tick_moves in Ht. destruct (pcs s) eqn:Epc; try discriminate.
  - right. unfold read_blocked in Ht. rewrite Ht in Hs. inversion Hs; subst s'. exists ph, p, rest, proc, intr. auto.
  - left. inversion Hs; subst s'. auto.
Qed.

(* every step only appends to the ghost logs `delivered` and `written` *)
Lemma step_mono dv s l s' : is_step dv s l s' ->
  (exists d, delivered s' = delivered s ++ d) /\ (forall q, exists w, written s' q = written s q ++ w).
Proof.
  intros Hs. destruct (is_move_dec s l) as [Hm|Hm].
  - assert (Hw : written s' = written s -> forall q, exists w, written s' q = written s q ++ w).
    { intros E q. rewrite E. exists []; rewrite app_nil_r; reflexivity. }
    destruct Hm as [->|[-> Ht]]; cbn [is_step] in Hs.
    + unfold sched_step, step_calc, calc_base, step_recalc in Hs.
      destruct_matches Hs; try discriminate; inversion Hs; subst s'; proj;
        (split; [first [exists []; rewrite app_nil_r; reflexivity | eexists; reflexivity]|apply Hw; reflexivity]).
    + destruct (tick_move_step _ _ Hs Ht) as [[_ ->]|(ph & p & r & proc & intr & _ & _ & ->)]; proj;
        (split; [exists []; rewrite app_nil_r; reflexivity|apply Hw; reflexivity]).
  - destruct (quiet_step _ _ _ _ Hs Hm) as [_ _ _ _ Hd _ _ _ _ Hw]. split; [|exact Hw].
    exists []. rewrite app_nil_r. exact Hd.
Qed.

(* what a quiet step does to the three channels *)
Lemma quiet_chan dv s l s' : is_step dv s l s' -> ~ is_move s l ->
  (l = LEnv Take /\ exists px q, outq s = px :: q /\ outq s' = q /\ held s' = px :: held s /\ fbq s' = fbq s) \/
  (exists p h, l = LEnv (Release p) /\ remove1 p (held s) = Some h /\ held s' = h /\ fbq s' = fbq s ++ [p] /\ outq s' = outq s) \/
  (outq s' = outq s /\ held s' = held s /\ fbq s' = fbq s /\ l <> LEnv Take /\ forall p, l <> LEnv (Release p)).
Proof.
  intros Hs Hnm. destruct l as [|o|]; cbn [is_step] in Hs.
  - exfalso; apply Hnm; left; reflexivity.
  - destruct o as [p x|p| |p|]; cbn [env_step] in Hs.
    + destruct (closed s p); [discriminate|]. inversion Hs; subst s'. right; right. proj. repeat split; try discriminate.
    + inversion Hs; subst s'. right; right. proj. repeat split; try discriminate.
    + destruct (outq s) as [|px q]; [discriminate|]. inversion Hs; subst s'. left. split; [reflexivity|]. exists px, q. proj. auto.
    + destruct (remove1 p (held s)) as [h|] eqn:E; [|discriminate]. inversion Hs; subst s'. right; left. exists p, h. proj. auto.
    + assert (Hnt : tick_moves s = false).
      { destruct (tick_moves s) eqn:E; [|reflexivity]. exfalso; apply Hnm; right; split; auto. }
      assert (E : s' = s).
      { unfold tick_moves in Hnt. destruct (pcs s) eqn:Epc; try discriminate; try (inversion Hs; reflexivity).
        unfold read_blocked in Hnt. rewrite Hnt in Hs. inversion Hs; reflexivity. }
      subst s'. right; right. repeat split; try discriminate.
  - subst s'. right; right. repeat split; try discriminate.
Qed.

(* ================= 2. an execution ================= *)
Section Live.
Variable dv : nat -> Divider.
Hypothesis dv_wf : forall k ps n d, NoDup (keys d) -> NoDup (keys (dv k ps n d)).
Hypothesis sumrule : forall k ps n d, NoDup (keys d) -> sum (dv k ps n d) = sum d + n \/ sum (dv k ps n d) = sum d.
Variable s0 : st.
Variable tr : nat -> st.
Variable lb : nat -> label.
Hypothesis HI : InitL s0.
Hypothesis HH : H s0 < two64.
Hypothesis Hex : execution dv s0 tr lb.
Hypothesis Fsched : F_sched dv tr lb.
Hypothesis Ftake : F_take tr lb.
Hypothesis Frel : F_rel tr lb.
Hypothesis Ftick : F_tick_w tr lb.

Lemma tr_step i : is_step dv (tr i) (lb i) (tr (S i)).
Proof. apply (ex_step _ _ _ _ Hex). Qed.

Lemma tr_reach i : reachable dv s0 (tr i).
Proof.
  induction i as [|i IH].
  - rewrite (ex_init _ _ _ _ Hex). apply r_init.
  - pose proof (tr_step i) as Hs. destruct (lb i) as [|o|]; cbn [is_step] in Hs.
    + eapply r_sched; eauto.
    + eapply r_env; eauto.
    + rewrite Hs. exact IH.
Qed.

Lemma tr_inv i : Inv (tr i).
Proof. eapply (reachable_inv dv dv_wf); [apply (il_init s0 HI)|apply tr_reach]. Qed.
Lemma tr_inv2 i : Inv2 (tr i).
Proof. eapply (reachable_inv2 dv); [apply (il_init s0 HI)|apply tr_reach]. Qed.
Lemma tr_shares i : Shares (tr i).
Proof. eapply (reachable_Shares dv); [exact HI|apply tr_reach]. Qed.
Lemma tr_noerr i e : pcs (tr i) <> Drain (Some e) /\ pcs (tr i) <> Done (Some e).
Proof. apply (prio2_no_error_gen dv dv_wf sumrule s0 (tr i) (il_init s0 HI) (tr_reach i) HH). Qed.
Lemma tr_ainv i : pcs (tr i) = WaitFb -> 0 < sum (actual (tr i)).
Proof. apply (prio2_no_wait_when_idle dv dv_wf s0 (tr i) HI (tr_reach i)). Qed.
Lemma tr_static i : static s0 (tr i).
Proof.
  induction i as [|i IH].
  - rewrite (ex_init _ _ _ _ Hex). apply static_refl.
  - eapply static_trans; [exact IH|]. pose proof (tr_step i) as Hs. destruct (lb i) as [|o|]; cbn [is_step] in Hs.
    + eapply sched_step_static; eauto.
    + eapply env_step_static; eauto.
    + rewrite Hs. apply static_refl.
Qed.
Lemma tr_prios i : prios (tr i) = prios s0.
Proof. destruct (tr_static i) as (_ & E & _). exact E. Qed.
Lemma tr_H i : H (tr i) = H s0.
Proof. destruct (tr_static i) as (E & _). exact E. Qed.
Lemma tr_strategic i : strategic (tr i) = strategic s0.
Proof. destruct (tr_static i) as (_ & _ & E & _). exact E. Qed.

Definition moves (m : nat) : Prop := is_move (tr m) (lb m).
Definition ev_move (k : nat) : Prop := exists j, (k <= j)%nat /\ moves j.
Lemma ev_move_le k k' : (k <= k')%nat -> ev_move k' -> ev_move k.
Proof. intros Hle (j & Hj & Hm). exists j. split; [lia|exact Hm]. Qed.
Lemma moves_dec m : {moves m} + {~ moves m}.
Proof. apply is_move_dec. Qed.

Lemma tr_quiet m : ~ moves m -> quiet_rel (tr m) (tr (S m)).
Proof. intros Hn. eapply quiet_step; [apply tr_step|exact Hn]. Qed.

Lemma enabled_ev k : (exists s', sched_step dv (tr k) = Some s') -> ev_move k.
Proof. intros He. destruct (Fsched k He) as (j & Hj & Hl). exists j. split; [exact Hj|]. left. exact Hl. Qed.

(* wait for a label of class L while a property P is kept by the quiet steps that are not in L *)
Lemma wait_for (L : label -> Prop) (Ldec : forall l, {L l} + {~ L l}) (P : st -> Prop) k j :
  (k <= j)%nat -> L (lb j) -> P (tr k) ->
  (forall m, P (tr m) -> ~ moves m -> ~ L (lb m) -> P (tr (S m))) ->
  ev_move k \/ exists m, (k <= m)%nat /\ L (lb m) /\ ~ moves m /\ P (tr m).
Proof.
  intros Hle HL HP Hkeep.
  destruct (first_from (fun m => moves m \/ L (lb m))) with (k := k) (j := j) as (m & Hm & HQ & Hmin); auto.
  { intros m. destruct (moves_dec m); [left; left; assumption|]. destruct (Ldec (lb m)); [left; right; assumption|]. right; tauto. }
  destruct (moves_dec m) as [Hmv|Hnm]; [left; exists m; split; [lia|exact Hmv]|].
  right. exists m. split; [lia|]. split; [tauto|]. split; [exact Hnm|].
  apply (along (fun i => P (tr i)) k m); [lia| |exact HP].
  intros i Hi HPi. specialize (Hmin i Hi). apply Hkeep; tauto.
Qed.

Lemma take_dec l : {l = LEnv Take} + {l <> LEnv Take}.
Proof. apply label_eq_dec. Qed.
Lemma tick_dec l : {l = LEnv Tick} + {l <> LEnv Tick}.
Proof. apply label_eq_dec. Qed.
Definition is_release (l : label) : Prop := exists p, l = LEnv (Release p).
Lemma release_dec l : {is_release l} + {~ is_release l}.
Proof.
  unfold is_release. destruct l as [|o|]; try (right; intros [p E]; discriminate).
  destruct o; try (right; intros [p0 E]; discriminate). left; eexists; reflexivity.
Qed.

(* --- Idle and blocked Read: the clock *)
Lemma read_enabled s ph p r proc intr : pcs s = Read ph p r proc intr -> read_blocked s p = false ->
  exists s', sched_step dv s = Some s'.
Proof.
  intros Epc Hb. unfold sched_step. rewrite Epc. unfold read_blocked in Hb.
  destruct (get (tactic s) p =? 0); [eexists; reflexivity|].
  destruct (inq s p); [|eexists; reflexivity].
  destruct (closed s p); [eexists; reflexivity|]. destruct (buffered s p); [eexists; reflexivity|]. discriminate.
Qed.

Lemma clock_moves k : (pcs (tr k) = Idle \/ exists ph p r proc intr, pcs (tr k) = Read ph p r proc intr) -> ev_move k.
Proof.
  intros Hpc.
  destruct (tick_moves (tr k)) eqn:Etk.
  2:{ unfold tick_moves in Etk. destruct Hpc as [Epc|(ph & p & r & proc & intr & Epc)]; rewrite Epc in Etk; [discriminate|].
      apply enabled_ev. eapply read_enabled; eauto. }
  destruct (Ftick k Etk) as (j & Hj & Hl).
  destruct (wait_for (fun l => l = LEnv Tick) tick_dec (fun s => pcs s = pcs (tr k)) k j Hj Hl eq_refl) as [Hev|(m & Hm & HL & Hnm & HP)].
  - intros m HP Hnm _. rewrite (q_pc _ _ (tr_quiet m Hnm)). exact HP.
  - exact Hev.
  - assert (Hnt : tick_moves (tr m) = false).
    { destruct (tick_moves (tr m)) eqn:E; [|reflexivity]. exfalso; apply Hnm; right; split; auto. }
    unfold tick_moves in Hnt. rewrite HP in Hnt. destruct Hpc as [Epc|(ph & p & r & proc & intr & Epc)]; rewrite Epc in Hnt; [discriminate|].
    apply (ev_move_le k m Hm). apply enabled_ev. rewrite <- HP in Epc. eapply read_enabled; eauto.
Qed.

(* --- Send: the consumers *)
Lemma send_moves : forall n k, length (outq (tr k)) = n -> (exists ph p x r pr, pcs (tr k) = Send ph p x r pr) -> ev_move k.
Proof.
  induction n as [n IH] using lt_wf_ind. intros k Hn (ph & p & x & r & pr & Epc).
  destruct (N.of_nat (length (outq (tr k))) <? outcap (tr k)) eqn:El.
  - apply enabled_ev. unfold sched_step. rewrite Epc, El. eexists; reflexivity.
  - apply N.ltb_ge in El. pose proof (sh_cap _ (tr_shares k)) as Hc.
    assert (Hne : outq (tr k) <> []) by (intros E; rewrite E in El; cbn [length N.of_nat] in El; lia).
    destruct (Ftake k Hne) as (j & Hj & Hl).
    destruct (wait_for (fun l => l = LEnv Take) take_dec (fun s => pcs s = pcs (tr k) /\ outq s = outq (tr k)) k j Hj Hl (conj eq_refl eq_refl))
      as [Hev|(m & Hm & HL & Hnm & HP1 & HP2)].
    + intros m [HP1 HP2] Hnm HnL. split; [rewrite (q_pc _ _ (tr_quiet m Hnm)); exact HP1|].
      destruct (quiet_chan _ _ _ _ (tr_step m) Hnm) as [[E _]|[(p0 & h & _ & _ & _ & _ & E)|(E & _)]]; [contradiction|congruence|congruence].
    + exact Hev.
    + destruct (quiet_chan _ _ _ _ (tr_step m) Hnm) as [(_ & px & q & Eo & Eo' & _)|[(p0 & h & E & _)|(_ & _ & _ & E & _)]]; [|congruence|contradiction].
      apply (ev_move_le k (S m)); [lia|]. apply (IH (length q)).
      * rewrite <- Hn, <- HP2, Eo. cbn [length]. lia.
      * rewrite Eo'. reflexivity.
      * rewrite (q_pc _ _ (tr_quiet m Hnm)), HP1, Epc. eauto 10.
Qed.

(* --- WaitFb / Drain: the handlers *)
Definition fb_pc (c : pc) : Prop := c = WaitFb \/ exists e, c = Drain e.
Lemma fb_enabled s : fb_pc (pcs s) -> fbq s <> [] -> exists s', sched_step dv s = Some s'.
Proof.
  intros [Epc|[e Epc]] Hf; unfold sched_step; rewrite Epc.
  - destruct (fbq s); [contradiction|eexists; reflexivity].
  - destruct (sum (actual s) =? 0); [eexists; reflexivity|]. destruct (fbq s); [contradiction|eexists; reflexivity].
Qed.

Lemma fb_held_moves k : fb_pc (pcs (tr k)) -> held (tr k) <> [] -> ev_move k.
Proof.
  intros Hpc Hh. destruct (held (tr k)) as [|[q x] hh] eqn:Eh; [contradiction|].
  destruct (Frel k q x) as (j & Hj & Hl); [rewrite Eh; left; reflexivity|].
  destruct (wait_for is_release release_dec (fun s => pcs s = pcs (tr k)) k j Hj) as [Hev|(m & Hm & HL & Hnm & HP)]; auto.
  - exists q; exact Hl.
  - intros m HP Hnm _. rewrite (q_pc _ _ (tr_quiet m Hnm)). exact HP.
  - destruct HL as [p0 HL].
    destruct (quiet_chan _ _ _ _ (tr_step m) Hnm) as [(E & _)|[(p1 & h & _ & _ & _ & Ef & _)|(_ & _ & _ & _ & E)]];
      [congruence| |exfalso; eapply E; eauto].
    apply (ev_move_le k (S m)); [lia|]. apply enabled_ev. apply fb_enabled.
    + rewrite (q_pc _ _ (tr_quiet m Hnm)), HP. exact Hpc.
    + rewrite Ef. destruct (fbq (tr m)); discriminate.
Qed.

Lemma fb_moves k : fb_pc (pcs (tr k)) -> ev_move k.
Proof.
  intros Hpc.
  destruct (fbq (tr k)) as [|q f] eqn:Ef; [|apply enabled_ev; apply fb_enabled; [exact Hpc|rewrite Ef; discriminate]].
  destruct (N.eqb_spec (sum (actual (tr k))) 0) as [Ez|Hnz].
  - destruct Hpc as [Epc|[e Epc]].
    + pose proof (tr_ainv k Epc). lia.
    + apply enabled_ev. unfold sched_step. rewrite Epc, Ez. eexists; reflexivity.
  - pose proof (i_sum _ (tr_inv k)) as Hs. unfold inflight in Hs. rewrite Ef in Hs. cbn [length N.of_nat] in Hs.
    destruct (held (tr k)) as [|hx hh] eqn:Eh.
    + cbn [length N.of_nat] in Hs.
      assert (Hne : outq (tr k) <> []) by (intros E; rewrite E in Hs; cbn [length N.of_nat] in Hs; lia).
      destruct (Ftake k Hne) as (j & Hj & Hl).
      destruct (wait_for (fun l => l = LEnv Take) take_dec (fun s => pcs s = pcs (tr k)) k j Hj Hl eq_refl) as [Hev|(m & Hm & HL & Hnm & HP)].
      * intros m HP Hnm _. rewrite (q_pc _ _ (tr_quiet m Hnm)). exact HP.
      * exact Hev.
      * destruct (quiet_chan _ _ _ _ (tr_step m) Hnm) as [(_ & px & q & _ & _ & Eh' & _)|[(p0 & h & E & _)|(_ & _ & _ & E & _)]]; [|congruence|contradiction].
        apply (ev_move_le k (S m)); [lia|]. apply fb_held_moves.
        -- rewrite (q_pc _ _ (tr_quiet m Hnm)), HP. exact Hpc.
        -- rewrite Eh'. discriminate.
    + apply fb_held_moves; [exact Hpc|rewrite Eh; discriminate].
Qed.

(* the scheduler's pc always moves again (unless the discipline has terminated) *)
Lemma eventually_moves k : (forall e, pcs (tr k) <> Done e) -> ev_move k.
Proof.
  intros Hnd. destruct (pcs (tr k)) eqn:Epc.
  - apply enabled_ev. unfold sched_step. rewrite Epc. eexists; reflexivity.
  - apply fb_moves. left; exact Epc.
  - apply enabled_ev. unfold sched_step. rewrite Epc. destruct rest; eexists; reflexivity.
  - apply clock_moves. right. rewrite Epc. eauto 10.
  - apply (send_moves _ k eq_refl). rewrite Epc. eauto 10.
  - apply enabled_ev. unfold sched_step. rewrite Epc. eexists; reflexivity.
  - apply enabled_ev. unfold sched_step. rewrite Epc. destruct (proc =? 0); [destruct (forallb _ _)|]; eexists; reflexivity.
  - apply clock_moves. left. exact Epc.
  - apply enabled_ev. unfold sched_step. rewrite Epc. destruct k0; [|destruct (fbq (tr k))]; eexists; reflexivity.
  - apply fb_moves. right. rewrite Epc. eauto.
  - exfalso. eapply Hnd; reflexivity.
Qed.

Lemma next_move k : (forall e, pcs (tr k) <> Done e) ->
  exists j, (k <= j)%nat /\ moves j /\ forall m, (k <= m < j)%nat -> ~ moves m.
Proof.
  intros Hnd. destruct (eventually_moves k Hnd) as (j & Hj & Hm).
  destruct (first_from moves moves_dec k j Hj Hm) as (m & Hm1 & Hm2 & Hmin). exists m. split; [lia|]. split; assumption.
Qed.

(* ================= 3. the cycle rank: every move strictly decreases it until the pc is back at Calc ================= *)
Definition tw (s : st) : nat := (3 * N.to_nat (sum (tactic s)))%nat.
Definition ph_off (L K : nat) (ph : phase) : nat := match ph with P1 => 3 * L + 2 + (K + 4) | P2 => K + 4 end%nat.
Definition crankLK (L K : nat) (s : st) : nat :=
  match pcs s with
  | Calc => 0 | Done _ => 0 | Drain _ => 0
  | WaitFb => 1
  | LimFb k => k + 1
  | Idle => K + 2
  | EndBase _ => K + 3
  | Prio ph rest _ => tw s + 3 * length rest + ph_off L K ph
  | Read ph _ rest _ intr => tw s + 3 * length rest + (if intr then 1 else 2) + ph_off L K ph
  | Send ph _ _ rest _ => tw s + 3 * length rest + ph_off L K ph
  | Recalc _ => tw s + 3 * L + 1 + (K + 4)
  end%nat.
Definition cyc_target (c : pc) : Prop := match c with Calc | Drain _ | Done _ => True | _ => False end.
Lemma cyc_target_dec c : {cyc_target c} + {~ cyc_target c}.
Proof. destruct c; cbn; auto. Qed.

Lemma step_recalc_sum s proc : Inv s -> sum (tactic (step_recalc dv s proc)) <= sum (tactic s).
Proof.
  intros Hinv. unfold step_recalc. cbv zeta.
  destruct (safe_divide (dv (ncalls s)) (useful s) (H s) (reset (tactic s))) as [t1|e1] eqn:E1.
  - destruct (safe_divide_wf dv dv_wf _ _ _ _ _ (i_ndt s Hinv) E1) as [W1 _].
    destruct (safe_divide (dv (S (ncalls s))) (useful_like s t1) (sum (tactic s)) (reset t1)) as [t2|e2] eqn:E2.
    + destruct (safe_divide_wf dv dv_wf _ _ _ _ _ W1 E2) as [W2 Hs2]. proj. lia.
    + proj. rewrite sum_reset. lia.
  - proj. rewrite sum_reset. lia.
Qed.

Lemma crank_sched L K s s' : Inv s -> sched_step dv s = Some s' -> length (prios s) = L -> fblimit s = K ->
  ~ cyc_target (pcs s) -> (crankLK L K s' < crankLK L K s)%nat.
Proof.
  intros Hinv Hs HL HK Hpc. unfold sched_step in Hs. destruct (pcs s) eqn:Epc; cbn [cyc_target] in Hpc; try tauto.
  - (* WaitFb *) destruct (fbq s); [discriminate|]. inversion Hs; subst s'. unfold crankLK; proj; rewrite Epc. lia.
  - (* Prio *) destruct rest as [|p r]; inversion Hs; subst s'; unfold crankLK, tw, ph_off; proj; rewrite Epc.
    + destruct ph; lia.
    + destruct (drained s p); cbn [length]; lia.
  - (* Read *)
    destruct (get (tactic s) p =? 0).
    { inversion Hs; subst s'; unfold crankLK, tw; proj; rewrite Epc. destruct intr; lia. }
    destruct (inq s p).
    + destruct (closed s p); [|destruct (buffered s p); [|discriminate]];
        inversion Hs; subst s'; unfold crankLK, tw; proj; rewrite Epc; destruct intr; lia.
    + inversion Hs; subst s'; unfold crankLK, tw; proj; rewrite Epc; destruct intr; lia.
  - (* Send *)
    destruct (N.of_nat (length (outq s)) <? outcap s); [|discriminate]. inversion Hs; subst s'.
    pose proof (sum_dec (tactic s) p (i_ndt s Hinv) (i_send s Hinv _ _ _ _ _ Epc)) as Hd.
    unfold crankLK, tw; proj; rewrite Epc. lia.
  - (* Recalc *)
    inversion Hs; subst s'. pose proof (step_recalc_sum s proc Hinv) as Hsum.
    destruct (step_recalc_shape dv s proc) as [(Epr & _) Hsh]. unfold crankLK, tw, ph_off. rewrite Epc.
    destruct Hsh as [E|[E|[e E]]]; rewrite E; cbv iota; rewrite ?HL; lia.
  - (* EndBase *)
    destruct (proc =? 0); [destruct (forallb (drained s) (prios s))|]; inversion Hs; subst s'; unfold crankLK; proj; rewrite Epc; lia.
  - discriminate.
  - (* LimFb *)
    destruct k as [|k]; [|destruct (fbq s)]; inversion Hs; subst s'; unfold crankLK; proj; rewrite Epc; lia.
Qed.

Lemma crank_tick L K s s' : env_step s Tick = Some s' -> tick_moves s = true -> fblimit s = K ->
  (crankLK L K s' < crankLK L K s)%nat.
Proof.
  intros Hs Ht HK. destruct (tick_move_step _ _ Hs Ht) as [[Epc ->]|(ph & p & r & proc & intr & Epc & _ & ->)];
    unfold crankLK, tw; proj; rewrite Epc; [lia|]. destruct intr; lia.
Qed.

Definition crank (s : st) : nat := crankLK (length (prios s0)) (fblimit s0) s.

Lemma crank_quiet m : ~ moves m -> crank (tr (S m)) = crank (tr m).
Proof.
  intros Hnm. pose proof (tr_quiet m Hnm) as Hq. unfold crank, crankLK, tw.
  rewrite (q_pc _ _ Hq), (q_tactic _ _ Hq). reflexivity.
Qed.

Lemma crank_move m : moves m -> ~ cyc_target (pcs (tr m)) -> (crank (tr (S m)) < crank (tr m))%nat.
Proof.
  intros Hmv Hnt. pose proof (tr_step m) as Hs. destruct (tr_static m) as (_ & Ep & _ & _ & Ef & _).
  destruct Hmv as [El|[El Ht]]; rewrite El in Hs; cbn [is_step] in Hs.
  - apply (crank_sched _ _ (tr m)); auto; [apply tr_inv|rewrite Ep; reflexivity].
  - apply (crank_tick _ _ (tr m)); auto.
Qed.

(* generic: from a P-state the pc moves on; P is kept by quiet steps; a move from a P-state reaches the target T or a P-state.
   Since moves decrease the cycle rank while the pc is not a cycle target, T is reached. *)
Lemma by_moves (P : nat -> Prop) (T : nat -> Prop) :
  (forall m, P m -> ~ cyc_target (pcs (tr m))) ->
  (forall m, P m -> ~ moves m -> P (S m)) ->
  (forall m, P m -> moves m -> T (S m) \/ P (S m)) ->
  forall k, P k -> exists j, (k <= j)%nat /\ T j.
Proof.
  intros Hnt Hq Hmv k HP.
  apply (ranked P (fun m => crank (tr m)) T) with (n := crank (tr k)); [|lia|exact HP].
  clear k HP. intros k HP.
  destruct (next_move k) as (j & Hj & Hm & Hmin).
  { intros e E. apply (Hnt k HP). rewrite E. exact I. }
  assert (HPj : P j /\ crank (tr j) = crank (tr k)).
  { apply (along (fun i => P i /\ crank (tr i) = crank (tr k)) k j Hj); [|split; [exact HP|reflexivity]].
    intros i Hi [HPi Hc]. split; [apply Hq; [exact HPi|apply Hmin; exact Hi]|]. rewrite crank_quiet; [exact Hc|apply Hmin; exact Hi]. }
  destruct HPj as [HPj Hc]. exists (S j). split; [lia|].
  destruct (Hmv j HPj Hm) as [HT|HP']; [left; exact HT|right]. split; [exact HP'|].
  rewrite <- Hc. apply crank_move; [exact Hm|apply Hnt; exact HPj].
Qed.

(* the pc returns to the top of the loop (or the discipline is terminating: Drain / Done) *)
Lemma reach_cycle_target k : exists j, (k <= j)%nat /\ cyc_target (pcs (tr j)).
Proof.
  destruct (cyc_target_dec (pcs (tr k))) as [Ht|Hn]; [exists k; split; [lia|exact Ht]|].
  apply (by_moves (fun m => ~ cyc_target (pcs (tr m))) (fun m => cyc_target (pcs (tr m)))) with (k := k); auto.
  - intros m HP Hnm. rewrite (q_pc _ _ (tr_quiet m Hnm)). exact HP.
  - intros m _ _. destruct (cyc_target_dec (pcs (tr (S m)))); auto.
Qed.

(* a terminating discipline (Drain) does terminate: every in-flight item comes back and is consumed *)
Lemma drain_done : forall n k e, N.to_nat (sum (actual (tr k))) = n -> pcs (tr k) = Drain e ->
  exists j, (k <= j)%nat /\ pcs (tr j) = Done e.
Proof.
  induction n as [n IH] using lt_wf_ind. intros k e Hn Epc.
  destruct (next_move k) as (j & Hj & Hm & Hmin); [intros e' E; congruence|].
  assert (Hj' : pcs (tr j) = Drain e /\ actual (tr j) = actual (tr k)).
  { apply (along (fun i => pcs (tr i) = Drain e /\ actual (tr i) = actual (tr k)) k j Hj); [|auto].
    intros i Hi [H1 H2]. pose proof (tr_quiet i (Hmin i Hi)) as Hq. rewrite (q_pc _ _ Hq), (q_actual _ _ Hq). auto. }
  destruct Hj' as [Epj Eaj]. pose proof (tr_step j) as Hs.
  destruct Hm as [El|[El Ht]]; [|unfold tick_moves in Ht; rewrite Epj in Ht; discriminate].
  rewrite El in Hs. cbn [is_step] in Hs. unfold sched_step in Hs. rewrite Epj in Hs.
  destruct (N.eqb_spec (sum (actual (tr j))) 0) as [Ez|Hnz].
  - inversion Hs as [Hs']. exists (S j). split; [lia|]. rewrite <- Hs'. reflexivity.
  - destruct (fbq (tr j)) as [|q f] eqn:Ef; [discriminate|]. inversion Hs as [Hs'].
    pose proof (tr_inv j) as Hinv.
    assert (Hge : 1 <= get (actual (tr j)) q).
    { rewrite (i_acc _ Hinv). unfold cnt. rewrite Ef. cbn [count]. rewrite N.eqb_refl. lia. }
    pose proof (sum_dec (actual (tr j)) q (i_nda _ Hinv) Hge) as Hd.
    destruct (IH (N.to_nat (sum (actual (tr (S j)))))) with (k := S j) (e := e) as (j' & Hj' & Hd').
    + rewrite <- Hs'. proj. rewrite <- Hn, <- Eaj. lia.
    + reflexivity.
    + rewrite <- Hs'. reflexivity.
    + exists j'. split; [lia|exact Hd'].
Qed.

Theorem calc_infinitely_often_sec : forall i, exists j, (i <= j)%nat /\ (pcs (tr j) = Calc \/ pcs (tr j) = Done None).
Proof.
  intros i. destruct (reach_cycle_target i) as (j & Hj & Ht).
  destruct (pcs (tr j)) eqn:Epc; cbn [cyc_target] in Ht; try contradiction.
  - exists j. split; [exact Hj|left; exact Epc].
  - destruct e as [e|]; [exfalso; destruct (tr_noerr j e) as [Hx _]; apply Hx; exact Epc|].
    destruct (drain_done _ j None eq_refl Epc) as (j' & Hj' & Hd). exists j'. split; [lia|right; exact Hd].
  - destruct e as [e|]; [exfalso; destruct (tr_noerr j e) as [_ Hx]; apply Hx; exact Epc|].
    exists j. split; [exact Hj|right; exact Epc].
Qed.

(* ================= 4. one priority p with undelivered data ================= *)
(* from here on: the feedback limit is positive (it is DivideWithMin(H, 10, len(Inputs)) >= 1 in New()) *)
Hypothesis Hfl : (1 <= fblimit s0)%nat.
Lemma tr_fblimit i : (1 <= fblimit (tr i))%nat.
Proof. destruct (tr_static i) as (_ & _ & _ & _ & E & _). rewrite E. exact Hfl. Qed.
Section Target.
Variable p : N.
Hypothesis Hp : In p (prios s0).
Variable c0 : nat.

Definition cntd (s : st) : nat := length (of_prio p (delivered s)).
Definition Pend (s : st) : Prop := cntd s = c0 /\ (c0 < length (written s p))%nat.
Definition Gl (m : nat) : Prop := (c0 < cntd (tr m))%nat.

Lemma of_prio_app l d : of_prio p (l ++ d) = of_prio p l ++ of_prio p d.
Proof. unfold of_prio. rewrite filter_app, map_app. reflexivity. Qed.

Lemma cntd_step m : (cntd (tr m) <= cntd (tr (S m)))%nat.
Proof.
  destruct (step_mono _ _ _ _ (tr_step m)) as [[d Hd] _]. unfold cntd. rewrite Hd, of_prio_app, app_length. lia.
Qed.
Lemma cntd_mono k j : (k <= j)%nat -> (cntd (tr k) <= cntd (tr j))%nat.
Proof.
  intros Hle. apply (along (fun i => (cntd (tr k) <= cntd (tr i))%nat) k j Hle); [|lia].
  intros m _ Hm. pose proof (cntd_step m). lia.
Qed.
Lemma written_step m : (length (written (tr m) p) <= length (written (tr (S m)) p))%nat.
Proof.
  destruct (step_mono _ _ _ _ (tr_step m)) as [_ Hw]. destruct (Hw p) as [w E]. rewrite E, app_length. lia.
Qed.

Lemma pend_next m : Pend (tr m) -> Gl (S m) \/ Pend (tr (S m)).
Proof.
  intros [Hc Hw]. pose proof (cntd_step m) as H1. pose proof (written_step m) as H2. unfold Gl, Pend.
  destruct (Nat.eq_dec (cntd (tr (S m))) c0) as [E|E]; [right; split; [exact E|lia]|left; lia].
Qed.
Lemma pend_quiet m : Pend (tr m) -> ~ moves m -> Pend (tr (S m)).
Proof.
  intros HP Hnm. destruct (pend_next m HP) as [Hg|HP']; [|exact HP'].
  unfold Gl, cntd in Hg. rewrite (q_delivered _ _ (tr_quiet m Hnm)) in Hg. destruct HP as [Hc _]. unfold cntd in Hc. lia.
Qed.

(* pending: some item of p is in the input or in the scheduler's hand *)
Lemma pend_pending s : Inv2 s -> Pend s -> limbo s p ++ inq s p <> [].
Proof.
  intros Hi2 [Hc Hw] E. pose proof (j_split s Hi2 p) as Hs. rewrite E, app_nil_r in Hs. unfold cntd in Hc. rewrite Hs in Hc. lia.
Qed.
Lemma pend_inq s : Inv2 s -> Pend s -> (forall ph x r pr, pcs s <> Send ph p x r pr) -> inq s p <> [] /\ drained s p = false.
Proof.
  intros Hi2 HP Hns. pose proof (pend_pending s Hi2 HP) as Hne.
  assert (Hl : limbo s p = []).
  { unfold limbo. destruct (pcs s) eqn:Epc; auto. destruct (N.eqb_spec p0 p) as [->|]; auto. exfalso. eapply Hns; reflexivity. }
  rewrite Hl in Hne. cbn [app] in Hne. split; [exact Hne|].
  destruct (drained s p) eqn:Ed; [|reflexivity]. destruct (j_drained s Hi2 p Ed) as [_ Hi]. contradiction.
Qed.
Lemma pend_running m : Pend (tr m) -> pcs (tr m) = Calc \/ ~ cyc_target (pcs (tr m)).
Proof.
  intros HP. destruct (pcs (tr m)) eqn:Epc; cbn [cyc_target]; auto; exfalso.
  - destruct e as [e|]; [destruct (tr_noerr m e) as [Hx _]; apply Hx; exact Epc|].
    destruct (pend_inq (tr m) (tr_inv2 m) HP) as [Hne Hd]; [intros; congruence|].
    rewrite (j_alldrained _ (tr_inv2 m) (or_introl Epc) p) in Hd; [discriminate|rewrite tr_prios; exact Hp].
  - destruct e as [e|]; [destruct (tr_noerr m e) as [_ Hx]; apply Hx; exact Epc|].
    destruct (pend_inq (tr m) (tr_inv2 m) HP) as [Hne Hd]; [intros; congruence|].
    rewrite (j_alldrained _ (tr_inv2 m) (or_intror Epc) p) in Hd; [discriminate|rewrite tr_prios; exact Hp].
Qed.

(* while nothing of p is delivered, the number of in-flight items of p does not grow *)
Lemma step_actual_p s l s' : is_step dv s l s' -> cntd s' = cntd s -> get (actual s') p <= get (actual s) p.
Proof.
  intros Hs Hc. destruct (is_move_dec s l) as [Hm|Hm]; [|rewrite (q_actual _ _ (quiet_step _ _ _ _ Hs Hm)); lia].
  destruct Hm as [->|[-> Ht]]; cbn [is_step] in Hs.
  - unfold sched_step in Hs. destruct (pcs s) eqn:Epc.
    + inversion Hs; subst s'. destruct (step_calc_chan dv s) as (_ & _ & _ & E & _). rewrite E. lia.
    + destruct (fbq s); [discriminate|]. inversion Hs; subst s'. proj. rewrite get_dec. destruct (N.eqb_spec p n) as [<-|_]; lia.
    + destruct rest; inversion Hs; subst s'; proj; lia.
    + destruct_matches Hs; try discriminate; inversion Hs; subst s'; proj; lia.
    + destruct (N.of_nat (length (outq s)) <? outcap s); [|discriminate]. inversion Hs; subst s'. proj.
      rewrite get_inc. destruct (N.eqb_spec p p0) as [<-|Hne]; [|lia]. exfalso. revert Hc. unfold cntd; proj.
      rewrite of_prio_snoc, N.eqb_refl, app_length. cbn [length]. lia.
    + inversion Hs; subst s'. destruct (step_recalc_chan dv s proc) as (_ & _ & _ & E & _). rewrite E. lia.
    + destruct_matches Hs; try discriminate; inversion Hs; subst s'; proj; lia.
    + discriminate.
    + destruct k as [|k]; [|destruct (fbq s)]; inversion Hs; subst s'; proj; try lia.
      rewrite get_dec. destruct (N.eqb_spec p n) as [<-|_]; lia.
    + destruct (sum (actual s) =? 0); [|destruct (fbq s); [discriminate|]]; inversion Hs; subst s'; proj; try lia.
      rewrite get_dec. destruct (N.eqb_spec p n) as [<-|_]; lia.
    + discriminate.
  - destruct (tick_move_step _ _ Hs Ht) as [[_ ->]|(ph & q & r & proc & intr & _ & _ & ->)]; proj; lia.
Qed.

Lemma actual_p_mono k j : (k <= j)%nat -> cntd (tr j) = cntd (tr k) -> get (actual (tr j)) p <= get (actual (tr k)) p.
Proof.
  intros Hle Hc.
  apply (along (fun i => (i <= j)%nat -> get (actual (tr i)) p <= get (actual (tr k)) p) k j Hle); [|intros; lia|lia].
  intros m Hm IH HS. specialize (IH ltac:(lia)).
  pose proof (cntd_mono k m ltac:(lia)). pose proof (cntd_step m). pose proof (cntd_mono (S m) j ltac:(lia)).
  pose proof (step_actual_p _ _ _ (tr_step m) ltac:(lia)). lia.
Qed.

Lemma is_calc_dec (c : pc) : {c = Calc} + {c <> Calc}.
Proof. destruct c; auto; right; discriminate. Qed.
Lemma Gl_dec m : {Gl m} + {~ Gl m}.
Proof. unfold Gl. destruct (lt_dec c0 (cntd (tr m))); auto. Qed.

Lemma written_mono k j : (k <= j)%nat -> (length (written (tr k) p) <= length (written (tr j) p))%nat.
Proof.
  intros Hle. apply (along (fun i => (length (written (tr k) p) <= length (written (tr i) p))%nat) k j Hle); [|lia].
  intros m _ Hm. pose proof (written_step m). lia.
Qed.

Lemma pend_later k j : (k <= j)%nat -> Pend (tr k) -> Gl j \/ (Pend (tr j) /\ get (actual (tr j)) p <= get (actual (tr k)) p).
Proof.
  intros Hle [Hc Hw]. destruct (Gl_dec j) as [Hg|Hg]; [left; exact Hg|right].
  pose proof (cntd_mono k j Hle) as H1. pose proof (written_mono k j Hle) as H2. unfold Gl in Hg.
  assert (E : cntd (tr j) = c0) by lia. split; [split; [exact E|lia]|]. apply actual_p_mono; [exact Hle|lia].
Qed.

(* --- from anywhere back to Calc *)
Lemma pend_reach_calc k : Pend (tr k) -> exists j, (k <= j)%nat /\ (Gl j \/ (Pend (tr j) /\ pcs (tr j) = Calc)).
Proof.
  intros HP. destruct (is_calc_dec (pcs (tr k))) as [Ec|Hnc]; [exists k; split; [lia|right; auto]|].
  apply (by_moves (fun m => Pend (tr m) /\ pcs (tr m) <> Calc)) with (k := k); [| | |auto].
  - intros m [HPm Hn]. destruct (pend_running m HPm); [contradiction|assumption].
  - intros m [HPm Hn] Hnm. split; [apply pend_quiet; assumption|]. rewrite (q_pc _ _ (tr_quiet m Hnm)). exact Hn.
  - intros m [HPm Hn] _. destruct (pend_next m HPm) as [Hg|HP']; [left; left; exact Hg|].
    destruct (is_calc_dec (pcs (tr (S m)))); [left; right; auto|right; auto].
Qed.

(* --- effect of a move on the channels *)
Lemma move_chan s l s' : is_step dv s l s' -> is_move s l ->
  held s' = held s /\ (outq s' = outq s \/ exists q x, outq s' = outq s ++ [(q, x)]).
Proof.
  intros Hs [->|[-> Ht]]; cbn [is_step] in Hs.
  - unfold sched_step in Hs. destruct (pcs s) eqn:Epc.
    + inversion Hs; subst s'. destruct (step_calc_chan dv s) as (E1 & E2 & _). rewrite E1, E2. auto.
    + destruct_matches Hs; try discriminate; inversion Hs; subst s'; proj; auto.
    + destruct_matches Hs; try discriminate; inversion Hs; subst s'; proj; auto.
    + destruct_matches Hs; try discriminate; inversion Hs; subst s'; proj; auto.
    + destruct_matches Hs; try discriminate; inversion Hs; subst s'; proj. split; [reflexivity|right; eauto].
    + inversion Hs; subst s'. destruct (step_recalc_chan dv s proc) as (E1 & E2 & _). rewrite E1, E2. auto.
    + destruct_matches Hs; try discriminate; inversion Hs; subst s'; proj; auto.
    + discriminate.
    + destruct_matches Hs; try discriminate; inversion Hs; subst s'; proj; auto.
    + destruct_matches Hs; try discriminate; inversion Hs; subst s'; proj; auto.
    + discriminate.
  - destruct (tick_move_step _ _ Hs Ht) as [[_ ->]|(ph & q & r & proc & intr & _ & _ & ->)]; proj; auto.
Qed.

Lemma move_fbq s l s' : is_step dv s l s' -> is_move s l ->
  (exists q r c, fbq s = q :: r /\ s' = pop_fb s q r c) \/ fbq s' = fbq s.
Proof.
  intros Hs [->|[-> Ht]]; cbn [is_step] in Hs.
  - unfold sched_step in Hs. destruct (pcs s) eqn:Epc.
    + inversion Hs; subst s'. destruct (step_calc_chan dv s) as (_ & _ & E & _). right; exact E.
    + destruct_matches Hs; try discriminate; inversion Hs; subst s'; proj; first [right; reflexivity|right; congruence|left; eauto 10].
    + destruct_matches Hs; try discriminate; inversion Hs; subst s'; proj; first [right; reflexivity|right; congruence|left; eauto 10].
    + destruct_matches Hs; try discriminate; inversion Hs; subst s'; proj; first [right; reflexivity|right; congruence|left; eauto 10].
    + destruct_matches Hs; try discriminate; inversion Hs; subst s'; proj; first [right; reflexivity|right; congruence|left; eauto 10].
    + inversion Hs; subst s'. destruct (step_recalc_chan dv s proc) as (_ & _ & E & _). right; exact E.
    + destruct_matches Hs; try discriminate; inversion Hs; subst s'; proj; first [right; reflexivity|right; congruence|left; eauto 10].
    + discriminate.
    + destruct_matches Hs; try discriminate; inversion Hs; subst s'; proj; first [right; reflexivity|right; congruence|left; eauto 10].
    + destruct_matches Hs; try discriminate; inversion Hs; subst s'; proj; first [right; reflexivity|right; congruence|left; eauto 10].
    + discriminate.
  - right. destruct (tick_move_step _ _ Hs Ht) as [[_ ->]|(ph & q & r & proc & intr & _ & _ & ->)]; reflexivity.
Qed.

Lemma cons_neq_self {A} (x : A) l : l <> x :: l.
Proof. intros E. apply (f_equal (@length A)) in E. cbn [length] in E. lia. Qed.

(* a move that is not a pop keeps the scheduler on its way to the next pop (if a release is pending) *)
Lemma move_pre_pop s l s' : is_step dv s l s' -> is_move s l -> pre_pop s -> fbq s' = fbq s -> fbq s <> [] ->
  (1 <= fblimit s)%nat -> pre_pop s'.
Proof.
  intros Hs Hm Hpp Hf Hne Hk. unfold pre_pop in *. destruct Hm as [->|[-> Ht]]; cbn [is_step] in Hs.
  - unfold sched_step in Hs. destruct (pcs s) eqn:Epc.
    + contradiction.
    + destruct (fbq s) as [|q r] eqn:Ef; [discriminate|]. inversion Hs; subst s'. revert Hf. proj. intros Hf. exfalso. eapply cons_neq_self; eauto.
    + destruct_matches Hs; try discriminate; inversion Hs; subst s'; proj; auto.
    + destruct_matches Hs; try discriminate; inversion Hs; subst s'; proj; auto.
    + destruct_matches Hs; try discriminate; inversion Hs; subst s'; proj; auto.
    + inversion Hs; subst s'. destruct (step_recalc_shape dv s proc) as [_ [E|[E|[e E]]]]; rewrite E; auto.
    + destruct_matches Hs; try discriminate; inversion Hs; subst s'; proj; auto.
    + discriminate.
    + destruct k as [|k]; [lia|]. destruct (fbq s) as [|q r] eqn:Ef; [contradiction|]. inversion Hs; subst s'. revert Hf. proj.
      intros Hf. exfalso. eapply cons_neq_self; eauto.
    + destruct (sum (actual s) =? 0); [inversion Hs; subst s'; proj; auto|].
      destruct (fbq s) as [|q r] eqn:Ef; [contradiction|]. inversion Hs; subst s'. revert Hf. proj.
      intros Hf. exfalso. eapply cons_neq_self; eauto.
    + discriminate.
  - destruct (tick_move_step _ _ Hs Ht) as [[_ ->]|(ph & q & r & proc & intr & _ & _ & ->)]; proj; auto. destruct intr; auto.
Qed.

(* --- position of the first entry of p in a FIFO *)
Fixpoint fidx (l : list N) : nat := match l with [] => 0%nat | q :: r => if N.eqb q p then 0%nat else S (fidx r) end.
Lemma fidx_app l l' : In p l -> fidx (l ++ l') = fidx l.
Proof.
  induction l as [|q r IH]; cbn [fidx app]; intros Hin; [destruct Hin|].
  destruct (N.eqb_spec q p) as [E|Hne]; [reflexivity|]. destruct Hin as [E'|Hin]; [contradiction|]. rewrite IH; auto.
Qed.
Lemma count_pos_in l : 1 <= count p l -> In p l.
Proof.
  induction l as [|q r IH]; cbn [count]; intros Hc; [lia|].
  destruct (N.eqb_spec p q) as [E|Hne]; [left; auto|right; apply IH; lia].
Qed.
Lemma in_count_pos l : In p l -> 1 <= count p l.
Proof.
  induction l as [|q r IH]; cbn [count]; intros Hin; [destruct Hin|].
  destruct (N.eqb_spec p q) as [E|Hne]; [lia|]. destruct Hin as [E'|Hin]; [congruence|]. specialize (IH Hin). lia.
Qed.

Lemma pop_effect s q r c n a : Inv s -> fbq s = q :: r -> In p (fbq s) -> fidx (fbq s) = n -> get (actual s) p <= a ->
  get (actual (pop_fb s q r c)) p < a \/ (In p r /\ (fidx r < n)%nat).
Proof.
  intros Hinv Ef Hin Hn Ha. proj. rewrite Ef in Hin, Hn. cbn [fidx] in Hn.
  destruct (N.eqb_spec q p) as [->|Hne].
  - left. rewrite get_dec, N.eqb_refl.
    assert (1 <= get (actual s) p); [|lia].
    rewrite (i_acc s Hinv). unfold cnt. rewrite Ef. cbn [count]. rewrite N.eqb_refl. lia.
  - right. destruct Hin as [E|Hin]; [contradiction|]. split; [exact Hin|lia].
Qed.

Lemma remove1_other q l h : remove1 q l = Some h -> q <> p -> In p (map fst l) -> In p (map fst h).
Proof.
  revert h. induction l as [|[a x] r IH]; cbn [remove1 map fst]; intros h Hr Hne Hin; [discriminate|].
  destruct (N.eqb_spec q a) as [->|Hqa].
  - inversion Hr; subst h. destruct Hin as [E|Hin]; [congruence|exact Hin].
  - destruct (remove1 q r) as [h'|] eqn:E; cbn [option_map] in Hr; [|discriminate]. inversion Hr; subst h. cbn [map fst].
    destruct Hin as [E'|Hin]; [left; exact E'|right; apply (IH h' eq_refl Hne Hin)].
Qed.

Lemma held_keep s l s' : is_step dv s l s' -> l <> LEnv (Release p) -> In p (map fst (held s)) -> In p (map fst (held s')).
Proof.
  intros Hs Hl Hin. destruct (is_move_dec s l) as [Hm|Hm].
  - destruct (move_chan _ _ _ Hs Hm) as [E _]. rewrite E. exact Hin.
  - destruct (quiet_chan _ _ _ _ Hs Hm) as [(_ & px & q & _ & _ & E & _)|[(q & h & El & Er & E & _)|(_ & E & _)]].
    + rewrite E. right. exact Hin.
    + rewrite E. eapply remove1_other; eauto. intros ->. contradiction.
    + rewrite E. exact Hin.
Qed.

(* --- a release of p that waits in the feedback channel is eventually consumed *)
Definition FB (n : nat) (a : N) (m : nat) : Prop :=
  Pend (tr m) /\ In p (fbq (tr m)) /\ fidx (fbq (tr m)) = n /\ get (actual (tr m)) p <= a.
Definition FBT (n : nat) (a : N) (m : nat) : Prop :=
  Gl m \/ get (actual (tr m)) p < a \/ (Pend (tr m) /\ In p (fbq (tr m)) /\ (fidx (fbq (tr m)) < n)%nat).

Lemma FB_quiet n a m : FB n a m -> ~ moves m -> FB n a (S m).
Proof.
  intros (HP & Hin & Hn & Ha) Hnm. pose proof (tr_quiet m Hnm) as Hq. destruct (q_fbq _ _ Hq) as [l El].
  split; [apply pend_quiet; assumption|]. rewrite El, (q_actual _ _ Hq). split; [apply in_or_app; left; exact Hin|].
  split; [rewrite fidx_app; assumption|exact Ha].
Qed.

Lemma FB_move n a m : FB n a m -> moves m -> FBT n a (S m) \/ (FB n a (S m) /\ fbq (tr (S m)) = fbq (tr m)).
Proof.
  intros (HP & Hin & Hn & Ha) Hmv. destruct (pend_next m HP) as [Hg|HP']; [left; left; exact Hg|].
  assert (Ha' : get (actual (tr (S m))) p <= a).
  { pose proof (step_actual_p _ _ _ (tr_step m)) as Hx. destruct HP as [E1 _]. destruct HP' as [E2 _]. specialize (Hx ltac:(lia)). lia. }
  destruct (move_fbq _ _ _ (tr_step m) Hmv) as [(q & r & c & Ef & Es)|Ef].
  - left. destruct (pop_effect (tr m) q r c n a (tr_inv m) Ef Hin Hn Ha) as [Hlt|[Hin' Hlt]].
    + right; left. rewrite Es. exact Hlt.
    + right; right. rewrite Es. proj. auto.
  - right. split; [|exact Ef]. split; [exact HP'|]. rewrite Ef. auto.
Qed.

Lemma fb_reach_calc n a k : FB n a k -> exists j, (k <= j)%nat /\ (FBT n a j \/ (FB n a j /\ pcs (tr j) = Calc)).
Proof.
  intros HF. destruct (is_calc_dec (pcs (tr k))) as [Ec|Hnc]; [exists k; split; [lia|right; auto]|].
  apply (by_moves (fun m => FB n a m /\ pcs (tr m) <> Calc)) with (k := k); [| | |auto].
  - intros m [(HPm & _) Hn]. destruct (pend_running m HPm); [contradiction|assumption].
  - intros m [HFm Hn] Hnm. split; [apply FB_quiet; assumption|]. rewrite (q_pc _ _ (tr_quiet m Hnm)). exact Hn.
  - intros m [HFm Hn] Hmv. destruct (FB_move n a m HFm Hmv) as [HT|[HF' _]]; [left; left; exact HT|].
    destruct (is_calc_dec (pcs (tr (S m)))); [left; right; auto|right; auto].
Qed.

Lemma fb_from_calc n a k : FB n a k -> pcs (tr k) = Calc -> exists j, (k <= j)%nat /\ FBT n a j.
Proof.
  intros HF Epc. destruct (next_move k) as (j & Hj & Hm & Hmin); [intros e E; congruence|].
  assert (Hj' : FB n a j /\ pcs (tr j) = Calc).
  { apply (along (fun i => FB n a i /\ pcs (tr i) = Calc) k j Hj); [|auto].
    intros i Hi [H1 H2]. split; [apply FB_quiet; [exact H1|apply Hmin; exact Hi]|].
    rewrite (q_pc _ _ (tr_quiet i (Hmin i Hi))). exact H2. }
  destruct Hj' as [HFj Epj].
  destruct (FB_move n a j HFj Hm) as [HT|[HF' Ef]]; [exists (S j); split; [lia|exact HT]|].
  assert (Hpp : pre_pop (tr (S j))).
  { pose proof (tr_step j) as Hs. destruct Hm as [El|[El Ht]]; [|unfold tick_moves in Ht; rewrite Epj in Ht; discriminate].
    rewrite El in Hs. cbn [is_step] in Hs. unfold sched_step in Hs. rewrite Epj in Hs. inversion Hs as [Hs'].
    unfold pre_pop. destruct (step_calc_shape dv (tr j)) as [_ [E|[E|[e E]]]]; rewrite E; auto. }
  destruct (by_moves (fun m => FB n a m /\ pre_pop (tr m)) (FBT n a)) with (k := S j) as (j' & Hj' & HT); [| | |auto|].
  - intros m [(HPm & _) Hpp']. destruct (pend_running m HPm) as [E|Hn]; [|exact Hn].
    unfold pre_pop in Hpp'. rewrite E in Hpp'. contradiction.
  - intros m [HFm Hpp'] Hnm. split; [apply FB_quiet; assumption|]. pose proof (tr_quiet m Hnm) as Hq.
    unfold pre_pop in *. rewrite (q_pc _ _ Hq). destruct (q_static _ _ Hq) as (_ & _ & _ & _ & Efl & _). rewrite Efl. exact Hpp'.
  - intros m [HFm Hpp'] Hmv. destruct (FB_move n a m HFm Hmv) as [HT|[HF'' Ef']]; [left; exact HT|right].
    split; [exact HF''|]. apply (move_pre_pop _ _ _ (tr_step m) Hmv Hpp' Ef').
    + destruct HFm as (_ & Hin & _). intros E. rewrite E in Hin. destruct Hin.
    + apply tr_fblimit.
  - exists j'. split; [lia|exact HT].
Qed.

Lemma flow_fbq : forall n a k, FB n a k -> exists j, (k <= j)%nat /\ (Gl j \/ get (actual (tr j)) p < a).
Proof.
  induction n as [n IH] using lt_wf_ind. intros a k HF.
  assert (HT : exists j, (k <= j)%nat /\ FBT n a j).
  { destruct (fb_reach_calc n a k HF) as (j & Hj & [HT|[HF' Ec]]); [exists j; auto|].
    destruct (fb_from_calc n a j HF' Ec) as (j' & Hj' & HT). exists j'. split; [lia|exact HT]. }
  destruct HT as (j & Hj & [Hg|[Hlt|(HP' & Hin' & Hlt)]]); [exists j; auto|exists j; auto|].
  destruct HF as (HP & _ & _ & Ha).
  assert (Ha' : get (actual (tr j)) p <= a).
  { pose proof (actual_p_mono k j Hj) as Hx. destruct HP as [E1 _]. destruct HP' as [E2 _]. specialize (Hx ltac:(lia)). lia. }
  destruct (IH (fidx (fbq (tr j))) Hlt a j) as (j' & Hj' & Hr); [repeat split; auto; apply HP'|].
  exists j'. split; [lia|exact Hr].
Qed.

(* --- an item of p held by a handler is eventually released *)
Lemma flow_held k : In p (map fst (held (tr k))) -> exists j, (k <= j)%nat /\ In p (fbq (tr j)).
Proof.
  intros Hin. pose proof Hin as Hin0. apply in_map_iff in Hin. destruct Hin as ([q x] & Eq & Hin). cbn [fst] in Eq. subst q.
  destruct (Frel k p x Hin) as (j & Hj & Hl).
  destruct (first_from (fun m => lb m = LEnv (Release p)) (fun m => label_eq_dec _ _) k j Hj Hl) as (m & Hm & HL & Hmin).
  assert (Hinm : In p (map fst (held (tr m)))).
  { apply (along (fun i => In p (map fst (held (tr i)))) k m); [lia| |exact Hin0].
    intros i Hi Hh. eapply held_keep; [apply tr_step|apply Hmin; exact Hi|exact Hh]. }
  exists (S m). split; [lia|]. pose proof (tr_step m) as Hs. rewrite HL in Hs. cbn [is_step env_step] in Hs.
  destruct (remove1 p (held (tr m))); [|discriminate]. inversion Hs as [Hs']. proj. apply in_or_app. right. left. reflexivity.
Qed.

(* --- an item of p in the output is eventually taken *)
Lemma outq_keep s l s' : is_step dv s l s' -> l <> LEnv Take -> In p (map fst (outq s)) ->
  In p (map fst (outq s')) /\ fidx (map fst (outq s')) = fidx (map fst (outq s)).
Proof.
  intros Hs Hl Hin. destruct (is_move_dec s l) as [Hm|Hm].
  - destruct (move_chan _ _ _ Hs Hm) as [_ [E|(q & x & E)]]; rewrite E; [auto|].
    rewrite map_app. split; [apply in_or_app; left; exact Hin|apply fidx_app; exact Hin].
  - destruct (quiet_chan _ _ _ _ Hs Hm) as [(E & _)|[(q & h & _ & _ & _ & _ & E)|(E & _)]]; [contradiction|rewrite E; auto|rewrite E; auto].
Qed.

Lemma flow_outq : forall n k, In p (map fst (outq (tr k))) -> fidx (map fst (outq (tr k))) = n ->
  exists j, (k <= j)%nat /\ In p (map fst (held (tr j))).
Proof.
  induction n as [n IH] using lt_wf_ind. intros k Hin Hn.
  assert (Hne : outq (tr k) <> []) by (intros E; rewrite E in Hin; destruct Hin).
  destruct (Ftake k Hne) as (j & Hj & Hl).
  destruct (first_from (fun m => lb m = LEnv Take) (fun m => label_eq_dec _ _) k j Hj Hl) as (m & Hm & HL & Hmin).
  assert (Hm' : In p (map fst (outq (tr m))) /\ fidx (map fst (outq (tr m))) = n).
  { apply (along (fun i => In p (map fst (outq (tr i))) /\ fidx (map fst (outq (tr i))) = n) k m); [lia| |auto].
    intros i Hi [H1 H2]. destruct (outq_keep _ _ _ (tr_step i) (Hmin i Hi) H1) as [H3 H4]. split; [exact H3|congruence]. }
  destruct Hm' as [Hinm Hnm]. pose proof (tr_step m) as Hs. rewrite HL in Hs. cbn [is_step env_step] in Hs.
  destruct (outq (tr m)) as [|[q x] o] eqn:Eo; [discriminate|]. inversion Hs as [Hs']. cbn [map fst fidx] in Hinm, Hnm.
  destruct (N.eqb_spec q p) as [->|Hne'].
  - exists (S m). split; [lia|]. rewrite <- Hs'. proj. left. reflexivity.
  - destruct Hinm as [E|Hinm]; [contradiction|].
    destruct (IH (fidx (map fst o)) ltac:(lia) (S m)) as (j' & Hj' & Hr).
    + rewrite <- Hs'. proj. exact Hinm.
    + rewrite <- Hs'. reflexivity.
    + exists j'. split; [lia|exact Hr].
Qed.

(* --- hence, while p has something in flight and nothing of p is delivered, its in-flight count eventually drops *)
Lemma actual_decreases k : Pend (tr k) -> 1 <= get (actual (tr k)) p ->
  exists j, (k <= j)%nat /\ (Gl j \/ get (actual (tr j)) p < get (actual (tr k)) p).
Proof.
  intros HP Hge. set (a := get (actual (tr k)) p) in *.
  assert (Hfb : forall k', (k <= k')%nat -> In p (fbq (tr k')) -> exists j, (k' <= j)%nat /\ (Gl j \/ get (actual (tr j)) p < a)).
  { intros k' Hk' Hin. destruct (pend_later k k' Hk' HP) as [Hg|[HP' Ha']]; [exists k'; auto|].
    apply (flow_fbq (fidx (fbq (tr k'))) a k'). repeat split; auto; apply HP'. }
  assert (Hhd : forall k', (k <= k')%nat -> In p (map fst (held (tr k'))) -> exists j, (k' <= j)%nat /\ (Gl j \/ get (actual (tr j)) p < a)).
  { intros k' Hk' Hin. destruct (flow_held k' Hin) as (j & Hj & Hin').
    destruct (Hfb j ltac:(lia) Hin') as (j' & Hj' & Hr). exists j'. split; [lia|exact Hr]. }
  pose proof (i_acc _ (tr_inv k) p) as Hacc. fold a in Hacc. unfold cnt in Hacc.
  destruct (N.eq_dec (count p (fbq (tr k))) 0) as [E1|E1]; [|apply (Hfb k (le_n _)); apply count_pos_in; lia].
  destruct (N.eq_dec (count p (map fst (held (tr k)))) 0) as [E2|E2]; [|apply (Hhd k (le_n _)); apply count_pos_in; lia].
  assert (Hin : In p (map fst (outq (tr k)))) by (apply count_pos_in; lia).
  destruct (flow_outq _ k Hin eq_refl) as (j & Hj & Hin'). destruct (Hhd j Hj Hin') as (j' & Hj' & Hr). exists j'. split; [lia|exact Hr].
Qed.

(* --- so the scheduler is eventually at Calc with p under its share *)
Lemma reach_uncrowded_calc : forall n k, N.to_nat (get (actual (tr k)) p) = n -> Pend (tr k) ->
  exists j, (k <= j)%nat /\ (Gl j \/ (Pend (tr j) /\ pcs (tr j) = Calc /\ get (actual (tr j)) p < get (strategic (tr j)) p)).
Proof.
  induction n as [n IH] using lt_wf_ind. intros k Hn HP.
  destruct (N.ltb_spec (get (actual (tr k)) p) (get (strategic (tr k)) p)) as [Hlt|Hge].
  - destruct (pend_reach_calc k HP) as (j & Hj & [Hg|[HP' Ec]]); [exists j; auto|].
    exists j. split; [exact Hj|right]. split; [exact HP'|]. split; [exact Ec|].
    pose proof (actual_p_mono k j Hj) as Hx. destruct HP as [E1 _]. destruct HP' as [E2 _]. specialize (Hx ltac:(lia)).
    rewrite tr_strategic. rewrite tr_strategic in Hlt. lia.
  - pose proof (sh_pos _ (tr_shares k) p) as Hpos. rewrite tr_prios in Hpos. specialize (Hpos Hp).
    destruct (actual_decreases k HP ltac:(lia)) as (j & Hj & [Hg|Hlt]); [exists j; auto|].
    destruct (pend_later k j Hj HP) as [Hg|[HP' _]]; [exists j; auto|].
    destruct (IH (N.to_nat (get (actual (tr j)) p)) ltac:(lia) j eq_refl HP') as (j' & Hj' & Hr). exists j'. split; [lia|exact Hr].
Qed.

(* ================= 5. a round in which p has an allowance delivers an item of p ================= *)
Definition RP (s : st) : Prop :=
  1 <= get (tactic s) p /\
  match pcs s with
  | Prio P1 rest _ => In p rest
  | Read P1 q rest _ _ => q = p \/ In p rest
  | Send P1 q _ rest _ => q = p \/ In p rest
  | _ => False
  end.

Lemma RP_move s l s' : Inv2 s -> Pend s -> is_step dv s l s' -> is_move s l -> RP s -> cntd s' = cntd s -> RP s'.
Proof.
  intros Hi2 HP Hs Hm [Ht Hpc] Hc. unfold RP.
  destruct Hm as [->|[-> Htk]]; cbn [is_step] in Hs.
  - unfold sched_step in Hs. destruct (pcs s) eqn:Epc; try contradiction.
    + (* Prio *) destruct ph; [|contradiction]. destruct rest as [|q r]; [destruct Hpc|].
      destruct (pend_inq s Hi2 HP) as [Hne Hdr]; [intros; congruence|].
      inversion Hs; subst s'; proj. split; [exact Ht|].
      destruct (drained s q) eqn:Ed.
      * destruct Hpc as [->|Hin]; [congruence|exact Hin].
      * destruct Hpc as [->|Hin]; auto.
    + (* Read *) destruct ph; [|contradiction].
      destruct (pend_inq s Hi2 HP) as [Hne Hdr]; [intros; congruence|].
      assert (Hskip : p0 <> p -> In p rest) by (intros Hx; destruct Hpc as [E|Hin]; [contradiction|exact Hin]).
      destruct (N.eqb_spec (get (tactic s) p0) 0) as [Ez|Hnz].
      { inversion Hs; subst s'; proj. split; [exact Ht|]. apply Hskip. intros ->. lia. }
      destruct (inq s p0) as [|x qq] eqn:Eq.
      * assert (Hne' : p0 <> p) by (intros ->; contradiction).
        destruct (closed s p0); [|destruct (buffered s p0); [|discriminate]]; inversion Hs; subst s'; proj; split; auto.
      * inversion Hs; subst s'; proj. split; [exact Ht|exact Hpc].
    + (* Send *) destruct ph; [|contradiction].
      destruct (N.of_nat (length (outq s)) <? outcap s); [|discriminate]. inversion Hs; subst s'. revert Hc. unfold cntd. proj.
      rewrite of_prio_snoc, app_length. intros Hc.
      destruct (N.eqb_spec p0 p) as [->|Hne]; [cbn [length] in Hc; lia|].
      split; [|exact Hpc]. rewrite get_dec. destruct (N.eqb_spec p p0); [congruence|exact Ht].
  - destruct (tick_move_step _ _ Hs Htk) as [[Epc ->]|(ph & q & r & proc & intr & Epc & Hb & ->)]; rewrite Epc in Hpc; [contradiction|].
    destruct ph; [|contradiction]. destruct (pend_inq s Hi2 HP) as [Hne Hdr]; [intros; congruence|].
    assert (Hqp : q <> p).
    { intros ->. unfold read_blocked in Hb. destruct (inq s p); [contradiction|]. rewrite !andb_false_r in Hb. discriminate. }
    proj. split; [exact Ht|]. destruct Hpc as [E|Hin]; [contradiction|]. destruct intr; auto.
Qed.

Lemma round_delivers k : Pend (tr k) -> RP (tr k) -> exists j, (k <= j)%nat /\ Gl j.
Proof.
  intros HP HR. apply (by_moves (fun m => Pend (tr m) /\ RP (tr m)) Gl) with (k := k); [| | |auto].
  - intros m [_ [_ Hpc]] Ht. destruct (pcs (tr m)); cbn [cyc_target] in Ht; auto.
  - intros m [HPm HRm] Hnm. split; [apply pend_quiet; assumption|]. pose proof (tr_quiet m Hnm) as Hq.
    unfold RP. rewrite (q_pc _ _ Hq), (q_tactic _ _ Hq). exact HRm.
  - intros m [HPm HRm] Hmv. destruct (pend_next m HPm) as [Hg|HP']; [left; exact Hg|right]. split; [exact HP'|].
    apply (RP_move _ _ _ (tr_inv2 m) HPm (tr_step m) Hmv HRm). destruct HPm as [E1 _]. destruct HP' as [E2 _]. lia.
Qed.

(* calcTactic with p under its share: either the scheduler waits for one more release, or the round starts and p has an allowance *)
Lemma step_calc_cases s : Inv s -> In p (prios s) -> get (actual s) p < get (strategic s) p ->
  (forall e, pcs (step_calc dv s) <> Drain (Some e)) ->
  pcs (step_calc dv s) = WaitFb \/ (pcs (step_calc dv s) = Prio P1 (prios s) 0 /\ 1 <= get (tactic (step_calc dv s)) p).
Proof.
  intros Hinv Hin Hlt Hne.
  assert (Hbase : forall v, step_calc dv s = calc_base dv s v ->
            pcs (step_calc dv s) = WaitFb \/ (pcs (step_calc dv s) = Prio P1 (prios s) 0 /\ 1 <= get (tactic (step_calc dv s)) p)).
  { intros v E. rewrite E in *. unfold calc_base in *.
    destruct (safe_divide (dv (ncalls s)) (uncrowded s) v (reset (tactic s))) as [t|e] eqn:Es.
    - revert Hne. proj. destruct (filled t (uncrowded s)) eqn:Ef; intros Hne; [right|left; reflexivity]. split; [reflexivity|].
      unfold filled in Ef. rewrite forallb_forall in Ef. specialize (Ef p).
      assert (Hu : In p (uncrowded s)). { unfold uncrowded. apply filter_In. split; [exact Hin|]. apply N.ltb_lt. exact Hlt. }
      specialize (Ef Hu). apply negb_true_iff in Ef. apply N.eqb_neq in Ef. lia.
    - exfalso. apply (Hne e). reflexivity. }
  unfold step_calc in *. destruct (H s - sum (actual s) =? 0); [left; reflexivity|].
  destruct (add_up (prios s) (actual s) (strategic s) (reset (tactic s)) 0) as [[t picked]|] eqn:Ea; [|eapply Hbase; reflexivity].
  destruct (picked =? H s - sum (actual s)); [|eapply Hbase; reflexivity].
  right. proj. split; [reflexivity|]. destruct (add_up_get _ _ _ _ _ _ _ (i_ndp s Hinv) Ea) as [Hg _]. rewrite (Hg p Hin). lia.
Qed.

(* quiet steps up to the next move keep what the scheduler looks at *)
Lemma next_move_same k : (forall e, pcs (tr k) <> Done e) ->
  exists j, (k <= j)%nat /\ moves j /\ pcs (tr j) = pcs (tr k) /\ actual (tr j) = actual (tr k) /\ tactic (tr j) = tactic (tr k) /\
    (Pend (tr k) -> Pend (tr j)).
Proof.
  intros Hnd. destruct (next_move k Hnd) as (j & Hj & Hm & Hmin). exists j. split; [exact Hj|]. split; [exact Hm|].
  apply (along (fun i => pcs (tr i) = pcs (tr k) /\ actual (tr i) = actual (tr k) /\ tactic (tr i) = tactic (tr k) /\
                         (Pend (tr k) -> Pend (tr i))) k j Hj); [|auto].
  intros i Hi (H1 & H2 & H3 & H4). pose proof (tr_quiet i (Hmin i Hi)) as Hq.
  rewrite (q_pc _ _ Hq), (q_actual _ _ Hq), (q_tactic _ _ Hq). split; [exact H1|]. split; [exact H2|]. split; [exact H3|].
  intros HP. apply pend_quiet; [apply H4; exact HP|apply Hmin; exact Hi].
Qed.

Lemma calc_delivers : forall n k, N.to_nat (sum (actual (tr k))) = n -> Pend (tr k) -> pcs (tr k) = Calc ->
  get (actual (tr k)) p < get (strategic (tr k)) p -> exists j, (k <= j)%nat /\ Gl j.
Proof.
  induction n as [n IH] using lt_wf_ind. intros k Hn HP Epc Hlt.
  destruct (next_move_same k) as (j & Hj & Hm & Epj & Eaj & _ & HPj); [intros e E; congruence|]. specialize (HPj HP).
  rewrite Epc in Epj. pose proof (tr_step j) as Hs.
  destruct Hm as [El|[El Ht]]; [|unfold tick_moves in Ht; rewrite Epj in Ht; discriminate].
  rewrite El in Hs. cbn [is_step] in Hs. unfold sched_step in Hs. rewrite Epj in Hs. inversion Hs as [Hs'].
  destruct (pend_next j HPj) as [Hg|HP1]; [exists (S j); split; [lia|exact Hg]|].
  destruct (step_calc_cases (tr j) (tr_inv j)) as [Ew|[Er Ht]].
  { rewrite tr_prios. exact Hp. }
  { rewrite Eaj, tr_strategic. rewrite tr_strategic in Hlt. exact Hlt. }
  { intros e. rewrite Hs'. apply (tr_noerr (S j) e). }
  - (* waits for one release, then calcTactic again with one item less in flight *)
    rewrite Hs' in Ew. destruct (step_calc_chan dv (tr j)) as (_ & _ & _ & Ea1 & _). rewrite Hs' in Ea1.
    destruct (next_move_same (S j)) as (j2 & Hj2 & Hm2 & Epj2 & Eaj2 & _ & HPj2); [intros e E; congruence|]. specialize (HPj2 HP1).
    rewrite Ew in Epj2. pose proof (tr_step j2) as Hs2.
    destruct Hm2 as [El2|[El2 Ht2]]; [|unfold tick_moves in Ht2; rewrite Epj2 in Ht2; discriminate].
    rewrite El2 in Hs2. cbn [is_step] in Hs2. unfold sched_step in Hs2. rewrite Epj2 in Hs2.
    destruct (fbq (tr j2)) as [|q r] eqn:Ef; [discriminate|]. inversion Hs2 as [Hs2'].
    destruct (pend_next j2 HPj2) as [Hg|HP3]; [exists (S j2); split; [lia|exact Hg]|].
    pose proof (tr_inv j2) as Hinv2.
    assert (Hge : 1 <= get (actual (tr j2)) q).
    { rewrite (i_acc _ Hinv2). unfold cnt. rewrite Ef. cbn [count]. rewrite N.eqb_refl. lia. }
    pose proof (sum_dec (actual (tr j2)) q (i_nda _ Hinv2) Hge) as Hd.
    destruct (IH (N.to_nat (sum (actual (tr (S j2)))))) with (k := S j2) as (j3 & Hj3 & Hg); auto.
    + rewrite <- Hs2'. proj. rewrite <- Hn, <- Eaj, <- Ea1, <- Eaj2. lia.
    + rewrite <- Hs2'. reflexivity.
    + rewrite tr_strategic. rewrite tr_strategic in Hlt. rewrite <- Hs2'. proj. rewrite get_dec.
      rewrite Eaj2, Ea1, Eaj. destruct (N.eqb_spec p q) as [<-|_]; lia.
    + exists j3. split; [lia|exact Hg].
  - (* the round starts *)
    rewrite Hs' in Er, Ht. destruct (round_delivers (S j) HP1) as (j' & Hj' & Hg).
    + split; [exact Ht|]. rewrite Er. rewrite tr_prios. exact Hp.
    + exists j'. split; [lia|exact Hg].
Qed.

(* ================= 6. the next item of p is eventually delivered ================= *)
Lemma p_count_grows k : Pend (tr k) -> exists j, (k <= j)%nat /\ Gl j.
Proof.
  intros HP. destruct (reach_uncrowded_calc _ k eq_refl HP) as (j & Hj & [Hg|(HP' & Ec & Hlt)]); [exists j; auto|].
  destruct (calc_delivers _ j eq_refl HP' Ec Hlt) as (j' & Hj' & Hg). exists j'. split; [lia|exact Hg].
Qed.

End Target.

(* ================= 7. every item ================= *)
Lemma count_reaches p : In p (prios s0) -> forall d n i, (n < length (written (tr i) p))%nat -> (S n - cntd p (tr i) = d)%nat ->
  exists j, (i <= j)%nat /\ (n < cntd p (tr j))%nat.
Proof.
  intros Hp. induction d as [d IH] using lt_wf_ind. intros n i Hn Hd.
  destruct (lt_dec n (cntd p (tr i))) as [Hlt|Hge]; [exists i; split; [lia|exact Hlt]|].
  destruct (p_count_grows p Hp (cntd p (tr i)) i) as (j & Hj & Hg); [split; [reflexivity|lia]|]. unfold Gl in Hg.
  pose proof (written_mono p i j Hj) as Hw.
  destruct (IH (S n - cntd p (tr j))%nat ltac:(lia) n j ltac:(lia) eq_refl) as (j' & Hj' & Hr). exists j'. split; [lia|exact Hr].
Qed.

Lemma written_prefix p i j : (i <= j)%nat -> exists w, written (tr j) p = written (tr i) p ++ w.
Proof.
  intros Hle. apply (along (fun m => exists w, written (tr m) p = written (tr i) p ++ w) i j Hle).
  - intros m _ [w Hw]. destruct (step_mono _ _ _ _ (tr_step m)) as [_ Hs]. destruct (Hs p) as [w' Hw'].
    exists (w ++ w'). rewrite Hw', Hw, app_assoc. reflexivity.
  - exists []. rewrite app_nil_r. reflexivity.
Qed.
Lemma delivered_prefix i j : (i <= j)%nat -> exists d, delivered (tr j) = delivered (tr i) ++ d.
Proof.
  intros Hle. apply (along (fun m => exists d, delivered (tr m) = delivered (tr i) ++ d) i j Hle).
  - intros m _ [d Hd]. destruct (step_mono _ _ _ _ (tr_step m)) as [[d' Hd'] _].
    exists (d ++ d'). rewrite Hd', Hd, app_assoc. reflexivity.
  - exists []. rewrite app_nil_r. reflexivity.
Qed.

Lemma prefix_in {A} (x : A) : forall pre l1 l2 post, l1 ++ l2 = pre ++ x :: post -> (length pre < length l1)%nat -> In x l1.
Proof.
  induction pre as [|a pre IH]; intros l1 l2 post E Hlen.
  - destruct l1 as [|y l1]; [cbn [length] in Hlen; lia|]. cbn [app] in E. inversion E; subst. left; reflexivity.
  - destruct l1 as [|y l1]; [cbn [length] in Hlen; lia|]. cbn [app] in E. inversion E; subst. right.
    eapply IH; [eassumption|]. cbn [length] in Hlen. lia.
Qed.

Lemma of_prio_in p x l : In x (of_prio p l) -> In (p, x) l.
Proof.
  unfold of_prio. intros Hin. apply in_map_iff in Hin. destruct Hin as ([q y] & E & Hin). cbn [snd] in E. subst y.
  apply filter_In in Hin. destruct Hin as [Hin Hq]. cbn [fst] in Hq. apply N.eqb_eq in Hq. subst q. exact Hin.
Qed.

Theorem every_item_delivered_sec : forall i p x, In p (prios s0) -> In x (inq (tr i) p) ->
  exists j, (i <= j)%nat /\ In (p, x) (delivered (tr j)).
Proof.
  intros i p x Hp Hin. destruct (in_split x _ Hin) as (I1 & I2 & EI).
  pose proof (j_split _ (tr_inv2 i) p) as Hsp. rewrite EI in Hsp.
  set (A := of_prio p (delivered (tr i)) ++ limbo (tr i) p ++ I1).
  assert (HA : written (tr i) p = A ++ x :: I2) by (unfold A; rewrite <- Hsp, <- !app_assoc; reflexivity).
  destruct (count_reaches p Hp (S (length A) - cntd p (tr i))%nat (length A) i) as (j & Hj & Hc).
  { rewrite HA, app_length. cbn [length]. lia. }
  { reflexivity. }
  exists j. split; [exact Hj|]. apply of_prio_in.
  destruct (written_prefix p i j Hj) as [w Hw]. pose proof (j_split _ (tr_inv2 j) p) as Hsj.
  rewrite Hw, HA, <- app_assoc in Hsj. cbn [app] in Hsj.
  eapply prefix_in; [exact Hsj|exact Hc].
Qed.

Theorem head_delivered_sec : forall i p x q, In p (prios s0) -> inq (tr i) p = x :: q ->
  exists j, (i <= j)%nat /\ In (p, x) (delivered (tr j)).
Proof. intros i p x q Hp E. apply every_item_delivered_sec; [exact Hp|rewrite E; left; reflexivity]. Qed.

Theorem some_item_delivered_sec : forall i, (exists p, In p (prios s0) /\ inq (tr i) p <> []) ->
  exists j, (i <= j)%nat /\ (length (delivered (tr i)) < length (delivered (tr j)))%nat.
Proof.
  intros i (p & Hp & Hne).
  destruct (p_count_grows p Hp (cntd p (tr i)) i) as (j & Hj & Hg).
  { split; [reflexivity|]. pose proof (j_split _ (tr_inv2 i) p) as Hsp. unfold cntd. rewrite <- Hsp, !app_length.
    destruct (inq (tr i) p); [contradiction|]. cbn [length]. lia. }
  exists j. split; [exact Hj|]. destruct (delivered_prefix i j Hj) as [d Hd]. unfold Gl, cntd in Hg.
  rewrite Hd, of_prio_app, app_length in Hg. rewrite Hd, app_length.
  destruct d; [cbn in Hg; lia|cbn [length]; lia].
Qed.

(* ==END== *)
End Live.

(* ================= 8. the theorems, closed ================= *)
(* hypotheses on the divider: it returns maps (unique keys) and obeys the (generalised) sum rule of Prio2P.NoError *)
Definition dv_ok (dv : nat -> Divider) : Prop :=
  (forall k ps n d, NoDup (keys d) -> NoDup (keys (dv k ps n d))) /\
  (forall k ps n d, NoDup (keys d) -> sum (dv k ps n d) = sum d + n \/ sum (dv k ps n d) = sum d).

(* --- general versions: the clock only has to tick when the scheduler waits for it (F_tick_w) *)
Theorem prio2_calc_infinitely_often_w : forall dv s0 tr lb, dv_ok dv -> InitL s0 -> H s0 < two64 -> execution dv s0 tr lb ->
  F_sched dv tr lb -> F_take tr lb -> F_rel tr lb -> F_tick_w tr lb ->
  forall i, exists j, (i <= j)%nat /\ (pcs (tr j) = Calc \/ pcs (tr j) = Done None).
Proof.
  intros dv s0 tr lb [Hwf Hsr] HI HH Hex F1 F2 F3 F4. exact (calc_infinitely_often_sec dv Hwf Hsr s0 tr lb HI HH Hex F1 F2 F3 F4).
Qed.

Theorem prio2_every_item_delivered_w : forall dv s0 tr lb, dv_ok dv -> InitL s0 -> H s0 < two64 -> (1 <= fblimit s0)%nat ->
  execution dv s0 tr lb -> F_sched dv tr lb -> F_take tr lb -> F_rel tr lb -> F_tick_w tr lb ->
  forall i p x, In p (prios s0) -> In x (inq (tr i) p) -> exists j, (i <= j)%nat /\ In (p, x) (delivered (tr j)).
Proof.
  intros dv s0 tr lb [Hwf Hsr] HI HH Hfl Hex F1 F2 F3 F4. exact (every_item_delivered_sec dv Hwf Hsr s0 tr lb HI HH Hex F1 F2 F3 F4 Hfl).
Qed.

Theorem prio2_head_delivered_w : forall dv s0 tr lb, dv_ok dv -> InitL s0 -> H s0 < two64 -> (1 <= fblimit s0)%nat ->
  execution dv s0 tr lb -> F_sched dv tr lb -> F_take tr lb -> F_rel tr lb -> F_tick_w tr lb ->
  forall i p x q, In p (prios s0) -> inq (tr i) p = x :: q -> exists j, (i <= j)%nat /\ In (p, x) (delivered (tr j)).
Proof.
  intros dv s0 tr lb [Hwf Hsr] HI HH Hfl Hex F1 F2 F3 F4. exact (head_delivered_sec dv Hwf Hsr s0 tr lb HI HH Hex F1 F2 F3 F4 Hfl).
Qed.

Theorem prio2_some_item_delivered_w : forall dv s0 tr lb, dv_ok dv -> InitL s0 -> H s0 < two64 -> (1 <= fblimit s0)%nat ->
  execution dv s0 tr lb -> F_sched dv tr lb -> F_take tr lb -> F_rel tr lb -> F_tick_w tr lb ->
  forall i, (exists p, In p (prios s0) /\ inq (tr i) p <> []) ->
  exists j, (i <= j)%nat /\ (length (delivered (tr i)) < length (delivered (tr j)))%nat.
Proof.
  intros dv s0 tr lb [Hwf Hsr] HI HH Hfl Hex F1 F2 F3 F4. exact (some_item_delivered_sec dv Hwf Hsr s0 tr lb HI HH Hex F1 F2 F3 F4 Hfl).
Qed.

(* --- the statements of the task (time passes: F_tick) *)
Theorem prio2_calc_infinitely_often : forall dv s0 tr lb, dv_ok dv -> InitL s0 -> H s0 < two64 -> execution dv s0 tr lb ->
  F_sched dv tr lb -> F_take tr lb -> F_rel tr lb -> F_tick lb ->
  forall i, exists j, (i <= j)%nat /\ (pcs (tr j) = Calc \/ pcs (tr j) = Done None).
Proof. intros dv s0 tr lb Hd HI HH Hex F1 F2 F3 F4. eapply prio2_calc_infinitely_often_w; eauto using F_tick_weaken. Qed.
Print Assumptions prio2_calc_infinitely_often.

Theorem prio2_every_item_delivered : forall dv s0 tr lb, dv_ok dv -> InitL s0 -> H s0 < two64 -> (1 <= fblimit s0)%nat ->
  execution dv s0 tr lb -> F_sched dv tr lb -> F_take tr lb -> F_rel tr lb -> F_tick lb ->
  forall i p x, In p (prios s0) -> In x (inq (tr i) p) -> exists j, (i <= j)%nat /\ In (p, x) (delivered (tr j)).
Proof. intros dv s0 tr lb Hd HI HH Hfl Hex F1 F2 F3 F4. eapply prio2_every_item_delivered_w; eauto using F_tick_weaken. Qed.
Print Assumptions prio2_every_item_delivered.

Theorem prio2_head_delivered : forall dv s0 tr lb, dv_ok dv -> InitL s0 -> H s0 < two64 -> (1 <= fblimit s0)%nat ->
  execution dv s0 tr lb -> F_sched dv tr lb -> F_take tr lb -> F_rel tr lb -> F_tick lb ->
  forall i p x q, In p (prios s0) -> inq (tr i) p = x :: q -> exists j, (i <= j)%nat /\ In (p, x) (delivered (tr j)).
Proof. intros dv s0 tr lb Hd HI HH Hfl Hex F1 F2 F3 F4. eapply prio2_head_delivered_w; eauto using F_tick_weaken. Qed.
Print Assumptions prio2_head_delivered.

Theorem prio2_some_item_delivered : forall dv s0 tr lb, dv_ok dv -> InitL s0 -> H s0 < two64 -> (1 <= fblimit s0)%nat ->
  execution dv s0 tr lb -> F_sched dv tr lb -> F_take tr lb -> F_rel tr lb -> F_tick lb ->
  forall i, (exists p, In p (prios s0) /\ inq (tr i) p <> []) ->
  exists j, (i <= j)%nat /\ (length (delivered (tr i)) < length (delivered (tr j)))%nat.
Proof. intros dv s0 tr lb Hd HI HH Hfl Hex F1 F2 F3 F4. eapply prio2_some_item_delivered_w; eauto using F_tick_weaken. Qed.
Print Assumptions prio2_some_item_delivered.

(* The statement of the task has no hypothesis on the feedback limit; without one it is FALSE for this model (section 9 below:
   prio2_liveness_needs_fblimit).  The extra hypothesis `1 <= fblimit s0` holds for every state built by New() (init_state).
   Following the convention for statements that need an extra hypothesis, the same theorem under the name `_partial`: *)
Theorem prio2_every_item_delivered_partial : forall dv s0 tr lb, dv_ok dv -> InitL s0 -> H s0 < two64 -> (1 <= fblimit s0)%nat ->
  execution dv s0 tr lb -> F_sched dv tr lb -> F_take tr lb -> F_rel tr lb -> F_tick lb ->
  forall i p x, In p (prios s0) -> In x (inq (tr i) p) -> exists j, (i <= j)%nat /\ In (p, x) (delivered (tr j)).
Proof. exact prio2_every_item_delivered. Qed.
Print Assumptions prio2_every_item_delivered_partial.

(* ... and for the initial states of the constructor the theorem holds exactly as stated in the task *)
Theorem prio2_every_item_delivered_new : forall dv ps h sorted strat buf tr lb, ps <> [] ->
  dv_ok dv -> InitL (init_state ps h sorted strat buf) -> H (init_state ps h sorted strat buf) < two64 ->
  execution dv (init_state ps h sorted strat buf) tr lb -> F_sched dv tr lb -> F_take tr lb -> F_rel tr lb -> F_tick lb ->
  forall i p x, In p (prios (init_state ps h sorted strat buf)) -> In x (inq (tr i) p) ->
  exists j, (i <= j)%nat /\ In (p, x) (delivered (tr j)).
Proof.
  intros dv ps h sorted strat buf tr lb Hne Hd HI HH Hex F1 F2 F3 F4.
  apply (prio2_every_item_delivered dv _ tr lb Hd HI HH (init_state_fblimit ps h sorted strat buf Hne) Hex F1 F2 F3 F4).
Qed.
Print Assumptions prio2_every_item_delivered_new.

(* ================= 9. the hypothesis `1 <= fblimit s0` cannot be dropped ================= *)
(* With a feedback limit of 0 getLimitedFeedback() never reads the feedback channel, so a release is only consumed in
   getOneFeedback() (WaitFb).  If the divider -- obeying the sum rule -- keeps handing the vacant handlers to a priority that has
   no data, the scheduler spins Calc -> round -> Idle -> Calc for ever, the release of the only busy priority stays in the
   feedback channel, and that priority (at its share) is never served again.  The execution below is fair in every sense
   required above.  (New() sets the limit to DivideWithMin(H, 10, len(Inputs)) >= 1, so this cannot happen in the library; the
   point is that the theorem needs the hypothesis as long as the divider is only known to obey the sum rule.)
   The infinite execution is a lasso: a prefix, then a cycle that returns to the same state up to the ghost fields
   ncalls / calls; the divider ignores the call index. *)
Definition core (s : st) : st :=
  mkSt (H s) (prios s) (strategic s) (actual s) (tactic s) (inq s) (closed s) (drained s) (buffered s)
       (outq s) (outcap s) (held s) (fbq s) (fblimit s) (pcs s) 0%nat (delivered s) [] (written s).
Definition step_opt (dv : nat -> Divider) (l : label) (s : st) : option st :=
  match l with LSched => sched_step dv s | LEnv o => env_step s o | LStutter => Some s end.
Lemma step_opt_is_step dv l s s' : step_opt dv l s = Some s' -> is_step dv s l s'.
Proof. destruct l; cbn; auto. intros E; inversion E; reflexivity. Qed.

Section Lasso.
Variable advd : Divider.
Definition cdv : nat -> Divider := fun _ => advd.

Lemma sim_step l s t s' : core s = core t -> step_opt cdv l s = Some s' -> exists t', step_opt cdv l t = Some t' /\ core s' = core t'.
Proof.
  intros Hc Hs. destruct s, t. unfold core in Hc. cbn in Hc. injection Hc; intros; subst. destruct l as [|o|]; cbn [step_opt] in *.
  - unfold sched_step, step_calc, calc_base, step_recalc, cdv in *. cbn in *.
    destruct_matches Hs; try discriminate; inversion Hs; subst; clear Hs; eexists; (split; [reflexivity|reflexivity]).
  - unfold env_step in *. cbn in *.
    destruct_matches Hs; try discriminate; inversion Hs; subst; clear Hs; eexists; (split; [reflexivity|reflexivity]).
  - inversion Hs; subst. eexists; split; reflexivity.
Qed.

Variable s0 X : st.
Variable pre cyc : list label.
Variable bad : N * N.

(* obligations of a state w.r.t. the labels still ahead in the current segment *)
Definition Ok (s : st) (rest : list label) : Prop :=
  (outq s <> [] -> In (LEnv Take) rest) /\ (forall p x, In (p, x) (held s) -> In (LEnv (Release p)) rest) /\ ~ In bad (delivered s).
Lemma Ok_core s t rest : core s = core t -> Ok s rest -> Ok t rest.
Proof.
  intros Hc. unfold Ok.
  assert (E1 : outq s = outq t) by (apply (f_equal outq) in Hc; exact Hc).
  assert (E2 : held s = held t) by (apply (f_equal held) in Hc; exact Hc).
  assert (E3 : delivered s = delivered t) by (apply (f_equal delivered) in Hc; exact Hc).
  rewrite E1, E2, E3. auto.
Qed.

Fixpoint chain (rest : list label) (s : st) : Prop :=
  Ok s rest /\ match rest with [] => core s = core X | a :: r => exists s', step_opt cdv a s = Some s' /\ chain r s' end.
Lemma chain_ok rest s : chain rest s -> Ok s rest.
Proof. destruct rest; cbn [chain]; tauto. Qed.
Lemma chain_cons a r s s' : Ok s (a :: r) -> step_opt cdv a s = Some s' -> chain r s' -> chain (a :: r) s.
Proof. intros H1 H2 H3. cbn [chain]. split; [exact H1|]. exists s'. auto. Qed.
Lemma chain_nil s : Ok s [] -> core s = core X -> chain [] s.
Proof. intros H1 H2. cbn [chain]. auto. Qed.
Lemma chain_sim : forall rest s t, core s = core t -> chain rest s -> chain rest t.
Proof.
  induction rest as [|a r IH]; cbn [chain]; intros s t Hc [Hok Hr].
  - split; [eapply Ok_core; eauto|congruence].
  - split; [eapply Ok_core; eauto|]. destruct Hr as (s' & Hs & Hch). destruct (sim_step _ _ _ _ Hc Hs) as (t' & Ht & Hc').
    exists t'. split; [exact Ht|eapply IH; eauto].
Qed.

Hypothesis Hpre : chain pre s0.
Hypothesis Hcyc : chain cyc X.
Hypothesis Hsched : In LSched cyc.
Hypothesis Htick : In (LEnv Tick) cyc.

Definition cfg := (st * list label)%type.
Definition eff (c : cfg) : list label := match snd c with [] => cyc | l => l end.
Definition lab (c : cfg) : label := hd LStutter (eff c).
Definition nxt (c : cfg) : cfg :=
  (match step_opt cdv (lab c) (fst c) with Some s' => s' | None => fst c end, tl (eff c)).
Fixpoint conf (n : nat) : cfg := match n with O => (s0, pre) | S n' => nxt (conf n') end.
Definition ltr (n : nat) : st := fst (conf n).
Definition llb (n : nat) : label := lab (conf n).

Lemma cyc_nonempty : cyc <> [].
Proof. intros E. rewrite E in Hsched. destruct Hsched. Qed.

Lemma chain_head rest s : chain rest s -> rest <> [] -> exists s', step_opt cdv (hd LStutter rest) s = Some s' /\ chain (tl rest) s'.
Proof. destruct rest as [|a r]; cbn [chain hd tl]; intros [_ Hc] Hne; [contradiction|exact Hc]. Qed.
Lemma chain_boundary s : chain [] s -> chain cyc s.
Proof. cbn [chain]. intros [_ Hc]. apply (chain_sim _ X s); [symmetry; exact Hc|exact Hcyc]. Qed.
Lemma eff_nonempty c : eff c <> [].
Proof. unfold eff. destruct (snd c); [apply cyc_nonempty|discriminate]. Qed.
Lemma eff_chain c : chain (snd c) (fst c) -> chain (eff c) (fst c).
Proof. unfold eff. destruct (snd c) eqn:E; [apply chain_boundary|auto]. Qed.

Lemma conf_chain n : chain (snd (conf n)) (fst (conf n)) /\ exists s', step_opt cdv (llb n) (ltr n) = Some s' /\ chain (tl (eff (conf n))) s'.
Proof.
  induction n as [|n [IH (s' & Hs & Hch)]].
  - split; [exact Hpre|]. apply chain_head; [apply eff_chain; exact Hpre|apply eff_nonempty].
  - assert (E : conf (S n) = (s', tl (eff (conf n)))).
    { cbn [conf]. unfold nxt. unfold llb, ltr in Hs. rewrite Hs. reflexivity. }
    assert (Hc : chain (snd (conf (S n))) (fst (conf (S n)))) by (rewrite E; exact Hch).
    split; [exact Hc|]. apply chain_head; [apply eff_chain; exact Hc|apply eff_nonempty].
Qed.

Lemma lasso_execution : execution cdv s0 ltr llb.
Proof.
  constructor; [reflexivity|]. intros i. destruct (conf_chain i) as [_ (s' & Hs & _)].
  apply step_opt_is_step. rewrite Hs. unfold ltr. cbn [conf]. unfold nxt. unfold llb, ltr in Hs. rewrite Hs. reflexivity.
Qed.

Lemma conf_S_snd n : snd (conf (S n)) = tl (eff (conf n)).
Proof. reflexivity. Qed.

(* the labels ahead *)
Lemma ahead : forall k n, (k < length (eff (conf n)))%nat -> llb (n + k) = nth k (eff (conf n)) LStutter.
Proof.
  induction k as [|k IH]; intros n Hk.
  - rewrite Nat.add_0_r. unfold llb, lab. destruct (eff (conf n)); reflexivity.
  - destruct (eff (conf n)) as [|a r] eqn:Ee; [cbn [length] in Hk; lia|]. cbn [length] in Hk. cbn [nth].
    replace (n + S k)%nat with (S n + k)%nat by lia.
    assert (Er : eff (conf (S n)) = r).
    { unfold eff at 1. rewrite conf_S_snd, Ee. cbn [tl]. destruct r; [cbn [length] in Hk; lia|reflexivity]. }
    rewrite IH; rewrite Er; [reflexivity|lia].
Qed.
Lemma ahead_in l n : In l (eff (conf n)) -> exists j, (n <= j)%nat /\ llb j = l.
Proof.
  intros Hin. destruct (In_nth _ _ LStutter Hin) as (k & Hk & En). exists (n + k)%nat. split; [lia|]. rewrite ahead; auto.
Qed.
Lemma boundary : forall m n, length (snd (conf n)) = m -> exists j, (n <= j)%nat /\ snd (conf j) = [].
Proof.
  induction m as [|m IH]; intros n Hm.
  - exists n. split; [lia|]. destruct (snd (conf n)); [reflexivity|discriminate].
  - destruct (IH (S n)) as (j & Hj & E).
    + rewrite conf_S_snd. unfold eff. destruct (snd (conf n)) as [|a r]; [discriminate|]. cbn [tl]. cbn [length] in Hm. lia.
    + exists j. split; [lia|exact E].
Qed.
Lemma cyc_label l i : In l cyc -> exists j, (i <= j)%nat /\ llb j = l.
Proof.
  intros Hin. destruct (boundary _ i eq_refl) as (m & Hm & E).
  destruct (ahead_in l m) as (j & Hj & El); [unfold eff; rewrite E; exact Hin|]. exists j. split; [lia|exact El].
Qed.

Lemma lasso_ok n : Ok (ltr n) (snd (conf n)).
Proof. destruct (conf_chain n) as [Hc _]. apply chain_ok. exact Hc. Qed.

Lemma lasso_F_sched : F_sched cdv ltr llb.
Proof. intros i _. apply cyc_label. exact Hsched. Qed.
Lemma lasso_F_tick : F_tick llb.
Proof. intros i. apply cyc_label. exact Htick. Qed.
Lemma lasso_F_take : F_take ltr llb.
Proof.
  intros i Hne. destruct (lasso_ok i) as (Ht & _). specialize (Ht Hne). apply ahead_in. unfold eff.
  destruct (snd (conf i)); [destruct Ht|exact Ht].
Qed.
Lemma lasso_F_rel : F_rel ltr llb.
Proof.
  intros i p x Hin. destruct (lasso_ok i) as (_ & Hr & _). specialize (Hr p x Hin). apply ahead_in. unfold eff.
  destruct (snd (conf i)); [destruct Hr|exact Hr].
Qed.
Lemma lasso_never j : ~ In bad (delivered (ltr j)).
Proof. destruct (lasso_ok j) as (_ & _ & Hb). exact Hb. Qed.
End Lasso.

(* --- the instance: H = 2, priorities 2 > 1 with one handler each, feedback limit 0, buffered inputs;
       the divider gives every dividend to priority 2 *)
Definition adv_d : Divider := fun _ n d => add d 2 n.
Lemma adv_ok : dv_ok (cdv adv_d).
Proof.
  split; intros k ps n d ND; unfold cdv, adv_d.
  - apply nodup_keys_add; exact ND.
  - left. apply sum_add; exact ND.
Qed.
Definition cx0 : st :=
  mkSt 2 [2; 1] [(2, 1); (1, 1)] [] [] (fun _ => []) (fun _ => false) (fun _ => false) (fun _ => true)
       [] 1 [] [] 0%nat Calc 1%nat [] [([2; 1], 2)] (fun _ => []).
Lemma cx0_initL : InitL cx0.
Proof.
  constructor; [|vm_compute; discriminate|reflexivity| |vm_compute; discriminate].
  - constructor; cbn; auto.
    + repeat constructor; cbn [In]; intros Hx; repeat (destruct Hx as [Hx|Hx]; try discriminate); auto.
    + repeat constructor; cbn [In]; intros Hx; repeat (destruct Hx as [Hx|Hx]; try discriminate); auto.
    + intros c [Hc|[]]. auto.
  - intros p Hp. cbn in Hp. destruct Hp as [<-|[<-|[]]]; vm_compute; discriminate.
Qed.

(* two items for priority 1; the first is delivered, taken and released; the round ends; back at Calc *)
Definition cx_pre : list label :=
  [LEnv (Put 1 7); LEnv (Put 1 8); LSched; LSched; LSched; LSched; LSched; LSched; LEnv Take; LEnv (Release 1);
   LSched; LSched; LSched; LSched; LSched; LSched; LSched; LSched; LSched; LSched].
(* one turn of the loop: calcTactic, an empty round, recalcTactic, an empty round, Idle, the sleep ends, LimFb 0, Calc *)
Definition cx_cyc : list label :=
  [LSched; LSched; LSched; LSched; LSched; LSched; LSched; LSched; LSched; LSched; LSched; LSched; LSched; LEnv Tick; LSched].
Fixpoint run_l (dv : nat -> Divider) (l : list label) (s : st) : option st :=
  match l with [] => Some s | a :: r => match step_opt dv a s with Some s' => run_l dv r s' | None => None end end.
Definition cx_X : st := Eval vm_compute in match run_l (cdv adv_d) cx_pre cx0 with Some s => s | None => cx0 end.
Example cx_X_view : pcs cx_X = Calc /\ actual cx_X = [(1, 1)] /\ fbq cx_X = [1] /\ outq cx_X = [] /\ held cx_X = [] /\
  inq cx_X 1 = [8] /\ delivered cx_X = [(1, 7)] /\ get (strategic cx_X) 1 = 1.
Proof. vm_compute. repeat split; reflexivity. Qed.

Ltac in_tac := repeat (first [left; reflexivity | right]).
Ltac ok_tac :=
  split; [ first [ (intros _; solve [in_tac]) | (let Hc := fresh in intros Hc; exfalso; apply Hc; reflexivity) ]
  | split; [ let p := fresh in let x := fresh in let Hin := fresh in intros p x Hin; vm_compute in Hin;
             repeat (destruct Hin as [Hin|Hin]; [inversion Hin; subst; solve [in_tac] | ]); destruct Hin
           | vm_compute; let Hin := fresh in intros Hin; repeat (destruct Hin as [Hin|Hin]; [discriminate|]); exact Hin ] ].
Ltac chain_tac :=
  lazymatch goal with
  | |- chain ?d ?X ?b (?a :: ?r) ?s =>
      let res := eval vm_compute in (step_opt (cdv d) a s) in
      lazymatch res with
      | Some ?s1 => apply (chain_cons d X b a r s s1); [ok_tac|vm_compute; reflexivity|chain_tac]
      end
  | |- chain ?d ?X ?b [] ?s => apply (chain_nil d X b s); [ok_tac|vm_compute; reflexivity]
  end.

Lemma cx_chain_pre : chain adv_d cx_X (1, 8) cx_pre cx0.
Proof. unfold cx_pre. chain_tac. Qed.
Lemma cx_chain_cyc : chain adv_d cx_X (1, 8) cx_cyc cx_X.
Proof. unfold cx_cyc. chain_tac. Qed.

Lemma cx_sched_in : In LSched cx_cyc.
Proof. left; reflexivity. Qed.
Lemma cx_tick_in : In (LEnv Tick) cx_cyc.
Proof. unfold cx_cyc. in_tac. Qed.

Definition cx_tr : nat -> st := ltr adv_d cx0 cx_pre cx_cyc.
Definition cx_lb : nat -> label := llb adv_d cx0 cx_pre cx_cyc.

(* every hypothesis of prio2_every_item_delivered but `1 <= fblimit s0` holds, and item 8 of priority 1 is never delivered *)
Theorem prio2_liveness_needs_fblimit : exists dv s0 tr lb,
  dv_ok dv /\ InitL s0 /\ H s0 < two64 /\ fblimit s0 = 0%nat /\ execution dv s0 tr lb /\
  F_sched dv tr lb /\ F_take tr lb /\ F_rel tr lb /\ F_tick lb /\
  exists i p x, In p (prios s0) /\ In x (inq (tr i) p) /\ forall j, ~ In (p, x) (delivered (tr j)).
Proof.
  exists (cdv adv_d), cx0, cx_tr, cx_lb.
  split; [exact adv_ok|]. split; [exact cx0_initL|]. split; [reflexivity|]. split; [reflexivity|].
  split; [exact (lasso_execution _ _ _ _ _ _ cx_chain_pre cx_chain_cyc cx_sched_in)|].
  split; [exact (lasso_F_sched _ _ _ _ cx_sched_in)|].
  split; [exact (lasso_F_take _ _ _ _ _ _ cx_chain_pre cx_chain_cyc cx_sched_in)|].
  split; [exact (lasso_F_rel _ _ _ _ _ _ cx_chain_pre cx_chain_cyc cx_sched_in)|].
  split; [exact (lasso_F_tick _ _ _ _ cx_tick_in)|].
  exists 2%nat, 1, 8. split; [right; left; reflexivity|]. split; [vm_compute; auto|].
  exact (lasso_never _ _ _ _ _ _ cx_chain_pre cx_chain_cyc cx_sched_in).
Qed.
Print Assumptions prio2_liveness_needs_fblimit.

(* the same execution read positively: the scheduler is at Calc infinitely often (that theorem does not need the limit) *)
Example cx_calc_infinitely_often : forall i, exists j, (i <= j)%nat /\ (pcs (cx_tr j) = Calc \/ pcs (cx_tr j) = Done None).
Proof.
  apply (prio2_calc_infinitely_often (cdv adv_d) cx0 cx_tr cx_lb adv_ok cx0_initL); [reflexivity| | | | |].
  - exact (lasso_execution _ _ _ _ _ _ cx_chain_pre cx_chain_cyc cx_sched_in).
  - exact (lasso_F_sched _ _ _ _ cx_sched_in).
  - exact (lasso_F_take _ _ _ _ _ _ cx_chain_pre cx_chain_cyc cx_sched_in).
  - exact (lasso_F_rel _ _ _ _ _ _ cx_chain_pre cx_chain_cyc cx_sched_in).
  - exact (lasso_F_tick _ _ _ _ cx_tick_in).
Qed.

(* ================= 10. non-vacuity: a fair infinite execution with the Fair divider ================= *)
(* H = 2, priorities 2 > 1 (Prio2P.ex_s0, feedback limit 2): one item for each priority; a greedy fair environment (take what is
   offered, release what is held, let the clock tick when nothing else can happen); after both items are delivered and released
   the discipline idles for ever: Calc -> two empty rounds -> Idle -> LimFb -> Calc. *)
Definition pick (s : st) : label :=
  match sched_step fdv s with Some _ => LSched | None =>
  match outq s with _ :: _ => LEnv Take | [] => match held s with (p, _) :: _ => LEnv (Release p) | [] => LEnv Tick end end end.
Fixpoint drive (n : nat) (s : st) : list label :=
  match n with O => [] | S n' => let l := pick s in l :: match step_opt fdv l s with Some s' => drive n' s' | None => [] end end.
Definition pos_puts : list label := [LEnv (Put 2 7); LEnv (Put 1 8)].
Definition pos_s2 : st := Eval vm_compute in match run_l fdv pos_puts ex_s0 with Some s => s | None => ex_s0 end.
Definition pos_pre : list label := Eval vm_compute in pos_puts ++ drive 55 pos_s2.
Definition pos_X : st := Eval vm_compute in match run_l fdv pos_pre ex_s0 with Some s => s | None => ex_s0 end.
Definition pos_cyc : list label := Eval vm_compute in drive 15 pos_X.
Example pos_X_view : pcs pos_X = Calc /\ actual pos_X = [(2, 0); (1, 0)] /\ fbq pos_X = [] /\ outq pos_X = [] /\ held pos_X = [] /\
  delivered pos_X = [(2, 7); (1, 8)] /\ pos_cyc = cx_cyc.
Proof. vm_compute. repeat split; reflexivity. Qed.

Lemma pos_chain_pre : chain fair pos_X (99, 99) pos_pre ex_s0.
Proof. unfold pos_pre. chain_tac. Qed.
Lemma pos_chain_cyc : chain fair pos_X (99, 99) pos_cyc pos_X.
Proof. unfold pos_cyc. chain_tac. Qed.
Lemma pos_sched_in : In LSched pos_cyc.
Proof. left; reflexivity. Qed.
Lemma pos_tick_in : In (LEnv Tick) pos_cyc.
Proof. unfold pos_cyc. in_tac. Qed.
Definition pos_tr : nat -> st := ltr fair ex_s0 pos_pre pos_cyc.
Definition pos_lb : nat -> label := llb fair ex_s0 pos_pre pos_cyc.
Lemma fdv_ok : dv_ok fdv.
Proof. split; [exact fdv_wf|exact fdv_sumrule]. Qed.

(* the liveness theorem instantiated on this execution: all its hypotheses hold *)
Example pos_every_item : forall i p x, In p (prios ex_s0) -> In x (inq (pos_tr i) p) ->
  exists j, (i <= j)%nat /\ In (p, x) (delivered (pos_tr j)).
Proof.
  apply (prio2_every_item_delivered fdv ex_s0 pos_tr pos_lb fdv_ok ex_initL); [reflexivity|vm_compute; lia| | | | |].
  - exact (lasso_execution _ _ _ _ _ _ pos_chain_pre pos_chain_cyc pos_sched_in).
  - exact (lasso_F_sched _ _ _ _ pos_sched_in).
  - exact (lasso_F_take _ _ _ _ _ _ pos_chain_pre pos_chain_cyc pos_sched_in).
  - exact (lasso_F_rel _ _ _ _ _ _ pos_chain_pre pos_chain_cyc pos_sched_in).
  - exact (lasso_F_tick _ _ _ _ pos_tick_in).
Qed.
Example pos_items : inq (pos_tr 2) 2 = [7] /\ inq (pos_tr 2) 1 = [8] /\
  (exists j, In (2, 7) (delivered (pos_tr j))) /\ (exists j, In (1, 8) (delivered (pos_tr j))) /\
  delivered (pos_tr 10) = [(2, 7); (1, 8)].
Proof.
  split; [vm_compute; reflexivity|]. split; [vm_compute; reflexivity|]. split; [|split].
  - destruct (pos_every_item 2%nat 2 7) as (j & _ & Hd); [left; reflexivity|vm_compute; auto|]. exists j; exact Hd.
  - destruct (pos_every_item 2%nat 1 8) as (j & _ & Hd); [right; left; reflexivity|vm_compute; auto|]. exists j; exact Hd.
  - vm_compute. reflexivity.
Qed.
Print Assumptions pos_every_item.

(* ================= 11. about the formulation of F_sched ================= *)
(* An enabled scheduler stays enabled under every environment step (the environment only adds items, closes inputs, takes from the
   output, appends to the feedback channel; a clock tick changes the pc only when the scheduler is NOT enabled).  Hence F_sched
   ("enabled now => a scheduler step now or later") is ordinary weak fairness: the scheduler cannot be continuously enabled
   without moving. *)
Lemma sched_enabled_stable dv s o s' : (exists s1, sched_step dv s = Some s1) -> env_step s o = Some s' ->
  exists s2, sched_step dv s' = Some s2.
Proof.
  intros [s1 He] Hs.
  assert (Hq : ~ is_move s (LEnv o)).
  { intros [E|[E Ht]]; [discriminate|]. inversion E; subst o. unfold tick_moves in Ht. unfold sched_step in He.
    destruct (pcs s) eqn:Epc; try discriminate. unfold read_blocked in Ht.
    destruct (get (tactic s) p =? 0); [discriminate|]. destruct (inq s p); [|rewrite !andb_false_r in Ht; discriminate].
    destruct (closed s p); [rewrite !andb_false_r in Ht; discriminate|]. destruct (buffered s p); discriminate. }
  pose proof (quiet_step dv s (LEnv o) s' Hs Hq) as Hqr. pose proof (quiet_chan dv s (LEnv o) s' Hs Hq) as Hch.
  destruct Hqr as [Hst Epc Et Ea _ Edr Hinq [l Hf] Hcl _]. destruct Hst as (_ & _ & _ & Ecap & _ & Ebuf).
  unfold sched_step in *. rewrite Epc. destruct (pcs s) eqn:Epc0.
  - eexists; reflexivity.
  - destruct (fbq s) as [|q r] eqn:Ef; [discriminate|]. rewrite Hf. cbn [app]. eexists; reflexivity.
  - destruct rest; eexists; reflexivity.
  - rewrite Et. destruct (get (tactic s) p =? 0); [eexists; reflexivity|].
    destruct (Hinq p) as [l' El]. rewrite El. destruct (inq s p) as [|x qq] eqn:Ei; [|cbn [app]; eexists; reflexivity].
    cbn [app]. destruct l'; [|eexists; reflexivity].
    destruct (closed s p) eqn:Ec; [rewrite (Hcl p Ec); eexists; reflexivity|].
    rewrite Ebuf. destruct (buffered s p); [|discriminate]. destruct (closed s' p); eexists; reflexivity.
  - rewrite Ecap. destruct (N.ltb_spec (N.of_nat (length (outq s))) (outcap s)) as [Hlt|]; [|discriminate].
    assert (Hle : (length (outq s') <= length (outq s))%nat).
    { destruct Hch as [(_ & px & q & E1 & E2 & _)|[(p0 & h & _ & _ & _ & _ & E)|(E & _)]]; [rewrite E1, E2; cbn [length]; lia|rewrite E; lia|rewrite E; lia]. }
    destruct (N.ltb_spec (N.of_nat (length (outq s'))) (outcap s)); [eexists; reflexivity|lia].
  - eexists; reflexivity.
  - destruct (proc =? 0); [destruct (forallb (drained s') (prios s'))|]; eexists; reflexivity.
  - discriminate.
  - destruct k; [|destruct (fbq s')]; eexists; reflexivity.
  - rewrite Ea. destruct (sum (actual s) =? 0); [eexists; reflexivity|].
    destruct (fbq s) as [|q r] eqn:Ef; [discriminate|]. rewrite Hf. cbn [app]. eexists; reflexivity.
  - discriminate.
Qed.
