(* C06, v1: the recorded known finding D4 as a kernel-checked witness.  v1 New() has no check that every priority's share is
   non-zero.  Priorities {3,2,1}, RateDivider (exact rational rounding: no float needed at these values), HandlersQuantity 1, one
   item written to priority 1: nothing is in flight, the item waits in its (buffered, open) input, and the scheduler -- running by
   itself, the clock ticking whenever it sleeps -- goes round and round without ever delivering it.  "For ever" is shown for
   2000 consecutive scheduler steps by computation (a bounded witness; the replay on the real code is in the C06 check). *)
From Coq Require Import List NArith Bool.
From Cqos Require Import Base Divider DividerP Sched Prio1 Prio1P.
Import ListNotations.
Open Scope N_scope.

Definition d4_dv : nat -> Divider := fun _ => rate part_q.
Definition d4_s0 : st := init_state d4_dv [(3, 0%nat); (2, 1%nat); (1, 2%nat)] 1 (fun _ => true) 1.
Definition d4_s1 : st := Eval vm_compute in match env_step d4_s0 (Put 2%nat 7) with Some s => s | None => d4_s0 end.
Definition d4_after (n : nat) : option st := iter_auto true d4_dv n d4_s1.

Lemma d4_dv_wf : forall k ps n d, NoDup (keys d) -> NoDup (keys (d4_dv k ps n d)).
Proof. intros k ps n d H. unfold d4_dv. apply rate_keys. exact H. Qed.
Lemma d4_init : Init1 d4_s0.
Proof.
  apply (init_state_Init1 d4_dv d4_dv_wf). simpl.
  repeat constructor; simpl; intros H; repeat (destruct H as [H|H]; [discriminate H|]); exact H.
Qed.

Theorem C06_v1_zero_share_starves :
  strategic d4_s0 = [(3, 1); (2, 0); (1, 0)] /\        (* the single handler is allotted to priority 3; the shares of 2 and 1 are zero *)
  reachable true d4_dv d4_s0 d4_s1 /\ inq d4_s1 2%nat = [7] /\ sum (actual d4_s1) = 0 /\
  forall n, In n [10; 100; 500; 1000; 2000]%nat ->
    match d4_after n with
    | Some s => delivered s = [] /\ inq s 2%nat = [7] /\ sum (actual s) = 0 /\ stopped s = false
    | None => False
    end.
Proof.
  split; [vm_compute; reflexivity|]. split.
  - apply (r_env true d4_dv d4_s0 d4_s0 (Put 2%nat 7) d4_s1); [apply r_init|vm_compute; reflexivity].
  - split; [vm_compute; reflexivity|]. split; [vm_compute; reflexivity|].
    intros n Hn. simpl in Hn. destruct Hn as [<-|[<-|[<-|[<-|[<-|[]]]]]]; vm_compute; repeat split; reflexivity.
Qed.
Print Assumptions C06_v1_zero_share_starves.
