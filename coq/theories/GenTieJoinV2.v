(* Tie lemmas for GenJoinV2.v (v2/join: Opts.isValid, Opts.normalize, calcInterruptInterval, prepareItem, resetJoin) versus Join.v.  Imports only this one generated file. *)
From Coq Require Import List NArith ZArith Bool Lia.
From Cqos Require Import GoSem Join GenTieMiscBase.
From Cqos Require GenJoinV2.
Import ListNotations.

Module J2 := GenJoinV2.

(* ------------------------------------------------------------------ the result of calcInterruptInterval
   model: inl interval | inr code (1 inaccuracy zero, 2 inaccuracy too big, 3 timeout too small) -- the codes of the
   correspondence harness (errCodeJoin).  `*_enc` is what the Go function returns for a model result (the interval is 0
   next to an error); `*_dec` reads a Go result back (None for the errors that calcInterruptInterval never returns). *)

Definition join_v2_enc (r : Z + Z) : Z * option J2.err_JoinV2 :=
  match r with
  | inl i => (i, None)
  | inr c => (0%Z, Some (if (c =? 1)%Z then J2.ErrTimeoutInaccuracyZero
                         else if (c =? 2)%Z then J2.ErrTimeoutInaccuracyTooBig else J2.ErrTimeoutTooSmall))
  end.
Definition join_v2_dec (r : Z * option J2.err_JoinV2) : option (Z + Z) :=
  match r with
  | (i, None) => Some (inl i)
  | (_, Some J2.ErrTimeoutInaccuracyZero) => Some (inr 1%Z)
  | (_, Some J2.ErrTimeoutInaccuracyTooBig) => Some (inr 2%Z)
  | (_, Some J2.ErrTimeoutTooSmall) => Some (inr 3%Z)
  | (_, Some _) => None
  end.

Lemma join_v2_dec_enc v1 timeout inaccuracy :
  join_v2_dec (join_v2_enc (calc_interval v1 timeout inaccuracy)) = Some (calc_interval v1 timeout inaccuracy).
Proof.
  pose proof (calc_interval_codes v1 timeout inaccuracy) as H.
  destruct (calc_interval v1 timeout inaccuracy) as [i|c]; [reflexivity|].
  destruct H as [->|[->| ->]]; reflexivity.
Qed.

(* what the generated function computes, as one expression (every branch of the Go function is one `if`) *)
Lemma join_v2_calc_raw w timeout inaccuracy :
  J2.gen_calcInterruptInterval w timeout inaccuracy =
  (w, if (timeout <=? 0)%Z then (0%Z, None)
      else if (inaccuracy =? 0)%N then (0%Z, Some J2.ErrTimeoutInaccuracyZero)
      else if (100 / inaccuracy =? 0)%N then (0%Z, Some J2.ErrTimeoutInaccuracyTooBig)
      else let i := i_div timeout (i_of_u (100 / inaccuracy)%N) in
           if (i =? 0)%Z then (0%Z, Some J2.ErrTimeoutTooSmall) else (i, None)).
Proof.
  unfold J2.gen_calcInterruptInterval. cbn.
  destruct (timeout <=? 0)%Z; cbn; [reflexivity|].
  destruct (inaccuracy =? 0)%N; cbn; [reflexivity|].
  destruct (100 / inaccuracy =? 0)%N; cbn; [reflexivity|].
  destruct (i_div timeout (i_of_u (100 / inaccuracy)%N) =? 0)%Z; reflexivity.
Qed.

Lemma join_v2_calc w timeout inaccuracy :
  (timeout < i_half)%Z ->
  J2.gen_calcInterruptInterval w timeout inaccuracy = (w, join_v2_enc (calc_interval false timeout (Z.of_N inaccuracy))).
Proof.
  intros Ht. rewrite join_v2_calc_raw, calc_interval_of_N by assumption. f_equal.
  destruct (timeout <=? 0)%Z; [reflexivity|].
  destruct (inaccuracy =? 0)%N; [reflexivity|].
  destruct (100 / inaccuracy =? 0)%N; [reflexivity|]. cbv zeta.
  destruct (i_div timeout (i_of_u (100 / inaccuracy)%N) =? 0)%Z; reflexivity.
Qed.

Lemma join_v2_normalize w opts :
  J2.gen_normalize w opts =
  (w, J2.mk_Opts (J2.Opts_Input opts) (J2.Opts_JoinSize opts) (J2.Opts_NoCopy opts) (J2.Opts_Timeout opts)
        (Z.to_N (normalize_inaccuracy (Z.of_N (J2.Opts_TimeoutInaccuracy opts))))).
Proof.
  unfold J2.gen_normalize, normalize_inaccuracy. cbn. rewrite of_N_eqb0.
  destruct opts as [inp js nc tmo inacc]; cbn.
  destruct (N.eqb_spec inacc 0) as [->|Hnz]; cbn; [reflexivity|]. now rewrite N2Z.id.
Qed.

Lemma join_v2_isValid_raw w opts :
  J2.gen_isValid w opts =
  (w, if is_nil (J2.Opts_Input opts) then Some J2.ErrInputEmpty
      else if (J2.Opts_JoinSize opts =? 0)%N then Some J2.ErrJoinSizeZero else None).
Proof.
  unfold J2.gen_isValid. cbn.
  destruct (is_nil (J2.Opts_Input opts)); cbn; [reflexivity|].
  destruct (J2.Opts_JoinSize opts =? 0)%N; reflexivity.
Qed.

(* ==== main tie theorems ==== *)

(* calcInterruptInterval = Join.calc_interval false, for every int64 timeout and every uint inaccuracy *)
Theorem tie_join_v2_calcInterruptInterval w timeout inaccuracy :
  i_range timeout ->
  J2.gen_calcInterruptInterval w timeout inaccuracy = (w, join_v2_enc (calc_interval false timeout (Z.of_N inaccuracy))).
Proof. intros [_ Ht]. now apply join_v2_calc. Qed.

(* the same read from the Go side: the returned pair decodes to the model's answer *)
Corollary tie_join_v2_calcInterruptInterval_dec w timeout inaccuracy :
  i_range timeout ->
  fst (J2.gen_calcInterruptInterval w timeout inaccuracy) = w /\
  join_v2_dec (snd (J2.gen_calcInterruptInterval w timeout inaccuracy)) = Some (calc_interval false timeout (Z.of_N inaccuracy)).
Proof. intros Ht. rewrite tie_join_v2_calcInterruptInterval by assumption. cbn [fst snd]. now rewrite join_v2_dec_enc. Qed.

(* Opts.normalize: TimeoutInaccuracy through Join.normalize_inaccuracy, nothing else changes *)
Theorem tie_join_v2_normalize w opts :
  J2.gen_normalize w opts =
  (w, J2.mk_Opts (J2.Opts_Input opts) (J2.Opts_JoinSize opts) (J2.Opts_NoCopy opts) (J2.Opts_Timeout opts)
        (Z.to_N (normalize_inaccuracy (Z.of_N (J2.Opts_TimeoutInaccuracy opts))))).
Proof. apply join_v2_normalize. Qed.

(* New(): normalize, then calcInterruptInterval on the normalized options = what Run.run_join computes *)
Theorem tie_join_v2_calcInterruptInterval_normalized w opts :
  i_range (J2.Opts_Timeout opts) ->
  (let '(w1, o) := J2.gen_normalize w opts in
   J2.gen_calcInterruptInterval w1 (J2.Opts_Timeout o) (J2.Opts_TimeoutInaccuracy o)) =
  (w, join_v2_enc (calc_interval false (J2.Opts_Timeout opts)
                     (normalize_inaccuracy (Z.of_N (J2.Opts_TimeoutInaccuracy opts))))).
Proof.
  intros Ht. rewrite tie_join_v2_normalize. cbn [J2.Opts_Timeout J2.Opts_TimeoutInaccuracy].
  rewrite tie_join_v2_calcInterruptInterval by assumption. now rewrite normalize_inaccuracy_of_N.
Qed.

(* Opts.isValid: exactly the nil input and the zero JoinSize are rejected (the input is examined first) *)
Theorem tie_join_v2_isValid w opts :
  fst (J2.gen_isValid w opts) = w /\
  (snd (J2.gen_isValid w opts) = None <-> J2.Opts_Input opts <> None /\ J2.Opts_JoinSize opts <> 0%N) /\
  (snd (J2.gen_isValid w opts) = Some J2.ErrInputEmpty <-> J2.Opts_Input opts = None) /\
  (snd (J2.gen_isValid w opts) = Some J2.ErrJoinSizeZero <-> J2.Opts_Input opts <> None /\ J2.Opts_JoinSize opts = 0%N).
Proof.
  rewrite join_v2_isValid_raw. cbn [fst snd].
  destruct (J2.Opts_Input opts) as [u|]; cbn [is_nil];
    destruct (N.eqb_spec (J2.Opts_JoinSize opts) 0) as [Hz|Hnz];
    repeat split; try congruence; try discriminate; intros; tauto.
Qed.

(* accepted options satisfy the invariant `JoinSize >= 1` that Join.jcfg asks of jsize *)
Corollary tie_join_v2_isValid_jsize w opts :
  snd (J2.gen_isValid w opts) = None -> (1 <= N.to_nat (J2.Opts_JoinSize opts))%nat.
Proof. intros H. apply (proj1 (proj2 (tie_join_v2_isValid w opts))) in H. lia. Qed.

(* prepareItem: in both modes the slice written to the output has the contents of the argument.  In the no-copy mode
   the Go function returns the argument itself, in the copy mode slices.Clone of it; slices are values in the
   translation, so the two branches are the same list -- as in the model, where the emission of `Sending b ...` carries
   the accumulated elements b whatever `nocopy` is (GenTieMiscBase.model_emits_buffer); the identity of the buffer is the `own`
   flag / the AwaitRel protocol of the model and is not expressible on the generated side. *)

(* resetJoin: the accumulation becomes empty, nothing else changes (model: buf = [] after resume) *)

(* ---------------------------------------------------------------- examples: no theorem is vacuous --------------- *)

(* v2 join: 1 s with 25 % gives a ticker of 250 ms; 3 ns with 25 % is too small; 0 % and 101 % are rejected *)
Example ex_join_v2_calc :
  J2.gen_calcInterruptInterval 7 1000000000%Z 25%N = (7%nat, join_v2_enc (calc_interval false 1000000000%Z 25%Z)).
Proof. exact (tie_join_v2_calcInterruptInterval 7 1000000000%Z 25%N i_range_ex1). Qed.
Example ex_join_v2_calc_values :
  J2.gen_calcInterruptInterval 7 1000000000%Z 25%N = (7%nat, (250000000%Z, None)) /\
  J2.gen_calcInterruptInterval 7 3%Z 25%N = (7%nat, (0%Z, Some J2.ErrTimeoutTooSmall)) /\
  J2.gen_calcInterruptInterval 7 1000000000%Z 0%N = (7%nat, (0%Z, Some J2.ErrTimeoutInaccuracyZero)) /\
  J2.gen_calcInterruptInterval 7 1000000000%Z 101%N = (7%nat, (0%Z, Some J2.ErrTimeoutInaccuracyTooBig)) /\
  J2.gen_calcInterruptInterval 7 (-5)%Z 0%N = (7%nat, (0%Z, None)) /\
  calc_interval false 1000000000%Z 25%Z = inl 250000000%Z /\ calc_interval false 3 25 = inr 3%Z /\
  calc_interval false 1000000000 0 = inr 1%Z /\ calc_interval false 1000000000 101 = inr 2%Z /\
  calc_interval false (-5) 0 = inl 0%Z.
Proof. vm_compute. repeat split. Qed.
Example ex_join_v2_calc_dec :
  join_v2_dec (snd (J2.gen_calcInterruptInterval 7 3%Z 25%N)) = Some (calc_interval false 3%Z 25%Z).
Proof. exact (proj2 (tie_join_v2_calcInterruptInterval_dec 7 3%Z 25%N i_range_ex2)). Qed.
Example ex_join_v2_normalize :
  J2.gen_normalize 7 (J2.mk_Opts (Some tt) 4 true 1000000000 0) = (7%nat, J2.mk_Opts (Some tt) 4 true 1000000000 25) /\
  J2.gen_normalize 7 (J2.mk_Opts (Some tt) 4 true 1000000000 10) = (7%nat, J2.mk_Opts (Some tt) 4 true 1000000000 10).
Proof. rewrite !tie_join_v2_normalize. split; reflexivity. Qed.
Example ex_join_v2_normalized :
  (let '(w1, o) := J2.gen_normalize 7 (J2.mk_Opts (Some tt) 4 true 1000000000 0) in
   J2.gen_calcInterruptInterval w1 (J2.Opts_Timeout o) (J2.Opts_TimeoutInaccuracy o)) = (7%nat, (250000000%Z, None)).
Proof. rewrite tie_join_v2_calcInterruptInterval_normalized by exact i_range_ex1. reflexivity. Qed.
Example ex_join_v2_isValid :
  snd (J2.gen_isValid 7 (J2.mk_Opts (Some tt) 4 false 0 0)) = None /\
  snd (J2.gen_isValid 7 (J2.mk_Opts None 0 false 0 0)) = Some J2.ErrInputEmpty /\
  snd (J2.gen_isValid 7 (J2.mk_Opts (Some tt) 0 false 0 0)) = Some J2.ErrJoinSizeZero.
Proof.
  split; [|split].
  - apply (tie_join_v2_isValid 7 (J2.mk_Opts (Some tt) 4 false 0 0)). cbn. split; discriminate.
  - now apply (tie_join_v2_isValid 7 (J2.mk_Opts None 0 false 0 0)).
  - apply (tie_join_v2_isValid 7 (J2.mk_Opts (Some tt) 0 false 0 0)). cbn. split; [discriminate|reflexivity].
Qed.

(* ---------------------------------------------------------------- assumptions ------------------------------------ *)
Print Assumptions tie_join_v2_calcInterruptInterval.
Print Assumptions tie_join_v2_calcInterruptInterval_dec.
Print Assumptions tie_join_v2_normalize.
Print Assumptions tie_join_v2_calcInterruptInterval_normalized.
Print Assumptions tie_join_v2_isValid.
Print Assumptions tie_join_v2_isValid_jsize.
